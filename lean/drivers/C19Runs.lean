/-
  Driver for the stream `C19.runs`: replays a history of runs (with their configurations) and manual deletions on the
  run-level model `Model/RunSeq.lean` and prints the observable state after every operation:
    {"current": marker|null, "arch": [[slot, marker]…], "filled": [markers of the existing default-location directories
     holding files], "other": [[k, marker, filled]…]}
  A run op may carry "tree": [[relative path, "file"|"dir"|"link"]…] — everything the run leaves in its directory (the backends'
  files, the attachment under the name the test chose, what hooks / tools / a killed save left, any depth); the answer then has
  "tree": [[marker, [relative paths of the leaves, sorted]]…] for the existing default-location directories (`Model/RunTree.lean`).
  Run: `lake env lean --run drivers/C19Runs.lean`
-/
import LccModel.Proto
import LccModel.Model.RunSeq
import LccModel.Model.RunContent
import LccModel.Model.RunTree
open Lean LccModel LccModel.Proto LccModel.ReportDir LccModel.RunSeq

def parseTarget (j : Json) : Except String (Option Target) :=
  match j with
  | .null => pure none
  | .str "" => pure (some .empty)
  | .str "default" => pure (some .defaultLoc)
  | j => do
    let k ← getNat j "other"
    pure (some (.other k))

def fieldOr (j : Json) (k : String) : Json :=
  match j.getObjVal? k with
  | .ok v => v
  | .error _ => .null

def parseImpl (j : Json) : Except String ProjImpl :=
  match j with
  | .str "default" => pure .default
  | j => do pure (.rotation (← getOptNat j "limit"))

def parseFate (s : String) : Except String Fate :=
  match s with
  | "before" => pure .failsBefore
  | "after" => pure .abortsAfter
  | "completes" => pure .completes
  | _ => throw s!"unknown fate {s}"

def parseKind (s : String) : Except String RunSeq.FileKind :=
  match s with
  | "json" => pure .json | "xml" => pure .xml | "junit" => pure .junit | "html" => pure .html
  | "custom" => pure .custom | "attachments" => pure .attachments
  | _ => throw s!"unknown file kind {s}"

def kindName : RunSeq.FileKind → String
  | .json => "json" | .xml => "xml" | .junit => "junit" | .html => "html" | .custom => "custom" | .attachments => "attachments"

/-- a run op carries what its backends / tests leave in the directory: "files": [kind…] (absent: report.js iff "writes") -/
def parseOp (j : Json) : Except String RunSeq.OpC := do
  let k ← getStr j "op"
  match k with
  | "run" =>
    let writes ← getBool j "writes"
    let files ← match j.getObjVal? "files" with
      | .ok (.arr a) => a.toList.mapM (fun x => do parseKind (← x.getStr?))
      | _ => pure (if writes then [RunSeq.FileKind.json] else [])
    pure (.run { cli := ← parseTarget (fieldOr j "cli"), env := ← parseTarget (fieldOr j "env"),
                 impl := ← parseImpl (fieldOr j "impl"), writes := writes, fate := ← parseFate (← getStr j "fate") } files)
  | "delete" => pure (.other (.delete (← getNat j "n")))
  | "delcur" => pure (.other .deleteCurrent)
  | "delother" => pure (.other (.deleteOther (← getNat j "k")))
  | _ => throw s!"unknown op {k}"

/-- paths `other k` the stream uses -/
def otherSlots : List Nat := [0, 1, 2]

def obs (s : RunSeq.St) : Json :=
  let ids := (match s.fs.current with
    | some m => [m]
    | none => []) ++ (listing s.fs).map (·.2)
  Json.mkObj [
    ("current", optNat s.fs.current),
    ("arch", Json.arr ((listing s.fs).map (fun (n, m) => Json.arr #[Json.num n, Json.num m])).toArray),
    ("filled", Json.arr (((List.range s.fs.next).filter (fun m => ids.contains m && s.filled m)).map (fun (m : Nat) => Json.num m)).toArray),
    ("other", Json.arr ((otherSlots.filterMap (fun k => (s.other k).map (fun (m : Nat) =>
        Json.arr #[Json.num k, Json.num m, Json.bool (s.ofilled m)]))).toArray))]

/-- Re-tabulate the function-valued components after every step (extensionally the identity on states satisfying the
    invariants: slots ≥ hi free, markers < next); see `drivers/C19.lean: normalize` for why. -/
def normalize (s : RunSeq.St) : RunSeq.St :=
  let tbl := ((List.range s.fs.hi).map s.fs.arch).toArray
  let ftbl := ((List.range s.fs.next).map s.filled).toArray
  let otbl := ((List.range s.onext).map s.ofilled).toArray
  let oth := ((List.range 3).map s.other).toArray
  { s with fs := { s.fs with arch := fun n => (tbl[n]?).join },
           filled := fun m => (ftbl[m]?).getD false, ofilled := fun m => (otbl[m]?).getD false,
           other := fun k => (oth[k]?).join }

def normalizeC (s : RunSeq.StC) : RunSeq.StC :=
  let b := normalize s.base
  let ctbl := ((List.range s.base.fs.next).map s.content).toArray
  { base := b, content := fun m => (ctbl[m]?).getD [] }

/-- the observable state plus, for every existing default-location directory, the kinds of files it holds -/
def obsC (s : RunSeq.StC) : Json :=
  let ids := (match s.base.fs.current with
    | some m => [m]
    | none => []) ++ (listing s.base.fs).map (·.2)
  (obs s.base).setObjVal! "content"
    (Json.arr (((List.range s.base.fs.next).filter (fun m => ids.contains m)).map (fun (m : Nat) =>
      Json.arr #[Json.num m, Json.arr ((s.content m).map (fun k => Json.str (kindName k))).toArray])).toArray)

/-- insert the leaf `node` at the path `comps` (intermediate directories are created) -/
def insertPath : List (List Char) → RunSeq.Node → RunSeq.Tree → RunSeq.Tree
  | [], _, t => t
  | [n], node, t => if t.any (fun e => e.1 == n) then t else t ++ [(n, node)]
  | n :: rest, node, t =>
    match t.find? (fun e => e.1 == n) with
    | some (_, .dir es) => t.map (fun e => if e.1 == n then (n, RunSeq.Node.dir (insertPath rest node es)) else e)
    | some _ => t
    | none => t ++ [(n, RunSeq.Node.dir (insertPath rest node []))]

partial def leafPaths (pre : String) : RunSeq.Tree → List String
  | [] => []
  | (n, .dir es) :: rest =>
    (if es.isEmpty then [pre ++ String.ofList n] else leafPaths (pre ++ String.ofList n ++ "/") es) ++ leafPaths pre rest
  | (n, _) :: rest => (pre ++ String.ofList n) :: leafPaths pre rest

def parseTree (j : Json) : Except String RunSeq.Tree := do
  match j.getObjVal? "tree" with
  | .ok (.arr a) =>
    a.toList.foldlM (fun (t : RunSeq.Tree) x => do
      let pair ← x.getArr?
      let path ← (pair[0]!).getStr?
      let kind ← (pair[1]!).getStr?
      let node : RunSeq.Node := match kind with
        | "dir" => .dir []
        | "link" => .link []
        | _ => .file []
      pure (insertPath ((path.splitOn "/").map String.toList) node t)) []
  | _ => pure []

def normalizeT (s : RunSeq.StT) : RunSeq.StT :=
  let b := normalize s.base
  let ttbl := ((List.range s.base.fs.next).map s.tree).toArray
  { base := b, tree := fun m => (ttbl[m]?).getD [] }

def obsT (s : RunSeq.StT) : Json :=
  let ids := (match s.base.fs.current with
    | some m => [m]
    | none => []) ++ (listing s.base.fs).map (·.2)
  Json.arr (((List.range s.base.fs.next).filter (fun m => ids.contains m)).map (fun (m : Nat) =>
    Json.arr #[Json.num m, Json.arr (((leafPaths "" (s.tree m)).toArray.qsort (· < ·)).map Json.str)])).toArray

def toOpT (j : Json) (op : RunSeq.OpC) : Except String RunSeq.OpT := do
  match op with
  | .run c _ => pure (.run c (← parseTree j))
  | .other o => pure (.other o)

def handle (j : Json) : Except String Json := do
  let opsJ := (← getArr j "ops").toList
  let ops ← opsJ.mapM parseOp
  let rec go (s : RunSeq.StC) (ops : List RunSeq.OpC) (acc : Array Json) : Array Json :=
    match ops with
    | [] => acc
    | op :: rest =>
      match RunSeq.stepC s op with
      | none => acc.push (Json.str "stuck")
      | some s' => let s' := normalizeC s'; go s' rest (acc.push (obsC s'))
  let statesC := go RunSeq.StC.init ops #[]
  if opsJ.any (fun o => (o.getObjVal? "tree").isOk) then
    -- tree level: the same history on `StT`; the answer is the kind-level one plus "tree" (and whether both levels agree on the base)
    let opsT ← (opsJ.zip ops).mapM (fun (oj, op) => toOpT oj op)
    let rec goT (s : RunSeq.StT) (ops : List RunSeq.OpT) (acc : Array Json) : Array Json :=
      match ops with
      | [] => acc
      | op :: rest =>
        match RunSeq.stepT s op with
        | none => acc.push (Json.str "stuck")
        | some s' => let s' := normalizeT s'; goT s' rest (acc.push ((obs s'.base).setObjVal! "tree" (obsT s')))
    let statesT := goT RunSeq.StT.init opsT #[]
    let merged := (statesC.zip statesT).map (fun (c, t) =>
      match c, t with
      | .str _, _ => c
      | _, .str _ => t
      | c, t =>
        let same := ["current", "arch", "filled", "other"].all (fun k => (c.getObjVal? k).toOption == (t.getObjVal? k).toOption)
        if same then c.setObjVal! "tree" ((t.getObjVal? "tree").toOption.getD .null) else Json.str "stuck: tree level and kind level disagree")
    return Json.mkObj [("states", Json.arr merged)]
  pure (Json.mkObj [("states", Json.arr statesC)])

def main : IO Unit := loop (wrap handle)

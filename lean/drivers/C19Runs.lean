/-
  Driver for the stream `C19.runs`: replays a history of runs (with their configurations) and manual deletions on the
  run-level model `Model/RunSeq.lean` and prints the observable state after every operation:
    {"current": marker|null, "arch": [[slot, marker]…], "filled": [markers of the existing default-location directories
     holding files], "other": [[k, marker, filled]…]}
  Run: `lake env lean --run drivers/C19Runs.lean`
-/
import LccModel.Proto
import LccModel.Model.RunSeq
import LccModel.Model.RunContent
open Lean LccModel LccModel.Proto LccModel.ReportDir LccModel.RunSeq

def parseTarget (j : Json) : Except String (Option Target) :=
  match j with
  | .null => pure none
  | .str "" => pure (some .empty)
  | .str "default" => pure (some .defaultLoc)
  | j => do
    let k ← getNat j "other"
    pure (some (.other k))

def fieldOr (j : Json) (k : String) : Json :=
  match j.getObjVal? k with
  | .ok v => v
  | .error _ => .null

def parseImpl (j : Json) : Except String ProjImpl :=
  match j with
  | .str "default" => pure .default
  | j => do pure (.rotation (← getOptNat j "limit"))

def parseFate (s : String) : Except String Fate :=
  match s with
  | "before" => pure .failsBefore
  | "after" => pure .abortsAfter
  | "completes" => pure .completes
  | _ => throw s!"unknown fate {s}"

def parseKind (s : String) : Except String RunSeq.FileKind :=
  match s with
  | "json" => pure .json | "xml" => pure .xml | "junit" => pure .junit | "html" => pure .html
  | "custom" => pure .custom | "attachments" => pure .attachments
  | _ => throw s!"unknown file kind {s}"

def kindName : RunSeq.FileKind → String
  | .json => "json" | .xml => "xml" | .junit => "junit" | .html => "html" | .custom => "custom" | .attachments => "attachments"

/-- a run op carries what its backends / tests leave in the directory: "files": [kind…] (absent: report.js iff "writes") -/
def parseOp (j : Json) : Except String RunSeq.OpC := do
  let k ← getStr j "op"
  match k with
  | "run" =>
    let writes ← getBool j "writes"
    let files ← match j.getObjVal? "files" with
      | .ok (.arr a) => a.toList.mapM (fun x => do parseKind (← x.getStr?))
      | _ => pure (if writes then [RunSeq.FileKind.json] else [])
    pure (.run { cli := ← parseTarget (fieldOr j "cli"), env := ← parseTarget (fieldOr j "env"),
                 impl := ← parseImpl (fieldOr j "impl"), writes := writes, fate := ← parseFate (← getStr j "fate") } files)
  | "delete" => pure (.other (.delete (← getNat j "n")))
  | "delcur" => pure (.other .deleteCurrent)
  | "delother" => pure (.other (.deleteOther (← getNat j "k")))
  | _ => throw s!"unknown op {k}"

/-- paths `other k` the stream uses -/
def otherSlots : List Nat := [0, 1, 2]

def obs (s : RunSeq.St) : Json :=
  let ids := (match s.fs.current with
    | some m => [m]
    | none => []) ++ (listing s.fs).map (·.2)
  Json.mkObj [
    ("current", optNat s.fs.current),
    ("arch", Json.arr ((listing s.fs).map (fun (n, m) => Json.arr #[Json.num n, Json.num m])).toArray),
    ("filled", Json.arr (((List.range s.fs.next).filter (fun m => ids.contains m && s.filled m)).map (fun (m : Nat) => Json.num m)).toArray),
    ("other", Json.arr ((otherSlots.filterMap (fun k => (s.other k).map (fun (m : Nat) =>
        Json.arr #[Json.num k, Json.num m, Json.bool (s.ofilled m)]))).toArray))]

/-- Re-tabulate the function-valued components after every step (extensionally the identity on states satisfying the
    invariants: slots ≥ hi free, markers < next); see `drivers/C19.lean: normalize` for why. -/
def normalize (s : RunSeq.St) : RunSeq.St :=
  let tbl := ((List.range s.fs.hi).map s.fs.arch).toArray
  let ftbl := ((List.range s.fs.next).map s.filled).toArray
  let otbl := ((List.range s.onext).map s.ofilled).toArray
  let oth := ((List.range 3).map s.other).toArray
  { s with fs := { s.fs with arch := fun n => (tbl[n]?).join },
           filled := fun m => (ftbl[m]?).getD false, ofilled := fun m => (otbl[m]?).getD false,
           other := fun k => (oth[k]?).join }

def normalizeC (s : RunSeq.StC) : RunSeq.StC :=
  let b := normalize s.base
  let ctbl := ((List.range s.base.fs.next).map s.content).toArray
  { base := b, content := fun m => (ctbl[m]?).getD [] }

/-- the observable state plus, for every existing default-location directory, the kinds of files it holds -/
def obsC (s : RunSeq.StC) : Json :=
  let ids := (match s.base.fs.current with
    | some m => [m]
    | none => []) ++ (listing s.base.fs).map (·.2)
  (obs s.base).setObjVal! "content"
    (Json.arr (((List.range s.base.fs.next).filter (fun m => ids.contains m)).map (fun (m : Nat) =>
      Json.arr #[Json.num m, Json.arr ((s.content m).map (fun k => Json.str (kindName k))).toArray])).toArray)

def handle (j : Json) : Except String Json := do
  let ops ← (← getArr j "ops").toList.mapM parseOp
  let rec go (s : RunSeq.StC) (ops : List RunSeq.OpC) (acc : Array Json) : Array Json :=
    match ops with
    | [] => acc
    | op :: rest =>
      match RunSeq.stepC s op with
      | none => acc.push (Json.str "stuck")
      | some s' => let s' := normalizeC s'; go s' rest (acc.push (obsC s'))
  pure (Json.mkObj [("states", Json.arr (go RunSeq.StC.init ops #[]))])

def main : IO Unit := loop (wrap handle)

/-
  Driver for the `C05.sched` check.  Request:
    {"realN": [events of the N-thread run, as fired: real thread ids, real times (ms), raw attachment names],
     "real1": [events of the 1-thread run, likewise],
     "a": [realN re-labelled by the harness], "b": [real1 re-labelled by the harness onto a's labels],
     "tabN": [[loc, old tid, new tid]], "tab1": [[loc, old tid, new tid]]}
  Answer: the verified boolean `nThreadsCheckB realN real1 a b tabN tab1` (hypotheses of `C05.n_threads_equals_one_thread`,
  soundness `C05.n_threads_check_sound`) with its components — among them `scheduleCheckB a b` (hypotheses of
  `C05.report_independent_of_schedule`) with its own four components —, and, as a cross-check of the theorems' conclusion,
  whether the erased rank-sorted views of the two REAL folded reports are equal.
  Run: `lake env lean --run drivers/C05.lean`
-/
import LccModel.Proto
import LccModel.ProtoReport
import LccModel.Lemmas.WriterTrace
import LccModel.Lemmas.WriterNThreads
open Lean LccModel LccModel.Proto LccModel.ProtoReport LccModel.Report LccModel.Writer

def decEvents (j : Json) (k : String) : Except String (List Event) := do
  let a ← getArr j k
  a.toList.mapM decEvent

def decTable (j : Json) (k : String) : Except String (List ((Loc × Nat) × Nat)) := do
  let a ← getArr j k
  a.toList.mapM fun row => do
    let r ← row.getArr?
    match r.toList with
    | [l, t, n] => pure ((← decLoc l, ← decNat t), ← decNat n)
    | _ => throw "table row: [loc, old tid, new tid] expected"

def firstBad (es es' : List Event) : Json :=
  let bad := es.flatMap fun a => es.filterMap fun b =>
    if (a == b) || decide (Indep a b) || !(decide (Before es a b)) || decide (Before es' a b) then none
    else some (Json.arr #[encEvent a, encEvent b])
  match bad with
  | [] => Json.null
  | x :: _ => x

/-- first position at which the two streams differ by more than labels -/
def firstLabelDiff (es es' : List Event) : Json :=
  let rec go (i : Nat) : List Event → List Event → Json
    | [], [] => Json.null
    | x :: xs, y :: ys =>
      if labEvent normLab x == labEvent normLab y then go (i + 1) xs ys
      else Json.mkObj [("at", Json.num i), ("left", encEvent x), ("right", encEvent y)]
    | _, _ => Json.mkObj [("at", Json.num i), ("lengths", Json.arr #[Json.num es.length, Json.num es'.length])]
  go 0 es es'

def handleReq (j : Json) : Except String Json := do
  let a ← decEvents j "a"
  let b ← decEvents j "b"
  let esN ← decEvents j "realN"
  let es1 ← decEvents j "real1"
  let tabN ← decTable j "tabN"
  let tab1 ← decTable j "tab1"
  let viewsEq := match fold a, fold b with
    | .ok r₁, .ok r₂ => encList encSuite (view r₁) == encList encSuite (view r₂)
    | _, _ => false
  let realViewsEq := match fold esN, fold es1 with
    | .ok r₁, .ok r₂ => encList encSuite (eraseTimesSuites (view r₁)) == encList encSuite (eraseTimesSuites (view r₂))
    | _, _ => false
  let cross := [("disciplined_b", Json.bool (drun initState b).toOption.isSome), ("views_equal", Json.bool viewsEq),
    ("real_views_equal", Json.bool realViewsEq)]
  -- THE verified boolean, evaluated once; its components are recomputed only to explain a `false`
  if nThreadsCheckB esN es1 a b tabN tab1 then
    pure (Json.mkObj ([("n_threads_check", Json.bool true), ("check", Json.bool true)] ++ cross))
  else
    let order := sameDependentOrderB a b
    let relN := esN.map (relabelTid (tableRho tabN))
    let rel1 := es1.map (relabelTid (tableRho tab1))
    let labelsN := decide (SameUpToLabels a relN)
    let labels1 := decide (SameUpToLabels b rel1)
    pure (Json.mkObj ([
      ("n_threads_check", Json.bool false),
      ("disciplined_realN", Json.bool (disciplinedTB esN)), ("disciplined_real1", Json.bool (disciplinedTB es1)),
      ("inj_N", Json.bool (tidInjOnB (tableRho tabN) esN)), ("inj_1", Json.bool (tidInjOnB (tableRho tab1) es1)),
      ("tid_ok_N", Json.bool (tidOkB (tableRho tabN) esN)), ("tid_ok_1", Json.bool (tidOkB (tableRho tab1) es1)),
      ("labels_N", Json.bool labelsN), ("labels_1", Json.bool labels1),
      ("labels_N_diff", if labelsN then Json.null else firstLabelDiff a relN),
      ("labels_1_diff", if labels1 then Json.null else firstLabelDiff b rel1),
      ("check", Json.bool (scheduleCheckB a b)),
      ("nodup", Json.bool (decide a.Nodup)), ("perm", Json.bool (a.isPerm b)), ("order", Json.bool order),
      ("bad_pair", if order then Json.null else firstBad a b),
      ("disciplined", Json.bool (drun initState a).toOption.isSome)] ++ cross))

def main : IO Unit := loop (wrap handleReq)

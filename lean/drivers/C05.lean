/-
  Driver for the `C05.sched` check: {"a": [events of the N-thread run], "b": [events of the 1-thread run, thread ids and
  times re-labelled onto a's]} → the verified boolean `scheduleCheckB a b` (hypotheses of
  `C05.report_independent_of_schedule`) with its four components, and whether the two folded reports have equal
  rank-sorted views.  Run: `lake env lean --run drivers/C05.lean`
-/
import LccModel.Proto
import LccModel.ProtoReport
import LccModel.Lemmas.WriterTrace
open Lean LccModel LccModel.Proto LccModel.ProtoReport LccModel.Report LccModel.Writer

def decEvents (j : Json) (k : String) : Except String (List Event) := do
  let a ← getArr j k
  a.toList.mapM decEvent

def firstBad (es es' : List Event) : Json :=
  let bad := es.flatMap fun a => es.filterMap fun b =>
    if (a == b) || decide (Indep a b) || !(decide (Before es a b)) || decide (Before es' a b) then none
    else some (Json.arr #[encEvent a, encEvent b])
  match bad with
  | [] => Json.null
  | x :: _ => x

def handleReq (j : Json) : Except String Json := do
  let a ← decEvents j "a"
  let b ← decEvents j "b"
  let order := sameDependentOrderB a b
  let viewsEq := match fold a, fold b with
    | .ok r₁, .ok r₂ => encList encSuite (view r₁) == encList encSuite (view r₂)
    | _, _ => false
  pure (Json.mkObj [
    ("check", Json.bool (scheduleCheckB a b)),
    ("nodup", Json.bool (decide a.Nodup)), ("perm", Json.bool (a.isPerm b)), ("order", Json.bool order),
    ("bad_pair", if order then Json.null else firstBad a b),
    ("disciplined", Json.bool (drun initState a).toOption.isSome),
    ("disciplined_b", Json.bool (drun initState b).toOption.isSome),
    ("views_equal", Json.bool viewsEq)])

def main : IO Unit := loop (wrap handleReq)

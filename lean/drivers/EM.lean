/-
  Driver for the `C11.em` correspondence stream: runs the event-manager model M (`Model/EventManager.lean`) on
  {"cap": maxsize of the real queue (0 = unbounded), "n": number of events fired, "fails": [event indices whose
  handler raises], "sched": [k0, k1, …] = how many handler iterations are scheduled after the i-th fire
  (missing = 0), optional "join_limit": k = `handle_events` waits for at most k further handler iterations
  (`EM.closeWithin`; absent / null = the unlimited `thread.join()`)} and then closes.  Answer: {"blocked": "fire"|"close"|null, "handled": […], "pending": idx|null}.
  Run: `lake env lean --run drivers/EM.lean`
-/
import LccModel.Proto
import LccModel.Model.EventManager
open Lean LccModel LccModel.Proto LccModel.EM

def natArr (j : Json) (k : String) : Except String (List Nat) := do
  let a ← getArr j k
  a.toList.mapM (fun v => v.getNat?)

def handleReq (j : Json) : Except String Json := do
  let capN ← getNat j "cap"
  let n ← getNat j "n"
  let failsL ← natArr j "fails"
  let sched ← natArr j "sched"
  let fails : Nat → Bool := fun e => failsL.contains e
  let cap : Option Nat := if capN = 0 then none else some capN
  let ops : List Op := (List.range n).flatMap (fun i => Op.fire i :: List.replicate (sched.getD i 0) Op.handle)
  match run fails (init cap) ops with
  | none => pure (Json.mkObj [("blocked", Json.str "fire"), ("handled", Json.arr #[]), ("pending", Json.null)])
  | some s =>
    match closeWithin fails (← getOptNat j "join_limit") s with
    | none => pure (Json.mkObj [("blocked", Json.str "close"), ("handled", Json.arr (s.handled.map (fun (x : Nat) => Json.num (x : Nat))).toArray),
                               ("pending", optNat s.pending)])
    | some s' => pure (Json.mkObj [("blocked", Json.null), ("handled", Json.arr (s'.handled.map (fun (x : Nat) => Json.num (x : Nat))).toArray),
                                  ("pending", optNat s'.pending), ("thread_ended", Json.bool (threadEnded s'))])

def main : IO Unit := loop (wrap handleReq)

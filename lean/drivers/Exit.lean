/-
  Driver of the `C02.cli` stream (harness/props/_cli.py).
    {"report": R (wire form of gen.reports.canon_report), "flag": bool,
     "cli_threads": int|null, "env_threads": null | "invalid" | int, "threaded": bool}
      → {"successful": bool, "exit_code": n, "exit_code_without_flag": n,
         "tests": [status|null], "phases": [status|null],         -- rawTests / rawPhases, tree order
         "threads": {"ok": n} | {"err": "invalidEnv"|"notThreaded"}}
  Run: `lake env lean --run drivers/Exit.lean`
-/
import LccModel.Proto
import LccModel.ProtoReport
import LccModel.Model.ExitCode
open Lean LccModel LccModel.Proto LccModel.ProtoReport LccModel.Report LccModel.ExitCode

def decInt (j : Json) : Except String Int := j.getInt?

def handle (j : Json) : Except String Json := do
  let r ← decReport (← field j "report")
  let flag ← getBool j "flag"
  let cli ← decOpt decInt (fieldOpt j "cli_threads")
  let envJ := fieldOpt j "env_threads"
  let env : Option (Option Int) ← match envJ with
    | .null => pure none
    | .str _ => pure (some none)
    | v => do let i ← decInt v; pure (some (some i))
  let threaded ← getBool j "threaded"
  let th := match resolveThreads cli env threaded with
    | .ok n => Json.mkObj [("ok", Json.num n)]
    | .error .invalidEnv => Json.mkObj [("err", "invalidEnv")]
    | .error .notThreaded => Json.mkObj [("err", "notThreaded")]
  pure (Json.mkObj [
    ("successful", Json.bool (reportSuccessful r)),
    ("exit_code", Json.num (exitCode flag r)),
    ("exit_code_without_flag", Json.num (exitCode false r)),
    ("tests", encList (fun t => encStatus t.result.status) (rawTests r)),
    ("phases", encList (fun p => encStatus p.status) (rawPhases r)),
    ("threads", th)])

def main : IO Unit := loop (wrap handle)

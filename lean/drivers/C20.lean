/-
  Driver for the C20 streams.
    {"op":"views","report":R} → {"junit": {...}|{"err":"TypeError"}, "stats": {...}, "vars": {...}, "summary": {...}, "inv": bool}
    {"op":"diff","r1":R,"r2":R} → {"added":[…],"removed":[…],"changed":[…],"unchanged":n,"empty":bool}
  Run: `lake env lean --run drivers/C20.lean`
-/
import LccModel.Proto
import LccModel.ProtoReport
import LccModel.Model.Views
import LccModel.Lemmas.Writer
open Lean LccModel LccModel.Proto LccModel.ProtoReport LccModel.Report LccModel.Writer LccModel.Views

def kindName : JKind → String
  | .failure => "failure" | .error => "error" | .skipped => "skipped"

def encCase (c : JCase) : Json :=
  Json.mkObj [("name", encStr c.name),
              ("children", encList (fun ch => Json.arr #[Json.str (kindName ch.kind), encOptStr ch.message]) c.children)]

def encJSuite (s : JSuite) : Json :=
  Json.mkObj [("name", encStr s.path), ("tests", Json.num s.tests), ("failures", Json.num s.failures),
              ("skipped", Json.num s.skipped), ("cases", encList encCase s.cases)]

def encDTest (t : DTest) : Json := Json.arr #[encStr t.path, encStatus t.status]

def handle (j : Json) : Except String Json := do
  let op ← getStr j "op"
  match op with
  | "views" =>
    let r ← decReport (← field j "report")
    let ju := match junit r with
      | .ok jr => Json.mkObj [("tests", Json.num jr.tests), ("failures", Json.num jr.failures), ("suites", encList encJSuite jr.suites)]
      | .error _ => Json.mkObj [("err", "TypeError")]
    let s := statsOf r
    let sm := consoleSummary r
    pure (Json.mkObj [
      ("junit", ju),
      ("stats", Json.mkObj [("total", Json.num s.total), ("passed", Json.num s.passed), ("failed", Json.num s.failed),
                            ("skipped", Json.num s.skipped), ("disabled", Json.num s.disabled), ("enabled", Json.num s.enabled)]),
      ("vars", match messageVars r with
        | .ok vs => Json.mkObj (vs.map (fun (k, v) => (k, Json.num v)))
        | .error _ => Json.mkObj [("err", "TypeError")]),
      ("summary", Json.mkObj [("tests", Json.num sm.tests), ("successes", Json.num sm.successes), ("failures", Json.num sm.failures),
                              ("skipped", encOptNat sm.skipped), ("disabled", encOptNat sm.disabled)]),
      ("inv", Json.bool (reportInv r))])
  | "diff" =>
    let r1 ← decReport (← field j "r1")
    let r2 ← decReport (← field j "r2")
    let d := computeDiff (diffTests r1) (diffTests r2)
    pure (Json.mkObj [("added", encList encDTest d.added), ("removed", encList encDTest d.removed),
                      ("changed", encList (fun (a, b) => Json.arr #[encStr a.path, encStatus a.status, encStatus b.status]) d.changed),
                      ("unchanged", Json.num d.unchanged.length), ("empty", Json.bool d.isEmpty)])
  | _ => throw s!"unknown op {op}"

def main : IO Unit := loop (wrap handle)

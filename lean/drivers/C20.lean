/-
  Driver for the C20 streams.
    {"op":"views","report":R} → {"junit": {...}|{"err":"TypeError"}, "stats": {...}, "vars": {...}, "summary": {...}, "inv": bool}
    {"op":"diff","r1":R,"r2":R} → {"added":[…],"removed":[…],"changed":[…],"unchanged":n,"empty":bool}
    {"op":"short","report":R,"filter":null|{"tests":[path…],"setups":[suite path…],"teardowns":[suite path…]}}
        (the filter is given by its DECISIONS: the test paths / suite setups / suite teardowns it accepts)
      → {"short": {"lines":[[name,status]…],"summary":null|{…},"duration_known":bool},
         "from_suites": {"stats":{"total":…,…},"duration_known":bool}}   -- ReportStats.from_suites(report.get_suites(), report.parallelized)
  Run: `lake env lean --run drivers/C20.lean`
-/
import LccModel.Proto
import LccModel.ProtoReport
import LccModel.Model.Views
import LccModel.Model.LiveViews
import LccModel.Model.FilteredViews
import LccModel.Lemmas.Writer
open Lean LccModel LccModel.Proto LccModel.ProtoReport LccModel.Report LccModel.Writer LccModel.Views

def kindName : JKind → String
  | .failure => "failure" | .error => "error" | .skipped => "skipped"

def encCase (c : JCase) : Json :=
  Json.mkObj [("name", encStr c.name),
              ("children", encList (fun ch => Json.arr #[Json.str (kindName ch.kind), encOptStr ch.message]) c.children)]

def encJSuite (s : JSuite) : Json :=
  Json.mkObj [("name", encStr s.path), ("tests", Json.num s.tests), ("failures", Json.num s.failures),
              ("skipped", Json.num s.skipped), ("cases", encList encCase s.cases)]

def encDTest (t : DTest) : Json := Json.arr #[encStr t.path, encStatus t.status]

def encStats (s : Stats) : Json :=
  Json.mkObj [("total", Json.num s.total), ("passed", Json.num s.passed), ("failed", Json.num s.failed),
              ("skipped", Json.num s.skipped), ("disabled", Json.num s.disabled), ("enabled", Json.num s.enabled)]

def encSummary (sm : Summary) : Json :=
  Json.mkObj [("tests", Json.num sm.tests), ("successes", Json.num sm.successes), ("failures", Json.num sm.failures),
              ("skipped", encOptNat sm.skipped), ("disabled", encOptNat sm.disabled)]

def viewsJson (r : Report) : Json :=
    let ju := match junit r with
      | .ok jr => Json.mkObj [("tests", Json.num jr.tests), ("failures", Json.num jr.failures), ("suites", encList encJSuite jr.suites)]
      | .error _ => Json.mkObj [("err", "TypeError")]
    let s := statsOf r
    let sm := consoleSummary r
    Json.mkObj [
      ("junit", ju),
      ("stats", Json.mkObj [("total", Json.num s.total), ("passed", Json.num s.passed), ("failed", Json.num s.failed),
                            ("skipped", Json.num s.skipped), ("disabled", Json.num s.disabled), ("enabled", Json.num s.enabled)]),
      ("vars", match messageVars r with
        | .ok vs => Json.mkObj (vs.map (fun (k, v) => (k, Json.num v)))
        | .error _ => Json.mkObj [("err", "TypeError")]),
      ("summary", Json.mkObj [("tests", Json.num sm.tests), ("successes", Json.num sm.successes), ("failures", Json.num sm.failures),
                              ("skipped", encOptNat sm.skipped), ("disabled", encOptNat sm.disabled)]),
      ("inv", Json.bool (reportInv r))]

def decFilter (j : Json) : Except String (Option RFilter) := do
  if j.isNull then return none
  let tests ← decList decPath (← field j "tests")
  let setups ← decList decPath (← field j "setups")
  let teardowns ← decList decPath (← field j "teardowns")
  pure (some { test := fun p t => tests.contains (p ++ [t.md.name]),
               phase := fun p td _ => if td then teardowns.contains p else setups.contains p })

def handle (j : Json) : Except String Json := do
  let op ← getStr j "op"
  match op with
  | "views" =>
    let r ← decReport (← field j "report")
    pure (viewsJson r)
  | "live" =>
    -- {"op":"live","events":[…],"nb_threads":n,"cuts":[k…]} → {"views":[views of the report after k events, for each cut reached]}
    let es ← decList decEvent (← field j "events")
    let nb ← getNat j "nb_threads"
    let cuts ← (← getArr j "cuts").toList.mapM (fun x => x.getNat?)
    let r0 : Report := { Report.empty with nbThreads := nb }
    let evals := liveRun (initState r0) (actsOfCuts es cuts)
    pure (Json.mkObj [("views", Json.arr (evals.map (fun p => viewsJson p.1)).toArray)])
  | "short" =>
    let r ← decReport (← field j "report")
    let filt ← decFilter (fieldOpt j "filter")
    let v := shortReport r filt
    let sh := Json.mkObj [("lines", encList (fun (pt : Path × TestResult) => Json.arr #[encStr pt.2.md.name, encStatus pt.2.result.status]) v.lines),
                          ("summary", match v.summary with
                             | some sm => encSummary sm
                             | none => Json.null),
                          ("duration_known", Json.bool v.durationKnown)]
    let fs := Json.mkObj [("stats", encStats (statsFromSuites (view r))),
                          ("duration_known", Json.bool (fromSuitesDurationKnown (parallelized r) (view r)))]
    pure (Json.mkObj [("short", sh), ("from_suites", fs)])
  | "diff" =>
    let r1 ← decReport (← field j "r1")
    let r2 ← decReport (← field j "r2")
    let d := computeDiff (diffTests r1) (diffTests r2)
    pure (Json.mkObj [("added", encList encDTest d.added), ("removed", encList encDTest d.removed),
                      ("changed", encList (fun (a, b) => Json.arr #[encStr a.path, encStatus a.status, encStatus b.status]) d.changed),
                      ("unchanged", Json.num d.unchanged.length), ("empty", Json.bool d.isEmpty)])
  | _ => throw s!"unknown op {op}"

def main : IO Unit := loop (wrap handle)

/-
  Driver for the C17 correspondence stream (`C17.describe`): the description the M12 model gives to
  a public-API matcher expression under a transformer, and the transformer's state afterwards.
  Requests `{"seq": …}` (stream `C17.seq`): sequences of uses of matcher OBJECTS over a store of mutable
  expected values (`Model/MatcherObj.lean`).
  Run: `lake env lean --run drivers/C17.lean`
-/
import LccModel.Proto
import LccModel.Model.MatcherObjJson
import LccModel.Model.MatcherXValJson
open LccModel LccModel.Proto

/-- requests `{"xvals": …}` (stream `C17.jsonify`): `jsonify` and the leaf sentences on expected values of any class
    (`Model/MatcherXVal.lean`) -/
def handle (j : Lean.Json) : Except String Lean.Json :=
  match j.getObjVal? "xvals" with
  | .ok _ => LccModel.MatcherXValJson.handle j
  | .error _ => LccModel.MatcherObjJson.handle j

def main : IO Unit := loop (wrap handle)

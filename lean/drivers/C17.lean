/-
  Driver for the C17 correspondence stream (`C17.describe`): the description the M12 model gives to
  a public-API matcher expression under a transformer, and the transformer's state afterwards.
  Requests `{"seq": …}` (stream `C17.seq`): sequences of uses of matcher OBJECTS over a store of mutable
  expected values (`Model/MatcherObj.lean`).
  Run: `lake env lean --run drivers/C17.lean`
-/
import LccModel.Proto
import LccModel.Model.MatcherObjJson
open LccModel LccModel.Proto

def main : IO Unit := loop (wrap LccModel.MatcherObjJson.handle)

/-
  Driver of the `C01.decl` stream (harness/props/_decl.py): parses declared suite classes, runs the loader
  model (`Expand.loadSuites`) and the specification (`Expand.expandSuites`), and builds the run-level task
  graph of the expanded tree.
    {"classes": [Cls], "nb_threads": n, "force": bool}
      → {"load": {"ok": [Suite]} | {"err": [kind, text]},
         "expand": [Suite],                 -- expandSuites: what the declarations mean
         "agree": bool,                     -- load ok ⇒ same tree as expand
         "count": n,                        -- Σ expansionCount over the visible declarations
         "tasks": [path],                   -- test tasks of graphOf (projOf expand …), task-list order
         "tests": [[path, disabledNow]]}    -- suitesTests of the expanded tree + `Run.testDisabledNow`
  Cls  = {"attr","name"?,"desc"?,"rank","tags","props","links","disabled","hidden","tests":[Decl],"subs":[Cls]}
  Decl = {"attr","name"?,"desc"?,"rank","tags","props","links","disabled","hidden","deps":[[str]],
          "param": null | {"sets": [[[k, v]]], "naming": {"k":"default"} | {"k":"format","name":[Seg],"desc":[Seg]}
                                                         | {"k":"custom","which": "idx_rev"|"vals"|"const"}}}
  Seg  = {"lit": s} | {"field": k}
  Run: `lake env lean --run drivers/Expand.lean`
-/
import LccModel.Proto
import LccModel.Model.Expand
import LccModel.Lemmas.Graph
open Lean LccModel LccModel.Proto LccModel.Loader LccModel.Expand

def getArrD (j : Json) (k : String) : Except String (List Json) :=
  match j.getObjVal? k with
  | .error _ => .ok []
  | .ok .null => .ok []
  | .ok v => do let a ← v.getArr?; pure a.toList

def getBoolD (j : Json) (k : String) : Except String Bool :=
  match j.getObjVal? k with
  | .error _ => .ok false
  | .ok .null => .ok false
  | .ok v => v.getBool?

def parsePair (j : Json) : Except String (Json × Json) := do
  let a ← j.getArr?
  match a.toList with
  | [x, y] => pure (x, y)
  | _ => throw "pair expected"

def parseMeta (j : Json) : Except String Loader.Meta := do
  let tags ← (← getArrD j "tags").mapM (fun t => t.getStr?)
  let props ← (← getArrD j "props").mapM (fun p => do
    let (k, v) ← parsePair p; pure (← k.getStr?, ← v.getStr?))
  let links ← (← getArrD j "links").mapM (fun p => do
    let (u, n) ← parsePair p
    let n' ← (match n with | .null => pure none | v => do pure (some (← v.getStr?)))
    pure (← u.getStr?, n'))
  pure { tags, props, links }

def parseDisabled (j : Json) : Except String Disabled :=
  match j.getObjVal? "disabled" with
  | .error _ => .ok .no
  | .ok .null => .ok .no
  | .ok (.bool false) => .ok .no
  | .ok (.bool true) => .ok .yes
  | .ok (.str s) => .ok (.reason s)
  | .ok _ => .error "bad disabled"

def parsePVal (j : Json) : Except String PVal :=
  match j with
  | .str s => .ok (.str s)
  | v => do pure (.int (← v.getInt?))

def parseParams (j : Json) : Except String Params := do
  (← j.getArr?).toList.mapM (fun p => do
    let (k, v) ← parsePair p; pure (← k.getStr?, ← parsePVal v))

def parseSeg (j : Json) : Except String Seg :=
  match j.getObjVal? "lit" with
  | .ok v => do pure (.lit (← v.getStr?))
  | .error _ => do pure (.field (← getStr j "field"))

/-- the user callables the stream knows how to write in Python (harness/props/_decl.py `CUSTOM_NAMING`) -/
def customNaming (which : String) : Except String (String → String → Params → Nat → String × String) :=
  match which with
  | "idx_rev" => .ok (fun n d _ nb => (n ++ "_r" ++ toString (100 - nb), d ++ " (r" ++ toString (100 - nb) ++ ")"))
  | "vals" => .ok (fun n d ps _ =>
      (n ++ String.join (ps.map (fun kv => "_" ++ kv.2.render)),
       d ++ " with " ++ ", ".intercalate (ps.map (fun kv => kv.1 ++ "=" ++ kv.2.render))))
  | "const" => .ok (fun n d _ _ => (n, d))
  | w => .error s!"unknown custom naming {w}"

def parseNaming (j : Json) : Except String Expand.Naming := do
  match ← getStr j "k" with
  | "default" => pure .default
  | "format" =>
    let nm ← (← getArrD j "name").mapM parseSeg
    let ds ← (← getArrD j "desc").mapM parseSeg
    pure (.format nm ds)
  | "custom" => do pure (.custom (← customNaming (← getStr j "which")))
  | k => throw s!"unknown naming {k}"

def parseDecl (j : Json) : Except String Expand.TestDecl := do
  let param ← (match j.getObjVal? "param" with
    | .error _ => pure none
    | .ok .null => pure none
    | .ok p => do
      let sets ← (← getArrD p "sets").mapM parseParams
      let n ← parseNaming (← p.getObjVal? "naming")
      pure (some (sets, n)))
  let deps ← (← getArrD j "deps").mapM (fun d => do (← d.getArr?).toList.mapM (fun x => x.getStr?))
  pure { attr := ← getStr j "attr", name := ← getOptStr j "name", desc := ← getOptStr j "desc", rank := ← getNat j "rank",
         md := ← parseMeta j, disabled := ← parseDisabled j, hidden := ← getBoolD j "hidden", deps := deps, param := param }

partial def parseCls (j : Json) : Except String SuiteDecl := do
  let h : Expand.ClsHead :=
    { attr := ← getStr j "attr", name := ← getOptStr j "name", desc := ← getOptStr j "desc", rank := ← getNat j "rank",
      md := ← parseMeta j, disabled := ← parseDisabled j, hidden := ← getBoolD j "hidden" }
  let tests ← (← getArrD j "tests").mapM parseDecl
  let subs ← (← getArrD j "subs").mapM parseCls
  pure (.mk h tests subs)

/-! ### printing -/

def jOptStr : Option String → Json
  | none => .null
  | some s => .str s

def jDisabled : Disabled → Json
  | .no => .bool false
  | .yes => .bool true
  | .reason s => .str s

def jMeta (m : Loader.Meta) : List (String × Json) :=
  [("tags", Json.arr (m.tags.map Json.str).toArray),
   ("props", Json.arr (m.props.map (fun (k, v) => Json.arr #[.str k, .str v])).toArray),
   ("links", Json.arr (m.links.map (fun (u, n) => Json.arr #[.str u, jOptStr n])).toArray)]

def jPVal : PVal → Json
  | .int i => Json.num (JsonNumber.fromInt i)
  | .str s => .str s

def jPath (p : List String) : Json := Json.arr (p.map Json.str).toArray

def jTest (t : Expand.Test) : Json :=
  Json.mkObj ([("name", .str t.name), ("desc", .str t.desc), ("rank", Json.num t.rank), ("disabled", jDisabled t.disabled),
               ("deps", Json.arr (t.deps.map jPath).toArray),
               ("params", Json.arr (t.params.map (fun (k, v) => Json.arr #[.str k, jPVal v])).toArray)] ++ jMeta t.md)

partial def jSuite : Expand.Suite → Json
  | .mk h ts ss =>
    Json.mkObj ([("name", .str h.name), ("desc", .str h.desc), ("rank", Json.num h.rank), ("disabled", jDisabled h.disabled),
                 ("tests", Json.arr (ts.map jTest).toArray), ("suites", Json.arr (ss.map jSuite).toArray)] ++ jMeta h.md)

def jErr : LoadErr → Json
  | .importError s => Json.arr #["importError", .str s]
  | .ctorError c => Json.arr #["ctorError", .str c]
  | .formatKeyError k => Json.arr #["KeyError", .str k]
  | .dupTestDesc d => Json.arr #["dupTestDesc", .str d]
  | .dupTestName n => Json.arr #["dupTestName", .str n]
  | .dupSuiteDesc n _ => Json.arr #["dupSuiteDesc", .str n]
  | .dupSuiteName n => Json.arr #["dupSuiteName", .str n]

def handle (j : Json) : Except String Json := do
  let classes ← (← getArrD j "classes").mapM parseCls
  let n ← getNat j "nb_threads"
  let force ← getBool j "force"
  let expanded := expandSuites classes
  let expJ := Json.arr (expanded.map jSuite).toArray
  let (loadJ, agree) := match loadSuites classes with
    | .ok ss =>
      let lj := Json.arr (ss.map jSuite).toArray
      (Json.mkObj [("ok", lj)], lj.compress == expJ.compress)
    | .error e => (Json.mkObj [("err", jErr e)], true)
  let P := projOf expanded n force false
  let g := TaskGraph.graphOf P
  let tasks := (g.tasks.filter (fun t => t.kind == .test)).map (fun t => jPath t.path)
  let svs := Run.allSuites P
  let tests := (suitesTests [] expanded).map (fun (p, t) =>
    let dn := match svs.find? (fun sv => sv.path == p.dropLast) with
      | some sv => Run.testDisabledNow P sv (toSpecTest t)
      | none => false
    Json.arr #[jPath p, .bool dn])
  let count := ((classes.filter (fun c => !c.head.hidden)).map declCount).sum
  pure (Json.mkObj [("load", loadJ), ("expand", expJ), ("agree", .bool agree), ("count", Json.num count),
                    ("tasks", Json.arr tasks.toArray), ("tests", Json.arr tests.toArray)])

def main : IO Unit := loop (wrap handle)

/-
  Driver of the `decl` / `declrun` streams (harness/props/_decl.py, _declrun.py): parses declared suite classes — every
  method and class with its decorators in APPLICATION order, every class with the attribute layers of its instance —,
  folds the decorators (`Expand.decorate`), runs the loader model (`Expand.loadSuites`) and the specification
  (`Expand.expandSuites`), validates the dependency graph (`Expand.validate` = `Deps.resolve` on the loaded tests) and
  builds the run-level project and task graph of the expanded tree.
    {"classes": [Cls], "nb_threads": n, "force": bool, "keep": null | [path]}
      → {"load": {"ok": [Suite]} | {"err": [kind, text]},      -- a test's "rank" is its key [rank, sub] (compared by ORDER among siblings)
         "expand": [Suite],                 -- expandSuites: what the declarations mean
         "agree": bool,                     -- load ok ⇒ same tree as expand
         "count": n,                        -- Σ expansionCount over the visible declarations
         "tasks": [path],                   -- test tasks of graphOf (projOf expand …), task-list order
         "tests": [[path, disabledNow]],    -- suitesTests of the expanded tree + `Run.testDisabledNow`
         "resolve": {"ok": [[path, [dep path]]]} | {"err": [kind, test, dep]},     -- PreparedProject.create's verdict
         "proj": [SuiteShape]}              -- projOf (resolvePreds expand): the run-level project, scripts left out
  Cls  = {"attr","rank","decos":[Deco],"layers":[[ [key, Kind] ]],"tests":[Decl],"subs":[Cls]}     layers[0] = instance dict
  Decl = {"attr","rank","args":[str],"decos":[Deco]}
  Deco = {"k":"test","desc","name"} | {"k":"suite","desc","name","rank"} | {"k":"disabled","reason"} | {"k":"tags","tags"}
       | {"k":"prop","key","value"} | {"k":"link","url","name"} | {"k":"hidden"} | {"k":"depends_on","args":[{"path":[str]}|{"pred":key}]}
       | {"k":"parametrized","sets":[[[k, v]]],"naming":{"k":"default"} | {"k":"format","name":[Seg],"desc":[Seg]} | {"k":"custom","which"}}
  Kind = {"k":"inject","name":str|null} | {"k":"method","params":[str]} | {"k":"property"} | {"k":"other"}
  Seg  = {"lit": s} | {"field": k}
  Run: `lake env lean --run drivers/Expand.lean`
-/
import LccModel.Proto
import LccModel.Model.Expand
import LccModel.Model.ParamSource
import LccModel.Lemmas.Graph
open Lean LccModel LccModel.Proto LccModel.Loader LccModel.Expand

def getArrD (j : Json) (k : String) : Except String (List Json) :=
  match j.getObjVal? k with
  | .error _ => .ok []
  | .ok .null => .ok []
  | .ok v => do let a ← v.getArr?; pure a.toList

def getBoolD (j : Json) (k : String) : Except String Bool :=
  match j.getObjVal? k with
  | .error _ => .ok false
  | .ok .null => .ok false
  | .ok v => v.getBool?

def parsePair (j : Json) : Except String (Json × Json) := do
  let a ← j.getArr?
  match a.toList with
  | [x, y] => pure (x, y)
  | _ => throw "pair expected"

def parseMeta (j : Json) : Except String Loader.Meta := do
  let tags ← (← getArrD j "tags").mapM (fun t => t.getStr?)
  let props ← (← getArrD j "props").mapM (fun p => do
    let (k, v) ← parsePair p; pure (← k.getStr?, ← v.getStr?))
  let links ← (← getArrD j "links").mapM (fun p => do
    let (u, n) ← parsePair p
    let n' ← (match n with | .null => pure none | v => do pure (some (← v.getStr?)))
    pure (← u.getStr?, n'))
  pure { tags, props, links }

def parseDisabled (j : Json) : Except String Disabled :=
  match j.getObjVal? "disabled" with
  | .error _ => .ok .no
  | .ok .null => .ok .no
  | .ok (.bool false) => .ok .no
  | .ok (.bool true) => .ok .yes
  | .ok (.str s) => .ok (.reason s)
  | .ok _ => .error "bad disabled"

def parsePVal (j : Json) : Except String PVal :=
  match j with
  | .str s => .ok (.str s)
  | v => do pure (.int (← v.getInt?))

def parseParams (j : Json) : Except String Params := do
  (← j.getArr?).toList.mapM (fun p => do
    let (k, v) ← parsePair p; pure (← k.getStr?, ← parsePVal v))

def parseSeg (j : Json) : Except String Seg :=
  match j.getObjVal? "lit" with
  | .ok v => do pure (.lit (← v.getStr?))
  | .error _ => do pure (.field (← getStr j "field"))

/-- the user callables the stream knows how to write in Python (harness/props/_decl.py `CUSTOM_NAMING`) -/
def customNaming (which : String) : Except String (String → String → Params → Nat → String × String) :=
  match which with
  | "idx_rev" => .ok (fun n d _ nb => (n ++ "_r" ++ toString (100 - nb), d ++ " (r" ++ toString (100 - nb) ++ ")"))
  | "vals" => .ok (fun n d ps _ =>
      (n ++ String.join (ps.map (fun kv => "_" ++ kv.2.render)),
       d ++ " with " ++ ", ".intercalate (ps.map (fun kv => kv.1 ++ "=" ++ kv.2.render))))
  | "const" => .ok (fun n d _ _ => (n, d))
  | "first" => .ok (fun _ _ ps _ => match ps with
      | [] => ("", "test ")
      | kv :: _ => (kv.2.render, "test " ++ kv.2.render))
  | w => .error s!"unknown custom naming {w}"

def parseNaming (j : Json) : Except String Expand.Naming := do
  match ← getStr j "k" with
  | "default" => pure .default
  | "format" =>
    let nm ← (← getArrD j "name").mapM parseSeg
    let ds ← (← getArrD j "desc").mapM parseSeg
    pure (.format nm ds)
  | "custom" => do pure (.custom (← customNaming (← getStr j "which")))
  | k => throw s!"unknown naming {k}"

/-- the dependency predicates the stream knows how to write in Python (harness/props/_decl.py `pred_src`) -/
def predHolds (key : String) (p : List String) (t : Expand.Test) : Bool :=
  match key.splitOn "=" with
  | "path" :: rest => ".".intercalate p == "=".intercalate rest
  | "name" :: rest => t.name == "=".intercalate rest
  | "tag" :: rest => t.md.tags.contains ("=".intercalate rest)
  | _ => false

def parseDepArg (j : Json) : Except String DepArg :=
  match j.getObjVal? "path" with
  | .ok v => do pure (.path (← (← v.getArr?).toList.mapM (fun x => x.getStr?)))
  | .error _ => do pure (.pred (← getStr j "pred"))

def parseDeco (j : Json) : Except String Deco := do
  match ← getStr j "k" with
  | "test" => pure (.test (← getOptStr j "desc") (← getOptStr j "name"))
  | "suite" =>
    let rank ← (match j.getObjVal? "rank" with
      | .error _ => pure none
      | .ok .null => pure none
      | .ok v => do pure (some (← v.getNat?)))
    pure (.suite (← getOptStr j "desc") (← getOptStr j "name") rank)
  | "disabled" => pure (.disabled (← getOptStr j "reason"))
  | "tags" => pure (.tags (← (← getArrD j "tags").mapM (fun t => t.getStr?)))
  | "prop" => pure (.prop (← getStr j "key") (← getStr j "value"))
  | "link" => pure (.link (← getStr j "url") (← getOptStr j "name"))
  | "hidden" => pure .hidden
  | "depends_on" => pure (.dependsOn (← (← getArrD j "args").mapM parseDepArg))
  | "parametrized" =>
    -- the source as written: `header` (a string: `ParamSource.parseHeader` finds the names) / `names` (tuple or list header)
    -- with `rows`, or the dicts themselves (`sets`); the decorator stores what `parameters_source` yields (`Source.sets`)
    let rows ← (← getArrD j "rows").mapM (fun r => do (← r.getArr?).toList.mapM parsePVal)
    let src ← (match j.getObjVal? "header" with
      | .ok (.str h) => pure (LccModel.ParamSource.Source.csvStr h rows)
      | _ => match j.getObjVal? "names" with
        | .ok ns => do pure (LccModel.ParamSource.Source.csvSeq (← (← ns.getArr?).toList.mapM (fun x => x.getStr?)) rows)
        | .error _ => do pure (LccModel.ParamSource.Source.dicts (← (← getArrD j "sets").mapM parseParams)))
    let n ← parseNaming (← j.getObjVal? "naming")
    pure (.parametrized src.sets n)
  | k => throw s!"unknown decorator {k}"

def parseDecl (j : Json) : Except String Expand.TestDecl := do
  let args ← (← getArrD j "args").mapM (fun x => x.getStr?)
  let decos ← (← getArrD j "decos").mapM parseDeco
  pure (decorate (← getStr j "attr") (← getNat j "rank") args decos)

def parseKind (j : Json) : Except String SuiteObj.AttrKind := do
  match ← getStr j "k" with
  | "inject" => pure (.inject (← getOptStr j "name"))
  | "method" => pure (.method (← (← getArrD j "params").mapM (fun x => x.getStr?)))
  | "property" => pure .property
  | _ => pure .other

def parseLayer (j : Json) : Except String SuiteObj.Layer := do
  (← j.getArr?).toList.mapM (fun kv => do
    let (k, v) ← parsePair kv
    pure (← k.getStr?, ← parseKind v))

def parseObj (j : Json) : Except String SuiteObj.Obj := do
  match ← (← getArrD j "layers").mapM parseLayer with
  | [] => pure {}
  | inst :: mro => pure { inst := inst, mro := mro }

partial def parseCls (j : Json) : Except String SuiteDecl := do
  let decos ← (← getArrD j "decos").mapM parseDeco
  let h := decorateCls (← getStr j "attr") (← getNat j "rank") (← parseObj j) decos
  let tests ← (← getArrD j "tests").mapM parseDecl
  let subs ← (← getArrD j "subs").mapM parseCls
  pure (.mk h tests subs)

/-! ### printing -/

def jOptStr : Option String → Json
  | none => .null
  | some s => .str s

def jDisabled : Disabled → Json
  | .no => .bool false
  | .yes => .bool true
  | .reason s => .str s

def jMeta (m : Loader.Meta) : List (String × Json) :=
  [("tags", Json.arr (m.tags.map Json.str).toArray),
   ("props", Json.arr (m.props.map (fun (k, v) => Json.arr #[.str k, .str v])).toArray),
   ("links", Json.arr (m.links.map (fun (u, n) => Json.arr #[.str u, jOptStr n])).toArray)]

def jPVal : PVal → Json
  | .int i => Json.num (JsonNumber.fromInt i)
  | .str s => .str s

def jPath (p : List String) : Json := Json.arr (p.map Json.str).toArray

def jDep : DepArg → Json
  | .path p => jPath p
  | .pred k => Json.arr #[.str "<pred>", .str k]

def jStrs (l : List String) : Json := Json.arr (l.map Json.str).toArray

def jTest (t : Expand.Test) : Json :=
  Json.mkObj ([("name", .str t.name), ("desc", .str t.desc), ("rank", Json.arr #[Json.num t.rank, Json.num t.sub]), ("disabled", jDisabled t.disabled),
               ("deps", Json.arr (t.deps.map jDep).toArray),
               ("params", Json.arr (t.params.map (fun (k, v) => Json.arr #[.str k, jPVal v])).toArray),
               ("fixtures", jStrs t.fixtures)] ++ jMeta t.md)

def jHooks (h : Expand.SuiteHead) : Json :=
  Json.mkObj ((match h.setupSuite with | some ps => [("setup_suite", jStrs ps)] | none => []) ++
              (if h.teardownSuite then [("teardown_suite", jStrs [])] else []) ++
              (if h.setupTest then [("setup_test", jStrs ["test"])] else []) ++
              (if h.teardownTest then [("teardown_test", jStrs ["test", "status"])] else []))

partial def jSuite : Expand.Suite → Json
  | .mk h ts ss =>
    Json.mkObj ([("name", .str h.name), ("desc", .str h.desc), ("rank", Json.num h.rank), ("disabled", jDisabled h.disabled),
                 ("injected", Json.arr (h.injected.map (fun (f, as) => Json.arr #[.str f, jStrs as])).toArray), ("hooks", jHooks h),
                 ("tests", Json.arr (ts.map jTest).toArray), ("suites", Json.arr (ss.map jSuite).toArray)] ++ jMeta h.md)

/-- the run-level project syntax, scripts left out (harness/props/_declrun.py `project_shape`) -/
partial def jSpec : Run.SuiteSpec → Json
  | s =>
    let hooks := (match s.setupSuite with | some (ps, _) => [("setup_suite", jStrs ps)] | none => []) ++
                 (if s.teardownSuite.isSome then [("teardown_suite", jStrs [])] else []) ++
                 (if s.setupTest.isSome then [("setup_test", jStrs ["test"])] else []) ++
                 (if s.teardownTest.isSome then [("teardown_test", jStrs ["test", "status"])] else [])
    Json.mkObj [("name", .str s.name), ("disabled", .bool s.disabled), ("injected", jStrs s.injected), ("hooks", Json.mkObj hooks),
                ("tests", Json.arr (s.tests.map (fun t => Json.mkObj [("name", .str t.name), ("disabled", .bool t.disabled),
                    ("reason", .bool t.disabledReason), ("deps", Json.arr (t.deps.map jPath).toArray), ("fixtures", jStrs t.fixtures)])).toArray),
                ("suites", Json.arr (s.subs.map jSpec).toArray)]

def undot (s : String) : List String := s.splitOn "."

def jResolve : Except Deps.Err (List (String × List String)) → Json
  | .ok l => Json.mkObj [("ok", Json.arr (l.map (fun (p, ds) => Json.arr #[jPath (undot p), Json.arr (ds.map (fun d => jPath (undot d))).toArray])).toArray)]
  | .error (.unknown t d) => Json.mkObj [("err", Json.arr #["unknown", .str t, .str d])]
  | .error (.circular t d) => Json.mkObj [("err", Json.arr #["circular", .str t, .str d])]
  | .error (.notScheduled t d) => Json.mkObj [("err", Json.arr #["notScheduled", .str t, .str d])]
  | .error .outOfFuel => Json.mkObj [("err", Json.arr #["outOfFuel", .str "", .str ""])]

def jErr : LoadErr → Json
  | .importError s => Json.arr #["importError", .str s]
  | .ctorError c => Json.arr #["ctorError", .str c]
  | .formatKeyError k => Json.arr #["KeyError", .str k]
  | .dupTestDesc d => Json.arr #["dupTestDesc", .str d]
  | .dupTestName n => Json.arr #["dupTestName", .str n]
  | .dupSuiteDesc n _ => Json.arr #["dupSuiteDesc", .str n]
  | .dupSuiteName n => Json.arr #["dupSuiteName", .str n]

def handle (j : Json) : Except String Json := do
  let classes ← (← getArrD j "classes").mapM parseCls
  let n ← getNat j "nb_threads"
  let force ← getBool j "force"
  let expanded := expandSuites classes
  let expJ := Json.arr (expanded.map jSuite).toArray
  let (loadJ, agree) := match loadSuites classes with
    | .ok ss =>
      let lj := Json.arr (ss.map jSuite).toArray
      (Json.mkObj [("ok", lj)], lj.compress == expJ.compress)
    | .error e => (Json.mkObj [("err", jErr e)], true)
  let P := projOf expanded n force false
  let g := TaskGraph.graphOf P
  let tasks := (g.tasks.filter (fun t => t.kind == .test)).map (fun t => jPath t.path)
  let svs := Run.allSuites P
  let tests := (suitesTests [] expanded).map (fun (p, t) =>
    let dn := match svs.find? (fun sv => sv.path == p.dropLast) with
      | some sv => Run.testDisabledNow P sv (toSpecTest t)
      | none => false
    Json.arr #[jPath p, .bool dn])
  let count := ((classes.filter (fun c => !c.head.hidden)).map declCount).sum
  let keep ← (match j.getObjVal? "keep" with
    | .error _ => pure none
    | .ok .null => pure none
    | .ok v => do pure (some (← (← v.getArr?).toList.mapM (fun p => do (← p.getArr?).toList.mapM (fun x => x.getStr?)))))
  let resolveJ := jResolve (validate predHolds expanded keep)
  let projJ := Json.arr ((toSpecs (resolvePreds predHolds expanded)).map jSpec).toArray
  pure (Json.mkObj [("load", loadJ), ("expand", expJ), ("agree", .bool agree), ("count", Json.num count),
                    ("tasks", Json.arr tasks.toArray), ("tests", Json.arr tests.toArray), ("resolve", resolveJ), ("proj", projJ)])

def main : IO Unit := loop (wrap handle)

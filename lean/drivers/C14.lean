/-
  Driver for the C14 correspondence streams.  One request = one generated project:
  runs `Prepare.prepare` (the model of `PreparedProject.create`) and, for accepted projects, reports
  the resolved test dependencies, what `get_fixtures_scheduled_for_*` schedules at every scope
  instance, and the result of simulating `ScheduledFixtures` set-up + consumer look-ups.
  Run: `lake env lean --run drivers/C14.lean`
-/
import LccModel.Proto
import LccModel.Model.Callable
import LccModel.Model.PolicySeq
import LccModel.Model.ProjectFiles
open Lean LccModel LccModel.Proto LccModel.Loops

def getStrs (j : Json) (k : String) : Except String (List String) := do
  let a ← getArr j k
  a.toList.mapM (fun x => x.getStr?)

def parseScope (s : String) : Except String Fixture.Scope :=
  match s with
  | "test" => pure .test
  | "suite" => pure .suite
  | "session" => pure .session
  | "pre_run" => pure .preRun
  | _ => throw s!"unknown scope {s}"

def parseKind (s : String) : Except String Callable.Kind :=
  match s with
  | "function" => pure .function
  | "boundMethod" => pure .boundMethod
  | "callableObject" => pure .callableObject
  | "partialObject" => pure .partialObject
  | _ => throw s!"unknown callable kind {s}"

/-- a callable as it was WRITTEN: {kind, params, wrapped?} -/
def parseCallable (j : Json) : Except String Callable.Callable := do
  let w : Option (List String) := match j.getObjVal? "wrapped" with
    | .ok (Json.arr a) => some (a.toList.filterMap (fun x => x.getStr?.toOption))
    | _ => none
  pure ⟨← parseKind (← getStr j "kind"), ← getStrs j "params", w⟩

/-- the names a test / fixture / setup_suite callable needs: READ from the callable by the model (`neededArgs`) when the
    request describes one (key `ckey`), else given as a list (key `lkey`) -/
def neededOf (j : Json) (ckey lkey : String) : Except String (List String) :=
  match j.getObjVal? ckey with
  | .ok c => do pure (Callable.neededArgs (← parseCallable c))
  | .error _ => getStrs j lkey

def parseDecl (j : Json) : Except String Fixture.Decl := do
  pure ⟨← getStrs j "names", ← parseScope (← getStr j "scope"), ← getBool j "per_thread", ← neededOf j "callable" "params"⟩

def parseDep (j : Json) : Except String Deps.Dep :=
  match j.getObjVal? "path" with
  | .ok v => do pure (.path (← v.getStr?))
  | .error _ => do pure (.pred (← getStrs j "pred"))

def parseKVs (j : Json) (k : String) : Except String (List (String × String)) := do
  let a ← getArr j k
  a.toList.mapM (fun kv => do
    let p ← kv.getArr?
    match p.toList with
    | [a, b] => pure (← a.getStr?, ← b.getStr?)
    | _ => throw "bad key/value pair")

def parseTest (j : Json) : Except String Prepare.PTest := do
  let deps ← (← getArr j "deps").toList.mapM parseDep
  pure ⟨← getStr j "path", ← neededOf j "callable" "args", ← getStrs j "parameters", ← getBool j "disabled", deps,
        ← parseKVs j "props", ← getStrs j "tags"⟩

def parseShape (s : String) : Except String Inject.Shape :=
  match s with
  | "pub" => pure .pub
  | "priv" => pure .priv
  | "mangled" => pure .mangled
  | "dunder" => pure .dunder
  | _ => throw s!"unknown shape {s}"

def parsePlace (s : String) : Except String Inject.Place :=
  match s with
  | "body" => pure .body
  | "base" => pure .base
  | "init" => pure .init
  | "module" => pure .module
  | _ => throw s!"unknown place {s}"

def parseAttr (j : Json) : Except String Inject.Attr := do
  let fx : Option String := match j.getObjVal? "fixture" with
    | .ok (Json.str f) => some f
    | _ => none
  pure ⟨← getStr j "name", ← parseShape (← getStr j "shape"), ← parsePlace (← getStr j "place"), fx⟩

/-- `dir()`: the attributes in alphabetical order of their (mangled) names — done here, outside the model -/
def dirOrder (l : List Inject.Attr) : List Inject.Attr :=
  (l.toArray.qsort (fun a b => a.name < b.name)).toList

partial def parseSuite (j : Json) : Except String Inject.DSuite := do
  let tests ← (← getArr j "tests").toList.mapM parseTest
  let subs ← (← getArr j "subs").toList.mapM parseSuite
  let attrs ← (← getArr j "attrs").toList.mapM parseAttr
  pure (.mk (← getStr j "path") (← getBool j "disabled") (dirOrder attrs) (← neededOf j "setup_callable" "setup_args")
            (← parseKVs j "props") (← getStrs j "tags") tests subs)

def parsePolicy (j : Json) : Except String Policy.Policy := do
  let props ← (← getArr j "props").toList.mapM (fun r => do
    pure (⟨← getStr r "name", ← getStrs r "values", ← getBool r "on_test", ← getBool r "on_suite", ← getBool r "required"⟩ : Policy.PropRule))
  let tags ← (← getArr j "tags").toList.mapM (fun r => do
    pure (⟨← getStr r "name", ← getBool r "on_test", ← getBool r "on_suite"⟩ : Policy.TagRule))
  pure ⟨props, tags, ← getBool j "no_unknown_props", ← getBool j "no_unknown_tags"⟩

def strs (l : List String) : Json := Json.arr (l.map Json.str).toArray

def errJson (stage kind : String) (args : List String) : Json :=
  Json.mkObj [("result", "error"), ("stage", stage), ("kind", kind), ("args", strs args)]

def fixtureErr : Fixture.Err → Json
  | .builtinName n => errJson "fixture" "builtin-name" [n]
  | .forbiddenName n => errJson "fixture" "forbidden-name" [n]
  | .circular f => errJson "fixture" "circular" [f]
  | .unknownParam p f => errJson "fixture" "unknown-param" [p, f]
  | .perThreadDep f d => errJson "fixture" "per-thread-dep" [f, d]
  | .scopeInversion f d => errJson "fixture" "scope-inversion" [f, d]
  | .suiteUnknown s f => errJson "fixture" "suite-unknown" [s, f]
  | .suitePerThread s f => errJson "fixture" "suite-per-thread" [s, f]
  | .suiteScope s f => errJson "fixture" "suite-scope" [s, f]
  | .testUnknown t f => errJson "fixture" "test-unknown" [t, f]
  | .keyError n => errJson "fixture" "CRASH-KeyError" [n]
  | .outOfFuel => errJson "fixture" "CRASH-RecursionError" []

def depsErr : Deps.Err → Json
  | .unknown t d => errJson "deps" "unknown" [t, d]
  | .circular t d => errJson "deps" "circular" [t, d]
  | .notScheduled t d => errJson "deps" "not-scheduled" [t, d]
  | .outOfFuel => errJson "deps" "CRASH-RecursionError" []

def policyErr : Policy.Err → Json
  | .propNotAllowed p k => errJson "policy" "prop-not-allowed" [p, k]
  | .propForbidden p k => errJson "policy" "prop-forbidden" [p, k]
  | .propMissing p k => errJson "policy" "prop-missing" [p, k]
  | .propBadValue p k v => errJson "policy" "prop-bad-value" [p, k, v]
  | .tagNotAllowed p t => errJson "policy" "tag-not-allowed" [p, t]
  | .tagForbidden p t => errJson "policy" "tag-forbidden" [p, t]

def schedJson (r : Except Fixture.Err (List String)) : Json :=
  match r with
  | .ok l => strs l
  | .error e => fixtureErr e

def runErrStr : Fixture.RunErr → String
  | .lookupError n => s!"LookupError:{n}"
  | .notExecuted n => s!"AssertionError-not-executed:{n}"
  | .alreadyExecuted n => s!"AssertionError-already-executed:{n}"
  | .keyError n => s!"KeyError:{n}"
  | .noInstance => "no-instance"

/-- simulate `ScheduledFixtures` for one running test (and its suite's own look-ups) -/
def simulate (R : Fixture.Registry) (dsess dsuite dtest suiteFx testFx : List String) (suiteInit : Bool) : String :=
  let get (d : List String) (sc : Fixture.Scope) : Except String (List String) :=
    match Fixture.scheduled R d sc with
    | .ok l => .ok l
    | .error _ => .error "scheduling-error"
  let lift {α} (x : Except Fixture.RunErr α) : Except String α :=
    match x with
    | .ok a => .ok a
    | .error e => .error (runErrStr e)
  let r : Except String Unit := do
    let c1 ← lift (Fixture.enter R [] .preRun (← get dsess .preRun))
    let c2 ← lift (Fixture.enter R c1 .session (← get dsess .session))
    let c3 ← lift (Fixture.enter R c2 .suite (← get dsuite .suite))
    if suiteInit then lift (forE suiteFx (Fixture.getResult c3)) else pure ()
    let c4 ← lift (Fixture.enter R c3 .test (← get dtest .test))
    lift (forE testFx (Fixture.getResult c4))
  match r with
  | .ok () => "ok"
  | .error e => e

/-! ### sequences on ONE policy object (`C14.reconfig`): configure -> check -> reconfigure -> check … -/

def getOptBool (j : Json) (k : String) : Except String (Option Bool) :=
  match j.getObjVal? k with
  | .error _ => .ok none
  | .ok .null => .ok none
  | .ok v => do let b ← v.getBool?; pure (some b)

def parseSeqTest (j : Json) : Except String Prepare.PTest := do
  pure ⟨← getStr j "path", [], [], false, [], ← parseKVs j "props", ← getStrs j "tags"⟩

partial def parseSeqSuite (j : Json) : Except String Prepare.PSuite := do
  let tests ← (← getArr j "tests").toList.mapM parseSeqTest
  let subs ← (← getArr j "subs").toList.mapM parseSeqSuite
  pure (.mk (← getStr j "path") false [] [] (← parseKVs j "props") (← getStrs j "tags") tests subs)

/-- every suite of the tree (pre-order) -/
partial def allSuites (l : List Prepare.PSuite) : List Prepare.PSuite :=
  l.flatMap (fun s => match s with | .mk _ _ _ _ _ _ _ subs => s :: allSuites subs)

def suitePath : Prepare.PSuite → String
  | .mk p _ _ _ _ _ _ _ => p

/-- `check_suite_compliance(suite)`: the suite itself, then its tests (sub-suites are NOT visited) -/
def suiteOwnNodes : Prepare.PSuite → List Policy.Node
  | .mk path _ _ _ props tags tests _ => ⟨.suite, path, props, tags⟩ :: tests.map Prepare.PTest.toNode

def parseOp (j : Json) : Except String Policy.Op := do
  match ← getStr j "op" with
  | "prop_rule" => pure (.propRule (← getStr j "name") (← getStrs j "values") (← getOptBool j "on_test") (← getOptBool j "on_suite")
                                   (← getBool j "required"))
  | "tag_rule" => pure (.tagRule (← getStrs j "names") (← getOptBool j "on_test") (← getOptBool j "on_suite"))
  | "no_unknown_props" => pure .noUnknownProps
  | "no_unknown_tags" => pure .noUnknownTags
  | o => throw s!"unknown op {o}"

def parseStep (all : List Prepare.PSuite) (j : Json) : Except String Policy.Step := do
  match ← getStr j "op" with
  | "check" =>
    match ← getStr j "via" with
    | "create" | "suites" => pure (.check (Prepare.nodesL all))
    | "suite" =>
      let p ← getStr j "path"
      match (allSuites all).find? (fun s => suitePath s == p) with
      | some s => pure (.check (suiteOwnNodes s))
      | none => throw s!"no suite {p}"
    | "test" =>
      let p ← getStr j "path"
      match (Prepare.nodesL all).find? (fun n => n.type == .test && n.path == p) with
      | some n => pure (.check [n])
      | none => throw s!"no test {p}"
    | v => throw s!"unknown via {v}"
  | _ => do pure (.conf (← parseOp j))

def ruleNames (P : Policy.Policy) : Json :=
  Json.mkObj [("props", strs (P.props.map (·.name))), ("tags", strs (P.tags.map (·.name)))]

def handleSeq (j : Json) : Except String Json := do
  let all ← (← getArr j "suites").toList.mapM parseSeqSuite
  let steps ← (← getArr j "steps").toList.mapM (parseStep all)
  let verdicts := (Policy.run Policy.empty steps).map (fun v => match v with
    | .ok () => Json.mkObj [("result", "ok")]
    | .error e => policyErr e)
  let raises := (Policy.confs steps).map (fun o => Json.bool o.raises)
  pure (Json.mkObj [("verdicts", Json.arr verdicts.toArray), ("raises", Json.arr raises.toArray),
                    ("rules", ruleNames (Policy.confAll Policy.empty (Policy.confs steps)))])

/-! ## projects on disk: several preparations in one process, the project designated by -p / environment / cwd -/

def briefVerdict : Except Prepare.PrepErr Prepare.Prepared → Json
  | .error (.declRefused names) => errJson "decl" "per-thread-scope" names
  | .error (.validation (.policy e)) => policyErr e
  | .error (.validation (.deps e)) => depsErr e
  | .error (.validation (.fixture e)) => fixtureErr e
  | .ok prep => Json.mkObj [("result", "ok"), ("registry", strs (Fixture.names prep.registry)),
                            ("resolved", Json.arr (prep.resolved.map (fun (t, ds) => Json.arr #[Json.str t, strs ds])).toArray)]

def parseProjDir (j : Json) : Except String ProjectFiles.ProjDir := do
  let pj ← j.getObjVal? "project"
  let policy ← parsePolicy (← pj.getObjVal? "policy")
  let decls ← (← getArr pj "decls").toList.mapM parseDecl
  let all ← (← getArr pj "all").toList.mapM parseSuite
  let hasPy ← getBool j "projectPy"
  pure { projectPy := if hasPy then some policy else none, suitesDir := (← getBool j "suitesDir"),
         fixtures := decls, suites := all.map (fun s => (s.path, s)) }

def parseEntry (j : Json) : Except String (String × ProjectFiles.Entry) := do
  let path ← getStr j "path"
  let d ← parseProjDir j
  match ← getOptStr j "fileOf" with
  | some root => pure (path, .projectFile root d)
  | none => pure (path, .dir d)

def parseDiskStep (j : Json) : Except String ProjectFiles.Step := do
  let fs ← (← getArr j "fs").toList.mapM parseEntry
  let dj ← j.getObjVal? "desig"
  pure { fs := fs, hier := (← getStrs j "hier"),
         desig := ⟨← getOptStr dj "arg", ← getOptStr dj "env", ← getOptStr dj "envf"⟩ }

def handleDisk (j : Json) : Except String Json := do
  let steps ← (← getArr j "disk").toList.mapM parseDiskStep
  let out := (ProjectFiles.runChecks {} steps).2
  let roots := steps.map (fun s => match ProjectFiles.loadProject s.fs s.hier s.desig with
    | .ok r => Json.str r.1 | .error _ => Json.null)
  let js := (out.zip roots).map (fun (v, root) => match v with
    | .error (.notSuitable p) => Json.mkObj [("load", "notSuitable"), ("path", p)]
    | .error .notFound => Json.mkObj [("load", "notFound")]
    | .ok r => Json.mkObj [("load", "ok"), ("root", root), ("verdict", briefVerdict r)])
  pure (Json.mkObj [("steps", Json.arr js.toArray)])

def handle (j : Json) : Except String Json := do
  if (j.getObjVal? "disk").isOk then return (← handleDisk j)
  if (j.getObjVal? "steps").isOk then return (← handleSeq j)
  let policy ← parsePolicy (← j.getObjVal? "policy")
  let decls ← (← getArr j "decls").toList.mapM parseDecl
  let all ← (← getArr j "all").toList.mapM parseSuite
  let sched ← (← getArr j "sched").toList.mapM parseSuite
  let fd ← getBool j "fd"
  let p : Inject.DProject := ⟨policy, decls, all, sched⟩
  match Prepare.prepareFull p with
  | .error (.declRefused names) => pure (errJson "decl" "per-thread-scope" names)
  | .error (.validation (.policy e)) => pure (policyErr e)
  | .error (.validation (.deps e)) => pure (depsErr e)
  | .error (.validation (.fixture e)) => pure (fixtureErr e)
  | .ok prep =>
    let R := prep.registry
    let S := Prepare.toFixtureSuites (Inject.lowerL sched)
    let declared := Inject.flattenDL sched
    let dsess := Fixture.usedInSuites S fd
    let suites := Fixture.withInhSuites false S
    let suiteRows := suites.map (fun (inh, s) =>
      Json.arr #[Json.str s.path, schedJson (Fixture.scheduled R (Fixture.usedInSuite inh s fd) .suite)])
    let testRows := suites.flatMap (fun (_, s) => s.tests.map (fun t =>
      Json.arr #[Json.str t.path, schedJson (Fixture.scheduled R t.fixtures .test)]))
    let sims := suites.flatMap (fun (inh, s) => (s.tests.filter (fun t => Fixture.testRuns inh s t fd)).map (fun t =>
      Json.arr #[Json.str t.path,
        Json.str (simulate R dsess (Fixture.usedInSuite inh s fd) t.fixtures s.fixtures t.fixtures
                    (Fixture.suiteInitialised inh s fd))]))
    pure (Json.mkObj [
      ("result", "ok"),
      ("registry", strs (Fixture.names R)),
      ("injected", Json.arr (declared.map (fun d => Json.arr #[Json.str d.path, strs (Inject.injectedNames d.attrs)])).toArray),
      ("assigned", Json.arr (declared.map (fun d => Json.arr #[Json.str d.path, strs (Inject.assigned d.attrs)])).toArray),
      ("resolved", Json.arr (prep.resolved.map (fun (t, ds) => Json.arr #[Json.str t, strs ds])).toArray),
      ("pre_run", schedJson (Fixture.scheduled R dsess .preRun)),
      ("session", schedJson (Fixture.scheduled R dsess .session)),
      ("suites", Json.arr suiteRows.toArray),
      ("tests", Json.arr testRows.toArray),
      ("sim", Json.arr sims.toArray)])

def main : IO Unit := loop (wrap handle)

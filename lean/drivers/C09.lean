/-
  Driver for the C09 streams.
    {"op":"json","report":R,"g":ms}   → {"ok": report'} | {"err": class}
    {"op":"xml","report":R,"g":ms}    → {"safe": bool, "repr": bool, "outcome": "save-error"|"parse-error"|"load-error"|"none-text"|"ok", …}
    {"op":"etnorm","elem":X}          → {"ok": X'} | {"err": "encode"|"parse"}
  Run: `lake env lean --run drivers/C09.lean`
-/
import LccModel.Proto
import LccModel.ProtoReport
import LccModel.Model.Serial
open Lean LccModel LccModel.Proto LccModel.ProtoReport LccModel.Report LccModel.Serial

partial def decElem (j : Json) : Except String XElem := do
  let tag ← (← field j "tag").getStr?
  let attrs ← decList (fun a => do
    let arr ← a.getArr?
    match arr.toList with
    | [k, v] => pure ((← k.getStr?), XVal.text (← decStr v))
    | _ => throw "attr pair expected") (← field j "attrs")
  let text ← decOpt decStr (fieldOpt j "text")
  let cs ← decList decElem (← field j "children")
  pure (.mk tag attrs text cs)

partial def encElem : XElem → Json
  | .mk tag attrs text cs =>
    Json.mkObj [("tag", Json.str tag),
                ("attrs", encList (fun (k, v) => Json.arr #[Json.str k, match v with
                    | .text s => encStr s
                    | .time t => Json.num t
                    | .num n => Json.num n]) attrs),
                ("text", encOptStr text), ("children", encList encElem cs)]

def loadErrClass : LoadErr → String
  | .noneText w => "none-text:" ++ w
  | .missingKey k => "KeyError:" ++ k
  | .wrongType w => "wrong-type:" ++ w
  | .noVersion | .badVersion | .badRoot => "ReportLoadingError"
  | .unknownEntry => "ValueError"
  | .fuel => "model-fuel"

def handle (j : Json) : Except String Json := do
  let op ← getStr j "op"
  match op with
  | "json" =>
    let r ← decReport (← field j "report")
    let g ← getNat j "g"
    match fromJson (toJson g r) with
    | .ok r' => pure (Json.mkObj [("ok", encReport r'), ("repr", Json.bool (representable r))])
    | .error e => pure (Json.mkObj [("err", Json.str (loadErrClass e))])
  | "xml" =>
    let r ← decReport (← field j "report")
    let g ← getNat j "g"
    let base : List (String × Json) := [("safe", Json.bool (xmlSafe r)), ("repr", Json.bool (representable r))]
    match xmlRoundTrip g r with
    | .saveError (.noneTime w) => pure (Json.mkObj (base ++ [("outcome", Json.str "save-error"), ("class", Json.str "TypeError"), ("what", Json.str w)]))
    | .saveError .encode => pure (Json.mkObj (base ++ [("outcome", Json.str "save-error"), ("class", Json.str "UnicodeEncodeError")]))
    | .textError _ => pure (Json.mkObj (base ++ [("outcome", Json.str "parse-error")]))
    | .loadError (.noneText w) => pure (Json.mkObj (base ++ [("outcome", Json.str "none-text"), ("what", Json.str w)]))
    | .loadError e => pure (Json.mkObj (base ++ [("outcome", Json.str "load-error"), ("class", Json.str (loadErrClass e))]))
    | .loaded r' => pure (Json.mkObj (base ++ [("outcome", Json.str "ok"), ("report", encReport r')]))
  | "etnorm" =>
    let x ← decElem (← field j "elem")
    match etNorm x with
    | .ok y => pure (Json.mkObj [("ok", encElem y)])
    | .error .encode => pure (Json.mkObj [("err", "encode")])
    | .error .parse => pure (Json.mkObj [("err", "parse")])
  | _ => throw s!"unknown op {op}"

def main : IO Unit := loop (wrap handle)

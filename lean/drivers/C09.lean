/-
  Driver for the C09 streams.
    {"op":"json","report":R,"g":ms}   → {"ok": report'} | {"err": class}
    {"op":"xml","report":R,"g":ms}    → {"safe": bool, "repr": bool, "outcome": "save-error"|"parse-error"|"load-error"|"none-text"|"ok", …}
    {"op":"etnorm","elem":X}          → {"ok": X'} | {"err": "encode"|"parse"}
    {"op":"json", …, "opts":{"jc":b,"pretty":b}, "head":[code points of the first characters of the real file]}
        additionally → "frame_ok": the head starts with `frame opts "{"`, "unframed": `unframe head`
    {"op":"seq","report":R0,"ops":[{"k":"set","report":R} | {"k":"save","path":n,"fmt":"json"|"xml","jc":b,"pretty":b,"g":ms}
                                   | {"k":"load","path":n}]}
        → {"outcomes":[{"o":"saved"} | {"o":"save-error","class"} | {"o":"no-file"} | {"o":"parse-error"}
                        | {"o":"none-text","what"} | {"o":"load-error","class"} | {"o":"loaded","report":R'}]}   (`Store.run`)
    {"op":"escape","s":[code points]} → {"out":[code points of `jsonEscape s`], "ascii":bool, "utf8":bool, "latin1":bool
                                          (can the RAW string be written with that encoding)}
    {"op":"dir","target":name,"tmp":"beside"|{"system":dev},"dirs":[{"name","dev","entries":[{"name","kind":"subdir"|"other"|"json"|"xml",
             ("report","g","jc","pretty" for the two last)}]}],"save":{"file":name,"fmt":"json"|"xml","jc","pretty","g","report":R},"order":[names in os.listdir order]}   (kind "hostile": a file a backend crashes on)
        → {"save":"saved"|"cross-device"|"save-error", "names":[entries of the target directory afterwards],
           "load":{"o":"no-dir"|"no-report"|"loaded","report"}, "count": number of reports the directory lists}   (`DirStore.saveInto`, `loadDir`)
  Run: `lake env lean --run drivers/C09.lean`
-/
import LccModel.Proto
import LccModel.ProtoReport
import LccModel.Model.Serial
import LccModel.Model.Store
import LccModel.Model.DirStore
open Lean LccModel LccModel.Proto LccModel.ProtoReport LccModel.Report LccModel.Serial LccModel.JsonFile LccModel.Store

partial def decElem (j : Json) : Except String XElem := do
  let tag ← (← field j "tag").getStr?
  let attrs ← decList (fun a => do
    let arr ← a.getArr?
    match arr.toList with
    | [k, v] => pure ((← k.getStr?), XVal.text (← decStr v))
    | _ => throw "attr pair expected") (← field j "attrs")
  let text ← decOpt decStr (fieldOpt j "text")
  let cs ← decList decElem (← field j "children")
  pure (.mk tag attrs text cs)

partial def encElem : XElem → Json
  | .mk tag attrs text cs =>
    Json.mkObj [("tag", Json.str tag),
                ("attrs", encList (fun (k, v) => Json.arr #[Json.str k, match v with
                    | .text s => encStr s
                    | .time t => Json.num t
                    | .num n => Json.num n]) attrs),
                ("text", encOptStr text), ("children", encList encElem cs)]

def loadErrClass : LoadErr → String
  | .noneText w => "none-text:" ++ w
  | .missingKey k => "KeyError:" ++ k
  | .wrongType w => "wrong-type:" ++ w
  | .noVersion | .badVersion | .badRoot => "ReportLoadingError"
  | .unknownEntry => "ValueError"
  | .fuel => "model-fuel"

def decOpts (j : Json) : Except String Opts := do
  pure { jsCompat := (← getBool j "jc"), pretty := (← getBool j "pretty") }

def decNats (j : Json) : Except String (List Nat) := do
  (← j.getArr?).toList.mapM (fun x => x.getNat?)

def decOp (j : Json) : Except String Op := do
  match (← getStr j "k") with
  | "set" =>
    let r ← decReport (← field j "report")
    pure (.mutate (fun _ => r))
  | "save" =>
    let p ← getNat j "path"
    let g ← getNat j "g"
    let fmt ← match (← getStr j "fmt") with
      | "json" => do pure (Fmt.json (← decOpts j))
      | "xml" => pure Fmt.xml
      | f => throw s!"unknown format {f}"
    pure (Op.save p fmt g)
  | "load" => pure (.load (← getNat j "path"))
  | k => throw s!"unknown op kind {k}"

def encOutcome : Outcome → Json
  | .saved => Json.mkObj [("o", "saved")]
  | .saveFailed (.noneTime w) => Json.mkObj [("o", "save-error"), ("class", "TypeError"), ("what", Json.str w)]
  | .saveFailed .encode => Json.mkObj [("o", "save-error"), ("class", "UnicodeEncodeError")]
  | .noFile => Json.mkObj [("o", "no-file")]
  | .loadFailedText => Json.mkObj [("o", "parse-error")]
  | .loadFailed (.noneText w) => Json.mkObj [("o", "none-text"), ("what", Json.str w)]
  | .loadFailed e => Json.mkObj [("o", "load-error"), ("class", Json.str (loadErrClass e))]
  | .loaded r => Json.mkObj [("o", "loaded"), ("report", encReport r)]

def decFmt (j : Json) : Except String Fmt := do
  match (← getStr j "fmt") with
  | "json" => do pure (Fmt.json (← decOpts j))
  | "xml" => pure Fmt.xml
  | f => throw s!"unknown format {f}"

def decDirEntry (j : Json) : Except String (DirStore.Name × DirStore.Entry) := do
  let n := (← getStr j "name").toList
  match (← getStr j "kind") with
  | "subdir" => pure (n, .subdir)
  | "other" => pure (n, .other)
  | "hostile" => pure (n, .hostile)
  | k =>
    let r ← decReport (← field j "report")
    let g ← getNat j "g"
    let fmt ← if k == "json" then do pure (Fmt.json (← decOpts j)) else pure Fmt.xml
    match DirStore.contentOf fmt g r with
    | .ok c => pure (n, .file c)
    | .error _ => pure (n, .other)

def decDir (j : Json) : Except String DirStore.Dir := do
  pure { name := (← getStr j "name").toList, dev := (← getNat j "dev"), entries := (← decList decDirEntry (← field j "entries")) }

def handle (j : Json) : Except String Json := do
  let op ← getStr j "op"
  match op with
  | "json" =>
    let r ← decReport (← field j "report")
    let g ← getNat j "g"
    let frameInfo : List (String × Json) ← match fieldOpt j "opts", fieldOpt j "head" with
      | .null, _ => pure []
      | _, .null => pure []
      | oj, hj => do
        let o ← decOpts oj
        let head := (← decNats hj).map Char.ofNat
        let want := frame o ['{']
        pure [("frame_ok", Json.bool (head.take want.length == want)),
              ("unframed", Json.arr ((unframe head).map (fun c => Json.num c.toNat)).toArray)]
    match fromJson (toJson g r) with
    | .ok r' => pure (Json.mkObj ([("ok", encReport r'), ("repr", Json.bool (representable r))] ++ frameInfo))
    | .error e => pure (Json.mkObj ([("err", Json.str (loadErrClass e))] ++ frameInfo))
  | "xml" =>
    let r ← decReport (← field j "report")
    let g ← getNat j "g"
    let base : List (String × Json) := [("safe", Json.bool (xmlSafe r)), ("repr", Json.bool (representable r))]
    match xmlRoundTrip g r with
    | .saveError (.noneTime w) => pure (Json.mkObj (base ++ [("outcome", Json.str "save-error"), ("class", Json.str "TypeError"), ("what", Json.str w)]))
    | .saveError .encode => pure (Json.mkObj (base ++ [("outcome", Json.str "save-error"), ("class", Json.str "UnicodeEncodeError")]))
    | .textError _ => pure (Json.mkObj (base ++ [("outcome", Json.str "parse-error")]))
    | .loadError (.noneText w) => pure (Json.mkObj (base ++ [("outcome", Json.str "none-text"), ("what", Json.str w)]))
    | .loadError e => pure (Json.mkObj (base ++ [("outcome", Json.str "load-error"), ("class", Json.str (loadErrClass e))]))
    | .loaded r' => pure (Json.mkObj (base ++ [("outcome", Json.str "ok"), ("report", encReport r')]))
  | "etnorm" =>
    let x ← decElem (← field j "elem")
    match etNorm x with
    | .ok y => pure (Json.mkObj [("ok", encElem y)])
    | .error .encode => pure (Json.mkObj [("err", "encode")])
    | .error .parse => pure (Json.mkObj [("err", "parse")])
  | "seq" =>
    let r0 ← decReport (← field j "report")
    let ops ← decList decOp (← field j "ops")
    pure (Json.mkObj [("outcomes", Json.arr ((Store.run (St.init r0) ops).map encOutcome).toArray)])
  | "dir" =>
    let fs ← decList decDir (← field j "dirs")
    let target := (← getStr j "target").toList
    let pl : DirStore.TmpPlace ← match fieldOpt j "tmp" with
      | .str _ => pure DirStore.TmpPlace.beside
      | t => do pure (DirStore.TmpPlace.system (← getNat t "system"))
    let sv ← field j "save"
    let r ← decReport (← field sv "report")
    let (fs', out) := DirStore.saveInto pl fs target (← getStr sv "file").toList (← decFmt sv) (← getNat sv "g") r
    -- the entries of the target directory in the order `os.listdir` really gave them ("order"; unlisted ones last)
    let order : List DirStore.Name ← match fieldOpt j "order" with
      | .null => pure []
      | oj => do pure ((← decList (fun x => x.getStr?) oj).map String.toList)
    let ents : List (DirStore.Name × DirStore.Entry) := match DirStore.findDir target fs' with
      | some d => order.filterMap (fun n => d.entries.find? (fun e => e.1 == n)) ++ d.entries.filter (fun e => !order.contains e.1)
      | none => []
    let names := ents.map (fun (e : DirStore.Name × DirStore.Entry) => Json.str (String.ofList e.1))
    let count : Json := match DirStore.loadAll ents with
      | some l => Json.num l.length
      | none => Json.str "crashed"
    let ld := match DirStore.findDir target fs' with
      | none => Json.mkObj [("o", "no-dir")]
      | some _ => match DirStore.firstLoad ents with
        | .noDir => Json.mkObj [("o", "no-dir")]
        | .noReport => Json.mkObj [("o", "no-report")]
        | .crashed => Json.mkObj [("o", "crashed")]
        | .loaded r' => Json.mkObj [("o", "loaded"), ("report", encReport r')]
    let so := match out with
      | .saved => "saved"
      | .crossDevice => "cross-device"
      | .serialiseFailed _ => "save-error"
    pure (Json.mkObj [("save", Json.str so), ("names", Json.arr names.toArray), ("count", count), ("load", ld)])
  | "escape" =>
    let s ← decNats (← field j "s")
    pure (Json.mkObj [("out", Json.arr ((jsonEscape s).map (fun (n : Nat) => Json.num n)).toArray),
                      ("ascii", Json.bool (writeOk .ascii s)), ("latin1", Json.bool (writeOk .latin1 s)),
                      ("utf8", Json.bool (writeOk .utf8 s))])
  | _ => throw s!"unknown op {op}"

def main : IO Unit := loop (wrap handle)

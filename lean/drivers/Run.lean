/-
  Driver of the run-level acceptor (`Model/RunAccept.lean`): decodes a project description, the task
  graph extracted from the real `build_tasks` and the globally sequenced trace of a real run
  (design.d/run-schema.md), checks the graph against `Run.buildTasks` and its well-formedness
  certificate, replays the trace, folds the fired events with the writer model, and reports.
  Run: `lake env lean --run drivers/Run.lean`
-/
import LccModel.Proto
import LccModel.ProtoReport
import LccModel.Model.RunAccept
import LccModel.Model.RunOutcome
import LccModel.Model.ProjectRun
import LccModel.Model.Writer
import LccModel.Model.Grammar
open Lean LccModel LccModel.Proto LccModel.ProtoReport LccModel.Report LccModel.Run LccModel.RunAccept

def strs (j : Json) : Except String (List String) := do (← j.getArr?).toList.mapM (fun x => x.getStr?)
def fstrs (j : Json) (k : String) : Except String (List String) := do strs (← field j k)
def fbool (j : Json) (k : String) : Except String Bool := do (← field j k).getBool?
def fnat (j : Json) (k : String) : Except String Nat := do (← field j k).getNat?

/-- the class of the raised object: `kind` names the framework class, `sub` says the object is an instance of a
    project-defined subclass of it; the model classifies it with `ExcClass.kind` (isinstance semantics) -/
def decClass (k : String) (sub : Bool) : Except String ExcClass :=
  match ExcClass.ofName k sub with
  | some c => pure c
  | none => throw s!"unknown raise kind {k} (sub={sub})"

partial def decAct (j : Json) : Except String Act := do
  match (← (← field j "a").getStr?) with
  | "log" => pure (.log (← decLevel (← field j "level")))
  | "check" => pure (.check (← fbool j "ok"))
  | "step" => pure (.step (← (← field j "d").getStr?))
  -- `with lcc.detached_step(d): pass` — lowered as `SessionApi.lower` says (entering = set_step(d), leaving = nothing;
  -- `C07.detached_enter_is_set_step`, `C07.detached_exit_does_nothing`)
  | "detached" => pure (.step (← (← field j "d").getStr?))
  | "url" => pure .url
  | "attach" => pure .attach
  | "raise" =>
    let sub := match fieldOpt j "sub" with | .bool b => b | _ => false
    -- "base": the object is a BaseException that is no Exception: SystemExit, or another one (GeneratorExit, a project's own);
    -- "args" (what an Abort* was constructed with) only shapes the message text, which is not modelled
    match fieldOpt j "base" with
    | .str "SystemExit" => pure (.raise .sysExit)
    | .str _ => pure (.raise .baseExc)
    | _ => pure (.raise (← decClass (← (← field j "kind").getStr?) sub).kind)
  | "gate" => pure .gate
  | "thread" => pure (.thread (← (← (← field j "script").getArr?).toList.mapM decAct))
  | "attachw" => pure (.attachBlock (← (← (← field j "script").getArr?).toList.mapM decAct))
  | a => throw s!"unknown act {a}"

def decScript (j : Json) : Except String Script := do (← j.getArr?).toList.mapM decAct
def decOptScript (j : Json) : Except String (Option Script) :=
  match j with | .null => pure none | j => do pure (some (← decScript j))

def decScope : String → Except String Scope
  | "test" => pure .test | "suite" => pure .suite | "session" => pure .session | "pre_run" => pure .preRun
  | s => throw s!"unknown scope {s}"

def decFx (j : Json) : Except String (List Fx) := do
  let name ← (← field j "name").getStr?
  let names ← (match fieldOpt j "names" with | .null => pure [name] | x => strs x)
  let scope ← decScope (← (← field j "scope").getStr?)
  let fx : Fx := { name := name, func := names.headD name, scope := scope, perThread := ← fbool j "per_thread",
                   params := ← fstrs j "params", gen := ← fbool j "gen", setup := ← decScript (← field j "setup"),
                   teardown := ← decScript (← field j "teardown") }
  pure (names.map (fun n => { fx with name := n }))

def decTestSpec (j : Json) : Except String TestSpec := do
  let d ← field j "disabled"
  let (dis, reason) := match d with
    | .bool b => (b, false)
    | .str _ => (true, true)
    | _ => (false, false)
  let deps ← (← (← field j "deps").getArr?).toList.mapM strs
  pure { name := ← (← field j "name").getStr?, rank := ← fnat j "rank", disabled := dis, disabledReason := reason,
         deps := deps, fixtures := ← fstrs j "fixtures", script := ← decScript (← field j "script") }

partial def decSuiteSpec (j : Json) : Except String SuiteSpec := do
  let ss ← (match fieldOpt j "setup_suite" with
    | .null => pure none
    | x => do pure (some (← fstrs x "params", ← decScript (← field x "script"))))
  pure (.mk (← (← field j "name").getStr?) (← fnat j "rank") (← fbool j "disabled") ss
        (← decOptScript (fieldOpt j "teardown_suite")) (← decOptScript (fieldOpt j "setup_test"))
        (← decOptScript (fieldOpt j "teardown_test")) (← fstrs j "injected")
        (← (← (← field j "tests").getArr?).toList.mapM decTestSpec)
        (← (← (← field j "suites").getArr?).toList.mapM decSuiteSpec))

def decProj (j : Json) : Except String Proj := do
  let fxs ← (← (← field j "fixtures").getArr?).toList.mapM decFx
  pure { fixtures := fxs.flatten, suites := ← (← (← field j "suites").getArr?).toList.mapM decSuiteSpec,
         nbThreads := ← fnat j "nb_threads", forceDisabled := ← fbool j "force_disabled",
         stopOnFailure := ← fbool j "stop_on_failure" }

def decTaskKind : String → Except String TaskKind
  | "sessSetup" => pure .sessSetup | "sessTeardown" => pure .sessTeardown | "begin" => pure .begin
  | "init" => pure .init | "test" => pure .test | "teardown" => pure .teardown | "end" => pure .end_
  | k => throw s!"unknown task kind {k}"

def natList (j : Json) : Except String (List Nat) := do (← j.getArr?).toList.mapM (fun d => d.getNat?)

def decGTask (j : Json) : Except String GTask := do
  let path ← (match fieldOpt j "path" with | .null => pure [] | x => strs x)
  pure { kind := ← decTaskKind (← (← field j "kind").getStr?), path := path,
         succ := ← natList (← field j "succ"), compl := ← natList (← field j "compl") }

/-- unit ids travel as flat lists: ["fx",func,"setup"|"teardown"] | ["hook",path,hook,test|null] | ["body",path],
    followed by any number of "th", i (script of an lcc.Thread) or "blk", i (body of an attachment block) pairs -/
def decUnit (j : Json) : Except String UnitId := do
  let a ← j.getArr?
  let l := a.toList
  let (base, rest) ← (match l with
    | k :: more => do
      match (← k.getStr?) with
      | "fx" => (match more with
          | f :: w :: rest => do pure (UnitId.fx (← f.getStr?) ((← w.getStr?) == "teardown"), rest)
          | _ => throw "bad fx unit")
      | "hook" => (match more with
          | p :: h :: t :: rest => do
            let tp ← (match t with | .null => pure none | x => do pure (some (← strs x)))
            pure (UnitId.hook (← strs p) (← h.getStr?) tp, rest)
          | _ => throw "bad hook unit")
      | "body" => (match more with
          | p :: rest => do pure (UnitId.body (← strs p), rest)
          | _ => throw "bad body unit")
      | k => throw s!"unknown unit kind {k}"
    | [] => throw "empty unit")
  let rec go (u : UnitId) : List Json → Except String UnitId
    | [] => pure u
    | t :: i :: rest => do
      match (← t.getStr?) with
      | "th" => go (.th u (← i.getNat?)) rest
      | "blk" => go (.blk u (← i.getNat?)) rest
      | _ => throw "bad unit suffix"
    | _ => throw "bad unit suffix"
  go base rest

def decResClass : String → Except String ResClass
  | "success" => pure .success | "failure" => pure .failure | "skipped" => pure .skipped | "exception" => pure .exception
  | s => throw s!"unknown result class {s}"

def decRec (j : Json) : Except String Rec := do
  let a ← j.getArr?
  let k ← a[0]!.getStr?
  match k with
  | "init" => pure (.init (← natList a[1]!))
  | "start" => pure (.start (← a[1]!.getNat?) (← a[2]!.getNat?) (← a[3]!.getBool?) (← a[4]!.getBool?) (← a[5]!.getBool?))
  | "fire" => pure (.fire (← a[1]!.getNat?) (← decEvent a[2]!))
  | "user" => pure (.user (← a[1]!.getNat?) (← decUnit a[2]!) (← a[3]!.getStr?))
  | "finish" => pure (.finish (← a[1]!.getNat?) (← decResClass (← a[2]!.getStr?)))
  | "receive" => pure (.receive (← a[1]!.getNat?) (← natList a[2]!))
  | "interrupt" => pure (.interrupt (← natList a[1]!))
  | "handled" => pure (.handled (← a[1]!.getNat?))
  | "backend-raise" =>
    -- third field (optional): the class name of what the handler raised
    let cls := (a[2]? >>= fun j => j.getStr?.toOption).getD "Exception"
    pure (.backendRaise (← a[1]!.getNat?) (LccModel.RunOutcome.pendingAfter (LccModel.RunOutcome.FaultClass.ofName cls) "").isSome)
  | "handler-exit" => pure .handlerExit
  | k => throw s!"unknown record {k}"

def encTaskId (t : TaskId) : Json :=
  Json.mkObj [("kind", Json.str (match t.kind with
    | .sessSetup => "sessSetup" | .sessTeardown => "sessTeardown" | .begin => "begin" | .init => "init"
    | .test => "test" | .teardown => "teardown" | .end_ => "end")), ("path", Json.arr (t.path.map Json.str).toArray)]

/-- the project-level entry point (`PreparedProject.run`, Model/ProjectRun.lean) for the hooks of the request
    (`"project_hooks": {"pre": kind, "post": kind}`) and the outcome `o` of `run_suites`: "calls => outcome" -/
def projectAnswer (ph : Json) (o : RunOutcome.Outcome) : Except String Json := do
  let pre ← (← field ph "pre").getStr?
  let post ← (← field ph "post").getStr?
  pure (Json.str (ProjectRun.render (ProjectRun.run (ProjectRun.Hook.ofName pre) (ProjectRun.Hook.ofName post) o)))

def handleRun (j : Json) : Except String Json := do
  let P ← decProj (← field j "project")
  let gts ← (← (← field (← field j "graph") "tasks").getArr?).toList.mapM decGTask
  let recs ← (← (← field j "trace").getArr?).toList.mapM decRec
  -- 1. the graph: model vs real (`RunAccept.graphOk`: same tasks, same dependency lists, distinct ids)
  let mts := buildTasks P
  let graphOk := RunAccept.graphOk P gts
  let graphDiff : Json :=
    if graphOk then Json.null
    else Json.mkObj [("model", Json.arr (mts.map (fun t => Json.mkObj [("id", encTaskId t.id),
            ("succ", Json.arr (t.succ.map encTaskId).toArray), ("compl", Json.arr (t.compl.map encTaskId).toArray)])).toArray)]
  -- 2. well-formedness certificate (levels computed here by iterating to a fixpoint)
  let k := gts.length
  let g : Sched.Graph Nat := natGraph gts
  let lvlArr : Array Nat := Id.run do
    let mut lv := Array.replicate k 0
    for _ in [0:k+1] do
      for t in [0:k] do
        let ds := g.deps t
        let m := ds.foldl (fun acc d => max acc (lv.getD d 0 + 1)) 0
        lv := lv.set! t (max (lv.getD t 0) m)
    return lv
  let wf := Sched.checkWF g (fun t => lvlArr.getD t 0)
  -- 3. replay (`RunAccept.replay`: the fold of `stepRec` the soundness theorem of Props/C01Accept.lean is about)
  let parents : List (Nat × Nat) ← (match fieldOpt j "threads" with
    | .null => pure []
    | x => do (← x.getArr?).toList.mapM (fun e => do
        let a ← e.getArr?
        pure (← a[0]!.getNat?, ← a[1]!.getNat?)))
  let ctx : Ctx := mkCtx P gts parents
  let outcome := RunAccept.replay ctx recs
  let st : G := outcome.state
  let i := outcome.accepted
  let reject := outcome.reject
  -- 4. the report the writer model builds from the fired events, and the grammar verdicts
  let fired := st.fired.toList
  -- the observation drops times (t = 0); the grammar wants real (non-zero) times: put 1 everywhere
  let firedG := fired.map (RunAccept.retime 1)
  let rep : Json := match Writer.fold fired with
    | .ok r => encReport r
    | .error e => Json.mkObj [("writer_error", Json.str (toString (repr e)))]
  let results := (List.range k).map (fun (t : Nat) => Json.arr #[Json.num t,
      match st.sched.result t with
      | some .success => "success" | some .failure => "failure" | some .skipped => "skipped"
      | some .exception => "exception" | none => Json.null])
  -- `run_suites` raised the errors of its own pre_run-fixture loops (Model/PreRun.lean `raisedErrors`; observed fact)
  let ownErrors := match fieldOpt j "run_errors" with | .bool b => b | _ => false
  pure (Json.mkObj [
    ("graph_ok", Json.bool graphOk), ("graph_diff", graphDiff), ("wf", Json.bool wf),
    ("accepted", Json.num i), ("reject", match reject with | none => Json.null | some r => Json.str r),
    ("final", Json.bool (Sched.finalB g st.sched)), ("running_left", Json.num st.running.length),
    ("session_started", Json.bool st.sessionStarted), ("session_ended", Json.bool st.sessionEnded),
    ("results", Json.arr results.toArray),
    ("grammar_parallel", Json.bool (Grammar.run .parallel Grammar.init firedG).isSome),
    ("grammar_wellformed", Json.bool (match Grammar.run .parallel Grammar.init firedG with | some gs => gs.phase == .ended | none => false)),
    ("grammar_sequential", Json.bool (Grammar.run .seq Grammar.init firedG).isSome),
    ("report", rep),
    ("any_failed", Json.bool st.defF.failed),
    ("project", ← (match fieldOpt j "project_hooks" with
      | .null => pure Json.null
      | ph => projectAnswer ph (if ownErrors then .raisedInternal else RunOutcome.outcome {
          interrupted := st.defF.interrupted,
          taskException := (List.range k).any (fun t => match st.sched.result t with | some .exception => true | _ => false),
          pending := if st.defF.pending || st.startedEff.pending then some "T" else none,
          successful := !st.defF.failed }))),
    ("pre_run", Json.arr (preRunFixtures P |>.map Json.str).toArray)])

/-- a run that never reached `run_tasks` (`"project_only": true`: pre_run failed) is answered from the hooks alone -/
def handle (j : Json) : Except String Json := do
  match fieldOpt j "project_only" with
  | .bool true => do
    let ownErrors := match fieldOpt j "run_errors" with | .bool b => b | _ => false
    let a ← projectAnswer (← field j "project_hooks") (if ownErrors then .raisedInternal else .returned true)
    pure (Json.mkObj [("project", a)])
  | _ => handleRun j

def main : IO Unit := loop (wrap handle)

/-
  Driver for the C12 correspondence streams (`C12.glob`, `C12.filter`, `C12.report`).
  Text travels as arrays of code points.
  Run: `lake env lean --run drivers/C12.lean`
-/
import LccModel.Proto
import LccModel.Model.Filter
import LccModel.Model.ReportStore
open Lean LccModel LccModel.Proto LccModel.Filter
open LccModel.Regex (CSet Item Cat)

def pStr (j : Json) : Except String Str := do
  let a ← j.getArr?
  a.toList.mapM (fun x => x.getNat?)

def pList {α} (f : Json → Except String α) (j : Json) : Except String (List α) := do
  let a ← j.getArr?
  a.toList.mapM f

def pPair {α β} (f : Json → Except String α) (g : Json → Except String β) (j : Json) : Except String (α × β) := do
  let a ← j.getArr?
  match a.toList with
  | [x, y] => pure (← f x, ← g y)
  | _ => throw "pair expected"

def pOpt {α} (f : Json → Except String α) (j : Json) : Except String (Option α) :=
  match j with
  | .null => pure none
  | _ => do pure (some (← f j))

def fld (j : Json) (k : String) : Except String Json := j.getObjVal? k

def pNode (j : Json) : Except String Node := do
  pure { name := ← pStr (← fld j "name"), desc := ← pStr (← fld j "desc"),
         tags := ← pList pStr (← fld j "tags"),
         props := ← pList (pPair pStr pStr) (← fld j "props"),
         links := ← pList (pPair pStr (pOpt pStr)) (← fld j "links"),
         disabled := ← (← fld j "disabled").getBool? }

def pStatus (j : Json) : Except String Status := do
  match ← j.getStr? with
  | "passed" => pure .passed
  | "failed" => pure .failed
  | "skipped" => pure .skipped
  | "disabled" => pure .disabled
  | s => throw s!"status {s}"

def pLog (j : Json) : Except String LogEntry := do
  match ← getStr j "kind" with
  | "log" => pure (.log (← pStr (← fld j "message")))
  | "check" => pure (.check (← pStr (← fld j "description")) (← pOpt pStr (← fld j "details")))
  | "attachment" => pure (.attachment (← pStr (← fld j "filename")) (← pStr (← fld j "description")))
  | "url" => pure (.url (← pStr (← fld j "url")) (← pStr (← fld j "description")))
  | k => throw s!"log kind {k}"

def pStep (j : Json) : Except String Step := do
  pure { description := ← pStr (← fld j "description"), logs := ← pList pLog (← fld j "logs") }

def pTestRes (j : Json) : Except String TestRes := do
  pure { node := ← pNode (← fld j "node"), status := ← pOpt pStatus (← fld j "status"),
         steps := ← pList pStep (← fld j "steps") }

partial def pTree {τ} (f : Json → Except String τ) (j : Json) : Except String (Tree τ) := do
  pure (.mk (← pNode (← fld j "node")) (← pList f (← fld j "tests")) (← pList (pTree f) (← fld j "subs")))

def pBase (j : Json) : Except String Base := do
  pure { paths := ← pList pStr (← fld j "paths"),
         descs := ← pList (pList pStr) (← fld j "descs"),
         tags := ← pList (pList pStr) (← fld j "tags"),
         props := ← pList (pList (pPair pStr pStr)) (← fld j "props"),
         links := ← pList (pList pStr) (← fld j "links") }

def pCat (j : Json) : Except String Cat := do
  match ← j.getStr? with
  | "space" => pure .space
  | "digit" => pure .digit
  | "word" => pure .word
  | s => throw s!"category {s}"

def pItem (j : Json) : Except String Item := do
  match ← getStr j "k" with
  | "single" => pure (.single (← (← fld j "c").getNat?))
  | "range" => pure (.range (← (← fld j "lo").getNat?) (← (← fld j "hi").getNat?))
  | "cat" => pure (.cat (← pCat (← fld j "cat")) (← getBool j "neg"))
  | k => throw s!"set item {k}"

/-- The pattern as the harness read it off Python's own parse tree (`re._parser.parse`). -/
partial def pRE (j : Json) : Except String RE := do
  match ← getStr j "t" with
  | "eps" => pure .eps
  | "lit" => pure (.lit (← (← fld j "c").getNat?))
  | "any" => pure .any
  | "set" => pure (.set { neg := ← getBool j "neg", items := ← pList pItem (← fld j "items") })
  | "bol" => pure .bol
  | "eol" => pure .eol
  | "bos" => pure .bos
  | "eos" => pure .eos
  | "wordb" => pure (.wordB (← getBool j "neg"))
  | "seq" => pure (.seq (← pRE (← fld j "a")) (← pRE (← fld j "b")))
  | "alt" => pure (.alt (← pRE (← fld j "a")) (← pRE (← fld j "b")))
  | "star" => pure (.star (← pRE (← fld j "a")))
  | t => throw s!"regex node {t}"

def pCli (j : Json) : Except String Cli := do
  let grep ← pOpt pStr (← fld j "grep")
  let ast := (j.getObjVal? "grep_ast").toOption.getD .null
  let c : Cli :=
       { base := ← pBase j, enabled := ← getBool j "enabled", disabled := ← getBool j "disabled",
         passed := ← getBool j "passed", failed := ← getBool j "failed", skipped := ← getBool j "skipped",
         nonPassed := ← getBool j "non_passed", grep := grep,
         fromReport := ← getBool j "from_report" }
  match ast with
  | .null => pure c
  | a => pure { c with grepRe := ← pRE a }

def jStr (s : Str) : Json := Json.arr (s.map (fun (n : Nat) => Json.num (JsonNumber.fromNat n))).toArray
def jList {α} (f : α → Json) (l : List α) : Json := Json.arr (l.map f).toArray

def errName : SelError → String
  | .enabledAndDisabled => "enabled-and-disabled"
  | .noTestDefined => "no-test-defined"
  | .noMatch => "no-match"

def outcome (r : Except SelError (List Suite)) : Json :=
  match r with
  | .error e => Json.mkObj [("outcome", Json.str (errName e))]
  | .ok kept =>
    Json.mkObj [("outcome", Json.str "ok"),
      ("tests", jList (fun x => jStr (pathOf (testHier x))) (flattenSuites [] kept)),
      ("suites", jList (fun x => jStr (pathOf (suiteHier x))) (allSuites [] kept))]

def handle (j : Json) : Except String Json := do
  match ← getStr j "op" with
  | "glob" =>
    let pat ← pStr (← fld j "pat")
    let strs ← pList pStr (← fld j "strs")
    pure (Json.mkObj [("m", jList (fun s => Json.bool (fnmatch pat s)) strs)])
  | "glob_many" =>
    let pats ← pList pStr (← fld j "pats")
    let strs ← pList pStr (← fld j "strs")
    pure (Json.mkObj [("mm", jList (fun p =>
      Json.str (String.join (strs.map (fun s => if fnmatch p s then "1" else "0")))) pats)])
  | "grep" =>
    let lit ← pStr (← fld j "lit")
    let strs ← pList pStr (← fld j "strs")
    pure (Json.mkObj [("m", jList (fun s => Json.bool (containsCI lit s)) strs)])
  | "regex" =>
    -- `re.compile(p, IGNORECASE | MULTILINE).search(s)` for every s; `joined`: one search over "\n".join(strs)
    let re ← pRE (← fld j "re")
    let strs ← pList pStr (← fld j "strs")
    pure (Json.mkObj [("m", jList (fun s => Json.bool (Regex.search re s)) strs),
                      ("joined", Json.bool (Regex.search re (Regex.joinNL strs))),
                      ("line_local", Json.bool re.lineLocal)])
  | "select" =>
    let suites ← pList (pTree pNode) (← fld j "suites")
    let report ← pList (pTree pTestRes) (← fld j "report")
    let cli ← pCli (← fld j "cli")
    let mode ← getStr j "mode"
    let res :=
      if mode == "api" then
        -- a `TestFilter` built through its constructor (no command-line validation)
        let f : TestFilter := { toBase := cli.base, enabled := cli.enabled, disabled := cli.disabled }
        loadSuites (!f.isEmpty) f.pred suites
      else selectCli cli report suites
    pure (outcome res)
  | "reportseq" =>
    -- one process, one project: rounds of (save the report at `path`, select with `cli` on that path)
    let suites ← pList (pTree pNode) (← fld j "suites")
    let rounds ← (← getArr j "rounds").toList.mapM (fun r => do
      let path ← getStr r "path"
      let report ← pList (pTree pTestRes) (← fld r "report")
      let cli ← pCli (← fld r "cli")
      pure [ReportStore.Op.save path report, ReportStore.Op.select cli path suites])
    let outs := ReportStore.run {} [] rounds.flatten
    pure (Json.mkObj [("rounds", Json.arr (outs.map (fun o => match o with
      | .noReport => Json.mkObj [("outcome", Json.str "no-report")]
      | .sel r => outcome r)).toArray)])
  | "filter_suites" =>
    -- bare `filter_suites(suites, TestFilter(...))`, no project-level checks
    let suites ← pList (pTree pNode) (← fld j "suites")
    let cli ← pCli (← fld j "cli")
    let f : TestFilter := { toBase := cli.base, enabled := cli.enabled, disabled := cli.disabled }
    pure (outcome (.ok (filterSuites f.pred [] suites)))
  | "result_filter" =>
    -- `filter(result_filter, report.all_tests())` : paths accepted on the report side
    let report ← pList (pTree pTestRes) (← fld j "report")
    let cli ← pCli (← fld j "cli")
    match makeTestFilter cli with
    | .ok (.report rf) => pure (Json.mkObj [("paths", jList jStr (fromReportPaths rf report))])
    | .ok (.tree _) => pure (Json.mkObj [("paths", Json.null)])
    | .error e => pure (Json.mkObj [("outcome", Json.str (errName e))])
  | op => throw s!"unknown op {op}"

def main : IO Unit := loop (wrap handle)

/-
  Driver for the C18 streams.
    {"op":"fold","events":[…],"nb_threads":n}          → {"ok": report} | {"err": pyClass, "at": index}
  Run: `lake env lean --run drivers/C18.lean`
-/
import LccModel.Proto
import LccModel.ProtoReport
import LccModel.Model.Writer
open Lean LccModel LccModel.Proto LccModel.ProtoReport LccModel.Report LccModel.Writer

def runIdx (w : WriterState) (es : List Event) (i : Nat) : Except (WriterErr × Nat) WriterState :=
  match es with
  | [] => .ok w
  | e :: rest =>
    match Writer.apply w e with
    | .ok w' => runIdx w' rest (i + 1)
    | .error err => .error (err, i)

def handle (j : Json) : Except String Json := do
  let op ← getStr j "op"
  match op with
  | "fold" =>
    let es ← decList decEvent (← field j "events")
    let nb ← getNat j "nb_threads"
    match runIdx (initState { Report.empty with nbThreads := nb }) es 0 with
    | .ok w => pure (Json.mkObj [("ok", encReport w.report)])
    | .error (e, i) => pure (Json.mkObj [("err", Json.str e.pyClass), ("at", Json.num i), ("detail", Json.str (reprStr e))])
  | _ => throw s!"unknown op {op}"

def main : IO Unit := loop (wrap handle)

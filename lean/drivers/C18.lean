/-
  Driver for the C18 streams.
    {"op":"fold","events":[…],"nb_threads":n}
        → {"ok": report} | {"err": pyClass, "at": index};  plus "grammar": {"lenient","prefix","complete","sequential"}
    {"op":"replay","report":R,"now":ms,"tid":n,"nb_threads":n}
        → {"events":[…], "fold": {"ok": report}|{"err":…}, "exact": bool, "names_ok": bool, "image_agrees": bool, "grammar": {…},
           "ranks_zero": bool, "literal_identity": bool}
    {"op":"replays","reports":[R,…],"now":ms,"tid":n,"nb_threads":n} → {"answers":[one "replay" answer per report]}
  Run: `lake env lean --run drivers/C18.lean`
-/
import LccModel.Proto
import LccModel.ProtoReport
import LccModel.Model.Writer
import LccModel.Model.Grammar
import LccModel.Model.Replay
import LccModel.Model.Serial
import LccModel.Lemmas.Writer
open Lean LccModel LccModel.Proto LccModel.ProtoReport LccModel.Report LccModel.Writer LccModel.Replay

def runIdx (w : WriterState) (es : List Event) (i : Nat) : Except (WriterErr × Nat) WriterState :=
  match es with
  | [] => .ok w
  | e :: rest =>
    match Writer.apply w e with
    | .ok w' => runIdx w' rest (i + 1)
    | .error err => .error (err, i)

def foldJson (r0 : Report) (es : List Event) : Json :=
  match runIdx (initState r0) es 0 with
  | .ok w => Json.mkObj [("ok", encReport w.report)]
  | .error (e, i) => Json.mkObj [("err", Json.str e.pyClass), ("at", Json.num i), ("detail", Json.str (reprStr e))]

def grammarJson (es : List Event) : Json :=
  let complete := match Grammar.run .parallel Grammar.init es with
    | some g => g.phase == .ended
    | none => false
  Json.mkObj [("lenient", Json.bool (Grammar.run .lenient Grammar.init es).isSome),
              ("prefix", Json.bool (Grammar.run .parallel Grammar.init es).isSome),
              ("complete", Json.bool complete),
              ("sequential", Json.bool (Grammar.run .seq Grammar.init es).isSome)]

/-- one report replayed and aggregated (`r0` = the fresh `Report()` the writer starts from) -/
def replayJson (r : Report) (now tid nb : Nat) : Json :=
  let r0 := { Report.empty with nbThreads := nb }
  let es := replay now tid r
  let agrees := match fold es r0 with
    | .ok r' => encReport r' == encReport (replayImage now r0 r)
    | .error _ => false
  -- the right-hand side of `C18.replay_roundtrip_loaded_partial`: the report itself, children in the order it holds them
  let literal := match fold es r0 with
    | .ok r' => encReport r' == encReport { r0 with startTime := r.startTime, endTime := r.endTime, setup := r.setup,
                                                    teardown := r.teardown, suites := r.suites }
    | .error _ => false
  Json.mkObj [("events", encList encEvent es), ("fold", foldJson r0 es), ("exact", Json.bool (replayExact r)),
              ("names_ok", Json.bool (namesOk r)), ("image_agrees", Json.bool agrees), ("grammar", grammarJson es),
              ("ranks_zero", Json.bool (Serial.ranksZeroList r.suites)), ("literal_identity", Json.bool literal)]

def handle (j : Json) : Except String Json := do
  let op ← getStr j "op"
  match op with
  | "fold" =>
    let es ← decList decEvent (← field j "events")
    let nb ← getNat j "nb_threads"
    let r0 := { Report.empty with nbThreads := nb }
    let disciplined := (runDisciplined (initState r0) es).isSome
    match foldJson r0 es with
    | .obj kvs => pure (Json.obj ((kvs.insert "grammar" (grammarJson es)).insert "disciplined" (Json.bool disciplined)))
    | x => pure x
  | "replay" =>
    let r ← decReport (← field j "report")
    let now ← getNat j "now"
    let tid ← getNat j "tid"
    let nb ← getNat j "nb_threads"
    pure (replayJson r now tid nb)
  | "replays" =>
    -- the same report in several forms (in memory, loaded from its JSON file, loaded from its XML file)
    let rs ← decList decReport (← field j "reports")
    let now ← getNat j "now"
    let tid ← getNat j "tid"
    let nb ← getNat j "nb_threads"
    pure (Json.mkObj [("answers", Json.arr (rs.map (fun r => replayJson r now tid nb)).toArray)])
  | _ => throw s!"unknown op {op}"

def main : IO Unit := loop (wrap handle)

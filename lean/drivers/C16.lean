/-
  Driver for the C16 correspondence streams (`C16.match`, `C16.ops`): evaluates a public-API matcher
  expression on a value with the M12 model.  Run: `lake env lean --run drivers/C16.lean`
-/
import LccModel.Proto
import LccModel.Model.MatcherJson
import LccModel.Model.MatcherIsJsonJson
open LccModel LccModel.Proto

/-- `{jm, value}` = stream `C16.json` (`is_json` and its combinations); everything else = `C16.match` / `C16.ops` -/
def handle (j : Lean.Json) : Except String Lean.Json :=
  match j.getObjVal? "jm" with
  | .ok _ => LccModel.MatcherIsJsonJson.handle j
  | .error _ => LccModel.MatcherJson.handle j

def main : IO Unit := loop (wrap handle)

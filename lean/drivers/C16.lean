/-
  Driver for the C16 correspondence streams (`C16.match`, `C16.ops`): evaluates a public-API matcher
  expression on a value with the M12 model.  Run: `lake env lean --run drivers/C16.lean`
-/
import LccModel.Proto
import LccModel.Model.MatcherJson
open LccModel LccModel.Proto

def main : IO Unit := loop (wrap LccModel.MatcherJson.handle)

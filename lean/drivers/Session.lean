/-
  Driver for the session model M3: runs a sequence of (thread id, Session API call) on
  `LccModel.Session.step` and prints the fired events, the failure set and the first error.
  Run: `lake env lean --run drivers/Session.lean`
-/
import LccModel.Proto
import LccModel.ProtoReport
import LccModel.ProtoSession
open Lean LccModel LccModel.Proto LccModel.ProtoReport LccModel.Report LccModel.Session

def main : IO Unit := loop (wrap LccModel.ProtoSession.handleCalls)

/-
  Driver for the session model M3: runs a sequence of (thread id, Session API call) on
  `LccModel.Session.step` and prints the fired events, the failure set and the first error.
  Run: `lake env lean --run drivers/Session.lean`
-/
import LccModel.Proto
import LccModel.ProtoReport
import LccModel.Model.Session
open Lean LccModel LccModel.Proto LccModel.ProtoReport LccModel.Report LccModel.Session

def decOp (j : Json) : Except String (Nat × Op) := do
  let tid ← decNat (← field j "tid")
  let k ← (← field j "op").getStr?
  let path := fun (_ : Unit) => do decPath (← field j "path")
  let md := fun (_ : Unit) => do decMeta (← field j "md")
  let op ← match k with
    | "startTestSession" => pure Op.startTestSession
    | "endTestSession" => pure Op.endTestSession
    | "startSessionSetup" => pure Op.startSessionSetup
    | "endSessionSetup" => pure Op.endSessionSetup
    | "startSessionTeardown" => pure Op.startSessionTeardown
    | "endSessionTeardown" => pure Op.endSessionTeardown
    | "startSuite" => pure (Op.startSuite (← path ()) (← md ()))
    | "endSuite" => pure (Op.endSuite (← path ()))
    | "startSuiteSetup" => pure (Op.startSuiteSetup (← path ()))
    | "endSuiteSetup" => pure (Op.endSuiteSetup (← path ()))
    | "startSuiteTeardown" => pure (Op.startSuiteTeardown (← path ()))
    | "endSuiteTeardown" => pure (Op.endSuiteTeardown (← path ()))
    | "startTest" => pure (Op.startTest (← path ()) (← md ()))
    | "endTest" => pure (Op.endTest (← path ()))
    | "skipTest" => pure (Op.skipTest (← path ()) (← md ()) (← decOpt decStr (fieldOpt j "reason")))
    | "disableTest" => pure (Op.disableTest (← path ()) (← md ()) (← decOpt decStr (fieldOpt j "reason")))
    | "setStep" => pure (Op.setStep (← decStr (← field j "desc")))
    | "endStep" => pure Op.endStep
    | "log" => pure (Op.log (← decLevel (← field j "level")) (← decStr (← field j "msg")))
    | "check" => pure (Op.check (← decStr (← field j "desc")) (← decBool (← field j "ok")) (← decOpt decStr (fieldOpt j "details")))
    | "url" => pure (Op.url (← decStr (← field j "url")) (← decStr (← field j "desc")))
    | "attach" => pure (Op.attach (← decStr (← field j "file")) (← decStr (← field j "desc")) (← decBool (← field j "img")))
    | "attachBegin" => pure (Op.attachBegin (← decStr (← field j "file")) (← decStr (← field j "desc")) (← decBool (← field j "img")))
    | "attachEnd" => pure Op.attachEnd
    | "threadCreate" => pure (Op.threadCreate (← decNat (← field j "new")))
    | "threadRun" => pure Op.threadRun
    | "threadEnd" => pure Op.threadEnd
    | _ => throw s!"unknown op {k}"
  pure (tid, op)

def errStr : Err → String
  | .noCursor => "noCursor" | .noStep => "noStep" | .noSavedThread => "noSavedThread" | .noAttach => "noAttach"

def handle (j : Json) : Except String Json := do
  let ops ← (← getArr j "ops").toList.mapM decOp
  let rec go (s : St) (ops : List (Nat × Op)) (k : Nat) : St × Nat × Option String :=
    match ops with
    | [] => (s, k, none)
    | (tid, op) :: rest =>
      match step s tid op with
      | .error e => (s, k, some (errStr e))
      | .ok s' => go s' rest (k + 1)
  let (s, k, e) := go St.init ops 0
  pure (Json.mkObj [
    ("accepted", Json.num k),
    ("error", match e with | none => Json.null | some m => Json.str m),
    ("fired", encList encEvent s.fired),
    ("failures", encList encLoc s.failures),
    ("pending", encList (fun (p : Nat × Cursor) => Json.arr #[Json.num p.1, encList encEvent p.2.pending]) s.cursors)])

def main : IO Unit := loop (wrap handle)

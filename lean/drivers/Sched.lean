/-
  Driver for the scheduler model M1: replays a globally sequenced trace observed from the real
  `lemoncheesecake.task.run_tasks` (see harness/obs/schedrec.py) on `LccModel.Sched.step`, checks the
  well-formedness certificate of the task graph, and compares what the real loop dispatched after every
  completion with `popped`.
  Run: `lake env lean --run drivers/Sched.lean`
-/
import LccModel.Proto
import LccModel.Model.Sched
open Lean LccModel LccModel.Proto LccModel.Sched

def assoc (xs : List (Nat × List Nat)) (t : Nat) : List Nat :=
  match xs.find? (fun p => p.1 == t) with
  | some p => p.2
  | none => []

def parsePairs (j : Json) (k : String) : Except String (List (Nat × List Nat)) := do
  let arr ← getArr j k
  arr.toList.mapM (fun e => do
    let a ← e.getArr?
    if a.size != 2 then throw "pair expected"
    let t ← a[0]!.getNat?
    let ds ← (← a[1]!.getArr?).toList.mapM (fun d => d.getNat?)
    pure (t, ds))

def parseLvl (j : Json) : Except String (List (Nat × Nat)) := do
  let arr ← getArr j "lvl"
  arr.toList.mapM (fun e => do
    let a ← e.getArr?
    if a.size != 2 then throw "pair expected"
    pure (← a[0]!.getNat?, ← a[1]!.getNat?))

/-- Re-tabulate the function-valued fields (extensionally the identity on task ids < k).  The arrays
    are built HERE, in a function returning a structure: a helper of type `… → (Nat → α)` would be
    eta-expanded by the compiler and rebuild its table at every lookup (exponential replay). -/
def normalize (k : Nat) (s : State Nat) : State Nat :=
  let ids := List.range k
  let aPhase := (ids.map s.phase).toArray
  let aResult := (ids.map s.result).toArray
  let aMode := (ids.map s.mode).toArray
  let aForced := (ids.map s.forced).toArray
  let aStartAt := (ids.map s.startAt).toArray
  let aFinishAt := (ids.map s.finishAt).toArray
  let aStarts := (ids.map s.starts).toArray
  { s with
    phase := fun i => aPhase.getD i .remaining, result := fun i => aResult.getD i none,
    mode := fun i => aMode.getD i none, forced := fun i => aForced.getD i false,
    startAt := fun i => aStartAt.getD i none, finishAt := fun i => aFinishAt.getD i none,
    starts := fun i => aStarts.getD i 0 }

def parseRes : String → Except String Res
  | "success" => pure .success | "failure" => pure .failure
  | "skipped" => pure .skipped | "exception" => pure .exception
  | s => throw s!"unknown result {s}"

def natList (j : Json) : Except String (List Nat) := do
  (← j.getArr?).toList.mapM (fun d => d.getNat?)

structure Outcome where
  accepted : Nat
  reject : Option String
  state : State Nat

def modeStr : Mode → String | .run => "run" | .skip => "skip"

def replay (g : Graph Nat) (n k : Nat) (labels : List Json) : Except String Outcome := do
  let mut s : State Nat := Sched.empty
  let mut i := 0
  for lab in labels do
    let a ← lab.getArr?
    let kind ← a[0]!.getStr?
    match kind with
    | "init" =>
      let disp ← natList a[1]!
      let p := popped g Sched.empty n
      if p != disp then
        return { accepted := i, reject := some s!"init: model dispatches {p}, implementation dispatched {disp}", state := s }
      s := normalize k (init g n)
    | "start" =>
      let t ← a[1]!.getNat?
      let ctx ← a[2]!.getBool?
      let obsMode := (a[3]!.getStr?).toOption
      match step g n s (.start t ctx) with
      | none => return { accepted := i, reject := some s!"start {t}: not enabled (phase/worker bound)", state := s }
      | some s' =>
        let m := decideMode g s t ctx
        if obsMode != some (modeStr m) then
          return { accepted := i, reject := some s!"start {t}: model decides {modeStr m}, implementation chose {obsMode}", state := s }
        s := normalize k s'
    | "finish" =>
      let t ← a[1]!.getNat?
      let r ← parseRes (← a[2]!.getStr?)
      match step g n s (.finish t r) with
      | none => return { accepted := i, reject := some s!"finish {t}: not enabled or result class not allowed for the decision", state := s }
      | some s' => s := normalize k s'
    | "receive" =>
      let t ← a[1]!.getNat?
      let disp ← natList a[2]!
      match step g n s (.receive t) with
      | none => return { accepted := i, reject := some s!"receive {t}: not enabled", state := s }
      | some s' =>
        let s1 : State Nat := { s with phase := fun x => if x = t then .completed else s.phase x }
        -- after an interrupt the loop of `skip_all_tasks` releases everything that is runnable now (no worker bound)
        let p := if s.aborted then popped g s1 g.tasks.length else popped g s1 n
        if p != disp then
          return { accepted := i, reject := some s!"receive {t}: model dispatches {p}, implementation dispatched {disp}", state := s }
        s := normalize k s'
    | "interrupt" =>
      let disp ← natList a[1]!
      match step g n s .interrupt with
      | none => return { accepted := i, reject := some "interrupt: already aborted", state := s }
      | some s' =>
        let p := popped g s g.tasks.length
        if p != disp then
          return { accepted := i, reject := some s!"interrupt: model schedules {p} for skipping, implementation {disp}", state := s }
        s := normalize k s'
    | other => throw s!"unknown label {other}"
    i := i + 1
  return { accepted := i, reject := none, state := s }

def handle (j : Json) : Except String Json := do
  let n ← getNat j "n"
  let tasks ← natList (← j.getObjVal? "tasks")
  let succ ← parsePairs j "succ"
  let compl ← parsePairs j "compl"
  let lvl ← parseLvl j
  let g : Graph Nat := { tasks := tasks, succDeps := assoc succ, complDeps := assoc compl }
  let lvlF : Nat → Nat := fun t => match lvl.find? (fun p => p.1 == t) with | some p => p.2 | none => 0
  let wf := checkWF g lvlF
  let k := (tasks.foldl max 0) + 1
  let labels ← getArr j "labels"
  let out ← replay g n k labels.toList
  let results := tasks.map (fun (t : Nat) => Json.arr #[Json.num t,
      match out.state.result t with
      | some .success => "success" | some .failure => "failure" | some .skipped => "skipped"
      | some .exception => "exception" | none => Json.null])
  pure (Json.mkObj [
    ("wf", Json.bool wf),
    ("accepted", Json.num out.accepted),
    ("reject", match out.reject with | none => Json.null | some r => Json.str r),
    ("final", Json.bool (finalB g out.state)),
    ("starts", Json.arr (tasks.map (fun (t : Nat) => Json.num (out.state.starts t))).toArray),
    ("results", Json.arr results.toArray)])

def main : IO Unit := loop (wrap handle)

/-
  Driver for the C13 correspondence stream: parses a layout, runs the M9 loader model on the requested
  entry point (`load_suites_from_directory`, `load_suites_from_files`, `load_suite_from_file`,
  `load_suite_from_class`) and prints the loaded tree (or the error class) together with the
  specification's `declared…` list.
  Run: `lake env lean --run drivers/C13.lean`
-/
import LccModel.Proto
import LccModel.Model.Loader
import LccModel.Model.LoaderSpec
import LccModel.Model.DirScan
import LccModel.Model.ParamSource
import LccModel.Model.Reload
import LccModel.Model.PathSpelling
import LccModel.Model.ClassAttrs
open Lean LccModel LccModel.Proto LccModel.Loader LccModel.DirScan

def getInt (j : Json) (k : String) : Except String Int := do
  let v ← j.getObjVal? k
  v.getInt?

def getOptInt (j : Json) (k : String) : Except String (Option Int) :=
  match j.getObjVal? k with
  | .error _ => .ok none
  | .ok .null => .ok none
  | .ok v => do let n ← v.getInt?; pure (some n)

def getArrD (j : Json) (k : String) : Except String (List Json) :=
  match j.getObjVal? k with
  | .error _ => .ok []
  | .ok .null => .ok []
  | .ok v => do let a ← v.getArr?; pure a.toList

def getBoolD (j : Json) (k : String) : Except String Bool :=
  match j.getObjVal? k with
  | .error _ => .ok false
  | .ok .null => .ok false
  | .ok v => v.getBool?

def parsePair (j : Json) : Except String (Json × Json) := do
  let a ← j.getArr?
  match a.toList with
  | [x, y] => pure (x, y)
  | _ => throw "pair expected"

def parseMeta (j : Json) : Except String Meta := do
  let tags ← (← getArrD j "tags").mapM (fun t => t.getStr?)
  let props ← (← getArrD j "props").mapM (fun p => do
    let (k, v) ← parsePair p; pure (← k.getStr?, ← v.getStr?))
  let links ← (← getArrD j "links").mapM (fun p => do
    let (u, n) ← parsePair p
    let n' ← (match n with | .null => pure none | v => do pure (some (← v.getStr?)))
    pure (← u.getStr?, n'))
  pure { tags, props, links }

/-- `{"t": "none"|"bool"|"int"|"float"|"str"|"list"|"tuple"|"dict"|"obj"|"objbool"|"objlen", …}` -/
def parsePyVal (j : Json) : Except String PyVal := do
  match ← getStr j "t" with
  | "none" => pure .none
  | "bool" => pure (.bool (← (← j.getObjVal? "v").getBool?))
  | "int" => pure (.int (← getInt j "v"))
  | "float" =>
    match ← getStr j "k" with
    | "fin" => pure (.float (.fin (← getInt j "milli")))
    | "negzero" => pure (.float .negZero)
    | "nan" => pure (.float .nan)
    | "inf" => pure (.float (.inf (← getBoolD j "neg")))
    | k => throw s!"bad float kind {k}"
  | "str" => pure (.str (← getStr j "v"))
  | "list" => pure (.list (← getNat j "n"))
  | "tuple" => pure (.tuple (← getNat j "n"))
  | "dict" => pure (.dict (← getNat j "n"))
  | "obj" => pure .obj
  | "objbool" => pure (.objBool (← (← j.getObjVal? "v").getBool?))
  | "objlen" => pure (.objLen (← getNat j "n"))
  | t => throw s!"bad value type {t}"

def parseVis (j : Json) : Except String Vis :=
  match j.getObjVal? "vis" with
  | .error _ => .ok .always
  | .ok .null => .ok .always
  | .ok (.str "always") => .ok .always
  | .ok (.str "hidden") => .ok .hidden
  | .ok (.bool b) => .ok (.cond true (.bool b))
  | .ok (.obj o) => do
    let v := Json.obj o
    let st ← (match v.getObjVal? "self_truthy" with
      | .ok (.bool b) => pure b
      | _ => pure true)
    pure (.cond st (← parsePyVal (← v.getObjVal? "cond")))
  | .ok _ => .error "bad vis"

def parseDisabled (j : Json) : Except String Disabled :=
  match j.getObjVal? "disabled" with
  | .error _ => .ok .no
  | .ok .null => .ok .no
  | .ok (.bool false) => .ok .no
  | .ok (.bool true) => .ok .yes
  | .ok (.str s) => .ok (.reason s)
  | .ok _ => .error "bad disabled"

def parsePVal (j : Json) : Except String PVal :=
  match j with
  | .str s => .ok (.str s)
  | v => do pure (.int (← v.getInt?))

def parseParams (j : Json) : Except String Params := do
  (← j.getArr?).toList.mapM (fun p => do
    let (k, v) ← parsePair p; pure (← k.getStr?, ← parsePVal v))

def parseSeg (j : Json) : Except String Seg :=
  match j.getObjVal? "lit" with
  | .ok v => do pure (.lit (← v.getStr?))
  | .error _ => do pure (.field (← getStr j "field"))

def parseNaming (j : Json) : Except String Naming :=
  match j.getObjVal? "naming" with
  | .error _ => .ok .default
  | .ok .null => .ok .default
  | .ok n => do
    let a ← (← getArrD n "name").mapM parseSeg
    let b ← (← getArrD n "desc").mapM parseSeg
    pure (.format a b)

def parseTest (j : Json) : Except String TestDecl := do
  let param ← (match j.getObjVal? "param" with
    | .error _ => pure none
    | .ok .null => pure none
    | .ok p => do
      -- the source as written: `header` (a string: `parseHeader` finds the names) / `names` (tuple or list header) with
      -- `rows`, or the dicts themselves (`sets`); what the loader expands is `Source.sets`
      let rows ← (← getArrD p "rows").mapM (fun r => do (← r.getArr?).toList.mapM parsePVal)
      let src ← (match p.getObjVal? "header" with
        | .ok (.str h) => pure (LccModel.ParamSource.Source.csvStr h rows)
        | _ => match p.getObjVal? "names" with
          | .ok ns => do pure (LccModel.ParamSource.Source.csvSeq (← (← ns.getArr?).toList.mapM (fun x => x.getStr?)) rows)
          | .error _ => do pure (LccModel.ParamSource.Source.dicts (← (← getArrD p "sets").mapM parseParams)))
      pure (some (src.sets, ← parseNaming p)))
  pure { attr := ← getStr j "attr", name := ← getOptStr j "name", desc := ← getOptStr j "desc",
         rank := ← getInt j "rank", md := ← parseMeta j, vis := ← parseVis j,
         disabled := ← parseDisabled j, param }

partial def parseCls (j : Json) : Except String Cls := do
  let h : ClsHead := { attr := ← getStr j "attr", name := ← getOptStr j "name", desc := ← getOptStr j "desc",
                       rank := ← getInt j "rank", md := ← parseMeta j, vis := ← parseVis j,
                       disabled := ← parseDisabled j, ctorFails := ← getBoolD j "ctor_fails" }
  let tests ← (← getArrD j "tests").mapM parseTest
  let subs ← (← getArrD j "subs").mapM parseCls
  -- `mro`: what the class's `__dict__` and those of its bases hold BESIDES the members (properties with what their getter
  -- does at load time, plain attributes), the class itself first; the members are found by the attribute scan of
  -- `Model/ClassAttrs.lean` (`get_object_attributes`), not handed over
  match j.getObjVal? "mro" with
  | .error _ => pure (.mk h tests subs)
  | .ok .null => pure (.mk h tests subs)
  | .ok m => do
    -- members listed in a base's dict (kind `member`) are INHERITED test methods: they live there, not in the class's own dict
    let inherited : List String := (← (← m.getArr?).toList.mapM (fun d => do
      (← d.getArr?).toList.filterMapM (fun e => do
        if (← getStr e "kind") == "member" then pure (some (← getStr e "name")) else pure none))).flatten
    let own : LccModel.ClassAttrs.ClassDict :=
      (tests.filter (fun t => !inherited.contains t.attr)).map (fun t => (t.attr, .member (.test t))) ++
        subs.map (fun c => (c.head.attr, .member (.suite c)))
    let target (a : String) : LccModel.ClassAttrs.Getter :=
      match tests.find? (fun t => t.attr == a) with
      | some t => .returns (.test t)
      | none => match subs.find? (fun c => c.head.attr == a) with
        | some c => .returns (.suite c)
        | none => .value
    let parseEntry (e : Json) : Except String (String × LccModel.ClassAttrs.Entry) := do
      let n ← getStr e "name"
      match (← getStr e "kind") with
      | "plain" => pure (n, .plain)
      | "member" => match tests.find? (fun t => t.attr == n) with
        | some t => pure (n, .member (.test t))
        | none => throw s!"model: inherited member {n} is not among the tests"
      | _ => match (← getStr e "getter") with
        | "raises" => pure (n, .property .raises)
        | "returns" => pure (n, .property (target (← getStr e "target")))
        | _ => pure (n, .property .value)
    let dicts ← (← m.getArr?).toList.mapM (fun d => do (← d.getArr?).toList.mapM parseEntry)
    let mro : LccModel.ClassAttrs.MRO := match dicts with
      | [] => [own]
      | d :: ds => (own ++ d) :: ds
    match LccModel.ClassAttrs.members mro with
    | .error _ => throw "model: the attribute scan raised (a property was evaluated)"
    | .ok ms =>
      -- the scan finds exactly the members that are not `__`-named (those are dropped by `strip…`, finding D18), each once;
      -- the class travels on as written (`stripCls` is applied by the entry points)
      let want := (tests.filter (fun t => !dunder t.attr)).map (·.attr) ++ (subs.filter (fun c => !dunder c.head.attr)).map (·.head.attr)
      let srt (l : List String) : List String := (l.toArray.qsort (· < ·)).toList
      if srt (ms.map (·.attr)) == srt want then pure (.mk h tests subs)
      else throw s!"model: the attribute scan yields {ms.map (·.attr)} instead of the members {want}"

def parseInfo (j : Json) : Except String (Option SuiteInfo) :=
  match j.getObjVal? "info" with
  | .error _ => .ok none
  | .ok .null => .ok none
  | .ok i => do
    pure (some { name := ← getOptStr i "name", desc := ← getOptStr i "desc", md := ← parseMeta i,
                 rank := ← getOptInt i "rank", vis := ← parseVis i })

def parseModule (j : Json) : Except String Loader.Module := do
  pure { stem := ← getStr j "stem", info := ← parseInfo j, autoRank := ← getInt j "auto_rank",
         broken := ← getBoolD j "broken", tests := ← (← getArrD j "tests").mapM parseTest,
         classes := ← (← getArrD j "classes").mapM parseCls }

partial def parseDir (j : Json) : Except String Dir := do
  let mods ← (← getArrD j "mods").mapM parseModule
  let dirs ← (← getArrD j "dirs").mapM parseDir
  pure (.mk (← getStr j "name") mods dirs)

/-- a file entry of a raw directory: `{"name": <file name>, "mod": <module> | null}` (`null`: not importable) -/
def parseFileEntry (j : Json) : Except String FileEntry := do
  let name ← getStr j "name"
  match j.getObjVal? "mod" with
  | .error _ => pure ⟨name, .junk⟩
  | .ok .null => pure ⟨name, .junk⟩
  | .ok m => do pure ⟨name, .module (← parseModule m)⟩

partial def parseRawDir (j : Json) : Except String RawDir := do
  let files ← (← getArrD j "files").mapM parseFileEntry
  let dirs ← (← getArrD j "dirs").mapM parseRawDir
  pure (.mk (← getStr j "name") files dirs)

/-- the decision of the scan on every file entry of the tree: `[[<directory names…>, <file name>], accepted, stem]` -/
partial def scanJ (pfx : List String) : RawDir → List Json
  | .mk n fs ds =>
    let p := pfx ++ [n]
    fs.map (fun e => Json.arr #[Json.arr ((p ++ [e.name]).map Json.str).toArray, .bool e.accepted, .str (stemOf e.name)])
      ++ (ds.map (scanJ p)).flatten

def optStrJ : Option String → Json
  | none => .null
  | some s => .str s

def metaFields (m : Meta) : List (String × Json) :=
  [("tags", Json.arr (m.tags.map Json.str).toArray),
   ("props", Json.arr (m.props.map (fun (k, v) => Json.arr #[.str k, .str v])).toArray),
   ("links", Json.arr (m.links.map (fun (u, n) => Json.arr #[.str u, optStrJ n])).toArray)]

def disabledJ : Disabled → Json
  | .no => .bool false
  | .yes => .bool true
  | .reason s => .str s

def intJ (i : Int) : Json := Json.num (JsonNumber.fromInt i)

def pvalJ : PVal → Json
  | .int i => intJ i
  | .str s => .str s

def testJ (t : Test) : Json :=
  Json.mkObj ([("name", .str t.name), ("desc", .str t.desc), ("rank", intJ t.rank),
               ("disabled", disabledJ t.disabled),
               ("params", Json.arr (t.params.map (fun (k, v) => Json.arr #[.str k, pvalJ v])).toArray)]
              ++ metaFields t.md)

partial def suiteJ : Suite → Json
  | .mk h ts ss =>
    Json.mkObj ([("name", .str h.name), ("desc", .str h.desc), ("rank", intJ h.rank),
                 ("disabled", disabledJ h.disabled), ("hidden", .bool h.hidden),
                 ("tests", Json.arr (ts.map testJ).toArray), ("subs", Json.arr (ss.map suiteJ).toArray)]
                ++ metaFields h.md)

def errJ : LoadErr → Json
  | .importError s => Json.mkObj [("kind", "importError"), ("arg", .str s), ("class", "SuiteLoadingError")]
  | .ctorError s => Json.mkObj [("kind", "ctorError"), ("arg", .str s), ("class", "LemoncheesecakeException")]
  | .formatKeyError k => Json.mkObj [("kind", "formatKeyError"), ("arg", .str k), ("class", "KeyError")]
  | .dupTestDesc d => Json.mkObj [("kind", "dupTestDesc"), ("arg", .str d), ("class", "SuiteLoadingError")]
  | .dupTestName n => Json.mkObj [("kind", "dupTestName"), ("arg", .str n), ("class", "SuiteLoadingError")]
  | .dupSuiteDesc n _ => Json.mkObj [("kind", "dupSuiteDesc"), ("arg", .str n), ("class", "SuiteLoadingError")]
  | .dupSuiteName n => Json.mkObj [("kind", "dupSuiteName"), ("arg", .str n), ("class", "SuiteLoadingError")]

def entriesJ (es : List Entry) : Json :=
  Json.arr (es.map (fun (p, t) => Json.arr #[Json.arr (p.map Json.str).toArray, testJ t])).toArray

def answer (r : Except LoadErr (List Suite)) (decl full : List Entry) (nd : Bool) (accepts : Option Bool) : Json :=
  let acc := match accepts with | none => Json.null | some b => Json.bool b
  match r with
  | .error e => Json.mkObj [("load_error", errJ e), ("declared", entriesJ decl), ("declared_full", entriesJ full),
                            ("no_dunder", .bool nd), ("accepts", acc)]
  | .ok ss => Json.mkObj [("ok", Json.arr (ss.map suiteJ).toArray),
                          ("entries", entriesJ (Suite.entriesList ss)),
                          ("declared", entriesJ decl), ("declared_full", entriesJ full),
                          ("no_dunder", .bool nd), ("accepts", acc)]

/-- The real entry points are `core ∘ strip…` (`Model/Loader.lean`): `declared` is the specification on the stripped
    layout (what the theorems equate the loaded tree with), `declared_full` the specification on the layout as written
    (what the property demands). -/
def handle (j : Json) : Except String Json := do
  let entry ← getStr j "entry"
  match entry with
  | "dir" =>
    let d ← parseDir (← j.getObjVal? "dir")
    pure (answer (loadDirReal d) (declDir (stripDir d)) (declDir d) (noDunderDir d) none)
  | "files" =>
    let ms ← (← getArrD j "mods").mapM parseModule
    pure (answer (loadFilesReal ms) (declFiles (stripModules ms)) (declFiles ms) (noDunderModules ms) none)
  | "file" =>
    let m0 ← parseModule (← j.getObjVal? "mod")
    let m := stripModule m0
    -- `load_suite_from_file` returns the suite even if hidden or empty
    let declOf := fun (m : Loader.Module) => match collapsesTo m with
      | some c => underSuite c.head.suiteName (declClsBody c)
      | none => underSuite m.suiteName (declModuleBody m)
    pure (answer ((loadFile m).map (fun s => [s])) (declOf m) (declOf m0) (noDunderModules [m0])
      (some (acceptsModule m)))
  | "class" =>
    let c0 ← parseCls (← j.getObjVal? "cls")
    let c := stripCls c0
    pure (answer ((loadClass c).map (fun s => [s])) (underSuite c.head.suiteName (declClsBody c))
      (underSuite c0.head.suiteName (declClsBody c0)) (noDunderCls c0) (some (acceptsCls c)))
  | "rawdir" =>
    -- the directory as it is on disk: the scan decides which entries are suite modules (`Model/DirScan.lean`)
    let r ← parseRawDir (← j.getObjVal? "dir")
    let d := scanDir r
    -- `spelling`: the path string the caller hands to `load_suites_from_directory` (`Model/PathSpelling.lean`): the loader
    -- pairs modules and companion directories through path STRINGS built from it
    let sp := (j.getObjValAs? String "spelling").toOption
    let res := match sp with
      | some s => LccModel.PathSpelling.loadDirRealAt s d
      | none => loadRawDir r
    let a := answer res (declDir (stripDir d)) (declDir d) (noDunderDir d) none
    let a := match sp with
      | some s =>
        let plain := answer (loadRawDir r) (declDir (stripDir d)) (declDir d) (noDunderDir d) none
        (a.setObjVal! "spelling_ok" (.bool (LccModel.PathSpelling.spellingOk s))).setObjVal! "names_ok"
          (.bool (LccModel.PathSpelling.namesOk d)) |>.setObjVal! "same_as_unspelled" (.bool (a.compress == plain.compress))
      | none => a
    pure (a.setObjVal! "scan" (Json.arr (scanJ [] r).toArray))
  | "rawfiles" =>
    let fs ← (← getArrD j "files").mapM parseFileEntry
    let ms := scanFiles fs
    let a := answer (loadRawFiles fs) (declFiles (stripModules ms)) (declFiles ms) (noDunderModules ms) none
    pure (a.setObjVal! "scan" (Json.arr (scanJ [] (.mk "suites" fs [])).toArray))
  | "seq" =>
    -- several loads in ONE process (`Model/Reload.lean`): each step = the path string handed to the loader and the directory
    -- as it is on disk at that moment; the registry `sys.modules` is threaded through the steps
    let steps ← (← getArrD j "steps").mapM (fun s => do
      let r ← parseRawDir (← s.getObjVal? "dir")
      pure (← getStr s "root", scanDir r))
    let run := LccModel.Reload.runLoads {} steps
    let answers := (steps.zip run.2).map (fun ((_, d), res) =>
      answer res (declDir (stripDir d)) (declDir d) (noDunderDir d) none)
    pure (Json.mkObj [("steps", Json.arr answers.toArray),
                      ("registered", Json.arr (run.1.sysModules.map (fun e => Json.str e.1)).toArray)])
  | "scan" =>
    -- the decision alone, on a list of names
    let names ← (← getArrD j "names").mapM (fun n => n.getStr?)
    pure (Json.mkObj [("accepted", Json.arr (names.map (fun n => Json.bool (acceptsName n))).toArray),
                      ("stems", Json.arr (names.map (fun n => Json.str (stemOf n))).toArray)])
  | "vis" =>
    -- the decision alone: what the code's expression stores in `.hidden` and what its readers do with it
    let v ← parseVis j
    pure (Json.mkObj [("visible", .bool v.visible), ("shown", .bool v.shown), ("hidden_truthy", .bool v.hiddenAttr.truthy)])
  | _ => throw s!"unknown entry {entry}"

def main : IO Unit := loop (wrap handle)

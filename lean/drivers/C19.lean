/-
  Driver for the C19 correspondence stream: replays a history on the M11 model and prints the
  observable state (current marker, occupied archive slots) after every operation.
  Run: `lake env lean --run drivers/C19.lean`
-/
import LccModel.Proto
import LccModel.Model.ReportDir
open Lean LccModel LccModel.Proto LccModel.ReportDir

def parseOp (j : Json) : Except String Op := do
  let k ← getStr j "op"
  match k with
  | "run" => pure (.run (← getOptNat j "limit"))
  | "delete" => pure (.delete (← getNat j "n"))
  | "delcur" => pure .deleteCurrent
  | _ => throw s!"unknown op {k}"

def obs (s : St) : Json :=
  Json.mkObj [("current", optNat s.current),
              ("arch", Json.arr ((listing s).map (fun (n, m) => Json.arr #[Json.num n, Json.num m])).toArray)]

/-- Re-tabulate the slot function after every step.  Extensionally the identity on states satisfying
    `Inv.bound` (every slot ≥ hi is free); without it the interpreter re-evaluates the nested closures
    (`removeObsolete` is eta-expanded, so each lookup recounts the slots) and the replay is exponential. -/
def normalize (s : St) : St :=
  let tbl := ((List.range s.hi).map s.arch).toArray
  { s with arch := fun n => (tbl[n]?).join }

def handle (j : Json) : Except String Json := do
  let ops ← (← getArr j "ops").toList.mapM parseOp
  let rec go (s : St) (ops : List Op) (acc : Array Json) : Array Json :=
    match ops with
    | [] => acc
    | op :: rest =>
      match step s op with
      | none => acc.push (Json.str "stuck")
      | some s' => let s' := normalize s'; go s' rest (acc.push (obs s'))
  pure (Json.mkObj [("states", Json.arr (go init ops #[]))])

def main : IO Unit := loop (wrap handle)

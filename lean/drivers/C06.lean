/-
  Driver for property C06.  Three request kinds (JSON lines, `LccModel.Proto.loop`):

    {"ops": [...]}                       M3: a sequence of (thread id, Session API call) on `Session.step`
                                         (same answer as drivers/Session.lean — the `sess` stream is reused);
    {"events": [...]}                    M4: `ReportWriter` folded over a recorded fired-event stream; answers the
                                         final report, the number of events handled and the first error class;
    {"attach": {"lock": b, "trace": [[tid, act], ...]}}
                                         M14: an observed interleaving of the atomic steps of
                                         `prepare_attachment` replayed on the acceptor `Attach.run`.
  Run: `lake env lean --run drivers/C06.lean`
-/
import LccModel.Proto
import LccModel.ProtoReport
import LccModel.Model.Session
import LccModel.Model.Writer
import LccModel.Model.Threads
open Lean LccModel LccModel.Proto LccModel.ProtoReport LccModel.Report LccModel.Session

def decOp (j : Json) : Except String (Nat × Op) := do
  let tid ← decNat (← field j "tid")
  let k ← (← field j "op").getStr?
  let path := fun (_ : Unit) => do decPath (← field j "path")
  let md := fun (_ : Unit) => do decMeta (← field j "md")
  let op ← match k with
    | "startTestSession" => pure Op.startTestSession
    | "endTestSession" => pure Op.endTestSession
    | "startSessionSetup" => pure Op.startSessionSetup
    | "endSessionSetup" => pure Op.endSessionSetup
    | "startSessionTeardown" => pure Op.startSessionTeardown
    | "endSessionTeardown" => pure Op.endSessionTeardown
    | "startSuite" => pure (Op.startSuite (← path ()) (← md ()))
    | "endSuite" => pure (Op.endSuite (← path ()))
    | "startSuiteSetup" => pure (Op.startSuiteSetup (← path ()))
    | "endSuiteSetup" => pure (Op.endSuiteSetup (← path ()))
    | "startSuiteTeardown" => pure (Op.startSuiteTeardown (← path ()))
    | "endSuiteTeardown" => pure (Op.endSuiteTeardown (← path ()))
    | "startTest" => pure (Op.startTest (← path ()) (← md ()))
    | "endTest" => pure (Op.endTest (← path ()))
    | "skipTest" => pure (Op.skipTest (← path ()) (← md ()) (← decOpt decStr (fieldOpt j "reason")))
    | "disableTest" => pure (Op.disableTest (← path ()) (← md ()) (← decOpt decStr (fieldOpt j "reason")))
    | "setStep" => pure (Op.setStep (← decStr (← field j "desc")))
    | "endStep" => pure Op.endStep
    | "log" => pure (Op.log (← decLevel (← field j "level")) (← decStr (← field j "msg")))
    | "check" => pure (Op.check (← decStr (← field j "desc")) (← decBool (← field j "ok")) (← decOpt decStr (fieldOpt j "details")))
    | "url" => pure (Op.url (← decStr (← field j "url")) (← decStr (← field j "desc")))
    | "attach" => pure (Op.attach (← decStr (← field j "file")) (← decStr (← field j "desc")) (← decBool (← field j "img")))
    | "attachBegin" => pure (Op.attachBegin (← decStr (← field j "file")) (← decStr (← field j "desc")) (← decBool (← field j "img")))
    | "attachEnd" => pure Op.attachEnd
    | "threadCreate" => pure (Op.threadCreate (← decNat (← field j "new")))
    | "threadRun" => pure Op.threadRun
    | "threadEnd" => pure Op.threadEnd
    | _ => throw s!"unknown op {k}"
  pure (tid, op)

def errStr : Err → String
  | .noCursor => "noCursor" | .noStep => "noStep" | .noSavedThread => "noSavedThread" | .noAttach => "noAttach"

def handleOps (j : Json) : Except String Json := do
  let ops ← (← getArr j "ops").toList.mapM decOp
  let rec go (s : St) (ops : List (Nat × Op)) (k : Nat) : St × Nat × Option String :=
    match ops with
    | [] => (s, k, none)
    | (tid, op) :: rest =>
      match step s tid op with
      | .error e => (s, k, some (errStr e))
      | .ok s' => go s' rest (k + 1)
  let (s, k, e) := go St.init ops 0
  pure (Json.mkObj [
    ("accepted", Json.num k),
    ("error", match e with | none => Json.null | some m => Json.str m),
    ("fired", encList encEvent s.fired),
    ("failures", encList encLoc s.failures),
    ("pending", encList (fun (p : Nat × Cursor) => Json.arr #[Json.num p.1, encList encEvent p.2.pending]) s.cursors)])

/-- fold the writer; stop at the first raising handler -/
def handleEvents (j : Json) : Except String Json := do
  let es ← (← getArr j "events").toList.mapM decEvent
  let rec go (w : Writer.WriterState) (es : List Event) (k : Nat) : Writer.WriterState × Nat × Option String :=
    match es with
    | [] => (w, k, none)
    | e :: rest =>
      match Writer.apply w e with
      | .error err => (w, k, some err.pyClass)
      | .ok w' => go w' rest (k + 1)
  let (w, k, e) := go Writer.initState es 0
  pure (Json.mkObj [
    ("handled", Json.num k),
    ("error", match e with | none => Json.null | some m => Json.str m),
    ("report", encReport w.report)])

open LccModel.Threads in
def decAct (s : String) : Except String Attach.Act :=
  match s with
  | "acquire" => pure .acquire | "readName" => pure .readName | "readInc" => pure .readInc
  | "writeInc" => pure .writeInc | "release" => pure .release | "writeFile" => pure .writeFile
  | "fireEvent" => pure .fireEvent
  | _ => throw s!"unknown act {s}"

open LccModel.Threads in
def handleAttach (j : Json) : Except String Json := do
  let a ← field j "attach"
  let lock ← decBool (← field a "lock")
  let tr ← (← getArr a "trace").toList.mapM (fun x => do
    let p ← x.getArr?
    match p.toList with
    | [t, act] => do pure ((← t.getNat?), (← decAct (← act.getStr?)))
    | _ => throw "pair expected")
  let rec go (s : Attach.St) (tr : List (Nat × Attach.Act)) (k : Nat) : Attach.St × Nat × Bool :=
    match tr with
    | [] => (s, k, true)
    | (t, act) :: rest =>
      match Attach.step lock s t act with
      | none => (s, k, false)
      | some s' => go s' rest (k + 1)
  let (s, k, ok) := go Attach.init tr 0
  pure (Json.mkObj [
    ("accepted", Json.num k), ("ok", Json.bool ok),
    ("numbers", encList (fun (p : Nat × Nat) => Json.arr #[Json.num p.1, Json.num p.2]) s.names),
    ("files", encList (fun (n : Nat) => Json.num n) s.files),
    ("events", encList (fun (n : Nat) => Json.num n) s.events),
    ("count", Json.num s.count)])

def handle (j : Json) : Except String Json :=
  match j.getObjVal? "ops", j.getObjVal? "events", j.getObjVal? "attach" with
  | .ok _, _, _ => handleOps j
  | _, .ok _, _ => handleEvents j
  | _, _, .ok _ => handleAttach j
  | _, _, _ => throw "unknown request"

def main : IO Unit := loop (wrap handle)

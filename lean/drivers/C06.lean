/-
  Driver for property C06.  Three request kinds (JSON lines, `LccModel.Proto.loop`):

    {"ops": [...]}                       M3/M3a: a sequence of (thread id, Session API call) on `SessionApi.stepCall`
                                         (same answer as drivers/Session.lean — the `sess` stream is reused);
    {"events": [...]}                    M4: `ReportWriter` folded over a recorded fired-event stream; answers the
                                         final report, the number of events handled, the first error class, and whether
                                         the sibling names of the final report are distinct (`Writer.uniqNames`: the
                                         hypothesis of the `C06Loc` theorems, checked on every real run);
    {"attach": {"lock": b, "trace": [[tid, act], ...]}}
                                         M14: an observed interleaving of the atomic steps of
                                         `prepare_attachment` replayed on the acceptor `Attach.run`;
    {"store": {"mode": "copy"|"link", "ops": [...], "numbers": [...], "paths": [...]}}
                                         M14c: a history of file operations and attachment calls on the file-store
                                         model `AttachStore.step`; answers the outcome of every call and the final
                                         content of the attachments / source paths asked for.
  Run: `lake env lean --run drivers/C06.lean`
-/
import LccModel.Proto
import LccModel.ProtoReport
import LccModel.ProtoSession
import LccModel.Model.Writer
import LccModel.Model.Threads
import LccModel.Model.AttachStore
import LccModel.Lemmas.WriterCongr
open Lean LccModel LccModel.Proto LccModel.ProtoReport LccModel.Report LccModel.Session

def handleOps (j : Json) : Except String Json := LccModel.ProtoSession.handleCalls j

/-- fold the writer; stop at the first raising handler -/
def handleEvents (j : Json) : Except String Json := do
  let es ← (← getArr j "events").toList.mapM decEvent
  let rec go (w : Writer.WriterState) (es : List Event) (k : Nat) : Writer.WriterState × Nat × Option String :=
    match es with
    | [] => (w, k, none)
    | e :: rest =>
      match Writer.apply w e with
      | .error err => (w, k, some err.pyClass)
      | .ok w' => go w' rest (k + 1)
  let (w, k, e) := go Writer.initState es 0
  pure (Json.mkObj [
    ("handled", Json.num k),
    ("error", match e with | none => Json.null | some m => Json.str m),
    ("uniq", Json.bool (Writer.uniqNames w.report)),
    ("report", encReport w.report)])

open LccModel.Threads in
def decAct (s : String) : Except String Attach.Act :=
  match s with
  | "acquire" => pure .acquire | "readName" => pure .readName | "readInc" => pure .readInc
  | "writeInc" => pure .writeInc | "release" => pure .release | "writeFile" => pure .writeFile
  | "fireEvent" => pure .fireEvent | "abort" => pure .abort
  | _ => throw s!"unknown act {s}"

open LccModel.Threads in
def handleAttach (j : Json) : Except String Json := do
  let a ← field j "attach"
  let lock ← decBool (← field a "lock")
  let tr ← (← getArr a "trace").toList.mapM (fun x => do
    let p ← x.getArr?
    match p.toList with
    | [t, act] => do pure ((← t.getNat?), (← decAct (← act.getStr?)))
    | _ => throw "pair expected")
  let rec go (s : Attach.St) (tr : List (Nat × Attach.Act)) (k : Nat) : Attach.St × Nat × Bool :=
    match tr with
    | [] => (s, k, true)
    | (t, act) :: rest =>
      match Attach.step lock s t act with
      | none => (s, k, false)
      | some s' => go s' rest (k + 1)
  let (s, k, ok) := go Attach.init tr 0
  pure (Json.mkObj [
    ("accepted", Json.num k), ("ok", Json.bool ok),
    ("numbers", encList (fun (p : Nat × Nat) => Json.arr #[Json.num p.1, Json.num p.2]) s.names),
    ("files", encList (fun (n : Nat) => Json.num n) s.files),
    ("events", encList (fun (n : Nat) => Json.num n) s.events),
    ("count", Json.num s.count)])

open LccModel.AttachStore in
def decStoreOp (j : Json) : Except String AttachStore.Op := do
  let a ← j.getArr?
  let nat := fun (i : Nat) => do (← (a[i]? |>.elim (throw "operand missing") pure)).getNat?
  let content := fun (i : Nat) => do
    let xs ← (← (a[i]? |>.elim (throw "operand missing") pure)).getArr?
    xs.toList.mapM (fun x => x.getNat?)
  match ← (← (a[0]? |>.elim (throw "empty op") pure)).getStr? with
  | "write" => pure (.write (← nat 1) (← content 2))
  | "append" => pure (.append (← nat 1) (← content 2))
  | "replace" => pure (.replace (← nat 1) (← content 2))
  | "unlink" => pure (.unlink (← nat 1))
  | "symlink" => pure (.symlink (← nat 1) (← nat 2))
  | "save" => pure (.save (← nat 1) (← nat 2))
  | "content" => pure (.saveContent (← nat 1) (← content 2))
  | k => throw s!"unknown store op {k}"

open LccModel.AttachStore in
def handleStore (j : Json) : Except String Json := do
  let a ← field j "store"
  let mode ← match ← (← field a "mode").getStr? with
    | "copy" => pure Mode.copy | "link" => pure Mode.link | m => throw s!"unknown mode {m}"
  let ops ← (← getArr a "ops").toList.mapM decStoreOp
  let numbers ← (← getArr a "numbers").toList.mapM (fun x => x.getNat?)
  let paths ← (← getArr a "paths").toList.mapM (fun x => x.getNat?)
  let rec go (s : FS) (ops : List AttachStore.Op) (out : Array Json) : FS × Array Json × Bool :=
    match ops with
    | [] => (s, out, true)
    | op :: rest =>
      match AttachStore.step mode s op with
      | none => (s, out, false)
      | some (s', o) => go s' rest (out.push (Json.str (match o with | .done => "done" | .missing => "missing")))
  let (s, out, ok) := go AttachStore.init ops #[]
  let enc := fun (c : Option Content) => match c with
    | none => Json.null
    | some xs => Json.arr (xs.map (fun (n : Nat) => Json.num n)).toArray
  pure (Json.mkObj [
    ("ok", Json.bool ok), ("accepted", Json.num out.size), ("outcomes", Json.arr out),
    ("att", encList (fun (n : Nat) => Json.arr #[Json.num n, enc (attContent s n)]) numbers),
    ("src", encList (fun (p : Nat) => Json.arr #[Json.num p, enc (srcContent s p)]) paths)])

def handle (j : Json) : Except String Json :=
  match j.getObjVal? "ops", j.getObjVal? "events", j.getObjVal? "attach", j.getObjVal? "store" with
  | .ok _, _, _, _ => handleOps j
  | _, .ok _, _, _ => handleEvents j
  | _, _, .ok _, _ => handleAttach j
  | _, _, _, .ok _ => handleStore j
  | _, _, _, _ => throw "unknown request"

def main : IO Unit := loop (wrap handle)

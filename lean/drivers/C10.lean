/-
  Driver for the C10 streams.

    {"op":"snap","events":[…],"nb_threads":n,"strategies":[S…],"clock":[ms…],"want":[k…]}
        S = {"k":"atEndOfTests"|"atEachSuite"|"atEachTest"|"atEachFailedTest"|"atEachLog"} | {"k":"everyN","n":N}
      → {"handled": number of events the writer handled, "err": null | {"class","at"},
         "safe": safeRun, "wf": Grammar.WellFormedPrefix, "fresh": Grammar.Fresh,
         "strategies":[{"saves":[k…],"err":null|"strategy"|"writer"}…],
         "reports": [[k, report after k events]…]  (for k in want, k ≤ handled),
         "final": report after all handled events,
         "prefix": [[k, prefixB (report k) final]…]}
        optional "xml_sessions":[{"s":S,"enc":"utf8"|"ascii"|"latin1","kind":"xml"|"junit"}] → "xml_sessions":[{"saves":[k…],"loads":[class…],"handled":n,"err":null|"save"|…}]
        (`sessRunG (Store.xmlSaveOkEnc enc)` / `sessRunG (Junit.saveOkEnc enc)`: the save raises on a character the file encoding cannot
         take or on a missing time)
        optional "junit_want":[k…] → "junit_docs":[[k, element tree of `Junit.toJunit (report after k events)` | null]]
        S may also be {"k":"chosen","cli":str|null,"env":str|null}: `Saving.chosenStrategy` (what `lcc run` uses)
    {"op":"option","cli":str|null,"env":str|null} → {"expr": resolveExpr, "chosen": S | null (rejected)}
    {"op":"prefix","a":report,"b":report} → {"prefix": prefixB a b}
    {"op":"fs","mode":"atomic"|"inplace","prev":null|[…],"saves":[[chunk…]…],"cut":n}
      → {"file": visible after `cut` operations, "tmp": …, "nops": total number of operations}
    any request + "runs":[{"cli":T,"env":T,"writes":bool}…]   T = null | "" | {"other":k}   (`Model/RunStart.lean`, `Model/RunSeq.lean`;
      {"op":"rundir"} = nothing else)
      → … + {"starts":[null (the run gets no directory: no session) | {"dir":"ext"|"fs","holds":directory holds report files}…]}

  Run: `lake env lean --run drivers/C10.lean`
-/
import LccModel.Proto
import LccModel.ProtoReport
import LccModel.Model.Saving
import LccModel.Model.SavingActs
import LccModel.Model.Grammar
import LccModel.Model.Store
import LccModel.Model.Junit
import LccModel.Model.RunStart
open Lean LccModel LccModel.Proto LccModel.ProtoReport LccModel.Report LccModel.Writer LccModel.Saving

def decStrategy (j : Json) : Except String Strategy := do
  match (← getStr j "k") with
  | "atEndOfTests" => pure .atEndOfTests
  | "atEachSuite" => pure .atEachSuite
  | "atEachTest" => pure .atEachTest
  | "atEachFailedTest" => pure .atEachFailedTest
  | "atEachLog" => pure .atEachLog
  | "everyN" => pure (.everyN (← getNat j "n"))
  | "chosen" =>
    -- what `lcc run` uses given `--save-report` (cli) and `$LCC_SAVE_REPORT` (env): `Saving.chosenStrategy`
    match chosenStrategy (← getOptStr j "cli") (← getOptStr j "env") with
    | some st => pure st
    | none => throw "rejected"
  | k => throw s!"unknown strategy {k}"

def encStrategy : Strategy → Json
  | .atEndOfTests => Json.mkObj [("k", "atEndOfTests")]
  | .atEachSuite => Json.mkObj [("k", "atEachSuite")]
  | .atEachTest => Json.mkObj [("k", "atEachTest")]
  | .atEachFailedTest => Json.mkObj [("k", "atEachFailedTest")]
  | .atEachLog => Json.mkObj [("k", "atEachLog")]
  | .everyN n => Json.mkObj [("k", "everyN"), ("n", Json.num n)]

def decEncoding (s : String) : Except String JsonFile.Encoding :=
  match s with
  | "ascii" => pure .ascii
  | "latin1" => pure .latin1
  | "utf8" => pure .utf8
  | e => throw s!"unknown encoding {e}"

partial def encElem : Serial.XElem → Json
  | .mk tag attrs text cs =>
    Json.mkObj [("tag", Json.str tag),
                ("attrs", encList (fun (k, v) => Json.arr #[Json.str k, match v with
                    | .text s => encStr s
                    | .time t => Json.num t
                    | .num n => Json.num n]) attrs),
                ("text", encOptStr text), ("children", encList encElem cs)]

/-- the backend of a session whose save can raise: (can it save this report under this encoding?, does what it saved load / parse?) -/
def limitedBackend (kind : String) (enc : JsonFile.Encoding) : Except String ((Report → Bool) × (Report → String)) :=
  match kind with
  | "xml" => pure (Store.xmlSaveOkEnc enc, fun r => match Store.oneShot .xml 0 r with
      | .loaded _ => "loaded"
      | .loadFailed (.noneText _) => "loaded"        -- the real load succeeds, with `None` in a text position
      | .loadFailedText => "parse-error"
      | .saveFailed _ => "save-error"
      | _ => "load-error")
  | "junit" => pure (Junit.saveOkEnc enc, fun r => if Junit.wellFormed r then "loaded" else "parse-error")
  | k => throw s!"unknown backend kind {k}"

/-- outcome class of loading what an XML save of `r` leaves on disk -/
def xmlLoadClass (r : Report) : String :=
  match Store.oneShot .xml 0 r with
  | .loaded _ => "loaded"
  | .loadFailed (.noneText _) => "loaded"        -- the real load succeeds, with `None` in a text position
  | .loadFailedText => "parse-error"
  | .saveFailed _ => "save-error"
  | _ => "load-error"

/-- writer alone: every intermediate report (index = number of handled events) -/
def writerTrace (w : WriterState) (es : List Event) (acc : Array Report) : Array Report × Option (WriterErr × Nat) :=
  match es with
  | [] => (acc, none)
  | e :: rest =>
    match Writer.apply w e with
    | .ok w' => writerTrace w' rest (acc.push w'.report)
    | .error err => (acc, some (err, acc.size - 1))

def sessRunPartial (strat : Strategy) (clock : Nat → Nat) (s : Sess) (es : List Event) : Sess × Option SessErr :=
  match es with
  | [] => (s, none)
  | e :: rest =>
    match sessStep strat clock s e with
    | .ok s' => sessRunPartial strat clock s' rest
    | .error err => (s, some err)

instance : Decidable (Grammar.Fresh es) := by unfold Grammar.Fresh; infer_instance

def optText : Option Text → Json
  | none => Json.null
  | some t => Json.arr (t.map (fun (n : Nat) => Json.num n)).toArray

def decText (j : Json) : Except String Text := do
  let a ← j.getArr?
  a.toList.mapM (fun x => x.getNat?)

def handle (j : Json) : Except String Json := do
  let op ← getStr j "op"
  match op with
  | "snap" =>
    let es ← decList decEvent (← field j "events")
    let nb ← getNat j "nb_threads"
    let strats ← decList decStrategy (← field j "strategies")
    let clk ← (← getArr j "clock").toList.mapM (fun x => x.getNat?)
    let clkArr := clk.toArray
    let clock : Nat → Nat := fun n => clkArr.getD n 0
    let want ← (← getArr j "want").toList.mapM (fun x => x.getNat?)
    -- what user code does to the report outside the event stream: the title / information set before the run
    -- (`Project.build_report_title/_info`) and `add_info` calls placed after the k-th handled event: [[k, name, value]]
    let title ← match fieldOpt j "title" with
      | .null => pure Report.empty.title
      | tj => decStr tj
    let infos ← match fieldOpt j "infos" with
      | .null => pure []
      | ij => decList (fun x => do
          let a ← x.getArr?
          let k ← (a.getD 0 Json.null).getNat?
          let n ← decStr (a.getD 1 Json.null)
          let v ← decStr (a.getD 2 Json.null)
          pure (k, n, v)) ij
    let infoAt (k : Nat) : List Act := (infos.filter (fun p => p.1 == k)).map (fun p => Act.addInfo p.2.1 p.2.2)
    let acts : List Act := infoAt 0 ++ (es.zipIdx.flatMap (fun (e, i) => Act.ev e :: infoAt (i + 1)))
    let r00 : Report := { Report.empty with nbThreads := nb, title := title }
    -- the information published before the first event is in the report every session starts from
    let r0 : Report := (infoAt 0).foldl (fun r a => match a with | .addInfo n v => addInfo r n v | _ => r) r00
    let (trace, wfin, werr) := actTrace (initState r00) acts #[r0]
    let handled := trace.size - 1
    let final := if werr.isNone then wfin.report else trace.getD handled r0
    let stratOut := strats.map (fun st =>
      let (s, err) := sessRunPartial st clock (Sess.init clock r0) es
      Json.mkObj [("saves", Json.arr (s.saves.reverse.map (fun (p : Nat × Report) => Json.num p.1)).toArray),
                  ("err", match err with
                    | none => Json.null
                    | some (.writer _) => Json.str "writer"
                    | some .strategy => Json.str "strategy")])
    let wanted := want.filter (· ≤ handled)
    -- sessions of the XML backend, whose save can raise (`sessRunG`): [{"s": strategy, "enc": encoding}]
    let xmlSpecs ← match fieldOpt j "xml_sessions" with
      | .null => pure []
      | xj => decList (fun x => do
          let st ← decStrategy (← field x "s")
          let enc ← decEncoding (← getStr x "enc")
          let kind := match getOptStr x "kind" with
            | .ok (some k) => k
            | _ => "xml"
          let be ← limitedBackend kind enc
          pure (st, be)) xj
    let xmlOut := xmlSpecs.map (fun (st, (saveOk, loadClass)) =>
      let (s, err) := sessRunG saveOk st clock (Sess.init clock r0) es
      Json.mkObj [("saves", Json.arr (s.saves.reverse.map (fun (p : Nat × Report) => Json.num p.1)).toArray),
                  ("loads", Json.arr (s.saves.reverse.map (fun (p : Nat × Report) => Json.str (loadClass p.2))).toArray),
                  ("handled", Json.num s.handled),
                  ("err", match err with
                    | none => Json.null
                    | some .save => Json.str "save"
                    | some (.base (.writer _)) => Json.str "writer"
                    | some (.base .strategy) => Json.str "strategy")])
    let junitWant ← match fieldOpt j "junit_want" with
      | .null => pure []
      | wj => decList (fun x => x.getNat?) wj
    let junitDocs := (junitWant.filter (· ≤ handled)).map (fun (k : Nat) =>
      Json.arr #[Json.num k, match Junit.toJunit (trace.getD k r0) with
        | .ok x => encElem x
        | .error _ => Json.null])
    pure (Json.mkObj [
      ("junit_docs", Json.arr junitDocs.toArray),
      ("xml_sessions", Json.arr xmlOut.toArray),
      ("handled", Json.num handled),
      ("err", match werr with
        | none => Json.null
        | some (e, i) => Json.mkObj [("class", Json.str e.pyClass), ("at", Json.num i), ("detail", Json.str (reprStr e))]),
      ("safe", Json.bool (safeRun (initState r0) es)),
      ("wf", Json.bool (decide (Grammar.WellFormedPrefix es))),
      ("fresh", Json.bool (decide (Grammar.Fresh es))),
      ("strategies", Json.arr stratOut.toArray),
      ("reports", Json.arr (wanted.map (fun (k : Nat) => Json.arr #[Json.num k, encReport (trace.getD k r0)])).toArray),
      ("final", encReport final),
      ("safe_acts", Json.bool (safeActs (initState r00) acts)),
      ("prefix", Json.arr (wanted.map (fun (k : Nat) => Json.arr #[Json.num k, Json.bool (prefixAB (trace.getD k r0) final)])).toArray)])
  | "option" =>
    let cli ← getOptStr j "cli"
    let env ← getOptStr j "env"
    pure (Json.mkObj [("expr", Json.str (resolveExpr cli env)),
                      ("chosen", match chosenStrategy cli env with
                        | some st => encStrategy st
                        | none => Json.null)])
  | "prefix" =>
    let a ← decReport (← field j "a")
    let b ← decReport (← field j "b")
    pure (Json.mkObj [("prefix", Json.bool (prefixB a b))])
  | "fs" =>
    let mode ← getStr j "mode"
    let prev ← decOpt decText (fieldOpt j "prev")
    let saves ← decList (decList decText) (← field j "saves")
    let cut ← getNat j "cut"
    let save := if mode == "atomic" then saveAtomic else saveInPlace
    let ops := saves.flatMap save
    let s := fsRun { file := prev, tmp := none } (ops.take cut)
    pure (Json.mkObj [("file", optText (visible s)), ("tmp", optText s.tmp), ("nops", Json.num ops.length)])
  | "rundir" => pure (Json.mkObj [])
  | _ => throw s!"unknown op {op}"

/-- the runs of a history, one after the other on the run-sequence model: what each finds when it starts -/
def startsOf (j : Json) : Except String Json := do
  let parseT (j : Json) : Except String (Option RunSeq.Target) :=
    match j with
    | .null => pure none
    | .str "" => pure (some .empty)
    | j => do pure (some (.other (← getNat j "other")))
  let fieldOr (j : Json) (k : String) : Json := match j.getObjVal? k with | .ok v => v | .error _ => .null
  let runs ← (← getArr j "runs").toList.mapM (fun r => do
    pure ({ cli := ← parseT (fieldOr r "cli"), env := ← parseT (fieldOr r "env"), impl := .default,
            writes := ← getBool r "writes", fate := .completes } : RunSeq.Cfg))
  let rec go (s : RunSeq.St) (cs : List RunSeq.Cfg) (acc : Array Json) : Array Json :=
    match cs with
    | [] => acc
    | c :: rest =>
      let a := match RunStart.startOf c s with
        | none => Json.null
        | some (d, holds) => Json.mkObj [("dir", Json.str (match d with | .ext _ => "ext" | .fs _ => "fs")), ("holds", Json.bool holds)]
      match RunSeq.run c s with
      | none => acc.push (Json.str "stuck")
      | some s' => go s' rest (acc.push a)
  pure (Json.arr (go RunSeq.init runs #[]))

/-- any request may carry "runs" (the history of `lcc run`s the observed run is the last of): the answer then has "starts" -/
def handleAll (j : Json) : Except String Json := do
  let a ← handle j
  match j.getObjVal? "runs" with
  | .ok _ => pure (a.setObjVal! "starts" (← startsOf j))
  | .error _ => pure a

def main : IO Unit := loop (wrap handleAll)

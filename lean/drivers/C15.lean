/-
  Driver for the C15 correspondence streams: replays a globally ordered trace observed from the real
  `ThreadedFactory` / `_PerThreadFixtureResult` on the M14 acceptor `LccModel.Threads.Factory.step` and
  prints the final ghost state (who created what, what was handed to whom, teardown counts).

  Request:  {"multi": [request, …]}  or  {"threads": nT, "nobj": nO, "objects": [o, …] | null, "implicit_td": bool,
             "trace": [["miss",t] | ["create",t,o] | ["raise",t] | ["ret",t,o] |
                       ["tdbegin",t] | ["td",t,o,ok] | ["tdend",t,null|o], …]}
            (`tdend`: null = `teardown_factory` returned, o = it re-raised the exception of `teardown_object(o)`)

  Observable from user code are: entry of `setup_object` (= the slot read missed), its result, the value a
  `get_object` call returned, every `teardown_object` call and the begin/end of `teardown_factory`.  The two
  internal steps `writeSlot` / `append` are not observable; the acceptor inserts them before the `ret` of
  the thread, in the order of the `_objects` snapshot taken before the teardown (`objects`): when `ret t o`
  arrives, every object that precedes `o` in the snapshot and is not yet appended is stored+appended first
  (its creation has been observed earlier, so these steps are enabled exactly if the real order was
  possible).  With `implicit_td` (traces of real runs, where only the fixture's own teardown code is
  visible) `tdbegin` is inserted before the first `td` of an idle thread and `tdend` at the end of the trace, with
  the outcome the model computes (the runner swallows the re-raised exception into an error log).
  Run: `lake env lean --run drivers/C15.lean`
-/
import LccModel.Proto
import LccModel.Model.Threads
import LccModel.Model.ThreadsCtx
import LccModel.Model.FixtureDecl
open Lean LccModel LccModel.Proto LccModel.Threads.Factory

/-- Re-tabulate the function-valued fields (extensionally the identity on thread ids < nT and object ids
    < nO); built inside a function returning a structure (see harness/README.md). -/
def normalize (nT nO : Nat) (s : St) : St :=
  let ts := List.range nT
  let os := List.range nO
  let aSlot := (ts.map s.slot).toArray
  let aPc := (ts.map s.pc).toArray
  let aCreations := (ts.map s.creations).toArray
  let aCreator := (os.map s.creator).toArray
  let aTd := (os.map s.tdCount).toArray
  { s with
    slot := fun i => aSlot.getD i none, pc := fun i => aPc.getD i .idle,
    creations := fun i => aCreations.getD i 0, creator := fun i => aCreator.getD i none,
    tdCount := fun i => aTd.getD i 0 }

def errStr : Err → String
  | .pc => "program order violated (pc)" | .slotEmpty => "hit on an empty slot" | .slotFull => "miss on a filled slot"
  | .wrongObject => "not the object the code sees here" | .notFresh => "object identity not fresh"
  | .iter => "iterator position"
  | .outcome => "teardown_factory does not end this way here (return vs re-raise of the first exception)"

structure Out where
  accepted : Nat
  reject : Option String
  state : St

/-- one model step; `none` = accepted -/
def doStep (nT nO : Nat) (s : St) (l : Label) (what : String) : Except String St :=
  match step s l with
  | .ok s' => .ok (normalize nT nO s')
  | .error e => .error s!"{what}: {errStr e}"

/-- store+append (internal steps) until `o` is in `_objects`, following the snapshot order if there is one -/
def flushUntil (nT nO : Nat) (snap : Option (List Nat)) (t o : Nat) : Nat → St → Except String St
  | 0, _ => .error s!"ret {t} {o}: object never appended"
  | fuel + 1, s =>
    if o ∈ s.objects then .ok s
    else
      let x := match snap with
        | none => o
        | some l => match l.find? (fun y => !(s.objects.contains y)) with
          | some y => y
          | none => o
      match s.creator x with
      | none => .error s!"ret {t} {o}: object {x} precedes it in _objects but has not been created"
      | some u => do
        let s1 ← match s.pc u with
          | .created _ => doStep nT nO s (.writeSlot u) s!"writeSlot {u} (before ret {t} {o})"
          | _ => .ok s
        let s2 ← doStep nT nO s1 (.append u) s!"append {u} (before ret {t} {o})"
        flushUntil nT nO snap t o fuel s2

def replay (nT nO : Nat) (snap : Option (List Nat)) (implicitTd : Bool) (labels : List Json) : Except String Out := do
  let mut s : St := init
  let mut i := 0
  for lab in labels do
    let a ← lab.getArr?
    let kind ← a[0]!.getStr?
    let t ← a[1]!.getNat?
    let r : Except String St := do
      match kind with
      | "miss" => doStep nT nO s (.getMiss t) s!"miss {t}"
      | "create" =>
        let o ← a[2]!.getNat?
        doStep nT nO s (.setupOk t o) s!"create {t} {o}"
      | "raise" => doStep nT nO s (.setupRaise t) s!"raise {t}"
      | "ret" =>
        let o ← a[2]!.getNat?
        match s.pc t with
        | .idle => doStep nT nO s (.getHit t o) s!"ret {t} {o} (hit)"
        | _ =>
          let s1 ← flushUntil nT nO snap t o (nO + 2) s
          doStep nT nO s1 (.getRet t o) s!"ret {t} {o}"
      | "append" =>
        -- `self._objects.append(obj)` observed (the factory stream records it): the slot write precedes it
        let s1 ← (match s.pc t with
          | .created _ => doStep nT nO s (.writeSlot t) s!"writeSlot {t} (before the observed append)"
          | _ => .ok s)
        doStep nT nO s1 (.append t) s!"append {t}"
      | "tdbegin" => doStep nT nO s (.tdBegin t) s!"tdbegin {t}"
      | "td" =>
        let o ← a[2]!.getNat?
        let ok ← a[3]!.getBool?
        let s1 ← (if implicitTd && s.pc t == .idle then doStep nT nO s (.tdBegin t) s!"tdbegin {t} (implicit)" else .ok s)
        doStep nT nO s1 (.tdObj t o ok) s!"td {t} {o} {ok}"
      | "tdend" =>
        let r : Option Nat ← (match a[2]! with
          | .null => pure none
          | v => do let n ← v.getNat?; pure (some n))
        doStep nT nO s (.tdEnd t r) s!"tdend {t} {r}"
      | other => .error s!"unknown label {other}"
    match r with
    | .ok s' => s := s'
    | .error e => return { accepted := i, reject := some e, state := s }
    i := i + 1
  if implicitTd then
    for t in List.range nT do
      match s.pc t with
      | .tearing _ pend =>
        match doStep nT nO s (.tdEnd t pend) s!"tdend {t} (implicit)" with
        | .ok s' => s := s'
        | .error e => return { accepted := i, reject := some e, state := s }
      | _ => pure ()
  return { accepted := i, reject := none, state := s }

def natArr (l : List Nat) : Json := Json.arr (l.map (fun (n : Nat) => Json.num n)).toArray

/-- `"ctx": [["get", t, c] | ["copy", c, c'], …]` — the get-level history with contexts on M14d with the slot keyed by the OS
    thread (the code as it is): who is handed which object -/
def handleCtx (nT : Nat) (j : Json) : Except String Json := do
  let evs ← (← j.getArr?).toList.mapM (fun x => do
    let a ← x.getArr?
    match ← a[0]!.getStr? with
    | "get" => pure (Threads.Ctx.Ev.get (← a[1]!.getNat?) (← a[2]!.getNat?))
    | "copy" => pure (Threads.Ctx.Ev.copy (← a[1]!.getNat?) (← a[2]!.getNat?))
    | k => throw s!"unknown ctx event {k}")
  -- re-tabulate after every event (function-valued state, see harness/README.md)
  let stepN := fun (s : Threads.Ctx.St) (e : Threads.Ctx.Ev) =>
    let s' := Threads.Ctx.step .thread s e
    let aSlot := ((List.range nT).map s'.slot).toArray
    let aCre := ((List.range nT).map s'.creations).toArray
    { s' with slot := fun i => aSlot.getD i none, creations := fun i => aCre.getD i 0, creator := fun _ => none }
  let s := evs.foldl stepN Threads.Ctx.init
  pure (Json.mkObj [
    ("returned", Json.arr (s.returned.map (fun p => Json.arr #[Json.num p.1, Json.num p.2])).toArray),
    ("creations", Json.arr ((List.range nT).map (fun t => Json.num (s.creations t))).toArray),
    ("next", Json.num s.next)])

def handleOne (j : Json) : Except String Json := do
  let nT ← getNat j "threads"
  let nO ← getNat j "nobj"
  let snap : Option (List Nat) ← (match j.getObjVal? "objects" with
    | .ok (.arr a) => do let l ← a.toList.mapM (fun d => d.getNat?); pure (some l)
    | _ => pure none)
  let implicitTd := (getBool j "implicit_td").toOption.getD false
  let labels ← getArr j "trace"
  let out ← replay nT nO snap implicitTd labels.toList
  let s := out.state
  let ctx ← (match j.getObjVal? "ctx" with
    | .ok cj => do let r ← handleCtx nT cj; pure [("ctx", r)]
    | .error _ => pure [])
  pure (Json.mkObj (ctx ++ [
    ("accepted", Json.num out.accepted),
    ("reject", match out.reject with | none => Json.null | some r => Json.str r),
    ("objects", natArr s.objects),
    ("next", Json.num s.next),
    ("creator", Json.arr ((List.range nO).map (fun o => optNat (s.creator o))).toArray),
    ("creations", natArr ((List.range nT).map s.creations)),
    ("returned", Json.arr (s.returned.map (fun p => natArr [p.1, p.2])).toArray),
    ("td_count", natArr ((List.range nO).map s.tdCount)),
    ("td_begins", Json.num s.tdBegins), ("td_ends", Json.num s.tdEnds), ("td_raises", Json.num s.tdRaises),
    ("td_obj_raises", Json.num s.tdObjRaises),
    ("td_outcomes", Json.arr (s.tdOutcomes.map optNat).toArray),
    ("quiescent", Json.bool ((List.range nT).all (fun t => s.pc t == .idle)))]))

/-! ### validation of the declared fixtures (`PreparedProject._build_fixture_registry` + `check_dependencies`) -/

def getStrs (j : Json) (k : String) : Except String (List String) := do
  let a ← getArr j k
  a.toList.mapM (fun x => x.getStr?)

def parseScope (s : String) : Except String Fixture.Scope :=
  match s with
  | "test" => pure .test | "suite" => pure .suite | "session" => pure .session | "pre_run" => pure .preRun
  | _ => throw s!"unknown scope {s}"

def parseDecl (j : Json) : Except String Fixture.Decl := do
  pure ⟨← getStrs j "names", ← parseScope (← getStr j "scope"), ← getBool j "per_thread", ← getStrs j "params"⟩

def fixtureErrStr : Fixture.Err → String
  | .builtinName n => s!"builtinName:{n}" | .forbiddenName n => s!"forbiddenName:{n}" | .circular f => s!"circular:{f}"
  | .unknownParam p f => s!"unknownParam:{p}:{f}" | .perThreadDep f d => s!"perThreadDep:{f}:{d}"
  | .scopeInversion f d => s!"scopeInversion:{f}:{d}" | .suiteUnknown s f => s!"suiteUnknown:{s}:{f}"
  | .suitePerThread s f => s!"suitePerThread:{s}:{f}" | .suiteScope s f => s!"suiteScope:{s}:{f}"
  | .testUnknown t f => s!"testUnknown:{t}:{f}" | .keyError n => s!"CRASH-KeyError:{n}" | .outOfFuel => "CRASH-RecursionError"

def parseFTest (j : Json) : Except String Fixture.Test := do
  pure ⟨← getStr j "path", ← getStrs j "args", ← getStrs j "parameters", ← getBool j "disabled"⟩

partial def parseFSuite (j : Json) : Except String Fixture.Suite := do
  let tests ← (← getArr j "tests").toList.mapM parseFTest
  let subs ← (← getArr j "subs").toList.mapM parseFSuite
  pure (.mk (← getStr j "path") (← getBool j "disabled") (← getStrs j "injected") (← getStrs j "setup_args") tests subs)

/-- `{"decls": [{names, scope, per_thread, params}, …], "suites": [suite tree]}` → what the decorator,
    `check_dependencies` and `check_fixtures_in_suites` say, in the order of `PreparedProject.create` -/
def handleValidate (j : Json) : Except String Json := do
  let decls ← (← getArr j "decls").toList.mapM parseDecl
  let suites ← (match j.getObjVal? "suites" with
    | .ok (.arr a) => a.toList.mapM parseFSuite
    | _ => pure [])
  match decls.find? (fun d => !Fixture.declAllowed d.scope d.perThread) with
  | some d => pure (Json.mkObj [("verdict", Json.str s!"declRefused:{d.names}")])
  | none =>
    match Fixture.build decls with
    | .error e => pure (Json.mkObj [("verdict", Json.str (fixtureErrStr e))])
    | .ok R =>
      match Fixture.checkDependencies R with
      | .error e => pure (Json.mkObj [("verdict", Json.str (fixtureErrStr e))])
      | .ok () =>
        match Fixture.checkFixturesInSuites R suites with
        | .error e => pure (Json.mkObj [("verdict", Json.str (fixtureErrStr e))])
        | .ok () => pure (Json.mkObj [("verdict", Json.str "accepted")])

/-- `{"multi": [request, …]}` (one per factory instance of a real run; optionally with `"validate": {decls}`) or a single
    request -/
def handle (j : Json) : Except String Json :=
  match j.getObjVal? "multi" with
  | .ok (.arr a) => do
    let rs ← a.toList.mapM handleOne
    let v ← (match j.getObjVal? "validate" with
      | .ok vj => do let r ← handleValidate vj; pure [("validate", r)]
      | .error _ => pure [])
    pure (Json.mkObj ([("multi", Json.arr rs.toArray)] ++ v))
  | _ => handleOne j

def main : IO Unit := loop (wrap handle)

/-
  Driver of the `C03.hooks` correspondence stream: `Hooks.loadHooks` (`Model/Hooks.lean`) of the hook declarations of every suite
  of a case.  Request: {"suites": [{"path": [...], "module": bool, "hooks": [{"name", "shape", "place"}]}]};
  answer: {"hooks": [[path, [registered hook names]]]}.
  Run: `lake env lean --run drivers/Hooks.lean`
-/
import LccModel.Proto
import LccModel.Model.Hooks
open Lean LccModel LccModel.Proto LccModel.Hooks

def parseShape : String → Except String Shape
  | "method" => pure .method | "staticmethod" => pure .staticmethod | "classmethod" => pure .classmethod | "lambda" => pure .lambdaFn
  | "function" => pure .function | "boundmethod" => pure .boundmethod | "partial" => pure .partialObj | "callable" => pure .callableObj
  | "alias" => pure .alias | "none" => pure .noneValue | "string" => pure .stringValue
  | s => throw s!"unknown shape {s}"

def parsePlace : String → Except String Place
  | "init" => pure .init | "body" => pure .body | "base" => pure .base | "mixin" => pure .mixin | "module" => pure .module
  | s => throw s!"unknown place {s}"

def parseDecl (j : Json) : Except String HookDecl := do
  let s ← parseShape (← getStr j "shape")
  let p ← parsePlace (← getStr j "place")
  if !wellPlaced s p then throw "shape cannot be written at that place"
  pure { name := ← getStr j "name", shape := s, place := p }

def handleReq (j : Json) : Except String Json := do
  let suites ← getArr j "suites"
  let out ← suites.toList.mapM (fun sj => do
    let path ← sj.getObjVal? "path"
    let ds ← (← getArr sj "hooks").toList.mapM parseDecl
    let isMod ← getBool sj "module"
    if ds.any (fun d => (d.place == .module) != isMod) then throw "place does not fit the kind of suite"
    pure (Json.arr #[path, Json.arr ((loadHooks ds).map Json.str).toArray]))
  pure (Json.mkObj [("hooks", Json.arr out.toArray)])

def main : IO Unit := loop (wrap handleReq)

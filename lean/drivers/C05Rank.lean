/-
  Driver for the stream `C05.rank`: the exact ranks the loader gives the tests of a declared suite (`Model/RankFrac.lean`) and the
  order `SuiteResult.get_tests()` (a stable sort by rank) makes of the results in their order of arrival.
  Request `{"decls": [[name, null | n]…], "arrival": [test names in the order their results were added]}`;
  answer `{"loaded": [names in load order], "report": [names in report order]}`.
  Run: `lake env lean --run drivers/C05Rank.lean`
-/
import LccModel.Proto
import LccModel.Model.RankFrac
open Lean LccModel LccModel.Proto LccModel.RankFrac

def handleReq (j : Json) : Except String Json := do
  let ds ← getArr j "decls"
  let decls : Decls ← ds.toList.mapM fun d => do
    let p ← d.getArr?
    let name ← (p[0]?.getD Json.null).getStr?
    let n ← match p[1]?.getD Json.null with
      | .null => pure none
      | x => do pure (some (← x.getNat?))
    pure (name, n)
  let loaded := loadedRanks 1 decls
  let arr ← getArr j "arrival"
  let arrival ← arr.toList.mapM fun a => do
    let name ← a.getStr?
    match loaded.find? (fun p => p.1 == name) with
    | some p => pure p
    | none => throw s!"unknown test {name}"
  let strs (l : List String) : Json := Json.arr (l.map Json.str).toArray
  pure (Json.mkObj [("loaded", strs (loaded.map (·.1))), ("report", strs (reportOrder arrival))])

def main : IO Unit := loop (wrap handleReq)

/-
  JSON wire format of reports and events shared by the drivers of C09 / C18 / C20 (and whoever else
  needs to ship a `Report` or an `Event` to a driver).  The Python side is `harness/gen/reports.py`
  (`canon.report`, `wire_*`).

  TEXT: every string of a report travels as a JSON array of code points, never as a JSON string, so no
  JSON escaping convention is involved.  Lean's `String` holds Unicode scalar values only; Python's
  `str` may also hold lone surrogates U+D800+k.  The harness transports such a code unit as the
  plane-16 private-use scalar U+10F800+k (`Serial.isSurrogateCarrier`) and never generates genuine
  characters of that block; the mapping is undone on the way back.  This is the only place where the
  model's text differs from Python's.
  Core Lean only.
-/
import Lean.Data.Json
import LccModel.Proto
import LccModel.Model.Report

namespace LccModel.ProtoReport
open Lean LccModel.Proto LccModel.Report

/-! ### encoding -/

def encStr (s : String) : Json := Json.arr (s.toList.map (fun c => Json.num c.toNat)).toArray
def encOptStr : Option String → Json
  | none => Json.null
  | some s => encStr s
def encOptNat : Option Nat → Json
  | none => Json.null
  | some n => Json.num n
def encList {α : Type} (f : α → Json) (l : List α) : Json := Json.arr (l.map f).toArray
def encPath (p : Path) : Json := encList encStr p

def encLevel : LogLevel → Json
  | .debug => "debug" | .info => "info" | .warn => "warn" | .error => "error"

def encStatus : Option Status → Json
  | none => Json.null
  | some .passed => "passed" | some .failed => "failed" | some .skipped => "skipped" | some .disabled => "disabled"

def encEntry : Entry → Json
  | .log level msg t => Json.mkObj [("k", "log"), ("level", encLevel level), ("msg", encStr msg), ("t", Json.num t)]
  | .check d ok det t => Json.mkObj [("k", "check"), ("desc", encStr d), ("ok", Json.bool ok), ("details", encOptStr det), ("t", Json.num t)]
  | .attachment d f img t => Json.mkObj [("k", "att"), ("desc", encStr d), ("file", encStr f), ("img", Json.bool img), ("t", Json.num t)]
  | .url d u t => Json.mkObj [("k", "url"), ("desc", encStr d), ("url", encStr u), ("t", Json.num t)]

def encStep (s : Step) : Json :=
  Json.mkObj [("desc", encStr s.description), ("start", encOptNat s.startTime), ("end", encOptNat s.endTime),
              ("entries", encList encEntry s.entries)]

def encResult (r : Result) : Json :=
  Json.mkObj [("steps", encList encStep r.steps), ("start", encOptNat r.startTime), ("end", encOptNat r.endTime),
              ("status", encStatus r.status), ("details", encOptStr r.statusDetails)]

def encOptResult : Option Result → Json
  | none => Json.null
  | some r => encResult r

def encMeta (m : Meta) : Json :=
  Json.mkObj [("name", encStr m.name), ("desc", encStr m.description), ("tags", encList encStr m.tags),
              ("props", encList (fun (k, v) => Json.arr #[encStr k, encStr v]) m.properties),
              ("links", encList (fun (u, n) => Json.arr #[encStr u, encOptStr n]) m.links),
              ("rank", Json.num m.rank)]

def encTest (t : TestResult) : Json := Json.mkObj [("md", encMeta t.md), ("res", encResult t.result)]

mutual
def encSuite : SuiteResult → Json
  | .mk md st en su td ts ss =>
    Json.mkObj [("md", encMeta md), ("start", encOptNat st), ("end", encOptNat en), ("setup", encOptResult su),
                ("teardown", encOptResult td), ("tests", encList encTest ts), ("suites", Json.arr (encSuites ss).toArray)]
def encSuites : List SuiteResult → List Json
  | [] => []
  | s :: ss => encSuite s :: encSuites ss
end

def encReport (r : Report) : Json :=
  Json.mkObj [("title", encStr r.title),
              ("info", encList (fun (k, v) => Json.arr #[encStr k, encStr v]) r.info),
              ("nb_threads", Json.num r.nbThreads), ("start", encOptNat r.startTime), ("end", encOptNat r.endTime),
              ("saving", encOptNat r.savingTime), ("setup", encOptResult r.setup), ("teardown", encOptResult r.teardown),
              ("suites", Json.arr (encSuites r.suites).toArray)]

def encLoc : Loc → Json
  | .sessionSetup => Json.mkObj [("k", "ssetup")]
  | .sessionTeardown => Json.mkObj [("k", "steardown")]
  | .suiteSetup p => Json.mkObj [("k", "setup"), ("path", encPath p)]
  | .suiteTeardown p => Json.mkObj [("k", "teardown"), ("path", encPath p)]
  | .test p => Json.mkObj [("k", "test"), ("path", encPath p)]

def encEvent : Event → Json
  | .sessionStart t => Json.mkObj [("e", "sessionStart"), ("t", Json.num t)]
  | .sessionEnd t => Json.mkObj [("e", "sessionEnd"), ("t", Json.num t)]
  | .sessionSetupStart t => Json.mkObj [("e", "sessionSetupStart"), ("t", Json.num t)]
  | .sessionSetupEnd t => Json.mkObj [("e", "sessionSetupEnd"), ("t", Json.num t)]
  | .sessionTeardownStart t => Json.mkObj [("e", "sessionTeardownStart"), ("t", Json.num t)]
  | .sessionTeardownEnd t => Json.mkObj [("e", "sessionTeardownEnd"), ("t", Json.num t)]
  | .suiteStart p md t => Json.mkObj [("e", "suiteStart"), ("path", encPath p), ("md", encMeta md), ("t", Json.num t)]
  | .suiteEnd p t => Json.mkObj [("e", "suiteEnd"), ("path", encPath p), ("t", Json.num t)]
  | .suiteSetupStart p t => Json.mkObj [("e", "suiteSetupStart"), ("path", encPath p), ("t", Json.num t)]
  | .suiteSetupEnd p t => Json.mkObj [("e", "suiteSetupEnd"), ("path", encPath p), ("t", Json.num t)]
  | .suiteTeardownStart p t => Json.mkObj [("e", "suiteTeardownStart"), ("path", encPath p), ("t", Json.num t)]
  | .suiteTeardownEnd p t => Json.mkObj [("e", "suiteTeardownEnd"), ("path", encPath p), ("t", Json.num t)]
  | .testStart p md t => Json.mkObj [("e", "testStart"), ("path", encPath p), ("md", encMeta md), ("t", Json.num t)]
  | .testEnd p t => Json.mkObj [("e", "testEnd"), ("path", encPath p), ("t", Json.num t)]
  | .testSkipped p md reason t =>
    Json.mkObj [("e", "testSkipped"), ("path", encPath p), ("md", encMeta md), ("reason", encOptStr reason), ("t", Json.num t)]
  | .testDisabled p md reason t =>
    Json.mkObj [("e", "testDisabled"), ("path", encPath p), ("md", encMeta md), ("reason", encOptStr reason), ("t", Json.num t)]
  | .stepStart loc d tid t =>
    Json.mkObj [("e", "stepStart"), ("loc", encLoc loc), ("desc", encStr d), ("tid", Json.num tid), ("t", Json.num t)]
  | .stepEnd loc d tid t =>
    Json.mkObj [("e", "stepEnd"), ("loc", encLoc loc), ("desc", encStr d), ("tid", Json.num tid), ("t", Json.num t)]
  | .log loc st tid level msg t =>
    Json.mkObj [("e", "log"), ("loc", encLoc loc), ("step", encOptStr st), ("tid", Json.num tid),
                ("level", encLevel level), ("msg", encStr msg), ("t", Json.num t)]
  | .check loc st tid d ok det t =>
    Json.mkObj [("e", "check"), ("loc", encLoc loc), ("step", encOptStr st), ("tid", Json.num tid),
                ("desc", encStr d), ("ok", Json.bool ok), ("details", encOptStr det), ("t", Json.num t)]
  | .attachment loc st tid path d img t =>
    Json.mkObj [("e", "att"), ("loc", encLoc loc), ("step", encOptStr st), ("tid", Json.num tid),
                ("file", encStr path), ("desc", encStr d), ("img", Json.bool img), ("t", Json.num t)]
  | .url loc st tid u d t =>
    Json.mkObj [("e", "url"), ("loc", encLoc loc), ("step", encOptStr st), ("tid", Json.num tid),
                ("url", encStr u), ("desc", encStr d), ("t", Json.num t)]

/-! ### decoding (errors are explicit, never defaulted) -/

def decStr (j : Json) : Except String String := do
  let a ← j.getArr?
  let cs ← a.toList.mapM (fun x => do
    let n ← x.getNat?
    if h : n.isValidChar then pure (Char.ofNatAux n h) else throw s!"not a Unicode scalar value: {n}")
  pure (String.ofList cs)

def decOpt {α : Type} (f : Json → Except String α) (j : Json) : Except String (Option α) :=
  match j with
  | .null => pure none
  | j => do let x ← f j; pure (some x)

def field (j : Json) (k : String) : Except String Json := j.getObjVal? k

def fieldOpt (j : Json) (k : String) : Json :=
  match j.getObjVal? k with
  | .ok v => v
  | .error _ => .null

def decList {α : Type} (f : Json → Except String α) (j : Json) : Except String (List α) := do
  let a ← j.getArr?
  a.toList.mapM f

def decPath : Json → Except String Path := decList decStr
def decNat (j : Json) : Except String Nat := j.getNat?
def decBool (j : Json) : Except String Bool := j.getBool?

def decLevel (j : Json) : Except String LogLevel := do
  match (← j.getStr?) with
  | "debug" => pure .debug | "info" => pure .info | "warn" => pure .warn | "error" => pure .error
  | s => throw s!"unknown level {s}"

def decStatus (j : Json) : Except String (Option Status) :=
  match j with
  | .null => pure none
  | j => do
    match (← j.getStr?) with
    | "passed" => pure (some .passed) | "failed" => pure (some .failed)
    | "skipped" => pure (some .skipped) | "disabled" => pure (some .disabled)
    | s => throw s!"unknown status {s}"

def decPair {α β : Type} (f : Json → Except String α) (g : Json → Except String β) (j : Json) : Except String (α × β) := do
  let a ← j.getArr?
  match a.toList with
  | [x, y] => do pure ((← f x), (← g y))
  | _ => throw "pair expected"

def decEntry (j : Json) : Except String Entry := do
  let k ← (← field j "k").getStr?
  let t ← decNat (← field j "t")
  match k with
  | "log" => pure (.log (← decLevel (← field j "level")) (← decStr (← field j "msg")) t)
  | "check" => pure (.check (← decStr (← field j "desc")) (← decBool (← field j "ok")) (← decOpt decStr (fieldOpt j "details")) t)
  | "att" => pure (.attachment (← decStr (← field j "desc")) (← decStr (← field j "file")) (← decBool (← field j "img")) t)
  | "url" => pure (.url (← decStr (← field j "desc")) (← decStr (← field j "url")) t)
  | _ => throw s!"unknown entry kind {k}"

def decStep (j : Json) : Except String Step := do
  pure { description := ← decStr (← field j "desc"), startTime := ← decOpt decNat (fieldOpt j "start"),
         endTime := ← decOpt decNat (fieldOpt j "end"), entries := ← decList decEntry (← field j "entries") }

def decResult (j : Json) : Except String Result := do
  pure { steps := ← decList decStep (← field j "steps"), startTime := ← decOpt decNat (fieldOpt j "start"),
         endTime := ← decOpt decNat (fieldOpt j "end"), status := ← decStatus (fieldOpt j "status"),
         statusDetails := ← decOpt decStr (fieldOpt j "details") }

def decMeta (j : Json) : Except String Meta := do
  pure { name := ← decStr (← field j "name"), description := ← decStr (← field j "desc"),
         tags := ← decList decStr (← field j "tags"),
         properties := ← decList (decPair decStr decStr) (← field j "props"),
         links := ← decList (decPair decStr (decOpt decStr)) (← field j "links"),
         rank := ← decNat (← field j "rank") }

def decTest (j : Json) : Except String TestResult := do
  pure { md := ← decMeta (← field j "md"), result := ← decResult (← field j "res") }

partial def decSuite (j : Json) : Except String SuiteResult := do
  let md ← decMeta (← field j "md")
  let st ← decOpt decNat (fieldOpt j "start")
  let en ← decOpt decNat (fieldOpt j "end")
  let su ← decOpt decResult (fieldOpt j "setup")
  let td ← decOpt decResult (fieldOpt j "teardown")
  let ts ← decList decTest (← field j "tests")
  let ss ← decList decSuite (← field j "suites")
  pure (.mk md st en su td ts ss)

def decReport (j : Json) : Except String Report := do
  pure { title := ← decStr (← field j "title"),
         info := ← decList (decPair decStr decStr) (← field j "info"),
         nbThreads := ← decNat (← field j "nb_threads"),
         startTime := ← decOpt decNat (fieldOpt j "start"), endTime := ← decOpt decNat (fieldOpt j "end"),
         savingTime := ← decOpt decNat (fieldOpt j "saving"),
         setup := ← decOpt decResult (fieldOpt j "setup"), teardown := ← decOpt decResult (fieldOpt j "teardown"),
         suites := ← decList decSuite (← field j "suites") }

def decLoc (j : Json) : Except String Loc := do
  match (← (← field j "k").getStr?) with
  | "ssetup" => pure .sessionSetup
  | "steardown" => pure .sessionTeardown
  | "setup" => pure (.suiteSetup (← decPath (← field j "path")))
  | "teardown" => pure (.suiteTeardown (← decPath (← field j "path")))
  | "test" => pure (.test (← decPath (← field j "path")))
  | k => throw s!"unknown location kind {k}"

def decEvent (j : Json) : Except String Event := do
  let e ← (← field j "e").getStr?
  let t ← decNat (← field j "t")
  let path := fun (_ : Unit) => do decPath (← field j "path")
  let loc := fun (_ : Unit) => do decLoc (← field j "loc")
  let tid := fun (_ : Unit) => do decNat (← field j "tid")
  let st := fun (_ : Unit) => decOpt decStr (fieldOpt j "step")
  match e with
  | "sessionStart" => pure (.sessionStart t)
  | "sessionEnd" => pure (.sessionEnd t)
  | "sessionSetupStart" => pure (.sessionSetupStart t)
  | "sessionSetupEnd" => pure (.sessionSetupEnd t)
  | "sessionTeardownStart" => pure (.sessionTeardownStart t)
  | "sessionTeardownEnd" => pure (.sessionTeardownEnd t)
  | "suiteStart" => pure (.suiteStart (← path ()) (← decMeta (← field j "md")) t)
  | "suiteEnd" => pure (.suiteEnd (← path ()) t)
  | "suiteSetupStart" => pure (.suiteSetupStart (← path ()) t)
  | "suiteSetupEnd" => pure (.suiteSetupEnd (← path ()) t)
  | "suiteTeardownStart" => pure (.suiteTeardownStart (← path ()) t)
  | "suiteTeardownEnd" => pure (.suiteTeardownEnd (← path ()) t)
  | "testStart" => pure (.testStart (← path ()) (← decMeta (← field j "md")) t)
  | "testEnd" => pure (.testEnd (← path ()) t)
  | "testSkipped" => pure (.testSkipped (← path ()) (← decMeta (← field j "md")) (← decOpt decStr (fieldOpt j "reason")) t)
  | "testDisabled" => pure (.testDisabled (← path ()) (← decMeta (← field j "md")) (← decOpt decStr (fieldOpt j "reason")) t)
  | "stepStart" => pure (.stepStart (← loc ()) (← decStr (← field j "desc")) (← tid ()) t)
  | "stepEnd" => pure (.stepEnd (← loc ()) (← decStr (← field j "desc")) (← tid ()) t)
  | "log" => pure (.log (← loc ()) (← st ()) (← tid ()) (← decLevel (← field j "level")) (← decStr (← field j "msg")) t)
  | "check" => pure (.check (← loc ()) (← st ()) (← tid ()) (← decStr (← field j "desc")) (← decBool (← field j "ok"))
                        (← decOpt decStr (fieldOpt j "details")) t)
  | "att" => pure (.attachment (← loc ()) (← st ()) (← tid ()) (← decStr (← field j "file")) (← decStr (← field j "desc"))
                        (← decBool (← field j "img")) t)
  | "url" => pure (.url (← loc ()) (← st ()) (← tid ()) (← decStr (← field j "url")) (← decStr (← field j "desc")) t)
  | _ => throw s!"unknown event {e}"

end LccModel.ProtoReport

/-
  JSON-lines protocol shared by every driver in `drivers/`.
  One request per stdin line, one canonical answer per stdout line.
  Core Lean only (no Mathlib), so drivers start in well under a second.
-/
import Lean.Data.Json

namespace LccModel.Proto
open Lean

/-- Read requests until EOF; answer each with `handle`. A malformed line is answered by an
    explicit error object — never by a default value. -/
partial def loop (handle : Json → Json) : IO Unit := do
  let stdin ← IO.getStdin
  let stdout ← IO.getStdout
  let rec go : IO Unit := do
    let line ← stdin.getLine
    if line.isEmpty then return ()
    let t := line.trimAscii.toString
    if t.isEmpty then go else
    match Json.parse t with
    | .error e => stdout.putStrLn (Json.compress (Json.mkObj [("error", Json.str s!"parse: {e}")]))
    | .ok j => stdout.putStrLn (Json.compress (handle j))
    stdout.flush
    go
  go

def err (msg : String) : Json := Json.mkObj [("error", Json.str msg)]

def getNat (j : Json) (k : String) : Except String Nat := do
  let v ← j.getObjVal? k
  v.getNat?

def getStr (j : Json) (k : String) : Except String String := do
  let v ← j.getObjVal? k
  v.getStr?

def getBool (j : Json) (k : String) : Except String Bool := do
  let v ← j.getObjVal? k
  v.getBool?

def getArr (j : Json) (k : String) : Except String (Array Json) := do
  let v ← j.getObjVal? k
  v.getArr?

def getOptNat (j : Json) (k : String) : Except String (Option Nat) :=
  match j.getObjVal? k with
  | .error _ => .ok none
  | .ok .null => .ok none
  | .ok v => do let n ← v.getNat?; pure (some n)

def getOptStr (j : Json) (k : String) : Except String (Option String) :=
  match j.getObjVal? k with
  | .error _ => .ok none
  | .ok .null => .ok none
  | .ok v => do let n ← v.getStr?; pure (some n)

def optNat : Option Nat → Json
  | none => Json.null
  | some n => Json.num n

def optStr : Option String → Json
  | none => Json.null
  | some s => Json.str s

def wrap (f : Json → Except String Json) (j : Json) : Json :=
  match f j with
  | .ok r => r
  | .error e => err e

end LccModel.Proto

/-
  Obligations regenerated on every run (C15): the decision tables obtained by EXECUTING the real code
    * `lemoncheesecake.fixture.fixture(scope=…, per_thread=…)` on all 4 × 2 (scope, per_thread) pairs (`declTable`), and
    * `FixtureRegistry.check_dependencies` on the registry `PreparedProject._build_fixture_registry` builds for a
      project declaring `g()` and `f(g)`, for all declarable (scope, per_thread) of `f` and of `g` (`pairTable`)
  equal the model's `declAllowed` / `pairVerdict` (`Model/FixtureDecl.lean`; closed form:
  `LccModel.C15V.pair_decision_table`), and
    * a real `ThreadedFactory` accessed twice — first access by thread 1 in its base / a copied / a fresh `contextvars`
      context, second access by the same or another OS thread in its base context / a copy of the first access's context /
      a fresh one (`slotKeyTable`, 18 rows: did the second access reuse the object?) — equals `Threads.Ctx.hit .thread`
      (`Model/ThreadsCtx.lean`; closed form `LccModel.C15Ctx.hit_iff_same_os_thread`: the slot belongs to the OS thread,
      not to the context; a context-keyed slot differs on 8 rows).
    * `FixtureRegistry.check_fixtures_in_suites` on real `Suite` objects using `g` themselves, enabled / marked disabled /
      nested in a suite marked disabled (`suiteUseTable`, 42 rows) equals `suiteUseVerdict`: the verdict ignores `disabled`.
  `Generated/C15Tables.lean` is written by harness/props/c15.py (`tables`).
-/
import LccModel.Model.FixtureDecl
import LccModel.Model.ThreadsCtx
import LccModel.Generated.C15Tables

namespace LccModel.Generated.C15
open LccModel.Fixture

theorem decl_table_agrees : ∀ r ∈ declTable, declAllowed r.1.1 r.1.2 = r.2 := by decide

theorem pair_table_agrees :
    ∀ r ∈ pairTable, pairVerdict r.1.1 r.1.2.1 r.1.2.2.1 r.1.2.2.2 = r.2 := by decide

/-- the extracted tables cover the whole domain -/
theorem decl_table_complete (s : Scope) (pt : Bool) : (s, pt) ∈ declTable.map (·.1) := by
  cases s <;> cases pt <;> decide

theorem pair_table_complete (fs : Scope) (fpt : Bool) (gs : Scope) (gpt : Bool)
    (hf : declAllowed fs fpt = true) (hg : declAllowed gs gpt = true) :
    (fs, fpt, gs, gpt) ∈ pairTable.map (·.1) := by
  cases fs <;> cases fpt <;> cases gs <;> cases gpt <;> first | decide | (simp [declAllowed] at hf hg)

/-- the table obtained by executing the real `check_fixtures_in_suites` on real `Suite` objects — a suite using `g`
    itself (injected attribute / `setup_suite` argument), enabled, marked disabled, or inside a suite marked disabled,
    for every declarable (scope, per_thread) of `g` — equals the model (closed form `C15V.suite_use_decision_table`) -/
theorem suite_use_table_agrees :
    ∀ r ∈ suiteUseTable, suiteUseVerdict r.1.1 r.1.2.1 r.1.2.2.1 r.1.2.2.2 = r.2 := by decide

theorem suite_use_table_complete (st : SuiteState) (how : SuiteHow) (gs : Scope) (gpt : Bool)
    (hg : declAllowed gs gpt = true) : (st, how, gs, gpt) ∈ suiteUseTable.map (·.1) := by
  cases st <;> cases how <;> cases gs <;> cases gpt <;> first | decide | (simp [declAllowed] at hg)

theorem slot_key_table_agrees :
    ∀ r ∈ slotKeyTable, Threads.Ctx.hit .thread r.1.1 r.1.2.1 r.1.2.2 = r.2 := by decide

theorem slot_key_table_complete (f : Threads.Ctx.Where) (o : Bool) (s : Threads.Ctx.Where) :
    (f, o, s) ∈ slotKeyTable.map (·.1) := by
  cases f <;> cases o <;> cases s <;> decide

end LccModel.Generated.C15

/-
  Obligations regenerated on every run (C15): the decision tables obtained by EXECUTING the real code
    * `lemoncheesecake.fixture.fixture(scope=…, per_thread=…)` on all 4 × 2 (scope, per_thread) pairs (`declTable`), and
    * `FixtureRegistry.check_dependencies` on the registry `PreparedProject._build_fixture_registry` builds for a
      project declaring `g()` and `f(g)`, for all declarable (scope, per_thread) of `f` and of `g` (`pairTable`)
  equal the model's `declAllowed` / `pairVerdict` (`Model/FixtureDecl.lean`; closed form:
  `LccModel.C15V.pair_decision_table`).  `Generated/C15Tables.lean` is written by harness/props/c15.py (`tables`).
-/
import LccModel.Model.FixtureDecl
import LccModel.Generated.C15Tables

namespace LccModel.Generated.C15
open LccModel.Fixture

theorem decl_table_agrees : ∀ r ∈ declTable, declAllowed r.1.1 r.1.2 = r.2 := by decide

theorem pair_table_agrees :
    ∀ r ∈ pairTable, pairVerdict r.1.1 r.1.2.1 r.1.2.2.1 r.1.2.2.2 = r.2 := by decide

/-- the extracted tables cover the whole domain -/
theorem decl_table_complete (s : Scope) (pt : Bool) : (s, pt) ∈ declTable.map (·.1) := by
  cases s <;> cases pt <;> decide

theorem pair_table_complete (fs : Scope) (fpt : Bool) (gs : Scope) (gpt : Bool)
    (hf : declAllowed fs fpt = true) (hg : declAllowed gs gpt = true) :
    (fs, fpt, gs, gpt) ∈ pairTable.map (·.1) := by
  cases fs <;> cases fpt <;> cases gs <;> cases gpt <;> first | decide | (simp [declAllowed] at hf hg)

end LccModel.Generated.C15

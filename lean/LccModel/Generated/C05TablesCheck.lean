/-
  Proof obligation over the table that `harness/props/c05.py: tables` extracts on every run by LOADING a suite class with the real
  loader (`Generated/C05Tables.lean`, git-ignored): a test declared at rank r, a parametrized test with 5001 parameter sets declared
  next, a test declared after it.  The ranks (floats, written as exact fractions through `float.as_integer_ratio`) of the expansions
  number 0..40, 100, 1023, 1024, 1025 and 5000 are strictly increasing, not below the rank of their declaration and strictly below
  the rank of the test declared after it — what `C05Rank.variant_rank_strictly_increasing` /
  `variant_rank_below_next_declaration` prove of the formula for every index.
-/
import LccModel.Model.RankFrac
import LccModel.Generated.C05Tables

namespace LccModel.Generated.C05
open LccModel.RankFrac

/-- `variantBounds` = one row (rank of the parametrized declaration, rank of the test declared after it); `variantRanks` =
    (index, rank) of the sampled expansions in parameter-set order -/
theorem loader_ranks_increasing_below_next : ∀ b ∈ variantBounds,
    ranksOk ⟨b.1.1, b.1.2⟩ ⟨b.2.1, b.2.2⟩ (variantRanks.map fun r => ⟨r.2.1, r.2.2⟩) = true := by decide +kernel

/-- the table is not empty and samples indices beyond 1024 -/
theorem loader_ranks_sampled : variantBounds.length = 1 ∧ variantRanks.length = 46 ∧ (variantRanks.map (·.1)).getLast? = some 5000 := by
  decide +kernel

end LccModel.Generated.C05

/-
  Obligation regenerated on every run (`Generated/C01Tables.lean` is written by harness/props/c01.py `tables`): the bound of the queue
  the REAL `AsyncEventManager.handle_events` creates.  Termination (C01) needs `fire` never to block: `Props/C01Events.lean` proves
  that for the unbounded queue and proves that every finite bound can block the run.
-/
import LccModel.Generated.C01Tables

namespace LccModel.Generated.C01

/-- the queue of the real `AsyncEventManager` is unbounded (`maxsize` 0): the hypothesis `init none` of
    `C01Events.event_manager_never_blocks_the_run` -/
theorem em_queue_is_unbounded : ∀ r ∈ emQueueBound, r.2 = 0 := by decide

end LccModel.Generated.C01

/-
  Proof obligations over the decision tables that `harness/props/c12.py: tables` extracts on every run by
  *executing* the real functions of /repo on finite domains (`Generated/C12Tables.lean`, git-ignored).
  If the code's decision changes, `decide` fails here.
-/
import LccModel.Model.Filter
import LccModel.Generated.C12Tables

namespace LccModel.Generated.C12
open LccModel.Filter

/-- `BaseTreeNodeFilter._match_values` (polarity, OR over the values of one option, `None` → `""`);
    `none` = the real function raised. -/
theorem matchValues_agrees : ∀ r ∈ matchValuesTable, some (matchValues r.1.1 r.1.2) = r.2 := by decide +kernel

/-- `BaseTreeNodeFilter._match_key_values` (the key must exist for either polarity). -/
theorem matchKeyValues_agrees :
    ∀ r ∈ matchKeyValuesTable, some (matchKeyValues (fun k => r.1.1.lookup k) r.1.2) = r.2 := by decide +kernel

def cliOfFlags (b : Bool × Bool × Bool × Bool × Bool × Bool) : Cli :=
  { passed := b.1, failed := b.2.1, skipped := b.2.2.1, nonPassed := b.2.2.2.1, enabled := b.2.2.2.2.1,
    disabled := b.2.2.2.2.2 }

/-- real parser → `make_result_filter` → `ResultFilter._apply_result_criteria` on a result with the given
    status; `none` = `UserError` (--enabled together with --disabled). -/
theorem resultCriteria_agrees : ∀ r ∈ resultCriteriaTable,
    (match makeResultFilter (cliOfFlags r.1.1) with
      | .ok rf => some (rf.resultCriteria r.1.2 [])
      | .error _ => none) = r.2 := by decide +kernel

def nodeD (d : Bool) : Node := { name := [], desc := [], tags := [], props := [], links := [], disabled := d }

/-- `TestFilter._apply_test_criteria` on a real `Test` inside a real `Suite`, for every combination of the
    switches and of the `disabled` attributes (False / True / a reason string). -/
theorem testSwitch_agrees : ∀ r ∈ testSwitchTable,
    ({ enabled := r.1.1, disabled := r.1.2.1 } : TestFilter).sel [nodeD r.1.2.2.1, nodeD r.1.2.2.2] = r.2 := by
  decide +kernel

/-- real parser → `make_test_filter`: which of the options from-report, passed, failed, skipped, non-passed,
    grep make the selection report-based. -/
theorem filterKind_agrees : ∀ r ∈ filterKindTable,
    ({ fromReport := r.1.1, passed := r.1.2.1, failed := r.1.2.2.1, skipped := r.1.2.2.2.1,
       nonPassed := r.1.2.2.2.2.1, grep := r.1.2.2.2.2.2 } : Cli).reportBased = r.2 := by decide +kernel

/-- `bool(TestFilter(...))`: the filter is "empty" exactly when no criterion is present. -/
theorem truthy_agrees : ∀ r ∈ truthyTable,
    (!({ paths := if r.1.1 then [[97]] else [], descs := if r.1.2.1 then [[[97]]] else [],
         tags := if r.1.2.2.1 then [[[97]]] else [], props := if r.1.2.2.2.1 then [[([107], [118])]] else [],
         links := if r.1.2.2.2.2.1 then [[[97]]] else [], enabled := r.1.2.2.2.2.2.1,
         disabled := r.1.2.2.2.2.2.2 } : TestFilter).isEmpty) = r.2 := by decide +kernel

/-- `ResultFilter._do_grep` on real `Step` objects with the pattern compiled by `_make_grep_criterion`: the model's
    per-item search agrees on every (pattern, result content) pair of the table — among them patterns whose match
    would need two adjacent items, `\\A` / `\\Z` on inner items, and patterns matching the empty string on a result
    without any grepable item. -/
theorem grep_agrees : ∀ r ∈ grepTable,
    some (({ grep := some r.1.1 } : ResultFilter).doGrep r.1.2) = r.2 := by decide +kernel

end LccModel.Generated.C12

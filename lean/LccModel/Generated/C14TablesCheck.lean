/-
  Obligations regenerated on every run (C14): decision tables obtained by EXECUTING the real code
    * `discoveryTable` — for every naming shape of the identifier (several representative identifiers per
      shape) × place of assignment: does the suite loaded by `load_suite_from_class` /
      `load_suite_from_module` list the fixture named by `ident = lcc.inject_fixture("f")` among
      `Suite.get_injected_fixture_names()` (i.e. does `get_object_attributes` yield the attribute)?
    * `assignTable` — the same domain: does `Suite.inject_fixtures({"f": value})` make the attribute hold
      the value?
    * `twiceTable` — the same domain, with a public attribute `zz = lcc.inject_fixture("f")` beside the
      attribute (class body / module): do BOTH hold the value after `Suite.inject_fixtures` (D35: before the
      repair only the last one in `dir()` order did)?
    * `keyTable` — `inject_fixture()`, `inject_fixture("")`, `inject_fixture("f")`: is the fixture named
      by the attribute's own name (`attr.fixture_name or attr_name`)?
  equal the model's `discovers` / `usesAttrName` (`Model/Inject.lean`);
    * `callableTable` — the real `helpers.introspection.get_callable_args` on every way of WRITING a callable (def,
      lambda, generator function, defaults / *args / keyword-only, `functools.wraps` wrapper with its own parameters,
      wrapper of a wrapper, `(*args, **kwargs)` wrapper, real `mock.patch`, `functools.partial`, callable object, bound
      method, staticmethod, classmethod, function read from the class; plain and wraps-decorated) × own parameter lists
      of length 0–2: the row's input is the description of how the callable was written
      equals `Callable.neededArgs` (`Model/Callable.lean`): the own positional parameters of the object that is CALLED,
      minus the bound `self` — never those of the function it wraps;
    * `declTable` — the real `@lcc.fixture(scope=…, per_thread=…)` decorator on all 4 × 2 combinations
      equals `Fixture.declAllowed` (the first stage of `Prepare.prepareFull`).
    * `tagApplicationTable` / `propApplicationTable` — `add_tag_rule("x", on_test=a, on_suite=b)` / `add_property_rule(…)` for
      (a, b) ∈ {None, True, False}², observed through the public interface (refused with an AssertionError, or: is a test / a
      suite carrying `x` accepted afterwards) equals `Policy.ruleApplication` (`Model/PolicySeq.lean`, used by `configure`).
    * `designationTable` — the real `load_project(arg)` under `$LCC_PROJECT` / `$LCC_PROJECT_FILE`, each of the three not given /
      empty / a path (27 rows, `_load_project_from_path` replaced by a recorder): the path it goes for, or the search of the
      working directory, equals `ProjectFiles.Desig.choose`;
    * `resolutionTable` — the real `_load_project_from_path` on a missing path / a directory with or without `project.py` and
      `suites` / a project file: the directory of the project it returns (or ProjectLoadingError) equals `ProjectFiles.fromPath`;
    * `searchTable` — the real `load_project()` in a working directory C below P, each with or without `project.py` / `suites`
      (16 rows): the directory of the project found (or ProjectNotFound) equals `ProjectFiles.search`.
  `Generated/C14Tables.lean` is written by harness/props/c14.py (`tables`).
-/
import LccModel.Model.Inject
import LccModel.Model.Callable
import LccModel.Model.PolicySeq
import LccModel.Model.ProjectFiles
import LccModel.Generated.C14Tables

namespace LccModel.Generated.C14
open LccModel.Inject

theorem discovery_table_agrees : ∀ r ∈ discoveryTable, discovers r.1.1 r.1.2 = r.2 := by decide

theorem assign_table_agrees : ∀ r ∈ assignTable, discovers r.1.1 r.1.2 = r.2 := by decide

/-- the model's answer for `twiceTable`: the attribute and `zz`, both injecting `f` -/
def twiceModel (sh : Shape) (pl : Place) : Bool :=
  let l := assigned [⟨"a", sh, pl, some "f"⟩, ⟨"zz", .pub, if pl = .module then .module else .body, some "f"⟩]
  decide ("a" ∈ l) && decide ("zz" ∈ l)

theorem twice_table_agrees : ∀ r ∈ twiceTable, twiceModel r.1.1 r.1.2 = r.2 := by decide

theorem key_table_agrees : ∀ r ∈ keyTable, usesAttrName r.1 = r.2 := by decide

/-- the extracted tables cover the whole domain -/
theorem discovery_table_complete (sh : Shape) (pl : Place) : (sh, pl) ∈ discoveryTable.map (·.1) := by
  cases sh <;> cases pl <;> decide

theorem assign_table_complete (sh : Shape) (pl : Place) : (sh, pl) ∈ assignTable.map (·.1) := by
  cases sh <;> cases pl <;> decide

theorem twice_table_complete (sh : Shape) (pl : Place) : (sh, pl) ∈ twiceTable.map (·.1) := by
  cases sh <;> cases pl <;> decide

theorem callable_table_agrees : ∀ r ∈ callableTable, LccModel.Callable.neededArgs r.1 = r.2 := by decide

theorem decl_table_agrees : ∀ r ∈ declTable, LccModel.Fixture.declAllowed r.1.1 r.1.2 = r.2 := by decide

theorem decl_table_complete (s : LccModel.Fixture.Scope) (pt : Bool) : (s, pt) ∈ declTable.map (·.1) := by
  cases s <;> cases pt <;> decide

/-- the callable table exercises every kind, with and without a wrapped function -/
theorem callable_table_covers_kinds (k : LccModel.Callable.Kind) : ∃ r ∈ callableTable, r.1.kind = k := by
  cases k <;> decide

theorem callable_table_has_wrappers :
    ∃ r ∈ callableTable, r.1.wrapped.isSome = true ∧ r.1.wrapped ≠ some r.1.params ∧ r.2 ≠ [] := by decide

theorem tag_application_table_agrees : ∀ r ∈ tagApplicationTable, LccModel.Policy.ruleApplication r.1.1 r.1.2 = r.2 := by decide

theorem prop_application_table_agrees : ∀ r ∈ propApplicationTable, LccModel.Policy.ruleApplication r.1.1 r.1.2 = r.2 := by decide

theorem application_tables_complete (a b : Option Bool) :
    (a, b) ∈ tagApplicationTable.map (·.1) ∧ (a, b) ∈ propApplicationTable.map (·.1) := by
  rcases a with _ | a <;> rcases b with _ | b <;> (try cases a) <;> (try cases b) <;> decide

/-! ## which project is designated (fifth seeded round) -/

open LccModel.ProjectFiles in
theorem designation_table_agrees : ∀ r ∈ designationTable, (Desig.mk r.1.1 r.1.2.1 r.1.2.2).choose = r.2 := by decide

open LccModel.ProjectFiles in
/-- a directory holding `project.py` iff `py`, `suites` iff `sd` -/
def probeDir (py sd : Bool) : ProjDir := ⟨if py then some LccModel.Policy.empty else none, sd, [], []⟩

open LccModel.ProjectFiles in
/-- `kind` 0: the path does not exist, 1: it is that directory, 2: it is the `project.py` of that directory (`R`) -/
def resolveModel (kind : Nat) (py sd : Bool) : Option String :=
  let fs : FS := match kind with
    | 0 => []
    | 1 => [("P", .dir (probeDir py sd))]
    | _ => [("P", .projectFile "R" (probeDir py sd))]
  (fromPath fs "P").toOption.map (·.1)

theorem resolution_table_agrees : ∀ r ∈ resolutionTable, resolveModel r.1.1 r.1.2.1 r.1.2.2 = r.2 := by decide

open LccModel.ProjectFiles in
def searchModel (cpy csd ppy psd : Bool) : Option String :=
  (search [("C", .dir (probeDir cpy csd)), ("P", .dir (probeDir ppy psd))] ["C", "P"]).toOption.map (·.1)

theorem search_table_agrees : ∀ r ∈ searchTable, searchModel r.1.1 r.1.2.1 r.1.2.2.1 r.1.2.2.2 = r.2 := by decide

/-- the designation table covers the whole domain {not given, empty, a path}³ -/
theorem designation_table_complete : (designationTable.map (fun r => (r.1.1.isSome, r.1.1 == some "", r.1.2.1.isSome, r.1.2.1 == some "",
    r.1.2.2.isSome, r.1.2.2 == some ""))).eraseDups.length = 27 := by decide

theorem search_table_complete (a b c d : Bool) : (a, b, c, d) ∈ searchTable.map (·.1) := by
  cases a <;> cases b <;> cases c <;> cases d <;> decide

end LccModel.Generated.C14

/-
  Obligation regenerated on every run: the decision table of the REAL `RunContext.is_task_to_be_skipped`,
  obtained by executing it on its complete finite domain (2^7 combinations of the facts it reads), equals the
  model's `skipReason`.  `Generated/C08Tables.lean` is written by harness/props/c08.py (`tables`).
-/
import LccModel.Model.RunAccept
import LccModel.Model.RunAgain
import LccModel.Generated.C08Tables

namespace LccModel.Generated.C08
open LccModel.RunAccept

def reasonName : Option SkipReason → String
  | none => "none"
  | some .interrupted => "interrupted" | some .backendFailure => "backendFailure"
  | some .abortedSession => "abortedSession" | some .abortedSuite => "abortedSuite"
  | some .stopOnFailure => "stopOnFailure"

def eval (r : (Bool × Bool × Bool × Bool × Bool × Bool × Bool)) : String :=
  let (a, b, c, d, e, f, g) := r
  reasonName (skipReason a b c d e f g)

theorem skip_table_agrees : ∀ r ∈ skipTable, eval r.1 = r.2 := by decide +kernel

/-! Second table: the REAL `RunContext.handle_exception(excp, suite)` executed on an instance of every class user
    code can raise (plain exception, `AbortTest` / `AbortSuite` / `AbortAllTests`, a project-defined SUBCLASS of
    each), with and without the `suite` argument; read back through `is_task_to_be_skipped` (a test of the suite,
    a test of a sub-suite, a test of another suite) and the number of error logs.  The model side runs
    `Run.handleException` on the class's `ExcClass.kind` (isinstance classification) in a task working at test
    `s.t` and asks `skipReason` the same three questions. -/

open LccModel.Report LccModel.Run LccModel.Session in
def evalHandle (r : String × Bool × Bool) : String :=
  let (name, sub, withSuite) := r
  match ExcClass.ofName name sub with
  | none => "unknown class"
  | some c =>
    let prog : Run.M Unit := do
      Run.sop 0 (.startTest ["s", "t"] (Run.mdOf "t" 0))
      Run.sop 0 (.setStep "body")
      Run.handleException c.kind (some ["s"]) withSuite
    let ts : Run.TS := (prog.run default).2
    let skipped (testSuite : Path) : Bool :=
      (skipReason false false ts.abortAll (ts.abortedSuites.contains (some testSuite)) false false true).isSome
    let effect := match skipped ["s"], skipped ["s", "sub"], skipped ["o"] with
      | false, false, false => "none"
      | true, false, false => "abortSuite"
      | true, true, true => "abortAll"
      | _, _, _ => "other"
    let errs := (ts.sess.fired.filter (fun e => match e with | .log _ _ _ .error _ _ => true | _ => false)).length
    s!"{effect}+{errs}err"

theorem handle_exception_table_agrees : ∀ r ∈ handleExcTable, evalHandle r.1 = r.2 := by decide +kernel

/-! Third table: a NEW `RunContext` created (as `_run_suites` does at every call) after ANOTHER context has handled an exception of
    every class — and was interrupted on top — over the SAME suite / test objects: what the new one answers for a test of the
    suite, of a sub-suite and of another suite.  Model side: the flags the first context ends with (`Run.handleException`, as in
    the second table, plus the interrupt) go through `RunAgain.nextFlags`; `skipReason` is asked on the result. -/

open LccModel.Report LccModel.Run LccModel.Session in
def evalFresh (r : String × Bool × Bool) : String :=
  let (name, sub, withSuite) := r
  match ExcClass.ofName name sub with
  | none => "unknown class"
  | some c =>
    let prog : Run.M Unit := do
      Run.sop 0 (.startTest ["s", "t"] (Run.mdOf "t" 0))
      Run.sop 0 (.setStep "body")
      Run.handleException c.kind (some ["s"]) withSuite
    let ts : Run.TS := (prog.run default).2
    let prev : Flags := { abortAll := ts.abortAll, abortedSuites := ts.abortedSuites, failed := true, pending := false,
                          interrupted := true }
    let f := RunAgain.nextFlags prev
    let skipped (testSuite : Path) : Bool :=
      (skipReason f.interrupted f.pending f.abortAll (f.abortedSuites.contains (some testSuite)) false f.failed true).isSome
    match skipped ["s"], skipped ["s", "sub"], skipped ["o"] with
      | false, false, false => "none"
      | true, false, false => "abortSuite"
      | true, true, true => "abortAll"
      | _, _, _ => "other"

theorem fresh_context_table_agrees : ∀ r ∈ freshContextTable, evalFresh r.1 = r.2 := by decide +kernel

end LccModel.Generated.C08

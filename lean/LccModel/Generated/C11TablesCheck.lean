/-
  Obligation regenerated on every run: the decision table of the REAL `RunContext.is_task_to_be_skipped`,
  obtained by executing it on its complete finite domain (2^7 combinations of the facts it reads), equals the
  model's `skipReason`.  `Generated/C11Tables.lean` is written by harness/props/c11.py (`tables`): the skip table and the bound of the
  real event queue.
-/
import LccModel.Model.RunAccept
import LccModel.Model.RunOutcome
import LccModel.Model.ProjectRun
import LccModel.Generated.C11Tables

namespace LccModel.Generated.C11
open LccModel.RunAccept

def reasonName : Option SkipReason → String
  | none => "none"
  | some .interrupted => "interrupted" | some .backendFailure => "backendFailure"
  | some .abortedSession => "abortedSession" | some .abortedSuite => "abortedSuite"
  | some .stopOnFailure => "stopOnFailure"

def eval (r : (Bool × Bool × Bool × Bool × Bool × Bool × Bool)) : String :=
  let (a, b, c, d, e, f, g) := r
  reasonName (skipReason a b c d e f g)

theorem skip_table_agrees : ∀ r ∈ skipTable, eval r.1 = r.2 := by decide +kernel

/-- the queue of the real `AsyncEventManager` is unbounded (`maxsize` 0), which is what the theorems of
    `Props/C11Events.lean` (`fire_never_blocks`, `close_never_blocks`, …) assume: `init none` -/
theorem em_queue_is_unbounded : ∀ r ∈ emQueueBound, r.2 = 0 := by decide

/-- the exit of the real `handle_events` waits for the handler thread WITHOUT a wall-clock limit (`thread.join()`: timeout 0 =
    none, the thread is joined) and no queue operation has a timeout (read under the time shim of harness/props/_em.py), which
    is what `Props/C11Events.lean` (`after_close`, `after_close_nothing_lost`, `handler_thread_ended_after_close`) assume:
    `EM.close = EM.closeWithin none` (`closeWithin_none`); `limited_join_can_lose_a_failure` shows it is necessary -/
theorem em_join_is_unlimited : ∀ r ∈ emJoinLimit, r.2 = 0 := by decide

/-- Third table: the REAL `run_suites` executed on a small project with / without a reporting-backend failure and
    with / without a keyboard interrupt (delivered before or after the failure); what the caller saw (returned
    verdict, or the class of the raised error and whether it carries the backend's text) equals
    `RunOutcome.outcome` of the facts of that run, the pending failure being what `RunOutcome.pendingAfter` makes of the
    CLASS of what the handler raised (user-defined Exception, StopIteration, StopAsyncIteration, GeneratorExit, SystemExit,
    KeyboardInterrupt: all recorded since fix D42), and the class of the error the caller gets (the failure's own class
    or the framework's `LemoncheesecakeException`) equals `RunOutcome.reraisedAsFrameworkError`.
    Row: ((interrupted, backend failed, report successful, class name), outcome). -/
def evalOutcome (r : Bool × Bool × Bool × String) : String :=
  let (interrupted, failed, successful, cls) := r
  let c := RunOutcome.FaultClass.ofName cls
  let o := RunOutcome.outcome { interrupted := interrupted, taskException := false,
                                pending := if failed then RunOutcome.pendingAfter c "T" else none,
                                successful := successful }
  match o with
  | .raisedBackendError _ => o.name ++ (if RunOutcome.reraisedAsFrameworkError c then ":framework" else ":own")
  | _ => o.name

theorem run_outcome_table_agrees : ∀ r ∈ runOutcomeTable, evalOutcome r.1 = r.2 := by decide

/-- Fourth table: the REAL `PreparedProject.run` (the entry point of `lcc run`) executed with every kind of pre_run hook x every
    kind of post_run hook (not overridden, passing, raising UserError, raising another exception, raising only when the run
    failed) x a reporting backend failing or not: the hook calls in order and what the caller saw equal `ProjectRun.run` on the
    outcome `RunOutcome.outcome` gives for the facts of that run.  Row: ((pre, post, backend failed), "calls => outcome"). -/
def evalProject (r : String × String × Bool) : String :=
  let (pre, post, failed) := r
  let o := RunOutcome.outcome { interrupted := false, taskException := false,
                                pending := if failed then some "T" else none, successful := true }
  ProjectRun.render (ProjectRun.run (ProjectRun.Hook.ofName pre) (ProjectRun.Hook.ofName post) o)

theorem project_run_table_agrees : ∀ r ∈ projectRunTable, evalProject r.1 = r.2 := by decide

/-- the table covers every combination of hook kinds, with and without a backend failure, that lets the run start -/
theorem project_run_table_complete :
    ∀ pre ∈ ["none", "pass"], ∀ post ∈ ["none", "pass", "user", "other", "user-if-failed", "other-if-failed"], ∀ failed ∈ [true, false],
      (projectRunTable.map (·.1)).contains (pre, post, failed) = true := by decide

end LccModel.Generated.C11

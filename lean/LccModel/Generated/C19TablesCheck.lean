/-
  Proof obligations over the decision tables that `harness/props/_runseq.py: tables` extracts on every run by
  *executing* the real glue of /repo (`Generated/C19Tables.lean`, git-ignored):

    dirSourceTable     `cli/commands/run.py:create_report_dir(cli_args, project)` for `--report-dir` ∈ {absent, "",
                       a path outside, the default location} × `$LCC_REPORT_DIR` ∈ {unset, "", a path, the default
                       location}: where the directory comes from (the returned path / a call of the project's method);
    glueTable          the same call made TWICE with the same `cli_args` namespace and the same `Project` object:
                       how many times `project.create_report_dir()` ran, and whether the namespace is left as parsed —
                       the glue keeps nothing from one run to the next (no write-back into `cli_args`, no memoised
                       directory on the project);
    defaultImplTable   `Project.create_report_dir()` (default implementation) called twice on one object with the
                       existing `report` directory absent / empty / holding files: number of
                       `create_report_dir_with_rotation` calls and the archiving limit they received.

  If a decision of the code changes, `decide` fails here.
-/
import LccModel.Model.RunSeq
import LccModel.Generated.C19Tables

namespace LccModel.Generated.C19
open LccModel.RunSeq

theorem dirSourceTable_agrees : ∀ r ∈ dirSourceTable, dirSource r.1.1 r.1.2 = r.2 := by decide +kernel

/-- a run is a function of the file system and its configuration: two runs with the same objects both ask the
    project (default source) or neither does, and `cli_args` is never written -/
theorem glueTable_agrees :
    ∀ r ∈ glueTable, r.2 = (if dirSource r.1.1 r.1.2 = .project then 2 else 0, true) := by decide +kernel

/-- the default implementation is one rotation with limit 20 per call, also when the previous report directory is empty -/
theorem defaultImplTable_agrees : ∀ r ∈ defaultImplTable, r.2 = (2, ProjImpl.default.limit) := by decide +kernel

theorem tables_cover : dirSourceTable.length = 15 ∧ glueTable.length = 15 ∧ defaultImplTable.map (·.1) = [0, 1, 2] := by
  decide +kernel

end LccModel.Generated.C19

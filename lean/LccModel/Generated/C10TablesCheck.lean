/-
  Proof obligations over the decision tables that `harness/props/c10.py: tables` extracts on every run by
  *executing* the real code of /repo (`Generated/C10Tables.lean`, git-ignored):

    handlerTable   for every event class of `events.py`: what `FileReportSession.on_<event>` does (nothing / ask
                   the strategy / save unconditionally), found by calling the bound handler with a strategy
                   answering False and one answering True and counting `save_report` calls;
    staticTable    `FileReportSession._handle_event` with each static strategy of
                   `make_report_saving_strategy` (incl. the alias `at_each_event`) on a real event of every class
                   and a real report in which `report.get(location)` raises / returns None / returns a result
                   of every status — `none` = `LookupError` out of the strategy;
    intervalTable  `SaveAtInterval(n)` on a grid of (last saved, now) instants;
    saveOptionTable  which strategy `lcc run` uses: `--save-report` (parsed by the real argparse definitions of `RunCommand`) ×
                   `$LCC_SAVE_REPORT` (each: absent, empty, every documented name, the deprecated alias, interval spellings,
                   invalid values) through the real `get_report_saving_strategy`; `none` = rejected (`LemoncheesecakeException`).

  If the code's decision changes, `decide` fails here.
-/
import LccModel.Model.Saving
import LccModel.Model.RunStart
import LccModel.Generated.C10Tables

namespace LccModel.Generated.C10
open LccModel.Saving LccModel.Report

theorem handlerTable_agrees : ∀ r ∈ handlerTable, handlerKind r.1 = r.2 := by decide +kernel

def allClasses : List EvClass :=
  [.sessionStart, .sessionEnd, .sessionSetupStart, .sessionSetupEnd, .sessionTeardownStart, .sessionTeardownEnd,
   .suiteStart, .suiteEnd, .suiteSetupStart, .suiteSetupEnd, .suiteTeardownStart, .suiteTeardownEnd,
   .testStart, .testEnd, .testSkipped, .testDisabled, .stepStart, .stepEnd, .log, .check, .attachment, .url]

theorem allClasses_complete (c : EvClass) : c ∈ allClasses := by cases c <;> decide

/-- the extraction covered every event class the model knows -/
theorem handlerTable_complete : ∀ c ∈ allClasses, c ∈ handlerTable.map (·.1) := by decide +kernel

theorem staticTable_agrees : ∀ r ∈ staticTable, decideStatic r.1.1 r.1.2.1 r.1.2.2 = r.2 := by decide +kernel

theorem intervalTable_agrees : ∀ r ∈ intervalTable, decideInterval r.1.1 r.1.2.1 r.1.2.2 = r.2 := by decide +kernel

/-- the command-line option wins over the environment variable, which wins over the built-in default; empty values count as
    absent; invalid expressions are rejected -/
theorem saveOptionTable_agrees : ∀ r ∈ saveOptionTable, chosenStrategy r.1.1 r.1.2 = r.2 := by decide +kernel

/-- `create_report_dir`: only a path where nothing exists yet (parent present) gives the run a directory — an existing directory
    (empty or holding a previous run's report), a regular file, a missing parent give none; the option wins over the variable,
    the empty string counts as absent, neither = the project's own (rotating) implementation -/
theorem reportDirTable_agrees : ∀ r ∈ reportDirTable, RunStart.startOutcome r.1.1 r.1.2 = r.2 := by decide +kernel

end LccModel.Generated.C10

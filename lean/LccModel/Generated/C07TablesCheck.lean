/-
  Obligation regenerated on every run (C07): the REAL `RunContext.handle_exception(excp, suite)` — the runner's error
  handler, called between a result's start event and its end event — executed on an instance of every exception class
  user code can raise (plain exception, `AbortTest` / `AbortSuite` / `AbortAllTests`, a project-defined subclass of
  each) constructed with every ARGUMENT SHAPE (one message string, no argument, the exception that was caught, a
  number, a message and a code, two strings), with and without the `suite` argument.  It must RETURN (a row whose
  output is `handle_exception-raised:<Class>` breaks the obligation: the exception would escape the task after
  `test_start` / `step_start`, leaving a start without its end), log exactly one error and set the flags the class
  asks for — independently of the arguments: the model (`Run.handleException`) reads the class only.
  `Generated/C07Tables.lean` is written by harness/props/c07.py (`tables`).
-/
import LccModel.Model.RunAccept
import LccModel.Generated.C07Tables

namespace LccModel.Generated.C07
open LccModel.RunAccept

open LccModel.Report LccModel.Run LccModel.Session in
def evalHandle (r : String × Bool × Bool) : String :=
  let (name, sub, withSuite) := r
  match ExcClass.ofName name sub with
  | none => "unknown class"
  | some c =>
    let prog : Run.M Unit := do
      Run.sop 0 (.startTest ["s", "t"] (Run.mdOf "t" 0))
      Run.sop 0 (.setStep "body")
      Run.handleException c.kind (some ["s"]) withSuite
    let ts : Run.TS := (prog.run default).2
    let skipped (testSuite : Path) : Bool :=
      (skipReason false false ts.abortAll (ts.abortedSuites.contains (some testSuite)) false false true).isSome
    let effect := match skipped ["s"], skipped ["s", "sub"], skipped ["o"] with
      | false, false, false => "none"
      | true, false, false => "abortSuite"
      | true, true, true => "abortAll"
      | _, _, _ => "other"
    let errs := (ts.sess.fired.filter (fun e => match e with | .log _ _ _ .error _ _ => true | _ => false)).length
    s!"{effect}+{errs}err"

theorem handle_exception_returns_whatever_the_arguments : ∀ r ∈ handleExcTable, evalHandle r.1 = r.2 := by decide +kernel

end LccModel.Generated.C07

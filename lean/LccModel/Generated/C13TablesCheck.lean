/-
  Proof obligations over the decision tables that `harness/props/c13.py: tables` extracts on every run by
  *executing* the real loader of /repo (`Generated/C13Tables.lean`, git-ignored): one item per condition — no
  condition, `@lcc.hidden()`, `@lcc.visible_if(c)` for a lambda, a callable instance and a callable instance that
  is itself a false value, `c` returning each of the value shapes of `PyVal` — at every level (test function,
  test method, suite class, module `SUITE["visible_if"]`).  Recorded: the truth value of the `.hidden` attribute
  the loader stores, and what each reader of it keeps (`_load_tests`, `load_suites_from_classes`, the `add_suite`
  loop of `load_suite_from_class`, `load_suites_from_directory`, `load_suites_from_files`).
  If the code's decision changes for any value, `decide` fails here.
-/
import LccModel.Model.Loader
import LccModel.Model.DirScan
import LccModel.Model.ParamSource
import LccModel.Model.ClassAttrs
import LccModel.Generated.C13Tables

namespace LccModel.Generated.C13
open LccModel.Loader

def count (b : Bool) : Nat := if b then 1 else 0

/-- The expression `md.condition is not None and not md.condition(obj)` and its reader `not …`, as modelled
    (`Vis.hiddenAttr`, `Vis.shown`), against `_load_test` / `_load_tests` on a test *function*. -/
theorem testFunction_expression_agrees :
    ∀ r ∈ testFunctionCondTable, (r.1.hiddenAttr.truthy, count r.1.shown) = r.2 := by decide +kernel

theorem testMethod_expression_agrees :
    ∀ r ∈ testMethodCondTable, (r.1.hiddenAttr.truthy, count r.1.shown) = r.2 := by decide +kernel

theorem class_expression_agrees :
    ∀ r ∈ classCondTable, (r.1.hiddenAttr.truthy, count r.1.shown, count r.1.shown) = r.2 := by decide +kernel

theorem module_expression_agrees :
    ∀ r ∈ moduleCondTable, (r.1.hiddenAttr.truthy, r.1.shown, r.1.shown) = r.2 := by decide +kernel

/-! The same rows through the loader model itself (the functions the C13 theorems are about), run on the
    one-item layouts the table was extracted from. -/

def oneTest (v : Vis) : TestDecl := { attr := "t", rank := 1, vis := v }

/-- class `Outer` { method `meth` under condition `v` } -/
def methodLayout (v : Vis) : Cls := .mk { attr := "Outer", rank := 2 } [oneTest v] []

/-- class `Outer` { nested class `Inner` under condition `v` { test `t` } } -/
def innerCls (v : Vis) : Cls := .mk { attr := "Inner", rank := 2, vis := v } [oneTest .always] []
def classLayout (v : Vis) : Cls := .mk { attr := "Outer", rank := 3 } [] [innerCls v]

/-- `v.py` with `SUITE = {"visible_if": …}` and one test -/
def moduleLayout (v : Vis) : Module := { stem := "v", autoRank := 2, info := some { vis := v }, tests := [oneTest .always] }

def okNat (r : Except LoadErr Nat) : Option Nat :=
  match r with
  | .ok n => some n
  | .error _ => none

def okBool (r : Except LoadErr Bool) : Option Bool :=
  match r with
  | .ok n => some n
  | .error _ => none

theorem testMethod_model_agrees : ∀ r ∈ testMethodCondTable,
    okNat ((loadClassReal (methodLayout r.1)).map (fun s => s.tests.length)) = some r.2.2 := by decide +kernel

theorem testFunction_model_agrees : ∀ r ∈ testFunctionCondTable,
    okNat ((loadFileReal { stem := "v", autoRank := 2, tests := [oneTest r.1] }).map (fun s => s.tests.length))
      = some r.2.2 := by decide +kernel

theorem class_model_agrees : ∀ r ∈ classCondTable,
    (okBool ((loadClassReal (innerCls r.1)).map Suite.hidden),
     okNat ((loadClassReal (classLayout r.1)).map (fun s => s.subs.length))) = (some r.2.1, some r.2.2.2) := by
  decide +kernel

theorem module_model_agrees : ∀ r ∈ moduleCondTable,
    (okBool ((loadFileReal (moduleLayout r.1)).map Suite.hidden),
     okNat ((loadDirReal (.mk "suites" [moduleLayout r.1] [])).map List.length),
     okNat ((loadFilesReal [moduleLayout r.1]).map List.length))
      = (some r.2.1, some (count r.2.2.1), some (count r.2.2.2)) := by decide +kernel

/-! ## The directory scan (`Model/DirScan.lean`)

  `scanFilterTable`: for every name of a prefix × core × suffix set, whether the real `get_py_files_from_dir` returns an
  entry of that name when it is a regular file / `get_matching_files("<dir>/*.py", excluding="<dir>/__*.py")` does /
  `get_py_files_from_dir` does when it is a directory / when it is a dangling symbolic link.  The decision depends on the
  name only and is `DirScan.acceptsName`.  A scan that starts accepting dot-prefixed or `__`-prefixed names, other
  extensions or other cases — or starts looking at the kind of the entry — breaks this obligation. -/
def quad (b : Bool) : Bool × Bool × Bool × Bool := (b, b, b, b)

/-- names travel as `List Char` (`acceptsName s = acceptsChars s.toList` by definition) -/
theorem scan_filter_agrees : ∀ r ∈ scanFilterTable, quad (DirScan.acceptsChars r.1) = r.2 := by
  decide +kernel

/-- `strip_py_ext` on every accepted name of the set: the suite is named after the file without its last three characters. -/
theorem scan_stem_agrees : ∀ r ∈ scanStemTable, DirScan.stemChars r.1 = r.2 := by decide +kernel

/-! ## The attribute scan of a suite object (`Model/ClassAttrs.lean`)

  `propertyScanTable`: the real `helpers/introspection.get_object_attributes` on instances of classes whose MRO holds the
  given `__dict__`s (built as an inheritance chain and as independent mixins): for every name of `dir()` whether the scan
  yields it and whether a property getter was run for it.  A scan that recognises properties only in the class's own
  `__dict__` (and so evaluates inherited ones), or stops skipping `__` names, breaks this obligation. -/
theorem property_scan_agrees : ∀ r ∈ propertyScanTable, ClassAttrs.listedName r.1.1 r.1.2 = r.2 := by decide +kernel

/-! ## The header of the CSV-like form of `@lcc.parametrized` (`Model/ParamSource.lean`)

  `headerParseTable`: for every header spelling of a fields × padding-before × padding-after set, a list of literal headers
  (the documentation's `"i,j"` / `"i, j"`, a column-aligned `"host      , port"`, `" value "`, tabs, empty fields) and every
  character below U+0100 plus the Unicode spaces and their look-alikes used as padding at both ends and on both sides of the
  comma: the parameter names the real `_Parametrized.parameters_source` gives the test (the keys of the dict it yields).
  If the code's parsing changes for any spelling — e.g. white space before a comma is no longer removed — `decide` fails here. -/

theorem header_parse_agrees_1 :
    ∀ r ∈ headerParseTable1, LccModel.ParamSource.parseHeader r.1 = r.2 := by decide +kernel

theorem header_parse_agrees_2 :
    ∀ r ∈ headerParseTable2, LccModel.ParamSource.parseHeader r.1 = r.2 := by decide +kernel

theorem header_parse_agrees_3 :
    ∀ r ∈ headerParseTable3, LccModel.ParamSource.parseHeader r.1 = r.2 := by decide +kernel

/-- the whole table (the generated file holds it in three parts) -/
theorem header_parse_agrees :
    ∀ r ∈ headerParseTable1 ++ headerParseTable2 ++ headerParseTable3, LccModel.ParamSource.parseHeader r.1 = r.2 := by
  intro r hr
  rcases List.mem_append.mp hr with h | h
  · rcases List.mem_append.mp h with h | h
    · exact header_parse_agrees_1 r h
    · exact header_parse_agrees_2 r h
  · exact header_parse_agrees_3 r h

end LccModel.Generated.C13

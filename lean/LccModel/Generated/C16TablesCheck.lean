/-
  Proof obligation over the decision table that `harness/props/c16.py: tables` extracts on every run by
  *executing* the real `lemoncheesecake.helpers.text.jsonify` (`Generated/C16Tables.lean`, git-ignored):
  a dict whose keys are of any two of the key types `None / bool / int / float / str` (every ordered pair of a
  16-key alphabet, 248 rows) is rendered — never rejected — with the keys in insertion order, each coerced the way
  `json.dumps` does.  If the rendering starts to depend on an order between keys of different types (or to raise
  for them), `decide` fails here.
-/
import LccModel.Model.Matcher
import LccModel.Model.MatcherIsJson
import LccModel.Generated.C16Tables

namespace LccModel.Generated.C16
open LccModel.Matcher

/-- `jsonify({k1: 0, k2: 1})` (one entry when `k1 is k2`); `none` = the real function raised. -/
theorem jsonify_keys_agrees : ∀ r ∈ jsonifyKeysTable,
    some ((jsonify (.dict r.1 [.int 0, .int 1])).map Char.toNat) = r.2 := by decide +kernel

/-- `is_json(expected).matches(actual).is_successful` of the real code on every ordered pair of a universe that holds the
    bool / int / float forms of 0, 1, 2 at the top, in lists, in nested lists and below a dict key (676 rows; `none` = raised or
    a non-bool outcome) is Python's `==` — whatever the two documents look like when printed. -/
theorem is_json_agrees : ∀ r ∈ isJsonTable, some (isJsonMatch (fun _ _ => []) r.1.1 r.1.2).ok = r.2 := by decide +kernel

end LccModel.Generated.C16

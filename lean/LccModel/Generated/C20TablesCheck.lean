/-
  Proof obligation over the decision table that `harness/props/c20.py: tables` extracts on every run by *executing*
  the real `ReportStats.from_suites` of /repo (`Generated/C20Tables.lean`, git-ignored):

    fromSuitesTable   for `parallelized` ∈ {False, True} and a suite whose tests have the given (start, end) times
                      (`none` = the attribute is None: a result still in progress has no end time): does the call
                      return (with how many tests counted, and is `stats.duration` known) or raise.

  The duration guard of `from_suites` is a finite decision: if the code's decision changes (the repair D34
  `fixes/D34-from-suites-unfinished-duration.diff` is undone: `TypeError` / `IndexError` rows; or results without end
  time are dropped from the count), `decide` fails here.
-/
import LccModel.Model.FilteredViews
import LccModel.Generated.C20Tables

namespace LccModel.Generated.C20
open LccModel.Views LccModel.Report

def mdOf (i : Nat) : Meta := { name := toString i, description := "", tags := [], properties := [], links := [], rank := i }

def testsOf : Nat → List (Option Nat × Option Nat) → List TestResult
  | _, [] => []
  | i, (s, e) :: rest =>
    { md := mdOf i, result := { steps := [], startTime := s, endTime := e,
                                status := if e.isSome then some .passed else none, statusDetails := none } } :: testsOf (i + 1) rest

/-- the model's answer for one row (the model never raises: a `typeError` / `indexError` row cannot be matched) -/
def fromSuitesOutcome (par : Bool) (times : List (Option Nat × Option Nat)) : FsOutcome :=
  let ss : List SuiteResult := [.mk (mdOf 0) (some 0) none none none (testsOf 0 times) []]
  .ok (statsFromSuites ss).total (statsFromSuites ss).passed (fromSuitesDurationKnown par ss)

theorem fromSuitesTable_agrees : ∀ r ∈ fromSuitesTable, fromSuitesOutcome r.1.1 r.1.2 = r.2 := by decide +kernel

/-- the extraction covered: an in-progress LAST result of a sequential report (counted, duration unknown — the D34
    situation), an in-progress middle result (duration known), the empty forest, a parallelized report -/
theorem fromSuitesTable_covers :
    ((false, [(some 1, some 2), (some 3, some 4), (some 5, none)]), FsOutcome.ok 3 2 false) ∈ fromSuitesTable ∧
    ((false, [(some 1, some 2), (some 3, none), (some 5, some 6)]), FsOutcome.ok 3 2 true) ∈ fromSuitesTable ∧
    ((false, []), FsOutcome.ok 0 0 false) ∈ fromSuitesTable ∧
    ((true, [(some 1, some 2)]), FsOutcome.ok 1 1 false) ∈ fromSuitesTable := by decide +kernel

end LccModel.Generated.C20

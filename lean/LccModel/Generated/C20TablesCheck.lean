/-
  Proof obligation over the decision table that `harness/props/c20.py: tables` extracts on every run by *executing*
  the real `ReportStats.from_suites` of /repo (`Generated/C20Tables.lean`, git-ignored):

    fromSuitesTable   for `parallelized` ∈ {False, True} and a suite whose tests have the given (start, end) times
                      (`none` = the attribute is None: a result still in progress has no end time): does the call
                      return (and with how many tests counted) or raise `TypeError` / `IndexError`.

  The duration guard of `from_suites` is a finite decision: if the code's decision changes (e.g. the repair
  `fixes/D34-from-suites-unfinished-duration.diff` is applied, or results without end time are dropped from the
  count), `decide` fails here.
-/
import LccModel.Model.FilteredViews
import LccModel.Generated.C20Tables

namespace LccModel.Generated.C20
open LccModel.Views LccModel.Report

def mdOf (i : Nat) : Meta := { name := toString i, description := "", tags := [], properties := [], links := [], rank := i }

def testsOf : Nat → List (Option Nat × Option Nat) → List TestResult
  | _, [] => []
  | i, (s, e) :: rest =>
    { md := mdOf i, result := { steps := [], startTime := s, endTime := e,
                                status := if e.isSome then some .passed else none, statusDetails := none } } :: testsOf (i + 1) rest

/-- the model's answer for one row -/
def fromSuitesOutcome (par : Bool) (times : List (Option Nat × Option Nat)) : FsOutcome :=
  match statsFromSuites par [.mk (mdOf 0) (some 0) none none none (testsOf 0 times) []] with
  | .ok st => .ok st.total st.passed
  | .error .noResults => .indexError
  | .error _ => .typeError

theorem fromSuitesTable_agrees : ∀ r ∈ fromSuitesTable, fromSuitesOutcome r.1.1 r.1.2 = r.2 := by decide +kernel

/-- the extraction covered both the guarded and the raising side -/
theorem fromSuitesTable_covers :
    (fromSuitesTable.any (fun r => r.2 == .typeError)) = true ∧ (fromSuitesTable.any (fun r => r.2 == .indexError)) = true ∧
    (fromSuitesTable.any (fun r => r.2 == .ok 3 2)) = true := by decide +kernel

end LccModel.Generated.C20

/-
  Obligation regenerated on every run (C06): the REAL `Session.prepare_attachment` executed as a function of
  (counter, given name) — on every name of the harness's name universe (`%`, `#`, `?`, `&`, blanks, quotes, other scripts,
  leading dots, names that look like a stored name, the longest names that fit, names longer than NAME_MAX in BYTES,
  names with a path separator) and on counters of 1 to 6 digits.  Each row says whether the write inside the block was
  refused by the file system (OSError), and otherwise the ONE directory entry that appeared under
  `<report dir>/attachments` and the path the fired `LogAttachmentEvent` carries.  The model: `AttachName.storable`
  decides the refusal, `AttachName.stored` is the directory entry, `Session.attachName` the referenced path —
  `"attachments/"` followed by that very entry (`C06Name.referenced_path_is_stored_name`), for which
  `C06Name.stored_name_determines_counter_and_name` is proved.  A row whose event path is escaped, cut or otherwise
  different from the entry on disk breaks the obligation.
  `Generated/C06Tables.lean` is written by harness/props/c06.py (`tables`).
-/
import LccModel.Model.Session
import LccModel.Generated.C06Tables

namespace LccModel.Generated.C06
open LccModel.AttachName LccModel.Session

/-- the directory the report references its attachments in (`_ATTACHMENTS_DIR` + "/"), as characters -/
def attDir : List Char := ['a', 't', 't', 'a', 'c', 'h', 'm', 'e', 'n', 't', 's', '/']

/-- on character lists (`Session.attachName n f` IS `attDir ++ stored n f.toList`: `attachName_is_dir_and_stored` below; strings
    are byte arrays, costly for the kernel) -/
def evalName (r : Nat × List Nat) : Bool × List Nat × List Nat :=
  let f := r.2.map Char.ofNat
  if storable r.1 f then (false, (stored r.1 f).map Char.toNat, (attDir ++ stored r.1 f).map Char.toNat)
  else (true, [], [])

theorem attachName_is_dir_and_stored (n : Nat) (f : String) : (attachName n f).toList = attDir ++ stored n f.toList := by
  simp [attachName, attDir, String.toList_append, String.toList_ofList]

theorem attachment_name_is_stored_and_referenced_as_modelled : ∀ r ∈ attachNameTable, evalName r.1 = r.2 := by decide +kernel

end LccModel.Generated.C06

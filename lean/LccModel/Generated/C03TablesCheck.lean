/-
  Obligations regenerated on every run (harness/props/_inject_table.py): the REAL `Suite._load_injected_fixtures(obj)` and the
  REAL hook discovery (`hasattr(obj, hook)` + `get_callable_args`), executed on instances of generated class shapes — a
  `lcc.inject_fixture()` marker written in the class body / a base class / the grand-base / a mixin / `__init__` of the class or
  of a base, under every attribute-name shape (`conn`, `_conn`, `__conn`, `__conn__`, explicit / empty fixture name), shadowed or
  not by a plain class or instance attribute or a property, two markers for one fixture, … — equal the model `SuiteObj.injectedOf`
  / `SuiteObj.hookParams` evaluated on the attribute layers of the very same objects (`vars(obj)`, `vars(C)` along the MRO).
-/
import LccModel.Model.SuiteObject
import LccModel.Model.Hooks
import LccModel.Model.PreRun
import LccModel.Generated.C03Tables

namespace LccModel.Generated.C03
open LccModel.SuiteObj

theorem inject_table_agrees : ∀ r ∈ injectTable, injectedOf r.1 = r.2 := by decide +kernel

theorem hook_table_agrees : ∀ r ∈ hookTable, hookParams r.1.1 r.1.2 = r.2 := by decide +kernel

/-! ### hook shape x place x hook name → registered?  (harness/props/_hooks_table.py: one generated suite per row — a class whose
    hook is an ordinary method / `@staticmethod` / `@classmethod` / lambda / `functools.partial` / callable object / `None` / a string
    in the class body, a base class or a mixin, a function / lambda / bound method / partial / callable object / non-callable value
    assigned in `__init__`, a module whose hook is a function / lambda / partial / callable object / imported function / non-callable
    value — loaded by the REAL `load_suites_from_classes` / `load_suite_from_module`; the answer is the REAL `suite.has_hook`) -/

open LccModel.Hooks in
/-- the model (`hasattr` on the attribute layers the declaration builds) registers exactly what the real loader registers -/
theorem hook_shape_table_agrees : ∀ r ∈ hookShapeTable, registers r.1.1 r.1.2.1 r.1.2.2 = r.2 := by decide +kernel

open LccModel.Hooks in
/-- completeness: every shape, at every place the language can write it, for every hook name, is a row of the table -/
theorem hook_shape_table_complete : ∀ s ∈ Shape.all, ∀ p ∈ Place.all, wellPlaced s p = true → ∀ h ∈ hookNames,
    (hookShapeTable.map (·.1)).contains (s, p, h) = true := by decide +kernel

open LccModel.Hooks in
/-- … and `Shape.all` / `Place.all` list every constructor -/
theorem shapes_places_exhaustive : (∀ s : Shape, s ∈ Shape.all) ∧ (∀ p : Place, p ∈ Place.all) :=
  ⟨fun s => by cases s <;> decide, fun p => by cases p <;> decide⟩

/-! ### `run_suites`' own loops over the `pre_run` fixtures (harness/props/_prerun_table.py): the REAL `run_suites` executed on a
    chain of 1..3 pre_run fixtures x every placement of a failing setup x generator / plain x a failing teardown x a session
    that raises; what was seen (user code entered and how it ended, session run or not, how the call ended) equals
    `PreRun.runSuites` (theorems: `Props/C03PreRun.lean`) -/
theorem pre_run_table_agrees : ∀ r ∈ preRunTable,
    LccModel.PreRun.render (LccModel.PreRun.runSuites (r.1.1.map fun x => ⟨x.1, x.2.1, x.2.2.1, x.2.2.2⟩) r.1.2) = r.2 := by decide +kernel

end LccModel.Generated.C03

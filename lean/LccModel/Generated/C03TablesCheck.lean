/-
  Obligations regenerated on every run (harness/props/_inject_table.py): the REAL `Suite._load_injected_fixtures(obj)` and the
  REAL hook discovery (`hasattr(obj, hook)` + `get_callable_args`), executed on instances of generated class shapes — a
  `lcc.inject_fixture()` marker written in the class body / a base class / the grand-base / a mixin / `__init__` of the class or
  of a base, under every attribute-name shape (`conn`, `_conn`, `__conn`, `__conn__`, explicit / empty fixture name), shadowed or
  not by a plain class or instance attribute or a property, two markers for one fixture, … — equal the model `SuiteObj.injectedOf`
  / `SuiteObj.hookParams` evaluated on the attribute layers of the very same objects (`vars(obj)`, `vars(C)` along the MRO).
-/
import LccModel.Model.SuiteObject
import LccModel.Generated.C03Tables

namespace LccModel.Generated.C03
open LccModel.SuiteObj

theorem inject_table_agrees : ∀ r ∈ injectTable, injectedOf r.1 = r.2 := by decide +kernel

theorem hook_table_agrees : ∀ r ∈ hookTable, hookParams r.1.1 r.1.2 = r.2 := by decide +kernel

end LccModel.Generated.C03

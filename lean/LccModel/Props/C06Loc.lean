/-
  C06 — "… recorded in that test's own result …": a location is resolved by its FULL PATH from the top level.

  Property theorems only (helper lemmas: `Lemmas/WriterLoc.lean`).  The writer M4 files every suite, test, step, log, check,
  url and attachment event through `report.get(location)` = `find_suite` / `find_test` on the TOP-LEVEL suites, one path
  element per level (`Writer.modifySuite`, read side `WriterIso.getSuite` / `getResult`).  Here the tree itself is the
  reference: `WriterLoc.nodes` / `resultsOf` enumerate every suite / result NODE (every position of the tree) with its full
  name path.  The theorems quantify over every report tree whose SIBLING names are distinct (`Writer.uniqNames`: what the
  project loader guarantees; checked on every real run by `drivers/C06.lean`) — names are free to repeat across levels
  (alpha, alpha.beta, beta, beta.alpha), under different parents, a sub-suite may be named like its parent, tests of
  different suites may share their name.
-/
import LccModel.Props.C06
import LccModel.Lemmas.WriterLocDemo

namespace LccModel.C06Loc
open LccModel.Report LccModel.WriterIso LccModel.WriterLoc
open LccModel.Writer (uniqNames uniqL WriterState WriterErr modifyResult modifyNth addEntryToStep flattenSuites initSuite initTest)

/-- **A suite location resolves to the node at that full path, and to no other.**  In every forest with distinct sibling
    names: the suite nodes of the tree and their full paths correspond one to one (`find_suite(p)` returns `x` exactly when
    `x` is the node whose path from the top level is `p`; no two nodes share a path). -/
theorem suite_resolves_by_full_path {ss : List SuiteResult} (hu : uniqL ss) :
    (∀ p x, (p, x) ∈ nodes ss ↔ getSuite p ss = some x) ∧ ((nodes ss).map Prod.fst).Nodup :=
  ⟨fun p x => ⟨getSuite_of_node p ss x hu, node_of_getSuite p ss x⟩, nodes_paths_nodup ss hu⟩

/-- **A result location resolves to the result node at that full path, and to no other** — "in that test's own result".
    In every report with distinct sibling names, `report.get(l)` returns `x` exactly when `x` is the result node (test,
    suite setup / teardown, session setup / teardown) whose location, with the FULL suite path from the top level, is `l`;
    and two different result nodes never have the same location.  So the results of `alpha.beta.exchange` and
    `beta.exchange` (or `alpha.alpha.t` and `alpha.t`) are two nodes with two locations, each found by its own. -/
theorem location_resolves_by_full_path {r : Report} (hu : uniqNames r = true) :
    (∀ l x, (l, x) ∈ resultsOf r ↔ getResult l r = some x) ∧ ((resultsOf r).map Prod.fst).Nodup :=
  ⟨fun _ _ => ⟨getResult_of_node hu, node_of_getResult⟩, resultsOf_locs_nodup hu⟩

/-- **A handler addressed to location `l` changes the node at `l` only.**  `report.get(l)` followed by any mutation `f`
    (a step appended, an entry added, a step / the result ended …): the node at `l` goes from `x` to `f x`; every other
    result node of the tree — in particular the same-named test of a same-named suite elsewhere — is still at its own
    location, unchanged. -/
theorem event_changes_only_the_result_at_its_path {f : Result → Except WriterErr Result} {l : Loc} {r r' : Report}
    (hu : uniqNames r = true) (h : modifyResult f l r = .ok r') :
    (∃ x y, (l, x) ∈ resultsOf r ∧ f x = .ok y ∧ (l, y) ∈ resultsOf r') ∧
    ∀ l' z, l' ≠ l → (l', z) ∈ resultsOf r → (l', z) ∈ resultsOf r' :=
  modifyResult_nodes hu h

/-- **`record_lands_at_its_full_path`** — `C06.log_lands_in_own_step` read on the tree.  For any interleaving of any threads,
    any log / check / url / attachment event `e` of the fired stream (thread `t`, location `l`, step `d`), the writer having
    handled the prefix (`w`, sibling names distinct) and `e` (`w'`): provided the result at `l` was not re-created since `t`'s
    latest step start, the entry is appended to step `k` of the result NODE whose full location is `l` — the emitting
    test's own — and every other result node of the whole tree, whatever names it shares with `l`, is unchanged. -/
theorem record_lands_at_its_full_path {s : Session.St} (hs : C06.Reachable s) {pre post : List Event} {e : Event}
    (hsplit : s.fired = pre ++ e :: post) (hl : SessionIso.logLike e = true) {t : Nat} {l : Loc} {d : String} {en : Entry}
    (ht : SessionIso.evTid e = some t) (hloc : SessionIso.evLoc e = some l) (hd : SessionIso.evStep e = some d)
    (hen : SessionIso.entryOf e = some en)
    {w w' : WriterState} (hw : Writer.run Writer.initState pre = .ok w) (hw' : Writer.apply w e = .ok w')
    (hu : uniqNames w.report = true) :
    ∃ time pre1 pre2, pre = pre1 ++ .stepStart l d t time :: pre2 ∧
      ((∀ x ∈ pre2, SessionIso.startsResult x ≠ some l) →
        ∃ k x y, (l, x) ∈ resultsOf w.report ∧ (l, y) ∈ resultsOf w'.report ∧
          y.steps = modifyNth (addEntryToStep en) k x.steps ∧
          ∀ l' z, l' ≠ l → (l', z) ∈ resultsOf w.report → (l', z) ∈ resultsOf w'.report) := by
  obtain ⟨time, pre1, pre2, w1, steps1, g1, _, _, _, g5⟩ := C06.log_lands_in_own_step hs hsplit hl ht hloc hd hen hw hw'
  refine ⟨time, pre1, pre2, g1, ?_⟩
  intro hfresh
  obtain ⟨_, _, _, _, _, _, _, a6, _⟩ := g5 hfresh
  rw [apply_logLike hl ht hloc hen] at hw'
  obtain ⟨⟨x, y, h1, h2, h3⟩, h4⟩ := addEntry_nodes hu hw' a6
  exact ⟨steps1.length, x, y, h1, h2, h3, h4⟩

/-! ### non-vacuity and what the top-level descent is for

  `WriterLoc.crossOps` (`Lemmas/WriterLocDemo.lean`): alpha / alpha.beta / beta / beta.alpha, a test `exchange` in each, four
  workers running them at the same time, one with an `lcc.Thread`; `crossReport` = the writer's fold of the fired stream. -/

/-- the interleaving is accepted, the writer handles it, sibling names are distinct although every name occurs at two
    levels, the four same-named tests are four result nodes with four locations, and each holds exactly the records of its
    own test (the `lcc.Thread`'s in a step of its own) -/
example : crossReport.map uniqNames = some true := by decide +kernel

example :
    crossReport.map (fun r => (resultsOf r).map (fun lx => lx.1))
    = some [.test ["alpha", "exchange"], .test ["alpha", "beta", "exchange"], .test ["beta", "exchange"],
            .test ["beta", "alpha", "exchange"]] := by
  decide +kernel

example :
    crossReport.map (fun r => (resultsOf r).map (fun lx => stepsView (some lx.2.steps)))
    = some [[("S", ["alpha"])],
            [("S", ["alpha.beta", "alpha.beta 2"]), ("S", ["alpha.beta thread"])],
            [("S", ["beta", "beta 2"])],
            [("S", ["beta.alpha", "beta.alpha 2"])]] := by
  decide +kernel

/-- … and `getResult` at each full path reads exactly that node -/
example :
    crossReport.map (fun r =>
      [stepsView (getSteps (.test ["beta", "exchange"]) r), stepsView (getSteps (.test ["alpha", "beta", "exchange"]) r)])
    = some [[("S", ["beta", "beta 2"])], [("S", ["alpha.beta", "alpha.beta 2"]), ("S", ["alpha.beta thread"])]] := by
  decide +kernel

/-- **What the descent from the TOP level is for** (refutation of the variant that matches the first path element against
    the suites of any depth, `find_suite(report.all_suites(), path)`): in the tree above, the location of the top-level suite
    `beta` then resolves to the sub-suite `alpha.beta` — the records of `beta.exchange` would be filed in the result of
    `alpha.beta.exchange` —, while the lookup modelled here keeps the two apart. -/
theorem any_depth_lookup_confuses_paths :
    crossReport.map (fun r =>
      [suiteView (getSuiteAnyDepth ["beta"] r.suites), suiteView (getSuite ["alpha", "beta"] r.suites),
       suiteView (getSuite ["beta"] r.suites)])
    = some [[[("S", ["alpha.beta", "alpha.beta 2"]), ("S", ["alpha.beta thread"])]],
            [[("S", ["alpha.beta", "alpha.beta 2"]), ("S", ["alpha.beta thread"])]],
            [[("S", ["beta", "beta 2"])]]] := by
  decide +kernel

/-! ### names with dots: a location is the LIST of the ancestors' names, never the dotted string split again

  `WriterLoc.dottedOps`: suite `api` holds the test `v2.status` and the sub-suite `v2` with the test `status`, both running at
  the same time (one with an `lcc.Thread`).  The theorems above quantify over paths that are lists of ARBITRARY strings
  (`location_resolves_by_full_path`, `record_lands_at_its_full_path`): `["api", "v2.status"]` and `["api", "v2", "status"]` are
  two locations, although their dotted renderings coincide. -/

example : dottedReport.map uniqNames = some true := by decide +kernel

/-- two result nodes, two locations; each holds exactly the records of its own test (the `lcc.Thread`'s in its own step) -/
example :
    dottedReport.map (fun r => (resultsOf r).map (fun lx => (lx.1, stepsView (some lx.2.steps))))
    = some [(.test ["api", "v2.status"], [("request", ["flat 1", "flat 2"]), ("request", ["flat thread"])]),
            (.test ["api", "v2", "status"], [("connect", ["nested 1", "nested 2"])])] := by
  decide +kernel

/-- **What keeping the list is for** (refutation of the variant that rebuilds a location from the dotted path,
    `tuple(node.path.split("."))`): the dotted rendering is not injective — both tests get the location
    `["api", "v2", "status"]`, so every record of `api."v2.status"` would be filed in the result of `api.v2.status` (or the lookup
    fails when no such sibling exists) — while the lookup by the list of names reads two different nodes. -/
theorem dotted_rendering_confuses_paths :
    resplit ["api", "v2.status"] = resplit ["api", "v2", "status"] ∧
    (["api", "v2.status"] : Path) ≠ ["api", "v2", "status"] ∧
    dottedReport.map (fun r =>
      [stepsView (getSteps (.test (resplit ["api", "v2.status"])) r), stepsView (getSteps (.test ["api", "v2.status"]) r)])
    = some [[("connect", ["nested 1", "nested 2"])], [("request", ["flat 1", "flat 2"]), ("request", ["flat thread"])]] := by
  refine ⟨by decide +kernel, by decide, by decide +kernel⟩

end LccModel.C06Loc

/-
  C08, last sentence — "In all cases the teardowns of completed setups still run after their consumers, the report
  is completed and saved, and THE RUN IS REPORTED UNSUCCESSFUL."

  What `handle_exception` does with an `AbortTest` / `AbortSuite` / `AbortAllTests` (or an instance of a
  project-defined subclass), wherever it was raised, is one error log at the location being worked at
  (`C02Run.handleException_spec`): the result of that location — a test, a suite setup or teardown, the session
  setup or teardown — ends `failed`.  An abort raised by TEARDOWN code once every test has passed leaves nothing to
  skip: that failed teardown result is then the ONLY trace of the abort, and the verdict of the run — the report
  success flag and the exit code of `lcc run --exit-error-on-failure` — has to come from it.

  Part 1 (report level, model `Model/ExitCode.lean`, for ALL reports: any tree, any statuses, finished or not):
  a failed result ANYWHERE in the report — named by where it sits: test, suite setup, suite teardown of a suite at
  any depth, session setup, session teardown — makes `Report.is_successful()` false and the exit code under
  `--exit-error-on-failure` 1, whatever the tests say; the exit code is not a function of the test statuses.

  Part 2 (run level, model `Model/Run.lean`): a teardown function (a `teardown_suite` hook, the teardown part of a
  fixture) that leaves by an exception — `AbortTest`, `AbortSuite`, `AbortAllTests`, anything — marks the teardown
  task's own location failed, nothing later in the task clears it, the task's output contains the failing event and
  the task leaves the session-wide failure flag set (`eff.failed`: what `session.is_successful()`, the return value
  of `run_suites`, reads) — although the task's own result class stays `success` (teardown tasks have no verdict:
  `C02Run.teardown_task_result`).  The writer turns the failing event into `status = failed` of that result
  (`Lemmas/Writer.lean: resultInv_failed_iff`), which is where part 1 starts.
-/
import LccModel.Lemmas.ExitCodeTree
import LccModel.Lemmas.RunAbortTeardown
import LccModel.Props.C02Exit
import LccModel.Props.C02Run

namespace LccModel.C08Exit
open LccModel.Report LccModel.Writer LccModel.ExitCode

/-! ### Part 1 — the verdict of the run, for all reports -/

/-- **A failed result anywhere makes the run unsuccessful**: if any result stored in the report — test or
    setup / teardown phase — is `failed` (what an abort produces in the phase where it was raised), then
    `report.is_successful()` is false and the exit code under `--exit-error-on-failure` is 1. -/
theorem failed_result_makes_run_unsuccessful (r : Report) (a : AnyResult) (ha : a ∈ rawResults r)
    (hf : a.result.status = some .failed) : reportSuccessful r = false ∧ exitCode true r = 1 := by
  have hex : ∃ a ∈ rawResults r, ¬ Fine a.result.status :=
    ⟨a, ha, by
      show ¬ (a.result.status = some .passed ∨ a.result.status = some .disabled)
      rw [hf]; simp⟩
  exact ⟨(C02Exit.successful_iff_no_failed_item r).mpr hex, (C02Exit.exit_code_one_iff r).mpr hex⟩

/-- … the same for a result that is `skipped` (the tests an abort / `--stop-on-failure` / Ctrl-C prevented from
    starting) or has no status yet: anything but passed / disabled. -/
theorem not_fine_result_makes_run_unsuccessful (r : Report) (a : AnyResult) (ha : a ∈ rawResults r)
    (hf : ¬ Fine a.result.status) : reportSuccessful r = false ∧ exitCode true r = 1 :=
  ⟨(C02Exit.successful_iff_no_failed_item r).mpr ⟨a, ha, hf⟩, (C02Exit.exit_code_one_iff r).mpr ⟨a, ha, hf⟩⟩

/-- a skipped test (status `skipped`) is such a result -/
theorem skipped_test_makes_run_unsuccessful (r : Report) (t : TestResult) (ht : t ∈ rawTests r)
    (hs : t.result.status = some .skipped) : reportSuccessful r = false ∧ exitCode true r = 1 :=
  not_fine_result_makes_run_unsuccessful r (.test t) ((mem_rawTests r t).mp ht) (by
    show ¬ (t.result.status = some .passed ∨ t.result.status = some .disabled)
    rw [hs]; simp)

/-- **Abort in `teardown_suite` / in the teardown of a suite-scoped fixture**: a failed TEARDOWN result of a suite
    at any depth of the report tree gives exit code 1 and a false success flag — no hypothesis on the tests: in
    particular when every test of the report is passed. -/
theorem failed_suite_teardown_makes_run_unsuccessful (r : Report) (s : SuiteResult) (hs : InSuites s r.suites)
    (p : Result) (hp : s.teardown = some p) (hf : p.status = some .failed) :
    reportSuccessful r = false ∧ exitCode true r = 1 :=
  failed_result_makes_run_unsuccessful r (.phase p) (mem_rawResults_of_suite hs (mem_own_teardown hp)) hf

/-- **Abort in the teardown of a session-scoped fixture**: a failed session teardown result. -/
theorem failed_session_teardown_makes_run_unsuccessful (r : Report) (p : Result) (hp : r.teardown = some p)
    (hf : p.status = some .failed) : reportSuccessful r = false ∧ exitCode true r = 1 :=
  failed_result_makes_run_unsuccessful r (.phase p) (mem_rawResults_session_teardown hp) hf

/-- abort in `setup_suite` / in the setup of a suite-scoped fixture: a failed suite setup result, suite at any depth -/
theorem failed_suite_setup_makes_run_unsuccessful (r : Report) (s : SuiteResult) (hs : InSuites s r.suites)
    (p : Result) (hp : s.setup = some p) (hf : p.status = some .failed) :
    reportSuccessful r = false ∧ exitCode true r = 1 :=
  failed_result_makes_run_unsuccessful r (.phase p) (mem_rawResults_of_suite hs (mem_own_setup hp)) hf

/-- abort in the setup of a session-scoped fixture: a failed session setup result -/
theorem failed_session_setup_makes_run_unsuccessful (r : Report) (p : Result) (hp : r.setup = some p)
    (hf : p.status = some .failed) : reportSuccessful r = false ∧ exitCode true r = 1 :=
  failed_result_makes_run_unsuccessful r (.phase p) (mem_rawResults_session_setup hp) hf

/-- abort in a test (body, `setup_test` / `teardown_test`, test-scoped fixture): a failed test, suite at any depth -/
theorem failed_test_makes_run_unsuccessful (r : Report) (s : SuiteResult) (hs : InSuites s r.suites)
    (t : TestResult) (ht : t ∈ s.tests) (hf : t.result.status = some .failed) :
    reportSuccessful r = false ∧ exitCode true r = 1 :=
  failed_result_makes_run_unsuccessful r (.test t) (mem_rawResults_of_suite hs (mem_own_test ht)) hf

/-- **The exit code is not a function of the tests.**  No rule that only looks at the test results of the report
    (their statuses, their number, how many passed / are enabled …) computes the exit code of
    `lcc run --exit-error-on-failure`: two reports with the very same tests — all passed — get different exit codes,
    because one of them holds a failed suite teardown. -/
theorem exit_code_is_not_a_function_of_the_tests {α : Type} (f : List TestResult → α) (g : α → Nat) :
    ¬ ∀ r : Report, exitCode true r = g (f (rawTests r)) := by
  intro h
  have h1 := h Sample.allPassedTeardownFailed
  have h2 := h Sample.allPassed
  have e : rawTests Sample.allPassedTeardownFailed = rawTests Sample.allPassed := by decide
  rw [e, ← h2] at h1
  revert h1
  decide

/-! ### Part 2 — from the teardown code to the failing event (run model) -/

open LccModel.Session LccModel.Run

/-- a script whose first act is `raise` of an exception of kind `k` leaves its unit by that exception, in every
    state (nothing has to be assumed about the session, the interrupt point or the fixtures) -/
theorem runUnit_raise_first (u : UnitId) (k : ExcKind) (rest : Script) (ts : TS) :
    (exec (runUnit u (.raise k :: rest)) ts).1 = some k := by
  unfold runUnit
  rw [show FUEL = 99998 + 1 + 1 from rfl, execScript_succ, exec_bind, execActs_succ_exec]
  rfl

/-- `start_suite_teardown` / `start_test_session_teardown` by the pool worker: the worker gets its cursor, at
    the teardown's own location -/
theorem tr_startTeardown {L : Loc} (startOp : Session.Op)
    (hop : (startOp = .startSessionTeardown ∧ L = .sessionTeardown) ∨
           (∃ p, startOp = .startSuiteTeardown p ∧ L = .suiteTeardown p)) :
    Tr (JT L) (JC L) (fun _ => True) (sop 0 startOp) := by
  have hfor : opFor L startOp = true := by
    rcases hop with ⟨h1, h2⟩ | ⟨p, h1, h2⟩ <;> subst h1 <;> subst h2 <;> simp [opFor]
  have hcur : ∀ s s', Session.step s 0 startOp = .ok s' → (getCursor s' 0).isSome = true := by
    intro s s' hs
    rcases hop with ⟨h1, _⟩ | ⟨p, h1, _⟩ <;> subst h1 <;> simp only [Session.step] at hs <;>
      injection hs with hs <;> subst hs <;> unfold startPhase <;> rw [getCursor_setCursor] <;> simp
  apply tr_sop
  · intro s s' hj hs
    obtain ⟨h1, new, h2, _⟩ := step_loc hj.2 hfor hs
    exact ⟨⟨inv_step hj.1 hs, h1, hcur s s' hs⟩, new, h2, trivial⟩
  · intro s e _ hs
    rcases hop with ⟨h1, _⟩ | ⟨p, h1, _⟩ <;> subst h1 <;> simp [Session.step] at hs

theorem tra_any_tdStep (L : Loc) (P : Proj) (svs : List SuiteView) (hs : Option Path) (td : Td) :
    TrA (JC L) (PIn L (fun _ _ _ => True)) (tdStep P svs L hs td) :=
  tra_tdStep (inner_JC L _) (C02Run.userOk_any L) P svs L hs td

theorem tra_any_runTdList (L : Loc) (P : Proj) (svs : List SuiteView) (hs : Option Path) (tds : List Td) :
    TrA (JC L) (PIn L (fun _ _ _ => True)) (runTdList P svs L hs tds) :=
  tra_runTdList (inner_JC L _) (C02Run.userOk_any L) P svs L hs tds

/-- **One iteration of `run_teardown_funcs`**: if the teardown function leaves by an exception of ANY kind
    (`AbortTest`, `AbortSuite`, `AbortAllTests`, an unexpected exception, the `AbortTest` of an interrupted API call),
    the location the worker is at is marked failed when the iteration is over. -/
theorem raising_teardown_marks_location_failed {L : Loc} (P : Proj) (svs : List SuiteView) (hs : Option Path)
    (td : Td) (hne : td ≠ .none_) (ts : TS) (hj : JC L ts.sess)
    (hraise : (exec (runTd P svs L td) ts).1.isSome = true) :
    isSuccessful (exec (tdStep P svs L hs td) ts).2.sess L = false := by
  have hj1 : JC L (exec (runTd P svs L td) ts).2.sess :=
    (tra_runTd (inner_JC L (fun _ _ _ => True)) (C02Run.userOk_any L) P svs L td ts hj).1
  obtain ⟨k, hk⟩ := Option.isSome_iff_exists.mp hraise
  have hstep : exec (tdStep P svs L hs td) ts =
      exec (handleException k hs hs.isSome) (exec (runTd P svs L td) ts).2 := by
    unfold tdStep
    have : (td != Td.none_) = true := by simpa using hne
    simp only [this, if_true, exec_bind, hk]
  rw [hstep]
  exact C02Run.handleException_fails k hs hs.isSome _ hj1

/-- **… and the rest of the loop does not clear it**: whatever the teardown functions after it do (they all run:
    an exception in one of them does not stop the loop), a location marked failed stays failed. -/
theorem teardown_failure_survives_the_loop {L : Loc} (P : Proj) (svs : List SuiteView) (hs : Option Path)
    (tds : List Td) (ts : TS) (hj : JC L ts.sess) (hf : isSuccessful ts.sess L = false) :
    isSuccessful (exec (runTdList P svs L hs tds) ts).2.sess L = false :=
  C02Run.failed_sticky (tra_any_runTdList L P svs hs tds) (fun _ h => h.1) (fun _ h => h.1) ts hj L hf

theorem runTdList_cons_exec (P : Proj) (svs : List SuiteView) (L : Loc) (hs : Option Path) (td : Td) (rest : List Td)
    (ts : TS) : exec (runTdList P svs L hs (td :: rest)) ts =
      exec (runTdList P svs L hs rest) (exec (tdStep P svs L hs td) ts).2 := by
  rw [runTdList]; rfl

/-- **The teardown loop**: if, at the moment it is called (after the teardown functions `pre` before it), some
    teardown function `td` of the list leaves by an exception, the location is failed when the loop is over. -/
theorem teardown_loop_fails_if_some_teardown_raises {L : Loc} (P : Proj) (svs : List SuiteView) (hs : Option Path)
    (pre : List Td) (td : Td) (post : List Td) (hne : td ≠ .none_) (ts : TS) (hj : JC L ts.sess)
    (hraise : (exec (runTd P svs L td) (exec (runTdList P svs L hs pre) ts).2).1.isSome = true) :
    isSuccessful (exec (runTdList P svs L hs (pre ++ td :: post)) ts).2.sess L = false := by
  induction pre generalizing ts with
  | nil =>
    rw [List.nil_append, runTdList_cons_exec]
    have h0 : (exec (runTdList P svs L hs []) ts).2 = ts := by rw [runTdList]; rfl
    rw [h0] at hraise
    exact teardown_failure_survives_the_loop P svs hs post _ ((tra_any_tdStep L P svs hs td ts hj).1)
      (raising_teardown_marks_location_failed P svs hs td hne ts hj hraise)
  | cons x pre ih =>
    rw [List.cons_append, runTdList_cons_exec]
    rw [runTdList_cons_exec] at hraise
    exact ih _ ((tra_any_tdStep L P svs hs x ts hj).1) hraise

/-- the list the loop walks contains `td`: split it there (first occurrence) -/
theorem split_at_mem (tds : List Td) (td : Td) (h : td ∈ tds) : ∃ pre post, tds = pre ++ td :: post :=
  List.append_of_mem h

/-- **The teardown phase of a suite / of the session** (`SuiteTeardownTask.run`, `TestSessionTeardownTask.run`; `skip`
    calls `run`): if one of the kept teardown functions raises whenever it is called, the phase ends with its
    location failed. -/
theorem teardown_phase_fails_if_a_teardown_always_raises {L : Loc} (P : Proj) (svs : List SuiteView)
    (startOp endOp : Session.Op) (stepName : String) (kept : List Td)
    (hstart : (startOp = .startSessionTeardown ∧ L = .sessionTeardown) ∨
              (∃ p, startOp = .startSuiteTeardown p ∧ L = .suiteTeardown p))
    (hend : opFor L endOp = true)
    (td : Td) (hmem : td ∈ kept) (hne : td ≠ .none_)
    (hraise : ∀ ts, (exec (runTd P svs L td) ts).1.isSome = true)
    (ts : TS) (hj : JT L ts.sess) :
    isSuccessful (exec (teardownProgram P svs L startOp endOp stepName kept) ts).2.sess L = false := by
  have hany : kept.any (· != .none_) = true :=
    List.any_eq_true.mpr ⟨td, hmem, by simpa using hne⟩
  obtain ⟨pre, post, hsplit⟩ := split_at_mem kept.reverse td (List.mem_reverse.mpr hmem)
  unfold teardownProgram runTeardownFuncs
  simp only [hany, if_true, exec_bind]
  have h1 := (tr_startTeardown (L := L) startOp hstart ts hj).1
  generalize (exec (sop 0 startOp) ts).2 = s1 at h1
  have h2 := (tra_sop_inner (inner_JC L (fun _ _ _ => True)) 0 (.setStep stepName) rfl s1 h1).1
  generalize (exec (sop 0 (.setStep stepName)) s1).2 = s2 at h2
  have h3 := (tra_any_runTdList L P svs none kept.reverse s2 h2).1
  have hf3 : isSuccessful (exec (runTdList P svs L none kept.reverse) s2).2.sess L = false := by
    rw [hsplit]
    exact teardown_loop_fails_if_some_teardown_raises P svs none pre td post hne s2 h2 (hraise _)
  generalize (exec (runTdList P svs L none kept.reverse) s2).2 = s3 at h3 hf3
  exact C02Run.failed_sticky (tra_sop_own (L := L) 0 endOp hend) (fun _ h => h.1) (fun _ h => h.1) s3 h3.toJT L hf3

/-- **Abort raised by `teardown_suite`, the whole task.**  For every project, every suite `sv` whose
    `teardown_suite` hook starts by raising an exception of kind `k` — `AbortTest`, `AbortSuite`, `AbortAllTests` (or a
    subclass: `ExcClass.kind`), anything —, every list of kept teardowns that contains the hook, run or "skipped"
    (`skip` runs the teardowns too), with or without a keyboard interrupt (`cut`), whatever the tests of the suite
    did before (all passed, for instance): the suite teardown task
      * still reports `success` / `skipped` to the scheduler (it has no verdict of its own),
      * leaves the session-wide failure flag set — `session.is_successful()`, hence the return value of `run_suites`,
        is false —,
      * and its output contains an event that fails `.suiteTeardown path`: the error log `handle_exception` wrote,
        which the report writer turns into `status = failed` of the suite's teardown result — the premise of
        `failed_suite_teardown_makes_run_unsuccessful`. -/
theorem abort_in_teardown_suite_makes_run_unsuccessful (P : Proj) (insts : Insts) (w : Nat) (t : TaskId)
    (run reason : Bool) (kept : List Td) (cut : Option Nat) (hk : t.kind = .teardown)
    (sv : SuiteView) (hsv : (allSuites P).find? (fun sv => sv.path == t.path) = some sv)
    (k : ExcKind) (rest : Script) (hscript : sv.spec.teardownSuite = some (.raise k :: rest))
    (hkept : Td.teardownSuite t.path ∈ kept) :
    let out := runTask P insts w t run reason kept cut
    out.res = (if run then .success else .skipped) ∧ out.eff.failed = true ∧
    ∃ e, Item.ev e ∈ out.items ∧ failsAt e (.suiteTeardown t.path) = true := by
  intro out
  have hL : taskLoc t = some (.suiteTeardown t.path) := by simp [taskLoc, hk]
  have hown := tra_taskProgram_own P (allSuites P) w t run reason kept (.suiteTeardown t.path) hL
  obtain ⟨_, hjfin, hfired⟩ := runTask_of_tr P insts w t run reason kept cut hown (jt_init _)
  have hraise : ∀ ts, (exec (runTd P (allSuites P) (.suiteTeardown t.path) (.teardownSuite t.path)) ts).1.isSome = true := by
    intro ts
    simp only [runTd, hsv, hscript]
    rw [runUnit_raise_first]; rfl
  have hfail : isSuccessful (finalTS P insts w t run reason kept cut).sess (.suiteTeardown t.path) = false := by
    unfold finalTS taskProgram
    simp only [hk, exec_bind, exec_pure]
    exact teardown_phase_fails_if_a_teardown_always_raises P (allSuites P) _ _ _ kept
      (Or.inr ⟨t.path, rfl, rfl⟩) (by simp [opFor]) _ hkept (by simp) hraise _ (jt_init _)
  refine ⟨C02Run.teardown_task_result P insts w t run reason kept cut (Or.inl hk), ?_,
    (C02Run.failed_iff_failing_item hjfin.1 hfired _).mp hfail⟩
  exact (C02Run.task_failed_flag_iff P insts w t run reason kept cut _ hL).mpr
    (by obtain ⟨e, he, hfe⟩ := (C02Run.failed_iff_failing_item hjfin.1 hfired _).mp hfail; exact ⟨e, _, he, hfe⟩)

/-- session calls leave the fixture instances alone -/
theorem sop_insts (role : Nat) (op : Session.Op) (ts : TS) : (exec (sop role op) ts).2.insts = ts.insts := by
  rw [exec_sop]
  cases Session.step ts.sess role op with
  | ok s' => rfl
  | error e => dsimp only; split <;> rfl

/-- the teardown of a generator fixture (not per-thread) that has a result in instance `ik` and whose teardown part
    starts by raising an exception of kind `k` leaves by that exception -/
theorem fixture_teardown_raise_first (P : Proj) (svs : List SuiteView) (L : Loc) (ik : InstKey) (n : String) (f : Fx)
    (hfx : findFx P n = some f) (hpt : f.perThread = false) (hgen : f.gen = true) (k : ExcKind) (rest : Script)
    (htd : f.teardown = .raise k :: rest) (ts : TS) (hhas : ts.insts.has ik n = true) :
    (exec (runTd P svs L (.fixture ik n)) ts).1.isSome = true := by
  have hr := runUnit_raise_first (.fx f.func true) k rest ts
  simp only [runTd, teardownFixture, hfx, exec_bind, exec_get, hhas, hpt, hgen, htd, Bool.not_true,
    Bool.false_eq_true, if_false, if_true]
  rw [hr]
  rfl

/-- **The teardown phase, first function**: the teardown function that runs FIRST (the last of the kept list:
    `run_teardown_funcs` walks it reversed) is called in a state whose fixture instances are those the task started
    with; if it raises there, the phase ends with its location failed. -/
theorem teardown_phase_fails_if_first_teardown_raises {L : Loc} (P : Proj) (svs : List SuiteView)
    (startOp endOp : Session.Op) (stepName : String) (init : List Td)
    (hstart : (startOp = .startSessionTeardown ∧ L = .sessionTeardown) ∨
              (∃ p, startOp = .startSuiteTeardown p ∧ L = .suiteTeardown p))
    (hend : opFor L endOp = true)
    (td : Td) (hne : td ≠ .none_) (ts : TS) (hj : JT L ts.sess)
    (hraise : ∀ ts', ts'.insts = ts.insts → (exec (runTd P svs L td) ts').1.isSome = true) :
    isSuccessful (exec (teardownProgram P svs L startOp endOp stepName (init ++ [td])) ts).2.sess L = false := by
  have hany : (init ++ [td]).any (· != .none_) = true :=
    List.any_eq_true.mpr ⟨td, by simp, by simpa using hne⟩
  unfold teardownProgram runTeardownFuncs
  simp only [hany, if_true, exec_bind]
  have h1 := (tr_startTeardown (L := L) startOp hstart ts hj).1
  have i1 := sop_insts 0 startOp ts
  generalize (exec (sop 0 startOp) ts).2 = s1 at h1 i1
  have h2 := (tra_sop_inner (inner_JC L (fun _ _ _ => True)) 0 (.setStep stepName) rfl s1 h1).1
  have i2 := sop_insts 0 (.setStep stepName) s1
  generalize (exec (sop 0 (.setStep stepName)) s1).2 = s2 at h2 i2
  have h3 := (tra_any_runTdList L P svs none (init ++ [td]).reverse s2 h2).1
  have hf3 : isSuccessful (exec (runTdList P svs L none (init ++ [td]).reverse) s2).2.sess L = false := by
    rw [List.reverse_append, List.reverse_singleton, List.singleton_append]
    exact teardown_loop_fails_if_some_teardown_raises P svs none [] td init.reverse hne s2 h2
      (by rw [show (exec (runTdList P svs L none []) s2).2 = s2 from by rw [runTdList]; rfl]
          exact hraise s2 (i2.trans i1))
  generalize (exec (runTdList P svs L none (init ++ [td]).reverse) s2).2 = s3 at h3 hf3
  exact C02Run.failed_sticky (tra_sop_own (L := L) 0 endOp hend) (fun _ h => h.1) (fun _ h => h.1) s3 h3.toJT L hf3

/-- **Abort raised by the teardown of a session-scoped fixture, the whole task.**  For every project, if the
    session fixture that was set up LAST (its teardown runs first) is a generator fixture whose teardown part starts
    by raising an exception of kind `k` — `AbortAllTests` for instance, at a moment where every test of the run is
    over —, then the session teardown task (run or "skipped", any interrupt point) still reports `success` /
    `skipped` to the scheduler, leaves the session-wide failure flag set, and its output contains an event that fails
    `.sessionTeardown` — the premise of `failed_session_teardown_makes_run_unsuccessful`. -/
theorem abort_in_session_fixture_teardown_makes_run_unsuccessful (P : Proj) (insts : Insts) (w : Nat) (t : TaskId)
    (run reason : Bool) (init : List Td) (cut : Option Nat) (hk : t.kind = .sessTeardown)
    (n : String) (f : Fx) (hfx : findFx P n = some f) (hpt : f.perThread = false) (hgen : f.gen = true)
    (k : ExcKind) (rest : Script) (htd : f.teardown = .raise k :: rest) (hhas : insts.has .session n = true) :
    let out := runTask P insts w t run reason (init ++ [.fixture .session n]) cut
    out.res = (if run then .success else .skipped) ∧ out.eff.failed = true ∧
    ∃ e, Item.ev e ∈ out.items ∧ failsAt e .sessionTeardown = true := by
  intro out
  have hL : taskLoc t = some .sessionTeardown := by simp [taskLoc, hk]
  have hown := tra_taskProgram_own P (allSuites P) w t run reason (init ++ [.fixture .session n]) .sessionTeardown hL
  obtain ⟨_, hjfin, hfired⟩ := runTask_of_tr P insts w t run reason (init ++ [.fixture .session n]) cut hown (jt_init _)
  have hfail : isSuccessful (finalTS P insts w t run reason (init ++ [.fixture .session n]) cut).sess .sessionTeardown = false := by
    unfold finalTS taskProgram
    simp only [hk, exec_bind, exec_pure]
    exact teardown_phase_fails_if_first_teardown_raises P (allSuites P) _ _ _ init
      (Or.inl ⟨rfl, rfl⟩) rfl _ (by simp) _ (jt_init _)
      (fun ts' hi => fixture_teardown_raise_first P _ _ .session n f hfx hpt hgen k rest htd ts' (by rw [hi]; exact hhas))
  obtain ⟨e, he, hfe⟩ := (C02Run.failed_iff_failing_item hjfin.1 hfired _).mp hfail
  exact ⟨C02Run.teardown_task_result P insts w t run reason _ cut (Or.inr hk),
    (C02Run.task_failed_flag_iff P insts w t run reason _ cut _ hL).mpr ⟨e, _, he, hfe⟩, e, he, hfe⟩

/-! ### Non-vacuity -/

open Sample

/-- the shape of the seeded change C08-8: two suites, every test passed, the teardown of the nested suite failed -/
example : (rawTests allPassedTeardownFailed).map (·.result.status) = [some .passed, some .passed, some .passed] := by decide
example : reportSuccessful allPassedTeardownFailed = false ∧ exitCode true allPassedTeardownFailed = 1 ∧
    exitCode false allPassedTeardownFailed = 0 := by decide
example : reportSuccessful allPassed = true ∧ exitCode true allPassed = 0 := by decide
/-- the nested suite is `InSuites` of the report, its teardown is the failed result -/
example : InSuites nestedSuite allPassedTeardownFailed.suites ∧ nestedSuite.teardown = some (res .failed) :=
  ⟨.sub (p := outerSuite (res .failed)) (by simp [allPassedTeardownFailed]) (.top (by simp [outerSuite, SuiteResult.suites, nestedSuite])), rfl⟩
/-- session teardown failed, all tests passed -/
example : reportSuccessful sessionTeardownFailed = false ∧ exitCode true sessionTeardownFailed = 1 ∧
    (rawTests sessionTeardownFailed).all (fun t => t.result.status == some .passed) = true := by decide

open LccModel.Run.AbortTeardownSample in
/-- the run-level theorem on a concrete project: suite `s`, one passing test, `teardown_suite` raises an instance of a
    SUBCLASS of `AbortSuite`; the teardown task (run, no interrupt) reports `success`, sets the failure flag, and emits
    the error log at `.suiteTeardown ["s"]` — and aborts the suite after the fact (nothing left to skip) -/
example :
    out.res = .success ∧ out.eff.failed = true ∧ out.err = none ∧ out.eff.abortedSuites = [none] ∧
    (∃ e, Item.ev e ∈ out.items ∧ failsAt e (.suiteTeardown ["s"]) = true) := by
  have h := abort_in_teardown_suite_makes_run_unsuccessful P Insts.empty 0 ⟨.teardown, ["s"]⟩ true false
    [.teardownSuite ["s"]] none rfl sv (by rfl) (ExcClass.kind .subAbortSuite) [.log .info] (by rfl) (by simp)
  have h2 : out.err = none ∧ out.eff.abortedSuites = [none] := by decide +kernel
  exact ⟨h.1, h.2.1, h2.1, h2.2, h.2.2⟩

open LccModel.Run.AbortTeardownSample in
/-- … and the session-level theorem: session fixture `db` (generator, set up, used by the test) whose teardown raises
    `AbortAllTests`: the session teardown task sets the failure flag and the session-abort flag (nothing is left to skip) -/
example :
    outS.res = .success ∧ outS.eff.failed = true ∧ outS.err = none ∧ outS.eff.abortAll = true ∧
    (∃ e, Item.ev e ∈ outS.items ∧ failsAt e .sessionTeardown = true) := by
  have h := abort_in_session_fixture_teardown_makes_run_unsuccessful PS instsS 0 ⟨.sessTeardown, []⟩ true false
    [] none rfl "db" db (by rfl) rfl rfl .abortAll [] rfl (by rfl)
  have h2 : outS.err = none ∧ outS.eff.abortAll = true := by decide +kernel
  exact ⟨h.1, h.2.1, h2.1, h2.2, h.2.2⟩

end LccModel.C08Exit

/-
  C01 / C04, part 2 — the task graph `runner.build_tasks` builds (model M2: `Run.buildTasks`) for ANY
  valid project is a well-formed scheduler graph, so the scheduler theorems of `Props/C01.lean` and
  `Props/C04.lean` (deadlock freedom, termination, exactly-once, dependency ordering — proved for every
  well-formed graph, every worker count and every interleaving) hold for every valid project.

  Every theorem quantifies over ALL projects `P` (any nesting depth, any number of suites / tests, any
  fixtures) satisfying `Valid P` — the facts project preparation guarantees, stated on the project
  syntax (`Lemmas/Graph.lean`): sibling suite names and test names pairwise distinct, every test
  dependency resolves to a test of the project, dependencies acyclic.

  `graphOf P` has the ids of `buildTasks P` as tasks; dependencies of an id are those of the FIRST task
  with that id.  `allSuites P` lists the suites depth first in declaration order (`flatten_suites`);
  `projTests P` lists the tests with their paths, each suite's own tests before its sub-suites'.
-/
import LccModel.Lemmas.Graph
import LccModel.Props.C01
import LccModel.Props.C04

namespace LccModel.C01Graph
open LccModel.Report LccModel.Run LccModel.Sched LccModel.TaskGraph

/-! ### Well-formedness -/

/-- **The task graph of every valid project is well-formed**: no two tasks share an id, every
    dependency (on-success or on-completion) of every task is a task of the graph, and a topological
    numbering exists (no dependency cycle) — what `check_task_dependencies` asserts. -/
theorem buildTasks_wf {P : Proj} (hv : Valid P) : (graphOf P).WF := graphOf_wf hv

/-! ### Every scheduled test has exactly one task; every suite one beginning and one ending task -/

/-- The exact order `build_suite_tasks` produces: a suite contributes its own tests in declaration
    order, then the tests of its sub-suites (recursively, in declaration order); a list of suites
    contributes suite after suite; the project is the list of its top-level suites. -/
theorem tests_order (parent : Path) (inh : Bool) :
    (∀ n r d ss ts st tt inj tests subs,
      testsUnder (flattenSuite parent inh (.mk n r d ss ts st tt inj tests subs)) =
        tests.map (fun t => (parent ++ [n] ++ [t.name], t)) ++
        testsUnder (flattenSuites (parent ++ [n]) (inh || d) subs)) ∧
    (∀ s rest, testsUnder (flattenSuites parent inh (s :: rest)) =
        testsUnder (flattenSuite parent inh s) ++ testsUnder (flattenSuites parent inh rest)) ∧
    testsUnder (flattenSuites parent inh []) = [] ∧
    ∀ P : Proj, projTests P = testsUnder (flattenSuites [] false P.suites) := by
  refine ⟨?_, ?_, ?_, fun _ => rfl⟩
  · intro n r d ss ts st tt inj tests subs
    rw [flattenSuite_eq]; unfold testsUnder; rw [List.flatMap_cons]; rfl
  · intro s rest
    rw [flattenSuites_cons]; unfold testsUnder; rw [List.flatMap_append]
  · rw [flattenSuites_nil]; rfl

/-- **The test tasks of the graph, in task-list order, are exactly the tests of the project in
    declaration order** (`projTests`, see `tests_order`) — for every project, valid or not. -/
theorem test_tasks_exact (P : Proj) :
    (graphOf P).tasks.filter (fun t => t.kind == .test) =
      (projTests P).map (fun pt => (⟨.test, pt.1⟩ : TaskId)) :=
  ids_filter_test P

/-- … and in a valid project each of them occurs exactly once: test paths are pairwise distinct, every
    test of the project has exactly one task, and there is no other test task. -/
theorem test_tasks_exactly_once {P : Proj} (hv : Valid P) :
    ((projTests P).map (·.1)).Nodup ∧
    (∀ pt ∈ projTests P, (graphOf P).tasks.count ⟨.test, pt.1⟩ = 1) ∧
    (∀ p, (⟨.test, p⟩ : TaskId) ∈ (graphOf P).tasks ↔ p ∈ (projTests P).map (·.1)) := by
  have hiff : ∀ p, (⟨.test, p⟩ : TaskId) ∈ ids P ↔ p ∈ (projTests P).map (·.1) := by
    intro p
    constructor
    · intro h
      have h2 : (⟨.test, p⟩ : TaskId) ∈ (ids P).filter isTestId := List.mem_filter.mpr ⟨h, rfl⟩
      rw [ids_filter_test] at h2
      obtain ⟨pt, hpt, heq⟩ := List.mem_map.mp h2
      have : pt.1 = p := by injection heq
      exact List.mem_map.mpr ⟨pt, hpt, this⟩
    · exact test_mem_of_projTests
  refine ⟨?_, ?_, hiff⟩
  · have h1 : ((ids P).filter isTestId).Nodup := List.Sublist.nodup List.filter_sublist (ids_nodup hv)
    rw [ids_filter_test] at h1
    have : (projTests P).map (fun pt => (⟨.test, pt.1⟩ : TaskId)) =
        ((projTests P).map (·.1)).map (fun p => (⟨.test, p⟩ : TaskId)) := by
      rw [List.map_map]; rfl
    rw [this] at h1
    exact nodup_of_nodup_map _ h1
  · intro pt hpt
    exact count_eq_one hv ((hiff pt.1).mpr (List.mem_map_of_mem hpt))

/-- The suite beginning tasks, in task-list order, are exactly the suites of the project, depth first in
    declaration order — for every project. -/
theorem begin_tasks_exact (P : Proj) :
    (graphOf P).tasks.filter (fun t => t.kind == .begin) =
      (allSuites P).map (fun sv => (⟨.begin, sv.path⟩ : TaskId)) :=
  ids_filter_begin P

/-- **Every suite of a valid project — with or without tests — has exactly one beginning task and
    exactly one ending task, there are no others, and the ending task depends on the beginning task.**
    (Suites have pairwise distinct paths.) -/
theorem suite_tasks_exact {P : Proj} (hv : Valid P) :
    ((allSuites P).map (·.path)).Nodup ∧
    (∀ p, (⟨.begin, p⟩ : TaskId) ∈ (graphOf P).tasks ↔ p ∈ (allSuites P).map (·.path)) ∧
    (∀ p, (⟨.end_, p⟩ : TaskId) ∈ (graphOf P).tasks ↔ p ∈ (allSuites P).map (·.path)) ∧
    ∀ sv ∈ allSuites P,
      (graphOf P).tasks.count ⟨.begin, sv.path⟩ = 1 ∧ (graphOf P).tasks.count ⟨.end_, sv.path⟩ = 1 ∧
      (⟨.begin, sv.path⟩ : TaskId) ∈ (graphOf P).succDeps ⟨.end_, sv.path⟩ := by
  refine ⟨suite_paths_nodup hv, ?_, ?_, ?_⟩
  · intro p
    constructor
    · intro h
      obtain ⟨sv, hsv, hp⟩ := suite_of_mem_ids (t := ⟨.begin, p⟩) h (by simp) (by simp) (by simp)
      exact List.mem_map.mpr ⟨sv, hsv, hp⟩
    · intro h
      obtain ⟨sv, hsv, rfl⟩ := List.mem_map.mp h
      exact begin_mem hsv
  · intro p
    constructor
    · intro h
      obtain ⟨sv, hsv, hp⟩ := suite_of_mem_ids (t := ⟨.end_, p⟩) h (by simp) (by simp) (by simp)
      exact List.mem_map.mpr ⟨sv, hsv, hp⟩
    · intro h
      obtain ⟨sv, hsv, rfl⟩ := List.mem_map.mp h
      exact end_mem hsv
  · intro sv hsv
    refine ⟨count_eq_one hv (begin_mem hsv), count_eq_one hv (end_mem hsv), ?_⟩
    have := succDeps_of_mem hv (endSpec_mem hsv)
    rw [show (endSpec P sv).id = ⟨.end_, sv.path⟩ from rfl] at this
    rw [this]
    exact List.mem_cons_self

/-- Session setup / teardown tasks exist exactly when a session-scoped fixture is scheduled; the suite
    setup and teardown tasks of a suite exist exactly when `build_suite_initialization_task` returns a
    task (`hasInit`). -/
theorem optional_tasks_exist_iff {P : Proj} (hv : Valid P) :
    ((⟨.sessSetup, []⟩ : TaskId) ∈ (graphOf P).tasks ↔ hasSessSetup P = true) ∧
    ((⟨.sessTeardown, []⟩ : TaskId) ∈ (graphOf P).tasks ↔ hasSessSetup P = true) ∧
    ∀ sv ∈ allSuites P,
      ((⟨.init, sv.path⟩ : TaskId) ∈ (graphOf P).tasks ↔ hasInit P sv = true) ∧
      ((⟨.teardown, sv.path⟩ : TaskId) ∈ (graphOf P).tasks ↔ hasInit P sv = true) :=
  ⟨(sess_mem_iff P).1, (sess_mem_iff P).2, fun _ hsv => ⟨init_mem_iff hv hsv, teardown_mem_iff hv hsv⟩⟩

/-! ### The dependencies of each kind of task, exactly -/

/-- A suite beginning task waits (on success) for the session setup task, if any, and for the
    beginning task of the parent suite, if any — both are tasks of the graph. -/
theorem begin_waits_for_session_setup_and_parent {P : Proj} (hv : Valid P) {sv : SuiteView}
    (hsv : sv ∈ allSuites P) :
    (graphOf P).succDeps ⟨.begin, sv.path⟩ =
      (if hasSessSetup P then [⟨.sessSetup, []⟩] else []) ++
      (match sv.path.dropLast with | [] => [] | a :: l => [⟨.begin, a :: l⟩]) ∧
    (graphOf P).complDeps ⟨.begin, sv.path⟩ = [] := by
  have h1 := succDeps_of_mem hv (beginSpec_mem hsv)
  have h2 := complDeps_of_mem hv (beginSpec_mem hsv)
  rw [show (beginSpec P sv.path (pbFor sv.path.dropLast)).id = ⟨.begin, sv.path⟩ from rfl] at h1 h2
  refine ⟨?_, h2⟩
  rw [h1]
  unfold beginSpec
  cases sv.path.dropLast <;> rfl

/-- The suite setup task waits for the suite beginning task. -/
theorem init_waits_for_begin {P : Proj} (hv : Valid P) {sv : SuiteView} (hsv : sv ∈ allSuites P)
    (hi : hasInit P sv = true) :
    (graphOf P).succDeps ⟨.init, sv.path⟩ = [⟨.begin, sv.path⟩] ∧ (graphOf P).complDeps ⟨.init, sv.path⟩ = [] :=
  ⟨succDeps_of_mem hv (initSpec_mem hsv hi), complDeps_of_mem hv (initSpec_mem hsv hi)⟩

/-- **The first on-success dependency of a test task is the setup task of its suite if there is one,
    else the suite beginning task** (a task of the graph in both cases); the remaining dependencies
    are the test tasks of the declared test dependencies, in order. -/
theorem test_waits_for_setup {P : Proj} (hv : Valid P) {sv : SuiteView} (hsv : sv ∈ allSuites P)
    {t : TestSpec} (ht : t ∈ sv.spec.tests) :
    (graphOf P).succDeps ⟨.test, sv.path ++ [t.name]⟩ =
      (if hasInit P sv then (⟨.init, sv.path⟩ : TaskId) else ⟨.begin, sv.path⟩) ::
        t.deps.map (fun d => (⟨.test, d⟩ : TaskId)) ∧
    (graphOf P).complDeps ⟨.test, sv.path ++ [t.name]⟩ = [] ∧
    (if hasInit P sv then (⟨.init, sv.path⟩ : TaskId) else ⟨.begin, sv.path⟩) ∈ (graphOf P).tasks :=
  ⟨succDeps_of_mem hv (testSpec_mem hsv ht), complDeps_of_mem hv (testSpec_mem hsv ht), setupIdOf_mem hsv⟩

/-- **The suite teardown task waits (on completion) for the suite setup task and for every test of the
    suite** — so it runs after them whatever their outcome, and never before the suite setup is over,
    even in a suite without tests of its own (`hasInit` can hold with `forceDisabled`). -/
theorem teardown_waits_for_tests_and_setup {P : Proj} (hv : Valid P) {sv : SuiteView}
    (hsv : sv ∈ allSuites P) (hi : hasInit P sv = true) :
    (graphOf P).complDeps ⟨.teardown, sv.path⟩ =
      ⟨.init, sv.path⟩ :: sv.spec.tests.map (fun t => (⟨.test, sv.path ++ [t.name]⟩ : TaskId)) ∧
    (graphOf P).succDeps ⟨.teardown, sv.path⟩ = [] :=
  ⟨complDeps_of_mem hv (tdSpec_mem hsv hi), succDeps_of_mem hv (tdSpec_mem hsv hi)⟩

/-- **The suite ending task waits for the suite beginning task, every test of the suite, the suite
    teardown task (if any) and the ending task of every direct sub-suite** — and every declared
    sub-suite is a suite of the project, one level deeper. -/
theorem end_waits_for_children {P : Proj} (hv : Valid P) {sv : SuiteView} (hsv : sv ∈ allSuites P) :
    (graphOf P).succDeps ⟨.end_, sv.path⟩ =
      ⟨.begin, sv.path⟩ :: sv.spec.tests.map (fun t => (⟨.test, sv.path ++ [t.name]⟩ : TaskId)) ++
        (if hasInit P sv then [⟨.teardown, sv.path⟩] else []) ++
        sv.spec.subs.map (fun s => (⟨.end_, sv.path ++ [s.name]⟩ : TaskId)) ∧
    (graphOf P).complDeps ⟨.end_, sv.path⟩ = [] ∧
    ∀ sub ∈ sv.spec.subs, ∃ sv' ∈ allSuites P, sv'.path = sv.path ++ [sub.name] ∧ sv'.spec = sub :=
  ⟨succDeps_of_mem hv (endSpec_mem hsv), complDeps_of_mem hv (endSpec_mem hsv),
   fun sub hsub => flattenSuites_child P.suites [] false sv hsv sub hsub⟩

/-- **The session teardown task waits (on completion) for the ending task of every top-level suite.** -/
theorem session_teardown_waits_for_top_ends {P : Proj} (hv : Valid P) (hs : hasSessSetup P = true) :
    (graphOf P).complDeps ⟨.sessTeardown, []⟩ = P.suites.map (fun s => (⟨.end_, [s.name]⟩ : TaskId)) ∧
    (graphOf P).succDeps ⟨.sessTeardown, []⟩ = [] ∧
    (graphOf P).deps ⟨.sessSetup, []⟩ = [] := by
  have hst : stSpec P ∈ buildTasks P := mem_buildTasks.mpr (Or.inl ⟨hs, Or.inr rfl⟩)
  have hss : ssSpec ∈ buildTasks P := mem_buildTasks.mpr (Or.inl ⟨hs, Or.inl rfl⟩)
  exact ⟨complDeps_of_mem hv hst, succDeps_of_mem hv hst, deps_of_mem hv hss⟩

/-! ### The scheduler theorems, for every valid project -/

/-- **A run of a valid project never gets stuck** (any number of workers ≥ 1, any interleaving, a
    keyboard interrupt at any moment): while some task is not completed, some transition is enabled. -/
theorem valid_project_never_stuck {P : Proj} (hv : Valid P) (n : Nat) (hn : 0 < n) (s : State TaskId)
    (hr : Reachable (graphOf P) n s) (hnf : ¬ Final (graphOf P) s) :
    ∃ l, (step (graphOf P) n s l).isSome = true :=
  C01.run_never_stuck (graphOf P) (buildTasks_wf hv) n hn s hr hnf

/-- **Every execution is finite**: at most `4·|tasks| + 1` transitions (for every project). -/
theorem valid_project_executions_bounded (P : Proj) (n : Nat) (ls : List (Label TaskId)) (s' : State TaskId)
    (h : run (graphOf P) n (init (graphOf P) n) ls = some s') :
    ls.length ≤ 4 * (buildTasks P).length + 1 := by
  have := C01.executions_bounded (graphOf P) n ls s' h
  rw [show (graphOf P).tasks.length = (buildTasks P).length from List.length_map _] at this
  exact this

/-- A maximal execution of a valid project ends with every task completed: `run_tasks` returns. -/
theorem valid_project_maximal_execution_is_final {P : Proj} (hv : Valid P) (n : Nat) (hn : 0 < n)
    (ls : List (Label TaskId)) (s' : State TaskId)
    (h : run (graphOf P) n (init (graphOf P) n) ls = some s')
    (hmax : ∀ l, step (graphOf P) n s' l = none) : Final (graphOf P) s' :=
  C01.maximal_execution_is_final (graphOf P) (buildTasks_wf hv) n hn ls s' h hmax

/-- **Every task is handled at most once, and exactly once when the run ends**; in particular every test
    of the project is started (run or skipped) exactly once — none twice, none forgotten. -/
theorem valid_project_tasks_exactly_once {P : Proj} (hv : Valid P) (n : Nat) (s : State TaskId)
    (hr : Reachable (graphOf P) n s) :
    (∀ t, s.starts t ≤ 1) ∧
    (Final (graphOf P) s → ∀ pt ∈ projTests P, s.starts ⟨.test, pt.1⟩ = 1) ∧
    (Final (graphOf P) s → ∀ t ∈ (graphOf P).tasks, s.starts t = 1) := by
  refine ⟨fun t => (C01.task_handled_exactly_once (graphOf P) n s hr t).1, ?_, ?_⟩
  · intro hf pt hpt
    exact (C01.task_handled_exactly_once (graphOf P) n s hr _).2 hf
      (((test_tasks_exactly_once hv).2.2 pt.1).mpr (List.mem_map_of_mem hpt))
  · intro hf t ht
    exact (C01.task_handled_exactly_once (graphOf P) n s hr t).2 hf ht

/-- **A test starts only after every test it depends on has finished** — in every reachable state, a
    keyboard interrupt at any moment included (a test released by `skip_all_tasks` is skipped, but still
    only once the tests it depends on have finished). -/
theorem test_starts_after_its_dependencies {P : Proj} (hv : Valid P) {sv : SuiteView}
    (hsv : sv ∈ allSuites P) {t : TestSpec} (ht : t ∈ sv.spec.tests) {d : Path} (hd : d ∈ t.deps)
    (n : Nat) (s : State TaskId) (hr : Reachable (graphOf P) n s)
    (i : Nat) (hi : s.startAt ⟨.test, sv.path ++ [t.name]⟩ = some i) :
    ∃ j, s.finishAt ⟨.test, d⟩ = some j ∧ j < i := by
  apply C04.deps_finished_before_start (graphOf P) n s hr _ i hi
  apply succDeps_sub_deps
  rw [(test_waits_for_setup hv hsv ht).1]
  exact List.mem_cons_of_mem _ (List.mem_map_of_mem hd)

/-- … and a test that is *run* (not skipped) had every test it depends on end in success. -/
theorem test_runs_only_if_dependencies_succeeded {P : Proj} (hv : Valid P) {sv : SuiteView}
    (hsv : sv ∈ allSuites P) {t : TestSpec} (ht : t ∈ sv.spec.tests) {d : Path} (hd : d ∈ t.deps)
    (n : Nat) (s : State TaskId) (hr : Reachable (graphOf P) n s)
    (hm : s.mode ⟨.test, sv.path ++ [t.name]⟩ = some .run) :
    s.result ⟨.test, d⟩ = some .success := by
  apply C04.run_only_if_deps_succeeded (graphOf P) n s hr _ hm
  rw [(test_waits_for_setup hv hsv ht).1]
  exact List.mem_cons_of_mem _ (List.mem_map_of_mem hd)

/-- **A test starts only after the setup of its suite is over** (every reachable state, interrupted or not):
    the suite was begun before the test started, and if the suite has a setup task it finished before the
    test started. -/
theorem test_starts_after_suite_setup {P : Proj} (hv : Valid P) {sv : SuiteView}
    (hsv : sv ∈ allSuites P) {t : TestSpec} (ht : t ∈ sv.spec.tests)
    (n : Nat) (s : State TaskId) (hr : Reachable (graphOf P) n s)
    (i : Nat) (hi : s.startAt ⟨.test, sv.path ++ [t.name]⟩ = some i) :
    (∃ j, s.finishAt ⟨.begin, sv.path⟩ = some j ∧ j < i) ∧
    (hasInit P sv = true → ∃ j, s.finishAt ⟨.init, sv.path⟩ = some j ∧ j < i) := by
  have hsetup : ∃ j, s.finishAt (if hasInit P sv then (⟨.init, sv.path⟩ : TaskId) else ⟨.begin, sv.path⟩) = some j ∧ j < i := by
    apply C04.deps_finished_before_start (graphOf P) n s hr _ i hi
    apply succDeps_sub_deps
    rw [(test_waits_for_setup hv hsv ht).1]
    exact List.mem_cons_self
  cases hinit : hasInit P sv
  · rw [hinit] at hsetup
    exact ⟨hsetup, fun h => by cases h⟩
  · rw [hinit] at hsetup
    refine ⟨?_, fun _ => hsetup⟩
    have h1 : (⟨.init, sv.path⟩ : TaskId) ∈ (graphOf P).deps ⟨.test, sv.path ++ [t.name]⟩ := by
      apply succDeps_sub_deps
      rw [(test_waits_for_setup hv hsv ht).1, hinit]
      exact List.mem_cons_self
    have h2 : (⟨.begin, sv.path⟩ : TaskId) ∈ (graphOf P).deps ⟨.init, sv.path⟩ := by
      apply succDeps_sub_deps
      rw [(init_waits_for_begin hv hsv hinit).1]
      exact List.mem_cons_self
    exact C04.transitive_deps_finished_before_start (graphOf P) n s hr _ _
      (.trans h1 (.direct h2)) i hi

/-! ### Non-vacuity: a project with nesting, an empty suite, a forward dependency and a session fixture -/

private def tst (name : String) (deps : List Path) (fx : List String := []) : TestSpec :=
  { name := name, rank := 0, disabled := false, disabledReason := false, deps := deps, fixtures := fx,
    script := [] }

/-- suite `a` (with `setup_suite`) holds `t1` (depends on `a.b.u1`, declared later) and `t2` (depends on
    `a.t1`, uses the session fixture `sf`), sub-suites `b` (one test) and `empty` (nothing); suite `c`
    holds `t1` depending on `a.t2`. -/
def sampleProj : Proj :=
  { fixtures := [{ name := "sf", func := "sf", scope := .session, perThread := false, params := [],
                   gen := false, setup := [], teardown := [] }]
    suites :=
      [ .mk "a" 0 false (some ([], [])) none none none []
          [tst "t1" [["a", "b", "u1"]], tst "t2" [["a", "t1"]] ["sf"]]
          [ .mk "b" 0 false none none none none [] [tst "u1" []] [],
            .mk "empty" 0 false none none none none [] [] [] ],
        .mk "c" 0 false none none none none [] [tst "t1" [["a", "t2"]]] [] ]
    nbThreads := 2, forceDisabled := false, stopOnFailure := false }

private def sampleLvl (p : Path) : Nat :=
  if p = ["a", "b", "u1"] then 0 else if p = ["a", "t1"] then 1 else if p = ["a", "t2"] then 2 else 3

theorem sampleProj_valid : Valid sampleProj :=
  ⟨by decide, by decide, by decide, by decide, ⟨sampleLvl, by decide⟩⟩

example : (graphOf sampleProj).WF := buildTasks_wf sampleProj_valid

/-- the graph of the sample, spelled out: session tasks, setup/teardown only for `a`, the empty suite
    has its beginning and ending task -/
example : (graphOf sampleProj).tasks =
    [⟨.sessSetup, []⟩, ⟨.begin, ["a"]⟩, ⟨.init, ["a"]⟩, ⟨.test, ["a", "t1"]⟩, ⟨.test, ["a", "t2"]⟩,
     ⟨.teardown, ["a"]⟩, ⟨.begin, ["a", "b"]⟩, ⟨.test, ["a", "b", "u1"]⟩, ⟨.end_, ["a", "b"]⟩,
     ⟨.begin, ["a", "empty"]⟩, ⟨.end_, ["a", "empty"]⟩, ⟨.end_, ["a"]⟩, ⟨.begin, ["c"]⟩,
     ⟨.test, ["c", "t1"]⟩, ⟨.end_, ["c"]⟩, ⟨.sessTeardown, []⟩] := by decide

example : (graphOf sampleProj).succDeps ⟨.test, ["a", "t1"]⟩ = [⟨.init, ["a"]⟩, ⟨.test, ["a", "b", "u1"]⟩] := by
  decide

/-- the generic level function passes the executable certificate check on the sample -/
example : checkWF (graphOf sampleProj) (levelOf sampleProj sampleLvl) = true := by decide

/-- `Valid` is needed: with two sibling suites of the same name the graph has duplicate ids … -/
example : ¬ (graphOf { sampleProj with suites :=
    [.mk "a" 0 false none none none none [] [] [], .mk "a" 0 false none none none none [] [] []] }).WF :=
  fun h => absurd h.nodup (by decide)

/-- … and a dependency cycle between two tests leaves no topological numbering: no task of the cycle
    can ever be dispatched. -/
example : ¬ (graphOf { sampleProj with suites :=
    [.mk "a" 0 false none none none none [] [tst "x" [["a", "y"]], tst "y" [["a", "x"]]] []] }).WF := by
  intro h
  obtain ⟨lvl, hl⟩ := h.acyclic
  have h1 := hl ⟨.test, ["a", "x"]⟩ (by decide) ⟨.test, ["a", "y"]⟩ (by decide)
  have h2 := hl ⟨.test, ["a", "y"]⟩ (by decide) ⟨.test, ["a", "x"]⟩ (by decide)
  omega

/-! ### Non-vacuity: same-named tests in different suites as dependency targets of one test; names with dots

  Names only have to be unique among siblings (`Valid.testNames` is per suite): `users.prepare` and
  `orders.prepare` are different tests, `checkout.pay` depends on BOTH (task ids are (kind, PATH): a path is a
  list of names, so a name containing a dot — `@lcc.test(name="v1.2")`, `@lcc.suite(name="api.v2")` — is one
  component, never split). -/

/-- `users.prepare`, `orders.prepare`; `checkout.pay` depends on both, `checkout.refund` on `pay`;
    suite `api.v2` holds the tests `v1.2` and `prepare` -/
def twinProj : Proj :=
  { fixtures := []
    suites :=
      [ .mk "users" 0 false none none none none [] [tst "prepare" []] [],
        .mk "orders" 0 false none none none none [] [tst "prepare" []] [],
        .mk "checkout" 0 false none none none none []
          [tst "pay" [["users", "prepare"], ["orders", "prepare"]], tst "refund" [["checkout", "pay"]]] [],
        .mk "api.v2" 0 false none none none none [] [tst "v1.2" [], tst "prepare" []] [] ]
    nbThreads := 3, forceDisabled := false, stopOnFailure := false }

private def twinLvl (p : Path) : Nat :=
  if p = ["checkout", "pay"] then 1 else if p = ["checkout", "refund"] then 2 else 0

theorem twinProj_valid : Valid twinProj :=
  ⟨by decide, by decide, by decide, by decide, ⟨twinLvl, by decide⟩⟩

/-- one task per test, whatever the names: three tests called `prepare`, a dotted suite and a dotted test -/
example : (graphOf twinProj).tasks.filter (fun t => t.kind == .test) =
    [⟨.test, ["users", "prepare"]⟩, ⟨.test, ["orders", "prepare"]⟩, ⟨.test, ["checkout", "pay"]⟩,
     ⟨.test, ["checkout", "refund"]⟩, ⟨.test, ["api.v2", "v1.2"]⟩, ⟨.test, ["api.v2", "prepare"]⟩] := by decide

/-- `pay` waits for BOTH tests named `prepare` (and for its suite) -/
example : (graphOf twinProj).succDeps ⟨.test, ["checkout", "pay"]⟩ =
    [⟨.begin, ["checkout"]⟩, ⟨.test, ["users", "prepare"]⟩, ⟨.test, ["orders", "prepare"]⟩] := by decide

/-- the ordering theorem instantiated for the SECOND of the same-named dependencies: in every reachable state of
    every run of `twinProj` (any worker count, any interleaving, interrupted or not) `checkout.pay` starts after
    `orders.prepare` has finished, and is run only if it succeeded -/
example (n : Nat) (s : State TaskId) (hr : Reachable (graphOf twinProj) n s) :
    (∀ i, s.startAt ⟨.test, ["checkout", "pay"]⟩ = some i → ∃ j, s.finishAt ⟨.test, ["orders", "prepare"]⟩ = some j ∧ j < i) ∧
    (s.mode ⟨.test, ["checkout", "pay"]⟩ = some .run → s.result ⟨.test, ["orders", "prepare"]⟩ = some .success) := by
  have hsv : (⟨["checkout"], .mk "checkout" 0 false none none none none []
      [tst "pay" [["users", "prepare"], ["orders", "prepare"]], tst "refund" [["checkout", "pay"]]] [], false⟩ : SuiteView)
      ∈ allSuites twinProj := List.Mem.tail _ (List.Mem.tail _ (List.Mem.head _))
  have ht : tst "pay" [["users", "prepare"], ["orders", "prepare"]] ∈
      (SuiteSpec.mk "checkout" 0 false none none none none []
        [tst "pay" [["users", "prepare"], ["orders", "prepare"]], tst "refund" [["checkout", "pay"]]] []).tests :=
    List.Mem.head _
  exact ⟨fun i hi => test_starts_after_its_dependencies twinProj_valid hsv ht (d := ["orders", "prepare"]) (by decide) n s hr i hi,
    fun hm => test_runs_only_if_dependencies_succeeded twinProj_valid hsv ht (d := ["orders", "prepare"]) (by decide) n s hr hm⟩

/-- suite `a` holds the TEST `login` and the SUB-SUITE `login` (setup hook, one test `t`): a legal tree — `Valid` asks the
    names of sibling suites to be distinct and the names of the tests of one suite to be distinct, separately (so does
    the loader); a task is identified by its KIND and its path -/
def homonymProj : Proj :=
  { fixtures := []
    suites :=
      [ .mk "a" 0 false none none none none [] [tst "login" []]
          [ .mk "login" 0 false (some ⟨[], []⟩) none none none [] [tst "t" []] [] ] ]
    nbThreads := 2, forceDisabled := false, stopOnFailure := false }

theorem homonymProj_valid : Valid homonymProj :=
  ⟨by decide, by decide, by decide, by decide, ⟨fun _ => 0, by decide⟩⟩

/-- the test `a.login` and the tasks of the suite `a.login` are different tasks; the sub-suite's test waits for the
    sub-suite's own setup task, the homonymous test does not -/
example : (graphOf homonymProj).tasks.filter (fun t => t.path == ["a", "login"]) =
    [⟨.test, ["a", "login"]⟩, ⟨.begin, ["a", "login"]⟩, ⟨.init, ["a", "login"]⟩, ⟨.teardown, ["a", "login"]⟩,
     ⟨.end_, ["a", "login"]⟩] ∧
    (graphOf homonymProj).succDeps ⟨.test, ["a", "login", "t"]⟩ = [⟨.init, ["a", "login"]⟩] ∧
    (graphOf homonymProj).succDeps ⟨.test, ["a", "login"]⟩ = [⟨.begin, ["a"]⟩] := by decide

end LccModel.C01Graph

/-
  C13 — Suite discovery finds exactly the declared tests: the part played by the *directory scan*
  (`get_py_files_from_dir` behind `load_suites_from_directory`, `get_matching_files` behind `load_suites_from_files`).

  "…hidden or conditionally invisible items, **and nothing else**, are omitted" and "exactly the declared tests" read on a
  suites directory as it is on disk: next to the suite modules it holds what tools leave behind — hidden drafts
  `.alpha_draft.py` (valid modules with tests), Emacs lock files `.#alpha.py` (dangling symbolic links), AppleDouble
  binaries `._alpha.py`, backups `alpha.py~` / `#alpha.py#`, `alpha.pyc`, `alpha.PY`, `__init__.py`, `__pycache__/`,
  `.git/`, text files.  A directory entry is a declared suite module iff the scan accepts its *name*; what it does not
  accept is neither imported nor loaded and cannot make the load fail.

  Property theorems only.  Model: `Model/DirScan.lean` (the decision `acceptsName`, raw directories, `scanDir`);
  the decision is extracted from the real `get_py_files_from_dir` / `get_matching_files` on every run
  (`Generated/C13TablesCheck.lean`: `scan_filter_agrees`, `scan_stem_agrees`).
  Every theorem about names quantifies over *all* names (`List Char`, resp. `String`).
-/
import LccModel.Model.DirScan
import LccModel.Props.C13

namespace LccModel.C13Scan
open LccModel.Loader LccModel.DirScan

/-! ## 1. The decision on a name -/

/-- **Closed form, every name.**  The scan accepts a name iff it ends with `.py`, does not start with `.` and does not
    start with `__`. -/
theorem accepts_iff (n : List Char) :
    acceptsChars n = true ↔
      (∃ s, n = s ++ ['.', 'p', 'y']) ∧ (∀ r, n ≠ '.' :: r) ∧ (∀ r, n ≠ '_' :: '_' :: r) := by
  unfold acceptsChars pyExt
  simp only [Bool.and_eq_true, Bool.not_eq_true', List.isSuffixOf_iff_suffix]
  constructor
  · rintro ⟨⟨⟨s, hs⟩, hdot⟩, hdu⟩
    refine ⟨⟨s, hs.symm⟩, ?_, ?_⟩
    · intro r hr; subst hr; simp [List.isPrefixOf] at hdot
    · intro r hr; subst hr; simp [List.isPrefixOf] at hdu
  · rintro ⟨⟨s, hs⟩, hdot, hdu⟩
    refine ⟨⟨⟨s, hs.symm⟩, ?_⟩, ?_⟩
    · cases n with
      | nil => rfl
      | cons c r =>
        by_cases hc : c = '.'
        · exact absurd (by rw [hc]) (hdot r)
        · simp [List.isPrefixOf, Ne.symm hc]
    · match n, hdu with
      | [], _ => rfl
      | [c], _ => simp [List.isPrefixOf]
      | c :: c' :: r, hdu =>
        by_cases hc : c = '_'
        · by_cases hc' : c' = '_'
          · exact absurd (by rw [hc, hc']) (hdu r)
          · simp [List.isPrefixOf, Ne.symm hc']
        · simp [List.isPrefixOf, Ne.symm hc]

/-- **Every name starting with `.` is rejected** (hidden drafts `.alpha_draft.py`, Emacs locks `.#alpha.py`, AppleDouble
    `._alpha.py`, `.py` itself) — whatever follows the dot. -/
theorem dot_name_rejected (r : List Char) : acceptsChars ('.' :: r) = false := by
  simp [acceptsChars, List.isPrefixOf]

/-- **Every name starting with `__` is rejected** (`__init__.py`, `__main__.py`, `__x.py`). -/
theorem dunder_name_rejected (r : List Char) : acceptsChars ('_' :: '_' :: r) = false := by
  simp [acceptsChars, List.isPrefixOf]

/-- **Only names ending in `.py` are accepted** (`alpha.py~`, `#alpha.py#`, `alpha.pyc`, `alpha.PY`, `notes.txt`, `alpha.py.bak`
    are not), and an accepted name is its stem followed by `.py`: the suite is named after the file. -/
theorem accepted_ends_with_py (n : List Char) (h : acceptsChars n = true) : stemChars n ++ ['.', 'p', 'y'] = n := by
  obtain ⟨⟨s, hs⟩, _, _⟩ := (accepts_iff n).mp h
  subst hs
  simp [stemChars]

/-- A name that does not end in `.py` is rejected. -/
theorem not_py_rejected (n : List Char) (h : ¬ ∃ s, n = s ++ ['.', 'p', 'y']) : acceptsChars n = false := by
  cases hn : acceptsChars n with
  | false => rfl
  | true => exact absurd ((accepts_iff n).mp hn).1 h

/-- Every other name is accepted: a single leading `_`, several dots (`a.b.py` is the module `a.b`), spaces, `#`, `~`
    or `-` inside — the stem may be any text that does not start with `.` or `__`. -/
theorem plain_name_accepted (s : List Char) (hdot : ∀ r, s ≠ '.' :: r) (hdu : ∀ r, s ≠ '_' :: '_' :: r) (hne : s ≠ []) :
    acceptsChars (s ++ ['.', 'p', 'y']) = true := by
  refine (accepts_iff _).mpr ⟨⟨s, rfl⟩, ?_, ?_⟩
  · intro r hr
    cases s with
    | nil => exact hne rfl
    | cons c s' => simp at hr; exact hdot s' (by rw [hr.1])
  · intro r hr
    match s, hne with
    | [c], _ =>
      simp at hr
    | c :: c' :: s', _ =>
      simp at hr
      exact hdu s' (by rw [hr.1, hr.2.1])

/-- The same on `String`s (what the driver and the extracted table use). -/
theorem string_dot_name_rejected (s : String) (r : List Char) (h : s.toList = '.' :: r) : acceptsName s = false := by
  simp [acceptsName, h, dot_name_rejected]

theorem string_dunder_name_rejected (s : String) (r : List Char) (h : s.toList = '_' :: '_' :: r) :
    acceptsName s = false := by
  simp [acceptsName, h, dunder_name_rejected]

theorem string_accepts_iff (s : String) :
    acceptsName s = true ↔
      (∃ t, s.toList = t ++ ['.', 'p', 'y']) ∧ (∀ r, s.toList ≠ '.' :: r) ∧ (∀ r, s.toList ≠ '_' :: '_' :: r) :=
  accepts_iff s.toList

/-! Each dropping shape, evaluated by the kernel. -/
example : acceptsName "alpha.py" = true := by decide
example : acceptsName ".alpha_draft.py" = false := by decide
example : acceptsName ".#alpha.py" = false := by decide
example : acceptsName "._alpha.py" = false := by decide
example : acceptsName ".py" = false := by decide
example : acceptsName "alpha.py~" = false := by decide
example : acceptsName "#alpha.py#" = false := by decide
example : acceptsName "alpha.pyc" = false := by decide
example : acceptsName "alpha.PY" = false := by decide
example : acceptsName "__init__.py" = false := by decide
example : acceptsName "notes.txt" = false := by decide
example : acceptsName "_private.py" = true := by decide
example : acceptsName "a.b.py" = true ∧ stemOf "a.b.py" = "a.b" := by decide
example : acceptsName "x.py.py" = true ∧ stemOf "x.py.py" = "x.py" := by decide

/-! ## 2. A directory entry is loaded as a suite module iff the scan accepts its name -/

/-- **Membership.**  The modules the loader imports from a directory are exactly the entries whose name is accepted. -/
theorem scanned_iff_accepted (fs : List FileEntry) (m : Module) :
    m ∈ scanFiles fs ↔ ∃ e ∈ fs, acceptsName e.name = true ∧ e.toModule = m := by
  simp [scanFiles, FileEntry.accepted, List.mem_map, List.mem_filter, and_assoc]

/-- An accepted entry is imported under the name of its file without `.py`. -/
theorem scanned_module_named_after_file (e : FileEntry) : e.toModule.stem = stemOf e.name := by
  unfold FileEntry.toModule; cases e.body <;> rfl

/-- **One dropping, anywhere in the listing, changes nothing**: whatever it contains (a valid module with tests, garbage,
    a dangling link), the scan of the directory is the scan without it. -/
theorem dropping_not_scanned (a b : List FileEntry) (e : FileEntry) (h : acceptsName e.name = false) :
    scanFiles (a ++ e :: b) = scanFiles (a ++ b) := by
  simp [scanFiles, List.filter_append, FileEntry.accepted, h]

/-- … hence the load of the directory — success or failure, every suite, every test — does not depend on it. -/
theorem load_ignores_dropping (n : String) (a b : List FileEntry) (e : FileEntry) (ds : List RawDir)
    (h : acceptsName e.name = false) :
    loadRawDir (.mk n (a ++ e :: b) ds) = loadRawDir (.mk n (a ++ b) ds) := by
  simp [loadRawDir, scanDir, dropping_not_scanned a b e h]

theorem load_files_ignores_dropping (a b : List FileEntry) (e : FileEntry) (h : acceptsName e.name = false) :
    loadRawFiles (a ++ e :: b) = loadRawFiles (a ++ b) := by
  simp [loadRawFiles, dropping_not_scanned a b e h]

mutual
theorem scan_clean : ∀ d : RawDir, scanDir (cleanDir d) = scanDir d
  | .mk n fs ds => by
    simp only [cleanDir, scanDir, scanFiles, List.filter_filter, Bool.and_self]
    rw [scan_cleans ds]
theorem scan_cleans : ∀ ds : List RawDir, scanDirs (cleanDirs ds) = scanDirs ds
  | [] => rfl
  | d :: ds => by simp only [cleanDirs, scanDirs]; rw [scan_clean d, scan_cleans ds]
end

mutual
theorem clean_all_accepted : ∀ d : RawDir, allAccepted (cleanDir d) = true
  | .mk n fs ds => by
    simp only [cleanDir, allAccepted, Bool.and_eq_true, List.all_eq_true]
    exact ⟨fun e he => (List.mem_filter.mp he).2, clean_all_accepted_list ds⟩
theorem clean_all_accepted_list : ∀ ds : List RawDir, allAcceptedList (cleanDirs ds) = true
  | [] => rfl
  | d :: ds => by simp only [cleanDirs, allAcceptedList, Bool.and_eq_true]; exact ⟨clean_all_accepted d, clean_all_accepted_list ds⟩
end

/-- **All droppings, all levels** (the suites directory and every companion / module-less sub-directory): loading the
    tree as it is on disk is loading the tree with every rejected entry deleted; the latter holds accepted names only. -/
theorem load_ignores_droppings (d : RawDir) :
    loadRawDir d = loadRawDir (cleanDir d) ∧ allAccepted (cleanDir d) = true := by
  refine ⟨?_, clean_all_accepted d⟩
  simp [loadRawDir, scan_clean]

/-! ## 3. Exactness on the directory as it is on disk -/

/-- **Exactness through the scan.**  Whenever `load_suites_from_directory` succeeds on a raw directory, the loaded tests —
    paths, order, metadata, parameters — are exactly what the *accepted* entries declare (`declDir ∘ scanDir`): nothing a
    rejected entry holds appears, whatever it holds.  Guard: that of finding D18 (`load_directory_exact_partial`). -/
theorem load_raw_directory_exact (d : RawDir) (ss : List Suite) (hnd : noDunderDir (scanDir d) = true)
    (h : loadRawDir d = .ok ss) : Suite.entriesList ss = declDir (scanDir d) :=
  C13.load_directory_exact_partial (scanDir d) ss hnd h

theorem load_raw_files_exact (fs : List FileEntry) (ss : List Suite) (hnd : noDunderModules (scanFiles fs) = true)
    (h : loadRawFiles fs = .ok ss) : Suite.entriesList ss = declFiles (scanFiles fs) :=
  C13.load_files_exact_partial (scanFiles fs) ss hnd h

/-- Without any guard: the stripped form (only `__…`-named class members are lost) and uniqueness. -/
theorem load_raw_directory_exact_on_stripped (d : RawDir) (ss : List Suite) (h : loadRawDir d = .ok ss) :
    Suite.entriesList ss = declDir (stripDir (scanDir d)) ∧ ∀ s ∈ ss, s.Unique :=
  C13.load_directory_real_exact_on_stripped (scanDir d) ss h

/-! ## 4. Non-vacuity: a suites directory with droppings on two levels -/

/-! Example data: `DirScan.exRaw` (`Model/DirScan.lean`). -/

/-- the droppings are neither loaded nor an obstacle; `a.b.py` is the module `a.b` and is imported *before* `alpha.py` -/
example : (loadRawDir exRaw).toOption.map (fun ss => (Suite.entriesList ss).map Prod.fst) =
    some [["alpha", "first"], ["alpha", "second"], ["alpha", "beta", "nested"], ["a.b", "dotted"]] := by decide +kernel

example : allAccepted exRaw = false ∧ noDunderDir (scanDir exRaw) = true := by decide +kernel

/-- file-name order, not stem order: `a.b.py` sorts before `a.py` although `a` < `a.b` -/
example : (sortMods [{ stem := "a", autoRank := 0 }, { stem := "a.b", autoRank := 0 }]).map Module.stem = ["a.b", "a"] := by
  decide +kernel

/-- an accepted name that cannot be imported (a directory or a dangling link named `x.py`) does fail the load: the
    decision looks at the name only -/
example : C13.errOf (loadRawDir (.mk "suites" [⟨"x.py", .junk⟩] [])) = some (.importError "x") := by decide +kernel

end LccModel.C13Scan

/-
  C05 — the report does not depend on the schedule.  (Placeholder for the writer order-independence
  theorems being proved in a separate file; the statement that already follows from the run model's
  construction is recorded here.)
-/
import LccModel.Model.Run

namespace LccModel.C05Run
open LccModel.Run

/-- What a task emits is a function of the project, the fixture-instance state it starts from, the worker
    and the decision taken for it — not of what other tasks do meanwhile: two runs of the same task from the
    same inputs produce the same items, result and effects (the model validated against the real runs has no
    other input; the interrupt `cut` is fixed to `none` in schedule-independent runs). -/
theorem task_output_is_a_function_of_its_inputs (P : Proj) (insts : Insts) (w : Nat) (t : TaskId) (run reason : Bool)
    (kept : List Td) : ∀ o₁ o₂, o₁ = runTask P insts w t run reason kept none → o₂ = runTask P insts w t run reason kept none →
      o₁.items = o₂.items ∧ o₁.res = o₂.res := by
  intro o₁ o₂ h₁ h₂; subst h₁; subst h₂; exact ⟨rfl, rfl⟩

end LccModel.C05Run

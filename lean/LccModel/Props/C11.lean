/-
  C11 — a failing reporting backend is never silent and never hangs the run.

  (1) "Never hangs": the scheduler theorems hold whatever the context answers when a task starts
      (`ctxSkip` is a free parameter of the `start` transition), hence also when the event-handler thread has
      died and every later task is skipped: the run terminates, every task — teardown tasks included, whose
      `skip` runs the teardowns — is still handled exactly once.  Producers never block: `fire` is a `put` on
      an unbounded queue (modelled: firing is not a scheduler transition at all).
  (2) "No further test body is started": once the pending failure is visible the context asks to skip every
      task (decision function `skipReason`, tied to the real `is_task_to_be_skipped` by the extracted table
      `Generated/C11TablesCheck.lean`), and a skipped test task never enters its body
      (`C01Run`: the body `enter` record only occurs in `run` mode).
  (3) "An error carrying the original text is raised": the end of `run_tasks` / `_run_suites` is modelled
      (`Model/RunOutcome.lean`: the keyboard interrupt is swallowed by `run_tasks`, the pending failure is
      looked at after the `handle_events()` block) and tied to the code by the extracted table
      `runOutcomeTable` (the real `run_suites` executed with / without a backend failure, with / without a
      keyboard interrupt before or after it); `backend_error_reaches_the_caller` holds for every combination,
      in particular when the run is ALSO interrupted.  The oracle checks the text on every real run.
-/
import LccModel.Model.RunAccept
import LccModel.Model.RunOutcome
import LccModel.Props.C01

namespace LccModel.C11
open LccModel.RunAccept LccModel.Sched

/-- Once a backend failure is pending, the context asks to skip every task that has not started, whatever
    the other flags are (only an earlier keyboard interrupt takes precedence — and it skips too). -/
theorem pending_failure_skips_everything (interrupted abortAll suiteAborted stop failed isTest : Bool) :
    (skipReason interrupted true abortAll suiteAborted stop failed isTest).isSome = true ∧
    (interrupted = false →
      skipReason interrupted true abortAll suiteAborted stop failed isTest = some .backendFailure) := by
  cases interrupted <;> cases abortAll <;> cases suiteAborted <;> cases stop <;> cases failed <;> cases isTest <;>
    simp [skipReason]

/-- A task the context asks to skip is skipped by `handle_task`, never run. -/
theorem skipped_by_context_is_not_run {Tid : Type} [DecidableEq Tid] (g : Graph Tid) (s : State Tid) (t : Tid) :
    decideMode g s t true = .skip := by
  unfold decideMode; split <;> simp

/-- The run terminates and handles every task exactly once whatever the context answers at each start:
    for every well-formed graph, worker count and interleaving — in particular after the handler thread died. -/
theorem run_with_failing_backend_terminates {Tid : Type} [DecidableEq Tid] (g : Graph Tid) (wf : g.WF)
    (n : Nat) (hn : 0 < n) (ls : List (Label Tid)) (s : State Tid) (h : run g n (init g n) ls = some s) :
    ls.length ≤ 4 * g.tasks.length + 1 ∧
    (¬ Final g s → ∃ l, (step g n s l).isSome = true) ∧
    (Final g s → ∀ t ∈ g.tasks, s.starts t = 1) := by
  have hr : Reachable g n s := reachable_run g n ls (init g n) s Reachable.init h
  refine ⟨C01.executions_bounded g n ls s h, fun hnf => no_deadlock g wf n hn s hr hnf, fun hf t ht => ?_⟩
  exact (C01.task_handled_exactly_once g n s hr t).2 hf ht

/-- **The backend's error reaches the caller, interrupted run or not**: whenever a backend failure is pending at
    the end of the run (and no task raised by itself), the caller gets an error carrying the original text —
    whether or not a keyboard interrupt was delivered, before or after the failure, and whatever the verdicts. -/
theorem backend_error_reaches_the_caller (interrupted successful : Bool) (text : String) :
    RunOutcome.outcome { interrupted := interrupted, taskException := false, pending := some text,
                         successful := successful } = .raisedBackendError text := by
  simp [RunOutcome.outcome, RunOutcome.runTasksEnd]

/-- A keyboard interrupt never changes how the run ends for its caller: it is handled inside `run_tasks`
    (the skipped tests make the run unsuccessful — that is in `successful` — but nothing else is raised). -/
theorem interrupt_does_not_change_the_outcome (f : RunOutcome.Facts) (b : Bool) :
    RunOutcome.outcome { f with interrupted := b } = RunOutcome.outcome f := by
  simp [RunOutcome.outcome, RunOutcome.runTasksEnd]

/-- Without a pending failure (and without internal task exception) the run returns its verdict. -/
theorem no_failure_returns_verdict (interrupted successful : Bool) :
    RunOutcome.outcome { interrupted := interrupted, taskException := false, pending := none,
                         successful := successful } = .returned successful := by
  simp [RunOutcome.outcome, RunOutcome.runTasksEnd]

example : RunOutcome.outcome { interrupted := true, taskException := false, pending := some "disk full", successful := false }
    = .raisedBackendError "disk full" := by decide

/-! Non-vacuity: in the sample graph every task started after the failure is skipped and the run completes. -/
example : ((run C01.sampleGraph 2 (init C01.sampleGraph 2)
    [.start 0 false, .finish 0 .success, .receive 0, .start 1 true, .start 2 true, .finish 1 .skipped,
     .finish 2 .skipped, .receive 1, .receive 2, .start 3 false, .start 4 true, .finish 3 .skipped,
     .finish 4 .skipped, .receive 3, .receive 4]).map (fun s => (finalB C01.sampleGraph s, s.mode 1, s.mode 3, s.mode 4)))
    = some (true, some .skip, some .skip, some .skip) := by decide

/-! ### Which handler exceptions become the pending failure (`_handler_loop`: `except BaseException`, fix D42)

    The property's last clause — "an error carrying the original error text is raised to the caller" — for WHATEVER a
    backend raises.  Before fix D42 (`fixes/D42-handler-base-exception.diff`) `_handler_loop` had `except Exception`: a
    handler ending with GeneratorExit / SystemExit / KeyboardInterrupt killed the event-handling thread silently and the
    statement below was false for those classes (it was proved under the guard `c.isException = true`, with a refutation
    for `systemExit`).  The repaired code records every handler failure; the guard and the refutation are gone.  The tie
    to the code is the extracted table `runOutcomeTable` (the real `run_suites` executed with a handler raising each class). -/

/-- Whatever a handler raises — any Exception, the classes with a meaning for `next()` / `list(map(..))` / `async for`,
    and the BaseExceptions that are no Exception (`sys.exit()` in a handler, GeneratorExit, KeyboardInterrupt) — reaches the
    caller with its text, interrupted or not. -/
theorem handler_exception_reaches_the_caller (c : RunOutcome.FaultClass)
    (interrupted successful : Bool) (text : String) :
    RunOutcome.outcome { interrupted := interrupted, taskException := false,
                         pending := RunOutcome.pendingAfter c text, successful := successful }
      = .raisedBackendError text := by
  simp [RunOutcome.outcome, RunOutcome.runTasksEnd, RunOutcome.pendingAfter]

/-- Every handler failure is recorded as the pending failure, whatever its class: nothing between the handler and the
    `except BaseException` of `_handler_loop` gives StopIteration (or any class) a meaning, and no class escapes it. -/
theorem every_handler_failure_is_recorded (c : RunOutcome.FaultClass) (text : String) :
    RunOutcome.pendingAfter c text = some text := rfl

/-- … in particular the iteration-protocol classes -/
theorem iteration_protocol_exceptions_are_recorded (text : String) :
    RunOutcome.pendingAfter .stopIteration text = some text ∧
    RunOutcome.pendingAfter .stopAsyncIteration text = some text ∧
    RunOutcome.pendingAfter .exception text = some text := ⟨rfl, rfl, rfl⟩

/-- The caller never gets a SystemExit / KeyboardInterrupt / GeneratorExit from a backend: the error is the framework's
    own exception exactly for the classes that are no Exception (every Exception class is re-raised as itself when it
    can be built from one message — `C11/original-text-lost/<Class>` checks the text either way). -/
theorem non_exception_failure_is_raised_as_framework_error (c : RunOutcome.FaultClass) :
    RunOutcome.reraisedAsFrameworkError c = true ↔
      (c = .generatorExit ∨ c = .systemExit ∨ c = .keyboardInterrupt) := by
  cases c <;> simp [RunOutcome.reraisedAsFrameworkError, RunOutcome.FaultClass.isException]

/-- non-vacuity: the former witness of the refutation (`sys.exit()` in a handler) now reaches the caller -/
example : RunOutcome.outcome { interrupted := false, taskException := false,
                               pending := RunOutcome.pendingAfter .systemExit "backend boom", successful := true }
    = .raisedBackendError "backend boom" := by decide

/-- the class names the harness injects, decoded as the driver does: which ones are Exceptions -/
example : (["Exception", "KeyError", "Custom", "StopIteration", "StopAsyncIteration", "GeneratorExit", "SystemExit",
            "KeyboardInterrupt"].map fun n => (RunOutcome.FaultClass.ofName n).isException)
    = [true, true, true, true, true, false, false, false] := by decide

/-- In the acceptor a handler raise makes the pending failure possibly visible from then on (`caught` is true for every
    class since fix D42: `drivers/Run.lean` computes it as `(pendingAfter c _).isSome`; a raise that were not caught would
    set no flag). -/
theorem backend_raise_flag (c : Ctx) (g : G) (k : Nat) (caught : Bool) :
    ∃ g', RunAccept.step c g (.backendRaise k caught) = .ok g' ∧
      g'.startedEff.pending = (caught || g.startedEff.pending) ∧ g'.defF = g.defF ∧ g'.sched = g.sched :=
  ⟨_, rfl, rfl, rfl, rfl⟩

end LccModel.C11

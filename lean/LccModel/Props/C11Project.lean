/-
  C11 at the PROJECT-LEVEL entry point (`PreparedProject.run`, what `lcc run` calls; Model/ProjectRun.lean): a failing
  reporting backend is not silent and its ORIGINAL error text reaches the caller whatever the project's pre_run / post_run
  hooks are — absent, passing, raising lcc.UserError, raising another exception, raising only when the run failed.
  The model is tied to the real code by the extracted table `projectRunTable` (Generated/C11TablesCheck.lean:
  project_run_table_agrees, every hook kind × hook kind × backend failed or not, executed on the real `PreparedProject.run`)
  and case by case by the stream `C11.project` (drivers/Run.lean answers `project` for the observed hooks).
-/
import LccModel.Model.ProjectRun

namespace LccModel.C11Project
open LccModel LccModel.ProjectRun

/-- **The backend's original text reaches the caller of the project run**: when pre_run lets the run start and a backend
    failure is pending at the end of the session, what `PreparedProject.run` raises is exactly what `run_suites` raised —
    the error carrying the text — for EVERY post_run hook (it cannot replace the error: it is not called). -/
theorem backend_text_reaches_project_caller (pre post : Hook) (f : RunOutcome.Facts) (text : String)
    (hpre : pre.endsWith false = .ok) (hno : f.taskException = false) (hp : f.pending = some text) :
    (run pre post (RunOutcome.outcome f)).2 = .ofRun (.raisedBackendError text) ∧
    (run pre post (RunOutcome.outcome f)).2.backendText = some text := by
  simp [run, hpre, RunOutcome.outcome, RunOutcome.runTasksEnd, hno, hp, Outcome.backendText]

/-- … stated on the outcome of `run_suites` directly: a raised run outcome is passed on unchanged, whatever post_run is. -/
theorem raised_run_outcome_is_passed_on (pre post : Hook) (o : RunOutcome.Outcome)
    (hpre : pre.endsWith false = .ok) (hr : runFailed o = true) :
    (run pre post o).2 = .ofRun o ∧ postRunCalled (run pre post o).1 = false := by
  cases o <;> cases pre <;> simp_all [run, runFailed, postRunCalled, observable, Hook.endsWith]

/-- post_run is called exactly when `run_suites` was called and returned: it never sees a failed run, so a hook that only
    fails when the run failed (it publishes what the backend was to produce) never fails. -/
theorem post_run_called_iff_run_returned (pre post : Hook) (o : RunOutcome.Outcome) (hpost : post ≠ .absent) :
    postRunCalled (run pre post o).1 = (decide (pre.endsWith false = .ok) && !runFailed o) := by
  cases o <;> cases pre <;> cases post <;> simp_all [run, runFailed, postRunCalled, observable, Hook.endsWith]

theorem conditional_post_run_never_fails (pre : Hook) (o : RunOutcome.Outcome) :
    (run pre .userErrorIfFailed o).2 ≠ .postRunUserError ∧ (run pre .otherErrorIfFailed o).2 ≠ .postRunWrapped := by
  cases o <;> cases pre <;> simp [run, runFailed, Hook.endsWith]

/-- **Nothing is silently lost**: the project run only returns (the report) when no backend failure is pending and no hook
    failed. -/
theorem project_run_returns_only_without_failure (pre post : Hook) (f : RunOutcome.Facts) (ok : Bool)
    (h : (run pre post (RunOutcome.outcome f)).2 = .ofRun (.returned ok)) :
    f.pending = none ∧ pre.endsWith false = .ok ∧ post.endsWith false = .ok := by
  cases hp : f.pending <;> cases hpre : pre.endsWith false <;> cases hpost : post.endsWith false <;>
    cases ht : f.taskException <;>
    simp_all [run, RunOutcome.outcome, RunOutcome.runTasksEnd, runFailed]

/-- A failing pre_run runs nothing: neither the tests nor post_run (the rule "first failure in the order
    pre_run < run_suites < post_run"). -/
theorem failing_pre_run_runs_nothing (pre post : Hook) (o : RunOutcome.Outcome) (h : pre.endsWith false ≠ .ok) :
    runSuitesCalled (run pre post o).1 = false ∧ postRunCalled (run pre post o).1 = false := by
  cases pre <;> simp_all [run, Hook.endsWith, runSuitesCalled, postRunCalled, observable]

/-- The post_run failure the caller gets is a failure of a run that completed: the only way to `postRun…` outcomes. -/
theorem post_run_error_only_after_completed_run (pre post : Hook) (o : RunOutcome.Outcome)
    (h : (run pre post o).2 = .postRunUserError ∨ (run pre post o).2 = .postRunWrapped) : runFailed o = false := by
  cases o <;> cases pre <;> simp_all [run, runFailed, Hook.endsWith]

/-- non-vacuity: the input class of seeded change C11-11 (post_run raising UserError when the run failed, backend failed) -/
example : (run .passes .userErrorIfFailed (RunOutcome.outcome
    { interrupted := false, taskException := false, pending := some "disk full", successful := false })).2.backendText
    = some "disk full" := by decide

example : render (run .absent .userError (.returned true)) = "run_suites post_run:UserError => post_run-UserError" := by decide

end LccModel.C11Project

/-
  C10 — The report on disk is always loadable and is a prefix of the final report.

  Property theorems only (helper lemmas: `Lemmas/Saving.lean`; definitions: `Model/Saving.lean`,
  `Model/Writer.lean`).

  Reading guide (sentence of the property → theorem):

  * "describes a prefix of the final report (items it shows as finished never change afterwards)"
      `Prefix` (`Saving.prefixB`), read back by `finished_result_identical`, `ended_step_identical`,
      `ended_suite_identical`, `ended_session_identical`; `prefix_refl`, `prefix_trans`;
      `prefix_step` (one handler), `prefix_monotone_safe` (all pairs of prefixes of every stream whose events
      target nothing finished — `SafeStream`), `safe_of_grammar` (C07's grammar + unique paths give `SafeStream`),
      `prefix_monotone` (hence: all pairs of prefixes of every well-formed stream).
  * "the report file, whenever it exists, can be loaded and describes a prefix"
      `snapshot_is_prefix` (the same thread mutates and saves: a saved text is the serialisation of the
      report of a prefix of the stream), `saved_snapshot_prefix_of_final`.
  * "this holds at every instant, including when the process dies in the middle of a save"
      `crash_safe` (temporary file + rename: the repaired `save_report_into_file`, fixes/D16),
      `file_always_loadable_prefix` (whole run, every strategy, every clock, every split of the text into
      writes, every crash / read point).  `inplace_crash_refuted`, `inplace_crash_strict_prefix`,
      `inplace_crash_not_loadable`: the truncate-in-place save of the unrepaired code does NOT have the
      property (D16) — kept as documentation of why the repair is needed.
  * "under each strategy the file is refreshed at the promised points … and always at the end"
      `strategy_points`, `every_n_point`, `final_save`, `end_of_tests_saves_only_at_end`.
      WHICH strategy a run uses (`--save-report` over `$LCC_SAVE_REPORT` over the default): `cli_option_wins`,
      `env_is_the_default`, `builtin_default`, `cli_strategy_points`; table `saveOptionTable_agrees`.
  * a refresh presupposes that the save does not raise: `json_save_never_raises` (every text, every locale
      encoding, both options), `json_session_never_stopped_by_a_save`; `failing_save_loses_the_rest` and
      `raw_text_save_can_raise` say what happens otherwise (the XML backend on a lone surrogate: `xml_save_stops_session`).

  Assumptions of the file-system model (M13), not proved here: `os.replace` inside one directory is atomic
  and is not observed before the writes to the temporary file, as far as a *process* death and concurrent
  readers are concerned (POSIX rename); a reader that has opened the old file keeps reading the old
  content; loss of page-cache content on power failure is out of scope (the property speaks of process
  death).
-/
import LccModel.Lemmas.SavingLink
import LccModel.Lemmas.SavingG
import LccModel.Lemmas.JsonRender
import LccModel.Model.Store
import LccModel.Model.Junit

namespace LccModel.C10
open LccModel.Report LccModel.Writer LccModel.Saving

/-! ### What `Prefix` says about finished items -/

/-- A result (test, setup, teardown) the earlier report shows as finished — it has an end time or a
    status — is identical in the later one. -/
theorem finished_result_identical {x y : Result} (h : resultPrefixB x y = true) (hf : Result.finished x = true) :
    x = y := by
  unfold resultPrefixB at h
  simpa [hf] using h

/-- An ended step is identical in the later report. -/
theorem ended_step_identical {a b : Step} (h : stepPrefixB a b = true) (hf : a.endTime.isSome = true) : a = b := by
  unfold stepPrefixB at h
  simpa [Step.finished, hf] using h

/-- An ended suite is identical in the later report, with everything inside it. -/
theorem ended_suite_identical {s s' : SuiteResult} (h : suitePrefixB s s' = true) (hf : s.endTime.isSome = true) :
    s = s' := by
  cases s with
  | mk md st en su td ts ss =>
    cases s' with
    | mk md' st' en' su' td' ts' ss' =>
      simp only [SuiteResult.endTime] at hf
      unfold suitePrefixB at h
      simp only [hf, if_true, Bool.and_eq_true, decide_eq_true_eq] at h
      obtain ⟨⟨⟨⟨⟨⟨h1, h2⟩, h3⟩, h4⟩, h5⟩, h6⟩, h7⟩ := h
      have := beqSuites_eq _ _ h7
      subst h1 h2 h3 h4 h5 h6 this
      rfl

/-- Once the report shows the session as ended, nothing in it changes any more (the only field left out
    is `savingTime`, the time stamp of the file). -/
theorem ended_session_identical {a b : Report} (h : Prefix a b) (hf : a.endTime.isSome = true) :
    a.title = b.title ∧ a.info = b.info ∧ a.nbThreads = b.nbThreads ∧ a.startTime = b.startTime ∧
      a.endTime = b.endTime ∧ a.setup = b.setup ∧ a.teardown = b.teardown ∧ a.suites = b.suites := by
  unfold Prefix prefixB at h
  simp only [hf, if_true, Bool.and_eq_true, decide_eq_true_eq] at h
  obtain ⟨⟨⟨h1, h2⟩, h3⟩, ⟨⟨⟨⟨h4, h5⟩, h6⟩, h7⟩, h8⟩⟩ := h
  exact ⟨h1, h2, h3, h4, h5, h6, h7, beqSuites_eq _ _ h8⟩

/-- In a session that has not ended, the tests of an open top-level suite are extended at the end only, and
    each earlier test is related to the later test at the same position (so a finished one is identical:
    `finished_result_identical`). -/
theorem open_suite_tests_extended {md md' : Meta} {st st' en' : Option Time} {su su' td td' : Option Result}
    {ts ts' : List TestResult} {ss ss' : List SuiteResult}
    (h : suitePrefixB (.mk md st none su td ts ss) (.mk md' st' en' su' td' ts' ss') = true) :
    md = md' ∧ st = st' ∧ listPrefixB testPrefixB ts ts' = true ∧ suitesPrefixB ss ss' = true := by
  unfold suitePrefixB at h
  simp only [Option.isSome_none, Bool.false_eq_true, if_false, Bool.and_eq_true, decide_eq_true_eq] at h
  exact ⟨h.1.1.1.1.1, h.1.1.1.1.2, h.1.2, h.2⟩

/-! ### Prefix is a preorder -/

theorem prefix_refl (r : Report) : Prefix r r := prefixB_refl r

theorem prefix_trans {a b c : Report} (h1 : Prefix a b) (h2 : Prefix b c) : Prefix a c := prefixB_trans a b c h1 h2

/-! ### The writer only extends the report -/

/-- Every event of the stream targets nothing that is finished in the report at the moment it is handled
    (the session has not ended; starts create what is not there yet, inside open suites; ends close what is
    unfinished; steps go into unfinished results; logs go into open steps).  This is what C07's stream
    grammar together with the uniqueness of test / suite paths says about a stream, expressed on the
    report itself; it is checked on every stream of the correspondence check (`C10.snap`). -/
def SafeStream (es : List Event) (r0 : Report := Report.empty) : Prop := safeRun (initState r0) es = true

instance (es : List Event) (r0 : Report) : Decidable (SafeStream es r0) := by unfold SafeStream; infer_instance

/-- One handler: the report after `on_<event>` extends the report before it, and everything that was
    finished is untouched (frame property of every `ReportWriter` handler, through the nested lookups). -/
theorem prefix_step {w w' : WriterState} {e : Event} (hs : safe w e = true) (h : Writer.apply w e = .ok w') :
    Prefix w.report w'.report := apply_prefix w w' e hs h

theorem fold_ok {es : List Event} {r0 a : Report} (h : fold es r0 = .ok a) :
    ∃ w, Writer.run (initState r0) es = .ok w ∧ w.report = a := by
  unfold fold at h
  split at h
  · rename_i w hw; injection h with h; exact ⟨w, hw, h⟩
  · cases h

/-- The report after `k` events is a prefix of the report after `m ≥ k` events, for every stream whose
    events target nothing finished, every `k ≤ m`, every initial report.  (`fold (es.take k)` is the report
    `ReportWriter` holds after the handler thread has handled `k` events.) -/
theorem prefix_monotone_safe (es : List Event) (r0 : Report) (k m : Nat) (hs : SafeStream es r0) (hkm : k ≤ m)
    {a b : Report} (hk : fold (es.take k) r0 = .ok a) (hm : fold (es.take m) r0 = .ok b) : Prefix a b := by
  obtain ⟨wa, hra, rfl⟩ := fold_ok hk
  obtain ⟨wb, hrb, rfl⟩ := fold_ok hm
  have hsplit : es.take m = es.take k ++ (es.take m).drop k := by
    have := List.take_append_drop k (es.take m)
    rw [List.take_take, Nat.min_eq_left hkm] at this
    exact this.symm
  have hsm : safeRun (initState r0) (es.take m) = true := by
    have : safeRun (initState r0) (es.take m ++ es.drop m) = true := by rw [List.take_append_drop]; exact hs
    exact safeRun_append_left _ _ _ this
  rw [hsplit] at hsm hrb
  rw [run_append, hra] at hrb
  exact run_prefix _ wa wb (safeRun_append_right _ _ _ wa hsm hra) hrb

/-- **C07's grammar gives the hypothesis.**  A stream accepted by the stream grammar of C07 (strict mode, any
    number of worker threads: `Grammar.WellFormedPrefix`) in which no test / setup / teardown location and no
    suite path is started twice (`Grammar.Fresh`) is a `SafeStream`, from every initial report that has nothing
    in it yet (`Blank`: the `Report()` `Session.create` makes, whatever its title / info / thread count).
    Proof: an invariant linking the grammar's state (open suites / results / steps), the writer's state
    (`active_steps`, the report as seen through `find_suite` / `report.get`) and the set of locations already
    started, preserved by each of the 22 event kinds (`Lemmas/SavingLink.lean`). -/
theorem safe_of_grammar (es : List Event) (r0 : Report) (hb : Blank r0)
    (hwf : Grammar.WellFormedPrefix es) (hfresh : Grammar.Fresh es) : SafeStream es r0 :=
  safeRun_of_grammar es r0 hb hwf hfresh

/-- **Prefix monotonicity** for well-formed streams: the report the writer holds after `k` events is a prefix
    of the report after `m ≥ k` events — finished results, ended steps, ended suites never change. -/
theorem prefix_monotone (es : List Event) (r0 : Report) (hb : Blank r0) (k m : Nat)
    (hwf : Grammar.WellFormedPrefix es) (hfresh : Grammar.Fresh es) (hkm : k ≤ m)
    {a b : Report} (hk : fold (es.take k) r0 = .ok a) (hm : fold (es.take m) r0 = .ok b) : Prefix a b :=
  prefix_monotone_safe es r0 k m (safe_of_grammar es r0 hb hwf hfresh) hkm hk hm

theorem blank_empty : Blank Report.empty := ⟨rfl, rfl, rfl, rfl, rfl⟩

/-- In particular every intermediate report is a prefix of the final one. -/
theorem prefix_of_final (es : List Event) (r0 : Report) (k : Nat) (hs : SafeStream es r0)
    {a b : Report} (hk : fold (es.take k) r0 = .ok a) (hm : fold es r0 = .ok b) : Prefix a b := by
  by_cases hkl : k ≤ es.length
  · exact prefix_monotone_safe es r0 k es.length hs hkl hk (by rw [List.take_length]; exact hm)
  · rw [List.take_of_length_le (by omega)] at hk
    rw [hk] at hm; injection hm with hm; subst hm; exact prefix_refl _

/-! ### The file holds a snapshot of a prefix of the stream -/

/-- Every save the file session ever completed serialised the report of a prefix of the stream: the report
    is mutated and saved by the same handler thread, so a save never sees a half-applied event.
    (`saves` lists (number of handled events, serialised report) for every `_save()`.) -/
theorem snapshot_is_prefix (strat : Strategy) (clock : Nat → Nat) (r0 : Report) (es : List Event) (s : Sess)
    (h : sessRun strat clock (Sess.init clock r0) es = .ok s) :
    ∀ k snap, (k, snap) ∈ s.saves → k ≤ es.length ∧ fold (es.take k) r0 = .ok snap := by
  intro k snap hm
  have inv := sessInv_run es [] _ s (sessInv_init clock r0) h
  obtain ⟨hk, wk, hr, hsn⟩ := inv.saves k snap hm
  simp only [List.nil_append] at hk hr
  refine ⟨hk, ?_⟩
  unfold fold
  rw [hr, hsn]

/-- The writer's report after the run is `fold es`. -/
theorem session_report (strat : Strategy) (clock : Nat → Nat) (r0 : Report) (es : List Event) (s : Sess)
    (h : sessRun strat clock (Sess.init clock r0) es = .ok s) : fold es r0 = .ok s.w.report := by
  have inv := sessInv_run es [] _ s (sessInv_init clock r0) h
  have := inv.writer
  simp only [List.nil_append] at this
  unfold fold
  rw [this]

/-- Every saved snapshot is a prefix of the report at the end of the run (and of every later snapshot). -/
theorem saved_snapshot_prefix_of_final (strat : Strategy) (clock : Nat → Nat) (r0 : Report) (es : List Event)
    (s : Sess) (hs : SafeStream es r0) (h : sessRun strat clock (Sess.init clock r0) es = .ok s) :
    ∀ k snap, (k, snap) ∈ s.saves → Prefix snap s.w.report := by
  intro k snap hm
  obtain ⟨_, hf⟩ := snapshot_is_prefix strat clock r0 es s h k snap hm
  exact prefix_of_final es r0 k hs hf (session_report strat clock r0 es s h)

/-! ### Strategies: the promised save points -/

/-- The points at which `--save-report` promises a refreshed file: each log (`at_each_log` /
    `at_each_event`: every log, check, attachment, url), each finished test (`at_each_test`: the end of a
    test, setup or teardown), each failed test (`at_each_failed_test`: such an end whose result is
    `failed` in the report), each suite (`at_each_suite`: the end of a suite). -/
def promised (strat : Strategy) (e : Event) (r : Report) : Bool :=
  match strat with
  | .atEachLog => isStepped (classOf e)
  | .atEachTest => isEndOfResult (classOf e)
  | .atEachFailedTest =>
    match endOfResultLoc e with
    | some loc => decide (resArg loc r = .present (some .failed))
    | none => false
  | .atEachSuite => decide (classOf e = .suiteEnd)
  | .atEndOfTests | .everyN _ => false

theorem promised_saves {strat : Strategy} {clock : Nat → Nat} {s s' : Sess} {e : Event}
    (h : sessStep strat clock s e = .ok s') (hp : promised strat e s'.w.report = true) :
    s'.file = some s'.w.report ∧ s'.saves.head? = some (s.handled + 1, s'.w.report) := by
  obtain ⟨w', _, hf⟩ := sessStep_ok h
  have hw1 := (fileSessionHandle_spec hf).1
  rw [hw1] at hp ⊢
  dsimp only at hp ⊢
  unfold fileSessionHandle at hf
  cases strat <;> cases e <;>
    simp_all [promised, isStepped, isEndOfResult, classOf, endOfResultLoc, handlerKind, wantsSave, decideStatic,
      Strategy.readsClock, Sess.save, Sess.file] <;>
    (subst hf; simp)

/-- After the handler thread has handled a promised event, the file holds exactly the report as it is at
    that moment — the snapshot at that index of the stream. -/
theorem strategy_points (strat : Strategy) (clock : Nat → Nat) (r0 : Report) (pre : List Event) (e : Event)
    (s' : Sess) (h : sessRun strat clock (Sess.init clock r0) (pre ++ [e]) = .ok s')
    (hp : promised strat e s'.w.report = true) :
    s'.file = some s'.w.report ∧ fold (pre ++ [e]) r0 = .ok s'.w.report ∧
      s'.saves.head? = some (pre.length + 1, s'.w.report) := by
  rw [sessRun_append] at h
  cases hpre : sessRun strat clock (Sess.init clock r0) pre with
  | error err => rw [hpre] at h; cases h
  | ok s =>
    rw [hpre] at h
    simp only [sessRun] at h
    cases hst : sessStep strat clock s e with
    | error err => rw [hst] at h; cases h
    | ok s1 =>
      rw [hst] at h
      injection h with h
      subst h
      have inv := sessInv_run pre [] _ s (sessInv_init clock r0) hpre
      have hh := inv.handled
      simp only [List.nil_append] at hh
      obtain ⟨h1, h2⟩ := promised_saves hst hp
      refine ⟨h1, ?_, by rw [h2, hh]⟩
      have hall : sessRun strat clock (Sess.init clock r0) (pre ++ [e]) = .ok s1 := by
        rw [sessRun_append, hpre]; simp only [sessRun, hst]
      exact session_report strat clock r0 (pre ++ [e]) s1 hall

/-- `every_Ns`: an event the file session listens to, handled more than N seconds after the last save,
    refreshes the file. -/
theorem every_n_point {n : Nat} {clock : Nat → Nat} {s s' : Sess} {e : Event}
    (h : sessStep (.everyN n) clock s e = .ok s') (hk : handlerKind (classOf e) = .strategy)
    (hlate : s.lastSaved + n * 1000 < clock s.tick) :
    s'.file = some s'.w.report ∧ s'.lastSaved = clock (s.tick + 1) := by
  obtain ⟨w', _, hf⟩ := sessStep_ok h
  unfold fileSessionHandle at hf
  rw [hk] at hf
  simp only [wantsSave, decideInterval, hlate, decide_true, Strategy.readsClock, if_true] at hf
  injection hf with hf
  subst hf
  simp [Sess.save, Sess.file]

/-- Whatever the strategy and the clock: handling the end of the test session saves the report. -/
theorem final_save (strat : Strategy) (clock : Nat → Nat) (r0 : Report) (pre : List Event) (t : Time) (s' : Sess)
    (h : sessRun strat clock (Sess.init clock r0) (pre ++ [.sessionEnd t]) = .ok s') :
    s'.file = some s'.w.report ∧ fold (pre ++ [.sessionEnd t]) r0 = .ok s'.w.report := by
  refine ⟨?_, session_report strat clock r0 _ s' h⟩
  rw [sessRun_append] at h
  cases hpre : sessRun strat clock (Sess.init clock r0) pre with
  | error err => rw [hpre] at h; cases h
  | ok s =>
    rw [hpre] at h
    simp only [sessRun] at h
    cases hst : sessStep strat clock s (.sessionEnd t) with
    | error err => rw [hst] at h; cases h
    | ok s1 =>
      rw [hst] at h
      injection h with h
      subst h
      obtain ⟨w', _, hf⟩ := sessStep_ok hst
      unfold fileSessionHandle at hf
      simp only [classOf, handlerKind] at hf
      injection hf with hf
      subst hf
      simp [Sess.save, Sess.file]

/-- `at_end_of_tests` saves at the end of the session and at no other event. -/
theorem end_of_tests_saves_only_at_end {clock : Nat → Nat} {s s' : Sess} {e : Event}
    (h : sessStep .atEndOfTests clock s e = .ok s') (hne : classOf e ≠ .sessionEnd) : s'.saves = s.saves := by
  obtain ⟨w', _, hf⟩ := sessStep_ok h
  unfold fileSessionHandle at hf
  cases e <;> simp_all [classOf, handlerKind] <;> (subst hf; rfl)

/-! ### The save itself: every text, every locale encoding

  `FileReportSession._save` → `backend.save_report` → `fh.write(text)` on a file opened in text mode with the locale
  encoding.  If the write raises (`UnicodeEncodeError`), the exception escapes the handler on the event thread: nothing
  is refreshed, now or later.  -/

/-- The JSON backend never raises on account of the report's text: whatever the strings hold (lone surrogates, controls,
    astral characters, in values and in property keys), whatever the options, whatever the generation time and the
    spelling of numbers / times (ASCII), the text written is pure ASCII and every codec takes it. -/
theorem json_save_never_raises (a : JsonFile.Atoms) (e : JsonFile.Encoding) (o : JsonFile.Opts) (g : Time) (r : Report) :
    JsonFile.writeOk e (JsonFile.fileText a o (Serial.toJson g r)) = true :=
  JsonFile.writeOk_of_ascii e (JsonFile.ascii_fileText a o _)

/-- Hence a run with the JSON backend behaves like the ideal session of the theorems above: no save ever stops the
    handler loop, every event is handled, every promised refresh and the final save happen. -/
theorem json_session_never_stopped_by_a_save (a : JsonFile.Atoms) (e : JsonFile.Encoding) (o : JsonFile.Opts)
    (gen : Report → Time) (strat : Strategy) (clock : Nat → Nat) (s s' : Sess) (es : List Event)
    (h : sessRun strat clock s es = .ok s') :
    sessRunG (fun r => JsonFile.writeOk e (JsonFile.fileText a o (Serial.toJson (gen r) r))) strat clock s es = (s', none) :=
  sessRunG_of_ok (fun r => json_save_never_raises a e o (gen r) r) strat clock es s s' h

/-- What the escaping buys: the same strings written RAW (`ensure_ascii=False`, or the XML serialiser) are refused by
    the codec — a lone surrogate by UTF-8, any non-ASCII character by an ASCII locale, a CJK character by Latin-1. -/
theorem raw_text_save_can_raise :
    JsonFile.writeOk .utf8 [0xDCE9] = false ∧ JsonFile.writeOk .ascii [0xE9] = false ∧ JsonFile.writeOk .latin1 [0x65E5] = false := by
  decide

/-- A save that raises loses everything that follows: the loop stops at that event, no later event is handled — no later
    refresh, no save at the end of the session. -/
theorem failing_save_loses_the_rest {saveOk : Report → Bool} {strat : Strategy} {clock : Nat → Nat} {s : Sess} {e : Event}
    {err : SessErrG} (h : sessStepG saveOk strat clock s e = .error err) (es : List Event) :
    sessRunG saveOk strat clock s (e :: es) = (s, some err) ∧ (sessRunG saveOk strat clock s (e :: es)).1.saves = s.saves := by
  rw [sessRunG_stops h es]
  exact ⟨rfl, rfl⟩

/-! ### Several file backends on one run; the JUnit backend -/

/-- **One raising save stops every backend.**  With the file backends `bs` attached to the run (any number, any order),
    if handling an event is stopped by a save, then some attached backend refuses the report the writer has just
    produced — and for the rest of the stream nothing is saved by ANY backend: `saves` stays as it was (no later
    refresh of report.js / report.xml / report-junit.xml, no save at the end of the session). -/
theorem one_raising_save_stops_every_backend {bs : List (Report → Bool)} {strat : Strategy} {clock : Nat → Nat} {s : Sess}
    {e : Event} (h : sessStepG (allOk bs) strat clock s e = .error .save) (es : List Event) :
    (∃ w', Writer.apply s.w e = .ok w' ∧ ∃ b ∈ bs, b w'.report = false) ∧
    (sessRunG (allOk bs) strat clock s (e :: es)).1.saves = s.saves ∧
    (sessRunG (allOk bs) strat clock s (e :: es)).2 = some .save := by
  obtain ⟨w', hw, hno⟩ := sessStepG_save_error h
  refine ⟨⟨w', hw, allOk_false hno⟩, ?_, ?_⟩ <;> rw [sessRunG_stops h es]

/-- If no attached backend ever refuses a report, the run is the ideal session of the theorems above. -/
theorem all_attached_ok_is_ideal {bs : List (Report → Bool)} (hok : ∀ b ∈ bs, ∀ r, b r = true) (strat : Strategy)
    (clock : Nat → Nat) (s s' : Sess) (es : List Event) (h : sessRun strat clock s es = .ok s') :
    sessRunG (allOk bs) strat clock s es = (s', none) :=
  sessRunG_of_ok (fun r => List.all_eq_true.mpr (fun b hb => hok b hb r)) strat clock es s s' h

/-- **A JUnit save is total**: for every report in which the times the serialiser cannot do without are set (the
    session's start time once it has ended, every test's start time — what the writer always sets) the JUnit document
    is built, whatever else the report holds: tests IN PROGRESS (no end time, no duration), unfinished steps, any
    status, empty suites, any nesting. -/
theorem junit_save_never_raises (r : Report) (h : Junit.timesOk r = true) : ∃ x, Junit.toJunit r = .ok x :=
  ⟨Junit.build r, by simp [Junit.toJunit, h]⟩

/-- The `time` of a `<testsuite>` is the sum over its FINISHED tests: a test without duration counts 0 … -/
theorem junit_suite_time_ignores_in_progress (ts : List TestResult) (t : TestResult) (h : Junit.duration? t.result = none) :
    Junit.suiteTime (ts ++ [t]) = Junit.suiteTime ts := by
  simp [Junit.suiteTime, Junit.durOr0, h]

/-- … whereas the sum WITHOUT the `or 0` (`sum(t.duration for t in tests)`) has no value as soon as one test of the
    suite is in progress: that serialiser would raise at every save taken in the middle of a test. -/
theorem junit_strict_sum_undefined_mid_test (ts : List TestResult) (t : TestResult) (h : Junit.duration? t.result = none) :
    Junit.strictSum (ts ++ [t]) = none := by
  induction ts with
  | nil => simp [Junit.strictSum, h]
  | cons a as ih =>
    simp only [List.cons_append, Junit.strictSum, ih]
    cases Junit.duration? a.result <;> rfl

/-! ### Which strategy: `--save-report`, `$LCC_SAVE_REPORT`, the default -/

/-- The command-line option, when given (non-empty), decides — whatever `$LCC_SAVE_REPORT` holds. -/
theorem cli_option_wins (s : String) (hs : s ≠ "") (env : Option String) :
    chosenStrategy (some s) env = parseStrategy s := by
  simp [chosenStrategy, resolveExpr, truthy_some hs]

/-- Without the option (absent or empty) the variable, when set to something non-empty, decides. -/
theorem env_is_the_default (cli : Option String) (hc : truthy cli = none) (s : String) (hs : s ≠ "") :
    chosenStrategy cli (some s) = parseStrategy s := by
  simp [chosenStrategy, resolveExpr, hc, truthy_some hs]

/-- With neither, the strategy is `at_each_failed_test`. -/
theorem builtin_default (cli env : Option String) (hc : truthy cli = none) (he : truthy env = none) :
    chosenStrategy cli env = some .atEachFailedTest := by
  simp [chosenStrategy, resolveExpr, hc, he, defaultExpr, parseStrategy]

/-- The names of the static strategies mean what the documentation says. -/
theorem strategy_names :
    parseStrategy "at_end_of_tests" = some .atEndOfTests ∧ parseStrategy "at_each_suite" = some .atEachSuite ∧
    parseStrategy "at_each_test" = some .atEachTest ∧ parseStrategy "at_each_failed_test" = some .atEachFailedTest ∧
    parseStrategy "at_each_log" = some .atEachLog ∧ parseStrategy "at_each_event" = some .atEachLog ∧
    parseStrategy "every_10s" = some (.everyN 10) ∧ parseStrategy "every 2s" = some (.everyN 2) ∧
    parseStrategy "at_each_tests" = none ∧ parseStrategy "every_s" = none ∧ parseStrategy "" = none := by decide

/-- `lcc run --save-report s` with ANY environment: the file is refreshed at the points the strategy named on the command
    line promises (`strategy_points` for the strategy the run really uses). -/
theorem cli_strategy_points (s : String) (hs : s ≠ "") (env : Option String) (strat : Strategy)
    (hp : parseStrategy s = some strat) (clock : Nat → Nat) (r0 : Report) (pre : List Event) (e : Event) (s' : Sess) :
    ∃ used, chosenStrategy (some s) env = some used ∧
      (sessRun used clock (Sess.init clock r0) (pre ++ [e]) = .ok s' → promised strat e s'.w.report = true →
        s'.file = some s'.w.report ∧ fold (pre ++ [e]) r0 = .ok s'.w.report) := by
  refine ⟨strat, by rw [cli_option_wins s hs env, hp], fun h hpr => ?_⟩
  obtain ⟨h1, h2, _⟩ := strategy_points strat clock r0 pre e s' h hpr
  exact ⟨h1, h2⟩

/-! ### The file system: crash and concurrent read -/

/-- The repaired save (temporary file beside the report file, then `os.replace`): whatever the state of the
    file system before, wherever the sequence is cut — before, between, after the writes, whatever the split
    of the text into writes — the report file holds its previous content, or the complete new text. -/
theorem crash_safe (s : FS) (chunks : List Text) (n : Nat) :
    visible (fsRun s ((saveAtomic chunks).take n)) = visible s ∨
      visible (fsRun s ((saveAtomic chunks).take n)) = some chunks.flatten := by
  simp only [visible]
  rw [saveAtomic_take]
  split
  · exact .inl rfl
  · exact .inr rfl

/-- … and it is the new text only once the whole sequence, rename included, has been executed. -/
theorem crash_safe_exact (s : FS) (chunks : List Text) (n : Nat) :
    visible (fsRun s ((saveAtomic chunks).take n)) =
      if n < (saveAtomic chunks).length then visible s else some chunks.flatten :=
  saveAtomic_take s chunks n

/-- REFUTATION for the unrepaired code (D16), concrete witness: the report file holds `[1,2,3]` (a complete
    earlier save); the next save writes `[4,5]` then `[6]`.  Cut after the truncation, the file is empty;
    cut after the first write it holds `[4,5]`: neither the previous nor the new text. -/
theorem inplace_crash_refuted :
    let s : FS := { file := some [1, 2, 3], tmp := none }
    let ops := saveInPlace [[4, 5], [6]]
    visible (fsRun s (ops.take 1)) = some [] ∧ visible (fsRun s (ops.take 2)) = some [4, 5] ∧
      visible (fsRun s ops) = some [4, 5, 6] := by
  decide

/-- In general: after the truncation and `j` of the writes the file holds a prefix of the new text, a strict
    one as long as something non-empty remains to be written — whatever the file held before. -/
theorem inplace_crash_strict_prefix (s : FS) (chunks : List Text) (j : Nat) (hj : j ≤ chunks.length)
    (hrest : (chunks.drop j).flatten ≠ []) :
    ∃ p, visible (fsRun s ((saveInPlace chunks).take (j + 1))) = some p ∧ p <+: chunks.flatten ∧ p ≠ chunks.flatten := by
  refine ⟨(chunks.take j).flatten, saveInPlace_take s chunks j hj, ?_, ?_⟩
  · refine ⟨(chunks.drop j).flatten, ?_⟩
    rw [← List.flatten_append, List.take_append_drop]
  · intro heq
    have h2 : (chunks.take j).flatten ++ (chunks.drop j).flatten = chunks.flatten := by
      rw [← List.flatten_append, List.take_append_drop]
    rw [heq] at h2
    exact hrest (List.append_right_eq_self.mp h2)

/-- a text is loadable iff it is the serialisation of some report -/
def Loadable (ser : Report → Text) (t : Text) : Prop := ∃ r, ser r = t

/-- no serialisation is a strict prefix of another one (JSON objects and XML documents are self-delimiting;
    validated on real files by the stream `C10.crash`: cut files do not load) -/
def PrefixFree (ser : Report → Text) : Prop := ∀ r r', ser r <+: ser r' → ser r = ser r'

/-- Hence with the unrepaired save the file is NOT loadable in the window between the truncation and the
    last write, although it was loadable before the save started. -/
theorem inplace_crash_not_loadable (ser : Report → Text) (hpf : PrefixFree ser) (s : FS) (r : Report)
    (chunks : List Text) (hc : chunks.flatten = ser r) (j : Nat) (hj : j ≤ chunks.length)
    (hrest : (chunks.drop j).flatten ≠ []) :
    ∃ p, visible (fsRun s ((saveInPlace chunks).take (j + 1))) = some p ∧ ¬ Loadable ser p := by
  obtain ⟨p, hv, hp, hne⟩ := inplace_crash_strict_prefix s chunks j hj hrest
  refine ⟨p, hv, ?_⟩
  rintro ⟨r', hr'⟩
  rw [hc] at hp hne
  rw [← hr'] at hp hne
  exact hne (hpf r' r hp)

/-- MAIN THEOREM.  With the repaired save: for every strategy, every clock, every stream whose events
    target nothing finished, every serialiser, every way the text is split into writes, and every point `n`
    at which the process dies (or a reader opens the file) — the report file does not exist yet, or it
    holds the complete serialisation of the report after `k` handled events for some `k`, and that report
    is a prefix of the report at the end of the run. -/
theorem file_always_loadable_prefix (ser : Report → Text) (chunk : Text → List Text)
    (hchunk : ∀ t, (chunk t).flatten = t)
    (strat : Strategy) (clock : Nat → Nat) (r0 : Report) (es : List Event) (s : Sess)
    (hs : SafeStream es r0) (h : sessRun strat clock (Sess.init clock r0) es = .ok s) (n : Nat) :
    let v := visible (fsRun FS.empty ((diskOps saveAtomic ser chunk s).take n))
    v = none ∨ ∃ k snap, k ≤ es.length ∧ fold (es.take k) r0 = .ok snap ∧ v = some (ser snap) ∧
      Loadable ser (ser snap) ∧ Prefix snap s.w.report := by
  intro v
  rcases atomicSeq_visible (s.saves.reverse.map (fun p => chunk (ser p.2))) FS.empty n with hv | ⟨c, hc, hv⟩
  · exact .inl hv
  · right
    obtain ⟨⟨k, snap⟩, hmem, rfl⟩ := List.mem_map.mp hc
    have hmem : (k, snap) ∈ s.saves := List.mem_reverse.mp hmem
    obtain ⟨hk, hf⟩ := snapshot_is_prefix strat clock r0 es s h k snap hmem
    refine ⟨k, snap, hk, hf, ?_, ⟨snap, rfl⟩, saved_snapshot_prefix_of_final strat clock r0 es s hs h k snap hmem⟩
    show visible _ = _
    simp only [visible, diskOps]
    rw [hv, hchunk]

/-- The main theorem under C07's grammar instead of `SafeStream`. -/
theorem file_always_loadable_prefix_wf (ser : Report → Text) (chunk : Text → List Text)
    (hchunk : ∀ t, (chunk t).flatten = t)
    (strat : Strategy) (clock : Nat → Nat) (r0 : Report) (hb : Blank r0) (es : List Event) (s : Sess)
    (hwf : Grammar.WellFormedPrefix es) (hfresh : Grammar.Fresh es)
    (h : sessRun strat clock (Sess.init clock r0) es = .ok s) (n : Nat) :
    let v := visible (fsRun FS.empty ((diskOps saveAtomic ser chunk s).take n))
    v = none ∨ ∃ k snap, k ≤ es.length ∧ fold (es.take k) r0 = .ok snap ∧ v = some (ser snap) ∧
      Loadable ser (ser snap) ∧ Prefix snap s.w.report :=
  file_always_loadable_prefix ser chunk hchunk strat clock r0 es s (safe_of_grammar es r0 hb hwf hfresh) h n

/-! ### Non-vacuity -/

section Examples

def mdOf (name : String) (rank : Nat) : Meta :=
  { name := name, description := "d", tags := [], properties := [], links := [], rank := rank }

/-- one suite, a passing and a failing test, a skipped test, a suite teardown -/
def demo : List Event := [
  .sessionStart 1,
  .suiteStart ["s"] (mdOf "s" 0) 2,
  .testStart ["s", "a"] (mdOf "a" 0) 3,
  .stepStart (.test ["s", "a"]) "step" 7 4,
  .log (.test ["s", "a"]) (some "step") 7 .info "hello" 5,
  .stepEnd (.test ["s", "a"]) "step" 7 6,
  .testEnd ["s", "a"] 7,
  .testStart ["s", "b"] (mdOf "b" 1) 8,
  .stepStart (.test ["s", "b"]) "step" 7 9,
  .check (.test ["s", "b"]) (some "step") 7 "c" false none 10,
  .stepEnd (.test ["s", "b"]) "step" 7 11,
  .testEnd ["s", "b"] 12,
  .testSkipped ["s", "c"] (mdOf "c" 2) (some "why") 13,
  .suiteTeardownStart ["s"] 14,
  .suiteTeardownEnd ["s"] 15,
  .suiteEnd ["s"] 16,
  .sessionEnd 17]

/-- the hypotheses of `prefix_monotone` are satisfiable by a realistic stream: the grammar accepts it (it is
    even a complete well-formed stream), no path is started twice, and it is safe … -/
example : Grammar.WellFormedPrefix demo := by decide
example : (demo.filterMap Grammar.introduces).Nodup ∧ (demo.filterMap Grammar.introducedSuite).Nodup := by decide
example : (Grammar.run .parallel Grammar.init demo).map (·.phase) = some .ended := by decide
example : SafeStream demo := by decide

/-- … it is not trivially true: logging into the ended step of a finished test is rejected … -/
example : ¬ SafeStream (demo.take 7 ++ [.log (.test ["s", "a"]) (some "step") 7 .info "late" 8]) := by decide

/-- … and starting the same test twice is rejected. -/
example : ¬ SafeStream (demo.take 7 ++ [.testStart ["s", "a"] (mdOf "a" 0) 8]) := by decide

/-- `prefixB` between the reports of two streams (`none`: a handler raised) -/
def prefixBetween (es₁ es₂ : List Event) : Option Bool :=
  match fold es₁, fold es₂ with
  | .ok a, .ok b => some (prefixB a b)
  | _, _ => none

/-- `Prefix` relates an intermediate report of the demo stream to the final one … -/
example : prefixBetween (demo.take 9) demo = some true := by decide

/-- … but not the other way round … -/
example : prefixBetween demo (demo.take 9) = some false := by decide

/-- … and not a report in which a finished test changed afterwards (the stream that starts test `a` a second
    time replaces the finished result). -/
example : prefixBetween (demo.take 7) (demo.take 7 ++ [Event.testStart ["s", "a"] (mdOf "a" 0) 8]) = some false := by
  decide

/-- `at_each_failed_test` on the demo stream saves after the failed test `b` (12 events handled) and at
    the end (17); `at_each_test` also after test `a` and the teardown; `at_each_suite` after the suite. -/
example : (match sessRun .atEachFailedTest (fun _ => 0) (Sess.init (fun _ => 0)) demo with
           | .ok s => s.saves.reverse.map (·.1) | .error _ => []) = [12, 17] := by decide
example : (match sessRun .atEachTest (fun _ => 0) (Sess.init (fun _ => 0)) demo with
           | .ok s => s.saves.reverse.map (·.1) | .error _ => []) = [7, 12, 15, 17] := by decide
example : (match sessRun .atEachSuite (fun _ => 0) (Sess.init (fun _ => 0)) demo with
           | .ok s => s.saves.reverse.map (·.1) | .error _ => []) = [16, 17] := by decide
example : (match sessRun .atEachLog (fun _ => 0) (Sess.init (fun _ => 0)) demo with
           | .ok s => s.saves.reverse.map (·.1) | .error _ => []) = [5, 10, 17] := by decide
example : (match sessRun .atEndOfTests (fun _ => 0) (Sess.init (fun _ => 0)) demo with
           | .ok s => s.saves.reverse.map (·.1) | .error _ => []) = [17] := by decide
/-- `every_1s` with a clock advancing 400 ms per reading -/
example : (match sessRun (.everyN 1) (fun n => 400 * n) (Sess.init (fun n => 400 * n)) demo with
           | .ok s => s.saves.reverse.map (·.1) | .error _ => []) = [10, 16, 17] := by decide

/-- the XML backend on a lone surrogate (open finding D8 / `C09/xml/lone-surrogate-save-fails`, seen from C10): the first
    save raises, the run stops there — no file at all, although the stream goes on to the end of the session -/
def xmlSaveOk (r : Report) : Bool :=
  match Store.xmlFile 0 r with
  | .ok _ => true
  | .error _ => false

def demoSurrogate : List Event :=
  demo.take 4 ++ [.log (.test ["s", "a"]) (some "step") 7 .info (String.singleton (Char.ofNat 0x10F800)) 5] ++ demo.drop 5

theorem xml_save_stops_session :
    (match sessRunG xmlSaveOk .atEachLog (fun _ => 0) (Sess.init (fun _ => 0)) demoSurrogate with
     | (s, err) => (s.handled, s.saves.length, err)) = (4, 0, some .save) ∧
    (match sessRunG xmlSaveOk .atEachLog (fun _ => 0) (Sess.init (fun _ => 0)) demo with
     | (s, err) => (s.handled, s.saves.length, err)) = (17, 3, none) := by decide +kernel

/-- a save in the middle of test `a` of the demo stream (5 events handled): the JUnit document is built, its suite
    counts 0 ms for the test in progress, and the strict sum has no value -/
theorem junit_mid_test_save :
    (match fold (demo.take 5) with
     | .ok r => (Junit.timesOk r, (Junit.toJunit r).toOption.isSome, (allTests r).map (fun t => Junit.duration? t.result),
                 Junit.strictSum (allTests r))
     | .error _ => (false, false, [], none)) = (true, true, [none], none) := by decide +kernel

/-- json + junit attached, `at_each_log`, and a JUnit serialiser that refuses tests in progress (the strict sum): the run
    stops at the first log — nothing is ever saved by either backend; with the real rule it runs to the end -/
theorem strict_junit_stops_json_too :
    (match sessRunG (allOk [fun _ => true, fun r => (Junit.strictSum (allTests r)).isSome]) .atEachLog (fun _ => 0)
        (Sess.init (fun _ => 0)) demo with
     | (s, err) => (s.handled, s.saves.length, err)) = (4, 0, some .save) ∧
    (match sessRunG (allOk [fun _ => true, Junit.saveOkEnc .utf8]) .atEachLog (fun _ => 0) (Sess.init (fun _ => 0)) demo with
     | (s, err) => (s.handled, s.saves.length, err)) = (17, 3, none) := by decide +kernel

/-- a prefix-free serialiser exists (hypothesis of `inplace_crash_not_loadable`): a constant one -/
example : PrefixFree (fun _ => [0]) := fun _ _ _ => rfl

end Examples

end LccModel.C10

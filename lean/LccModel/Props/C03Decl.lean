/-
  C03, declaration part — "… including … fixtures INJECTED INTO SUITES or used by setup_suite …; consumers receive that
  instance's value".

  The run-level theorems (`Props/C03.lean`, `C03Run.lean`, `C01Graph.lean`) speak of the suite the runner receives, with its
  list of injected fixture names and its hooks.  This file covers the step before: how that list is read off the suite
  OBJECT — `Suite._load_injected_fixtures` through `get_object_attributes` (`dir()` + `getattr`), model `Model/SuiteObj.lean` —
  for EVERY object: the `lcc.inject_fixture()` marker may be written in the class body, in a base class, in a mixin shared by
  several suites, or assigned in `__init__`; it counts exactly when `getattr` on the instance finds it under a name `dir`
  lists, that does not start with `__` and is not a property.

    1. soundness / completeness of the discovery: an entry (fixture ↦ attribute) exists iff a visible attribute holds a marker
       for that fixture; fixture names are keys (no duplicates); the answer depends on `dir` / `getattr` only, not on the
       layer that holds the marker;
    2. what the loaded suite then is for the runner: the injected names are among the fixtures the suite uses (so they are
       scheduled per scope by `scheduledFor`), a suite with an injected fixture and something to run has a setup task, and
       every test of the suite waits for that task (`C01Graph.test_waits_for_setup`, `C03.suite_teardown_after_setup_and_tests`);
    3. every variant of a parametrized test is a consumer of its own: its fixtures are the arguments of the shared callback
       that are not parameters of that variant.
  The decision itself is pinned to the real code by the regenerated table `Generated/C03TablesCheck.lean` (253 class shapes);
  the code modelled is the one repaired by fix D35 (1124d50): a fixture injected through several attributes is set on all of them.
-/
import LccModel.Lemmas.ExpandDeco
import LccModel.Props.C01Expand

namespace LccModel.C03Decl
open LccModel.Report (Path)
open LccModel.Loader (PVal Params Seg Meta Disabled LoadErr orDefault)
open LccModel.SuiteObj LccModel.Expand LccModel.Run

/-! ### 1. Which attributes are injected fixtures -/

/-- **Soundness**: every attribute listed for a fixture is one that `dir` lists, that is visible (no `__` prefix, no
    property) and behind which `getattr` finds a marker; the fixture is the marker's explicit name, or the attribute name when
    there is none (or an empty one). -/
theorem injected_entry_is_a_visible_marker (o : Obj) (f a : String) (as : List String) (h : (f, as) ∈ injectedOf o) (ha : a ∈ as) :
    a ∈ dirNames o ∧ visible o a = true ∧ ∃ n, lookup o a = some (.inject n) ∧ f = orDefault n a := by
  unfold injectedOf at h
  rcases foldl_injectStep_mem _ [] h ha with ⟨_, h', _⟩ | ⟨n, hn, e⟩
  · cases h'
  · obtain ⟨h1, h2, h3⟩ := mem_attributes.mp hn
    exact ⟨h1, h2, n, h3, e⟩

/-- **Completeness**: a marker that `getattr` finds under a visible name of `dir` — in WHATEVER layer it is stored: instance
    dict, class body, base class, mixin — makes its fixture an injected fixture of the suite, and THAT attribute is among the
    ones that receive the value (since fix D35 also when another attribute injects the same fixture). -/
theorem visible_marker_is_injected (o : Obj) (a : String) (n : Option String) (hd : a ∈ dirNames o) (hv : visible o a = true)
    (hl : lookup o a = some (.inject n)) : ∃ as, (orDefault n a, as) ∈ injectedOf o ∧ a ∈ as := by
  unfold injectedOf
  exact foldl_injectStep_has _ [] a n (mem_attributes.mpr ⟨hd, hv, hl⟩)

/-- a fixture is injected iff some visible attribute holds a marker for it -/
theorem injected_iff (o : Obj) (f : String) :
    f ∈ injectedNames o ↔ ∃ a n, a ∈ dirNames o ∧ visible o a = true ∧ lookup o a = some (.inject n) ∧ f = orDefault n a := by
  constructor
  · intro h
    obtain ⟨⟨f', as⟩, hm, e⟩ := List.mem_map.mp h
    simp only at e; subst e
    -- an entry is never empty: it is created with one attribute and only grows; take any attribute of it
    have hne : ∃ a, a ∈ as := by
      unfold injectedOf at hm
      suffices ∀ (l : List (String × AttrKind)) (acc : List (String × List String)), (∀ x ∈ acc, x.2 ≠ []) →
          ∀ x ∈ l.foldl injectStep acc, x.2 ≠ [] by
        have := this _ [] (by simp) _ hm
        cases as with
        | nil => exact absurd rfl this
        | cons a _ => exact ⟨a, List.mem_cons_self ..⟩
      intro l
      induction l with
      | nil => intro acc h x hx; exact h x hx
      | cons b rest ih =>
        intro acc h
        apply ih
        intro x hx
        unfold injectStep at hx
        split at hx
        · unfold dictAdd at hx
          split at hx
          · obtain ⟨kv, hkv, e⟩ := List.mem_map.mp hx
            split at e
            · rw [← e]; simp
            · rw [← e]; exact h kv hkv
          · rcases List.mem_append.mp hx with hx | hx
            · exact h x hx
            · simp at hx; rw [hx]; simp
        · exact h x hx
    obtain ⟨a, ha⟩ := hne
    obtain ⟨h1, h2, n, h3, h4⟩ := injected_entry_is_a_visible_marker o f' a as hm ha
    exact ⟨a, n, h1, h2, h3, h4⟩
  · rintro ⟨a, n, h1, h2, h3, e⟩
    obtain ⟨as, hm, _⟩ := visible_marker_is_injected o a n h1 h2 h3
    rw [e]; exact List.mem_map.mpr ⟨_, hm, rfl⟩

/-- fixture names are the keys of a dict: each at most once (a second marker for the same fixture extends the entry) -/
theorem injected_names_nodup (o : Obj) : (injectedNames o).Nodup := by
  unfold injectedNames injectedOf
  exact foldl_injectStep_nodup _ [] List.nodup_nil

/-- **Where the marker is written does not matter**: two objects on which `dir`, `getattr` and the property test answer the
    same have the same injected fixtures — moving a marker from the class body to a base class, to a mixin or into
    `__init__` (without shadowing anything) changes nothing. -/
theorem injected_depends_only_on_dir_and_getattr (o o' : Obj) (hd : dirNames o = dirNames o') (hl : ∀ a, lookup o a = lookup o' a)
    (hp : ∀ a, isProperty o a = isProperty o' a) : injectedOf o = injectedOf o' := by
  unfold injectedOf; rw [attributes_congr hd hl hp]

/-- what hides a marker: a name starting with `__` (dunder or not mangled), a property of the class, or another value that
    `getattr` finds first (instance attribute over class attribute, subclass over base class) -/
theorem hidden_marker_is_not_injected (o : Obj) (a : String) (h : visible o a = false ∨ ∀ n, lookup o a ≠ some (.inject n)) :
    ∀ f as, (f, as) ∈ injectedOf o → a ∉ as := by
  intro f as hm ha
  obtain ⟨_, hv, n, hl, _⟩ := injected_entry_is_a_visible_marker o f a as hm ha
  rcases h with h | h
  · rw [hv] at h; cases h
  · exact h n hl

/-! ### 2. The loaded suite, for the runner -/

/-- the suite the loader builds carries exactly the discovered injections and hooks -/
theorem loaded_suite_injected (h : ClsHead) : (headOf h).injected = injectedOf h.obj ∧ (headOf h).setupSuite = hookParams h.obj "setup_suite" :=
  ⟨rfl, rfl⟩

/-- … its run-level counterpart lists the injected fixture NAMES, and `Suite.get_fixtures()` = injected names, then the
    parameters of `setup_suite` -/
theorem spec_uses_injected (h : SuiteHead) (ts : List Test) (subs : List Suite) (x : String) :
    x ∈ suiteOwnFixtures (toSpec (.mk h ts subs)) ↔ x ∈ h.injected.map (·.1) ∨ ∃ ps, h.setupSuite = some ps ∧ x ∈ ps := by
  rw [mem_suiteOwnFixtures, toSpec]
  simp only [SuiteSpec.injected, SuiteSpec.setupSuite]
  constructor
  · rintro (h1 | ⟨ps, sc, e, hx⟩)
    · exact .inl h1
    · cases hs : h.setupSuite with
      | none => simp [hs] at e
      | some ps' => simp [hs] at e; exact .inr ⟨ps', rfl, e.1 ▸ hx⟩
  · rintro (h1 | ⟨ps, e, hx⟩)
    · exact .inl h1
    · exact .inr ⟨ps, [], by simp [e], hx⟩

/-- **An injected fixture is used by the suite** whenever the suite is going to run something (an enabled test, or
    --force-disabled): it is then scheduled for its scope (`scheduledFor … (usedInSuite …)`), whatever layer of the object
    holds its marker. -/
theorem injected_fixture_is_used (P : Proj) (sv : SuiteView) (f : String) (hf : f ∈ sv.spec.injected)
    (hen : (hasEnabledTests sv || P.forceDisabled) = true) : f ∈ usedInSuite sv P.forceDisabled :=
  mem_usedInSuite_of_own hen (mem_suiteOwnFixtures.mpr (.inl hf))

/-- … and the suite has a setup task (where `inject_fixtures` runs, before `setup_suite`), which every test of the suite
    waits for (`C01Graph.test_waits_for_setup`) -/
theorem suite_with_injection_has_setup_task (P : Proj) (sv : SuiteView) (hne : sv.spec.injected ≠ [])
    (hen : (hasEnabledTests sv || P.forceDisabled) = true) : hasInit P sv = true := by
  unfold hasInit
  rw [hen]
  cases h : sv.spec.injected with
  | nil => exact absurd h hne
  | cons a l => simp

/-! ### 3. Variants of a parametrized test are consumers of their own -/

/-- the fixtures of a test the loader builds: the callback's arguments that are not parameters OF THAT TEST -/
theorem expansion_fixtures (d : TestDecl) (t : Test) (ht : t ∈ expand d) :
    t.args = d.args ∧ t.fixtures = d.args.filter (fun a => !(t.params.any (fun kv => kv.1 == a))) := by
  have hargs : t.args = d.args := by
    unfold expand at ht
    cases hh : d.hidden with
    | true => simp [hh] at ht
    | false =>
      simp only [hh, Bool.false_eq_true, if_false] at ht
      cases hp : d.param with
      | none => simp only [hp, List.mem_singleton] at ht; subst ht; rfl
      | some sn =>
        obtain ⟨sets, n⟩ := sn
        simp only [hp] at ht
        exact args_expandSets (baseTest d) n sets 1 t ht
  exact ⟨hargs, by unfold Test.fixtures; rw [hargs]⟩

/-- two variants whose parameter sets bind the same names use the same fixture NAMES — each in its own test task, hence
    with its own instance of every test-scoped one (`Run.testFixtures` is evaluated per test task: `C03Run.testRun_eq`) -/
theorem variants_use_the_same_fixture_names (d : TestDecl) (t₁ t₂ : Test) (h₁ : t₁ ∈ expand d) (h₂ : t₂ ∈ expand d)
    (hk : t₁.params.map (·.1) = t₂.params.map (·.1)) (P : Proj) :
    testFixtures P (toSpecTest t₁) = testFixtures P (toSpecTest t₂) := by
  have e₁ := (expansion_fixtures d t₁ h₁).2
  have e₂ := (expansion_fixtures d t₂ h₂).2
  have hany : ∀ a, t₁.params.any (fun kv => kv.1 == a) = t₂.params.any (fun kv => kv.1 == a) := by
    intro a
    have : ∀ ps : Params, ps.any (fun kv => kv.1 == a) = (ps.map (·.1)).any (fun k => k == a) := by
      intro ps; induction ps with
      | nil => rfl
      | cons p rest ih => simp [List.any_cons, ih]
    rw [this, this, hk]
  have : t₁.fixtures = t₂.fixtures := by
    rw [e₁, e₂]; apply List.filter_congr; intro a _; rw [hany a]
  unfold testFixtures toSpecTest
  simp only [this]

/-! ### Non-vacuity: the four places a marker can be written, and what hides it -/

/-- `class S: conn = lcc.inject_fixture()` -/
example : injectedOf { inst := [], mro := [[("conn", .inject none), ("t", .other)]] } = [("conn", ["conn"])] := by decide +kernel
/-- `class B: conn = lcc.inject_fixture()` / `class S(B): …` — inherited -/
example : injectedOf { inst := [], mro := [[("t", .other)], [("conn", .inject none)]] } = [("conn", ["conn"])] := by decide +kernel
/-- a mixin after the base class, explicit fixture name, private attribute -/
example : injectedOf { inst := [], mro := [[("t", .other)], [], [("_db", .inject (some "database"))]] } = [("database", ["_db"])] := by decide +kernel
/-- `def __init__(self): self.conn = lcc.inject_fixture()` -/
example : injectedOf { inst := [("conn", .inject none)], mro := [[("__init__", .other), ("t", .other)]] } = [("conn", ["conn"])] := by decide +kernel
/-- `__conn` inside `class S` is stored as `_S__conn`: visible; `__conn__` is not -/
example : injectedOf { inst := [], mro := [[("_S__conn", .inject (some "fx")), ("__conn__", .inject none)]] } = [("fx", ["_S__conn"])] := by decide +kernel
/-- shadowed: a plain instance attribute over the class-level marker; a plain subclass attribute over the base-class marker;
    a property of the subclass -/
example : injectedOf { inst := [("conn", .other)], mro := [[("conn", .inject none)]] } = [] := by decide +kernel
example : injectedOf { inst := [], mro := [[("conn", .other)], [("conn", .inject none)]] } = [] := by decide +kernel
example : injectedOf { inst := [], mro := [[("conn", .property)], [("conn", .inject none)]] } = [] := by decide +kernel
/-- two markers for one fixture (fix D35): the fixture is listed once, BOTH attributes receive the value, `dir()` order -/
example : injectedOf { inst := [], mro := [[("b_conn", .inject (some "fx"))], [("a_conn", .inject (some "fx"))]] } = [("fx", ["a_conn", "b_conn"])] := by decide +kernel
/-- hooks are looked up the same way: inherited `setup_suite(self, fx)` -/
example : hookParams { inst := [], mro := [[], [("setup_suite", .method ["fx"])]] } "setup_suite" = some ["fx"] := by decide +kernel

end LccModel.C03Decl

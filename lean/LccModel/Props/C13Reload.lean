/-
  C13 — "loading a project's suites … yields … every visible declared test …": EVERY load, also the second one in the same
  process (`Model/Reload.lean`), fourth seeded round.  The declared tests are those of the files as they are when the load
  is made; what an earlier load left in `sys.modules` — under the same path string or another, after a successful or a failed
  import — has no influence.  The theorems quantify over every process history, every sequence of loads, every path string.
-/
import LccModel.Model.Reload
import LccModel.Props.C13

namespace LccModel.C13Reload
open LccModel.Loader LccModel.Reload

/-- the importer returns the module of the file as it is now, whatever is registered -/
theorem import_returns_current_file (st : Proc) (path : String) (m : Module) : (importModule st path m).2 = m := rfl

/-- … and registers it under the path string (also when executing it raises) -/
theorem import_registers (st : Proc) (path : String) (m : Module) : (importModule st path m).1.has path = true := by
  simp [importModule, Proc.register, Proc.has]

theorem reimport_mods_id (st : Proc) (p : String) (ms : List Module) : (reimportMods st p ms).2 = ms := by
  induction ms generalizing st with
  | nil => rfl
  | cons m ms ih => simp [reimportMods, importModule, ih]

mutual
/-- the loader is handed the directory as it is on disk, in every process state -/
theorem reimport_dir_id (st : Proc) (p : String) : ∀ d : Dir, (reimportDir st p d).2 = d
  | .mk name mods dirs => by
    simp only [reimportDir]
    rw [reimport_mods_id, reimport_dirs_id]
theorem reimport_dirs_id (st : Proc) (p : String) : ∀ ds : List Dir, (reimportDirs st p ds).2 = ds
  | [] => rfl
  | d :: ds => by
    simp only [reimportDirs]
    rw [reimport_dir_id, reimport_dirs_id]
end

/-- **One load in a process with any history** is the load of the files as they are now. -/
theorem load_in_any_process (st : Proc) (root : String) (d : Dir) : (loadDirIn st root d).2 = loadDirReal d := by
  simp only [loadDirIn, reimport_dir_id]

/-- **Every load of a sequence reflects the files as they are at that moment**: load → edit → load, the same or another
    project reached through the same path string (a relative `suites` after a chdir), a load after a failed one — the k-th
    result is `load_suites_from_directory` of the k-th directory content, for every initial `sys.modules`. -/
theorem loads_reflect_current_files (st : Proc) (steps : List (String × Dir)) :
    (runLoads st steps).2 = steps.map (fun s => loadDirReal s.2) := by
  induction steps generalizing st with
  | nil => rfl
  | cons s rest ih =>
    obtain ⟨root, d⟩ := s
    simp only [runLoads, List.map_cons, load_in_any_process, ih]

/-- Property sentence, for the k-th load of any sequence: when it succeeds, the loaded tests — paths, order, metadata,
    parameters — are exactly what the directory declares NOW (stripped form of finding D18), each suite duplicate-free. -/
theorem every_load_exact (st : Proc) (steps : List (String × Dir)) (k : Nat) (root : String) (d : Dir) (ss : List Suite)
    (hk : steps[k]? = some (root, d)) (h : (runLoads st steps).2[k]? = some (.ok ss)) :
    Suite.entriesList ss = declDir (stripDir d) ∧ ∀ s ∈ ss, s.Unique := by
  rw [loads_reflect_current_files, List.getElem?_map, hk] at h
  simp only [Option.map_some, Option.some.injEq] at h
  exact C13.load_directory_real_exact_on_stripped d ss h

/-- The same files loaded twice give the same tree (idempotence), whatever happened in between. -/
theorem reload_same_files (st st' : Proc) (root root' : String) (d : Dir) :
    (loadDirIn st root d).2 = (loadDirIn st' root' d).2 := by
  rw [load_in_any_process, load_in_any_process]

/-! ## Non-vacuity (kernel-evaluated): edit between two loads; two projects under one path string; failed first import -/

def v1 : Dir := .mk "suites" [{ stem := "alpha", autoRank := 2, tests := [{ attr := "first", rank := 1 }] }] []
def v2 : Dir := .mk "suites" [{ stem := "alpha", autoRank := 3, tests := [{ attr := "first", rank := 1 }, { attr := "second", rank := 2 }] }] []
def v0 : Dir := .mk "suites" [{ stem := "alpha", autoRank := 2, broken := true, tests := [{ attr := "first", rank := 1 }] }] []

def pathsOf (r : Except LoadErr (List Suite)) : Option (List (List String)) :=
  r.toOption.map (fun ss => (Suite.entriesList ss).map Prod.fst)

example : ((runLoads {} [("suites", v1), ("suites", v2), ("suites", v1)]).2.map pathsOf)
    = [some [["alpha", "first"]], some [["alpha", "first"], ["alpha", "second"]], some [["alpha", "first"]]] := by decide +kernel

/-- the failed import stays registered; the next load of the repaired file succeeds with its tests -/
example : (runLoads {} [("suites", v0)]).1.has "suites/alpha.py" = true := by decide +kernel
example : ((runLoads {} [("suites", v0), ("suites", v1)]).2.map pathsOf) = [none, some [["alpha", "first"]]] := by decide +kernel

end LccModel.C13Reload

/-
  C10 — report INFORMATION lines published during the run (`lcc.add_report_info`, `Project.build_report_info`)
  are part of every intermediate save: "items it shows never change afterwards" covers them.

  Property theorems only (definitions: `Model/SavingActs.lean`).  Which theorem quantifies over the input class
  "`add_info` calls between the events, any names (repeated or not), any values":
  `acts_prefix_monotone` / `saved_snapshot_prefix_of_final_acts` (every act list, every strategy, every clock).
-/
import LccModel.Model.SavingActs
import LccModel.Lemmas.Saving
import LccModel.Props.C10

namespace LccModel.C10
open LccModel.Report LccModel.Writer LccModel.Saving

/-- `PrefixA` extends `Prefix`: reports related by the event-only relation are related by the relation with information. -/
theorem prefixA_of_prefix {a b : Report} (h : Prefix a b) : PrefixA a b := by
  unfold Prefix prefixB at h
  unfold PrefixA prefixAB prefixB stripInfo
  simp only [Bool.and_eq_true, decide_eq_true_eq] at h ⊢
  obtain ⟨⟨⟨h1, h2⟩, h3⟩, h4⟩ := h
  refine ⟨?_, ⟨⟨h1, trivial⟩, h3⟩, h4⟩
  split
  · exact decide_eq_true h2
  · rw [h2]; simp

theorem prefixA_refl (r : Report) : PrefixA r r := prefixA_of_prefix (prefix_refl r)

theorem prefixA_trans {a b c : Report} (h1 : PrefixA a b) (h2 : PrefixA b c) : PrefixA a c := by
  unfold PrefixA prefixAB at *
  simp only [Bool.and_eq_true] at h1 h2 ⊢
  obtain ⟨i1, p1⟩ := h1
  obtain ⟨i2, p2⟩ := h2
  refine ⟨?_, prefixB_trans _ _ _ p1 p2⟩
  by_cases ha : a.endTime.isSome = true
  · -- an ended session is identical in `b`: `b` is ended too
    have hb : b.endTime.isSome = true := by
      have := p1
      unfold prefixB stripInfo at this
      simp only [ha, if_true, Bool.and_eq_true, decide_eq_true_eq] at this
      rw [← this.2.1.1.1.2]; exact ha
    simp only [ha, hb, if_true, decide_eq_true_eq] at i1 i2 ⊢
    exact i1.trans i2
  · simp only [ha, Bool.false_eq_true, if_false] at i1 ⊢
    have i2' : b.info.isPrefixOf c.info = true := by
      split at i2
      · simp only [decide_eq_true_eq] at i2; rw [i2]; simp
      · exact i2
    rw [List.isPrefixOf_iff_prefix] at i1 i2' ⊢
    exact i1.trans i2'

/-- What `PrefixA` says about the information lines: those the earlier report shows are the first lines of the
    later report, same names, same values, same order. -/
theorem info_lines_never_change {a b : Report} (h : PrefixA a b) : a.info <+: b.info := by
  unfold PrefixA prefixAB at h
  simp only [Bool.and_eq_true] at h
  have h1 := h.1
  split at h1
  · simp only [decide_eq_true_eq] at h1; rw [h1]; exact List.prefix_refl _
  · exact List.isPrefixOf_iff_prefix.mp h1

/-- … and everything `Prefix` says about the rest of the report still holds. -/
theorem prefixA_rest {a b : Report} (h : PrefixA a b) : Prefix (stripInfo a) (stripInfo b) := by
  unfold PrefixA prefixAB at h
  simp only [Bool.and_eq_true] at h
  exact h.2

/-- `Report.add_info` (append) during a running session only extends the report, whatever the name: also a
    name that is already there. -/
theorem add_info_extends (r : Report) (n v : String) (h : r.endTime = none) : PrefixA r (addInfo r n v) := by
  unfold PrefixA prefixAB
  simp only [Bool.and_eq_true, h, Option.isSome_none, Bool.false_eq_true, if_false]
  refine ⟨?_, ?_⟩
  · rw [List.isPrefixOf_iff_prefix]; exact List.prefix_append _ _
  · exact prefixB_refl _

/-- One act of a safe act list only extends the report. -/
theorem act_step_prefix {w w' : WriterState} {a : Act} {as : List Act} (hs : safeActs w (a :: as) = true)
    (h : actApply w a = .ok w') : PrefixA w.report w'.report ∧ safeActs w' as = true := by
  cases a with
  | ev e =>
    simp only [safeActs, Bool.and_eq_true] at hs
    simp only [actApply] at h
    rw [h] at hs
    exact ⟨prefixA_of_prefix (prefix_step hs.1 h), hs.2⟩
  | addInfo n v =>
    simp only [safeActs, Bool.and_eq_true, Option.isNone_iff_eq_none] at hs
    simp only [actApply] at h
    injection h with h; subst h
    exact ⟨add_info_extends _ n v hs.1, hs.2⟩

theorem actRun_prefix : ∀ (as : List Act) (w w' : WriterState), safeActs w as = true → actRun w as = .ok w' →
    PrefixA w.report w'.report
  | [], w, w', _, h => by simp only [actRun] at h; injection h with h; subst h; exact prefixA_refl _
  | a :: as, w, w', hs, h => by
    simp only [actRun] at h
    cases hx : actApply w a with
    | error err => rw [hx] at h; cases h
    | ok w1 =>
      rw [hx] at h
      obtain ⟨p, hs'⟩ := act_step_prefix hs hx
      exact prefixA_trans p (actRun_prefix as w1 w' hs' h)

theorem actRun_append : ∀ (as bs : List Act) (w w' : WriterState), actRun w (as ++ bs) = .ok w' →
    ∃ w1, actRun w as = .ok w1 ∧ actRun w1 bs = .ok w'
  | [], bs, w, w', h => ⟨w, rfl, h⟩
  | a :: as, bs, w, w', h => by
    simp only [List.cons_append, actRun] at h ⊢
    cases hx : actApply w a with
    | error err => rw [hx] at h; cases h
    | ok w1 => rw [hx] at h; exact actRun_append as bs w1 w' h

theorem safeActs_append : ∀ (as bs : List Act) (w w1 : WriterState), safeActs w (as ++ bs) = true →
    actRun w as = .ok w1 → safeActs w1 bs = true
  | [], bs, w, w1, hs, h => by simp only [actRun] at h; injection h with h; subst h; exact hs
  | a :: as, bs, w, w1, hs, h => by
    simp only [actRun] at h
    cases hx : actApply w a with
    | error err => rw [hx] at h; cases h
    | ok w2 =>
      rw [hx] at h
      exact safeActs_append as bs w2 w1 (act_step_prefix (as := as ++ bs) hs hx).2 h

/-- **Prefix monotonicity over acts**: for every list of events and `add_info` calls (any names — repeated or not
    —, any values, at any place while the session runs) whose events target nothing finished, the report after
    `k` acts is a prefix — information lines included — of the report after `m ≥ k` acts. -/
theorem acts_prefix_monotone (as : List Act) (w0 : WriterState) (k m : Nat) (hs : safeActs w0 as = true) (hkm : k ≤ m)
    {wa wb : WriterState} (hk : actRun w0 (as.take k) = .ok wa) (hm : actRun w0 (as.take m) = .ok wb) :
    PrefixA wa.report wb.report := by
  have hsplit : as.take m = as.take k ++ (as.take m).drop k := by
    have := List.take_append_drop k (as.take m)
    rw [List.take_take, Nat.min_eq_left hkm] at this
    exact this.symm
  rw [hsplit] at hm
  obtain ⟨w1, h1, h2⟩ := actRun_append _ _ _ _ hm
  rw [hk] at h1; injection h1 with h1; subst h1
  have hs' : safeActs w0 (as.take k ++ ((as.take m).drop k ++ as.drop m)) = true := by
    rw [← List.append_assoc, ← hsplit, List.take_append_drop]; exact hs
  have hs1 := safeActs_append _ _ _ _ hs' hk
  -- safety of a prefix of the remaining acts
  have hpre : ∀ (xs ys : List Act) (w : WriterState), safeActs w (xs ++ ys) = true → safeActs w xs = true := by
    intro xs
    induction xs with
    | nil => intro _ _ _; rfl
    | cons x xs ih =>
      intro ys w h
      cases x with
      | ev e =>
        simp only [List.cons_append, safeActs, Bool.and_eq_true] at h ⊢
        refine ⟨h.1, ?_⟩
        cases hx : Writer.apply w e with
        | error _ => trivial
        | ok w2 => have := h.2; rw [hx] at this; exact ih ys w2 this
      | addInfo n v =>
        simp only [List.cons_append, safeActs, Bool.and_eq_true] at h ⊢
        exact ⟨h.1, ih ys _ h.2⟩
  exact actRun_prefix _ _ _ (hpre _ _ _ hs1) h2

/-- Invariant of the handler thread over acts: every completed save is a prefix (information lines included) of
    the report the writer holds now. -/
theorem sessRunA_saves_prefix (strat : Strategy) (clock : Nat → Nat) :
    ∀ (as : List Act) (s s' : Sess), safeActs s.w as = true →
      (∀ p ∈ s.saves, PrefixA p.2 s.w.report) → sessRunA strat clock s as = .ok s' →
      ∀ p ∈ s'.saves, PrefixA p.2 s'.w.report
  | [], s, s', _, inv, h => by simp only [sessRunA] at h; injection h with h; subst h; exact inv
  | .ev e :: as, s, s', hs, inv, h => by
    simp only [sessRunA, sessStepA] at h
    cases hx : sessStep strat clock s e with
    | error err => rw [hx] at h; cases h
    | ok s1 =>
      rw [hx] at h
      obtain ⟨hw, _, hsv⟩ := sessStep_spec hx
      obtain ⟨p1, hs1⟩ := act_step_prefix (a := .ev e) hs (by simpa [actApply] using hw)
      refine sessRunA_saves_prefix strat clock as s1 s' hs1 ?_ h
      intro p hp
      rcases hsv with hsv | hsv
      · rw [hsv] at hp; exact prefixA_trans (inv p hp) p1
      · rw [hsv] at hp
        rcases List.mem_cons.mp hp with rfl | hp
        · exact prefixA_refl _
        · exact prefixA_trans (inv p hp) p1
  | .addInfo n v :: as, s, s', hs, inv, h => by
    simp only [sessRunA, sessStepA] at h
    have hs0 := hs
    simp only [safeActs, Bool.and_eq_true, Option.isNone_iff_eq_none] at hs
    refine sessRunA_saves_prefix strat clock as _ s' hs.2 ?_ h
    intro p hp
    exact prefixA_trans (inv p hp) (add_info_extends _ n v hs.1)

/-- **Every saved file is a prefix of the final report, information lines included**: any strategy, any clock,
    any list of events and `add_info` calls (repeated names included) whose events target nothing finished. -/
theorem saved_snapshot_prefix_of_final_acts (strat : Strategy) (clock : Nat → Nat) (r0 : Report) (as : List Act) (s : Sess)
    (hs : safeActs (initState r0) as = true) (h : sessRunA strat clock (Sess.init clock r0) as = .ok s) :
    ∀ k snap, (k, snap) ∈ s.saves → PrefixA snap s.w.report ∧ snap.info <+: s.w.report.info := by
  intro k snap hm
  have := sessRunA_saves_prefix strat clock as (Sess.init clock r0) s hs (by intro p hp; cases hp) h (k, snap) hm
  exact ⟨this, info_lines_never_change this⟩

/-- Acts without `add_info` are the event streams of `Props/C10.lean`: nothing is lost. -/
theorem actRun_events (es : List Event) (w : WriterState) : actRun w (es.map Act.ev) = Writer.run w es := by
  induction es generalizing w with
  | nil => rfl
  | cons e es ih =>
    simp only [List.map_cons, actRun, actApply, Writer.run]
    cases Writer.apply w e with
    | error _ => rfl
    | ok w' => exact ih w'

/-! ### Non-vacuity, and why the append matters -/

/-- a running session that has published `target = alpha` -/
def infoDemo : Report := { Report.empty with startTime := some 1, info := [("campaign", "nightly"), ("target", "alpha")] }

/-- appending a second line under the same name extends the report … -/
example : PrefixA infoDemo (addInfo infoDemo "target" "beta") := by decide

/-- … rewriting the registered line in place ("no duplicated information lines") does NOT: the earlier file showed
    `target = alpha`, which the final report no longer contains. -/
theorem update_in_place_is_not_a_prefix : ¬ PrefixA infoDemo (updateInfo infoDemo "target" "beta") := by decide

/-- a new name is the same under both readings -/
example : (updateInfo infoDemo "build" "7").info = (addInfo infoDemo "build" "7").info := by decide

end LccModel.C10

/-
  C08 — "an abort only affects tests that have not started at the time it is raised" … in the run where it is raised.

  Input class: several runs of ONE loaded project (same suite / test / fixture objects) in one process, aborts / failures /
  interrupts happening in some of the runs only (stream `C08.run.again`, harness/props/_multirun.py).  Model: `Model/RunAgain.lean`.

  * `consecutive_runs_are_independent_runs`: the outcomes of the runs of a process are the outcomes of as many independent runs —
    each is `RunAccept.replay` of its own trace from `G.init` (fresh flags), for every project, every number of runs and every
    trace; so every theorem about a single run (C01Accept, C03, C08, …) holds of EACH run of the sequence.
  * `a_run_does_not_depend_on_the_previous_context`: whatever the previous context ended with.
  * `fresh_context_skips_nothing`: at its start a run skips no task on account of its context.
  * `kept_abort_set_skips_the_suite_again` / `kept_abort_flag_skips_everything_again`: why the flags must not survive — a context
    that kept the aborted suites (the abort flag) of an earlier run would skip every test of that suite (everything) from the
    start of the next run, before anything is raised in it.
-/
import LccModel.Model.RunAgain

namespace LccModel.C08Again
open LccModel.RunAccept LccModel.RunAgain

/-- A run whose context starts with no flag IS the acceptor's entry point. -/
theorem replayWith_none (c : Ctx) (recs : List Rec) : replayWith c Flags.none recs = replay c recs := rfl

/-- Two, three, … consecutive runs of one loaded project = as many independent runs: the k-th outcome is the replay of the
    k-th trace from the initial state, for every project, every number of runs and every trace. -/
theorem consecutive_runs_are_independent_runs (c : Ctx) (traces : List (List Rec)) :
    process c traces = traces.map (replay c) := by
  suffices h : ∀ (traces : List (List Rec)) (f : Flags), f = Flags.none → runs nextFlags c f traces = traces.map (replay c) from
    h traces _ rfl
  intro traces
  induction traces with
  | nil => intro f _; rfl
  | cons r rs ih =>
    intro f hf
    subst hf
    simp only [runs, List.map_cons, replayWith_none]
    rw [ih (nextFlags (replay c r).state.defF) rfl]

/-- The outcome of a run is a function of the project and of its own trace only: the flags the previous run's context ended
    with are no input. -/
theorem a_run_does_not_depend_on_the_previous_context (c : Ctx) (prev prev' : Flags) (recs : List Rec) :
    replayWith c (nextFlags prev) recs = replayWith c (nextFlags prev') recs := rfl

/-- In particular the second of two runs: whatever the first one's trace was. -/
theorem second_run_independent_of_the_first (c : Ctx) (first first' second : List Rec) :
    (process c [first, second])[1]? = (process c [first', second])[1]? := by
  simp [consecutive_runs_are_independent_runs]

/-- At its start a run skips no task on account of its context (no abort, no interrupt, no pending failure, no recorded failure). -/
theorem fresh_context_skips_nothing (c : Ctx) (prev : Flags) (t : Run.TaskId) :
    ctxWouldSkip c (nextFlags prev) t = false := by
  simp [ctxWouldSkip, nextFlags, Flags.none, skipReason]

/-- Necessity: a context that KEPT the aborted suites of an earlier run skips every test of such a suite from the very start of
    the next run (no exception has been raised in it yet). -/
theorem kept_abort_set_skips_the_suite_again (c : Ctx) (prev : Flags) (t : Run.TaskId)
    (hk : t.kind = .test) (hs : (some t.path.dropLast) ∈ prev.abortedSuites) :
    ctxWouldSkip c (id prev) t = true := by
  have hc : prev.abortedSuites.contains (some t.path.dropLast) = true := by simpa using hs
  unfold ctxWouldSkip skipReason
  simp only [id, hc, hk]
  cases prev.interrupted <;> cases prev.pending <;> cases prev.abortAll <;> simp

/-- … and one that kept the session-wide abort flag skips every task. -/
theorem kept_abort_flag_skips_everything_again (c : Ctx) (prev : Flags) (t : Run.TaskId) (ha : prev.abortAll = true) :
    ctxWouldSkip c (id prev) t = true := by
  unfold ctxWouldSkip skipReason
  simp only [id, ha]
  cases prev.interrupted <;> cases prev.pending <;> simp

/-! ### non-vacuity -/

/-- the hypotheses of the necessity theorems are satisfiable, and the fresh context differs on that very task -/
example : let prev : Flags := { Flags.none with abortedSuites := [some ["s"]] }
    let t : Run.TaskId := { kind := .test, path := ["s", "t"] }
    t.kind = .test ∧ (some t.path.dropLast) ∈ prev.abortedSuites := by decide

end LccModel.C08Again

/-
  C17 — A check's description says what was actually verified.

  Property theorems only (helper lemmas: `Lemmas/MatcherDesc.lean`, `Lemmas/MatcherInj.lean`; model:
  `Model/Matcher.lean`).  `describeSt legacy m t` is `m.build_description(t)` written the way the code
  threads ONE mutable transformer object through the matcher tree (text, state of the object
  afterwards); `legacy = false` is the code with `fixes/D12-D13-not-description-shared-transformer.diff`
  applied, `legacy = true` the code before it.  `describe m t` is the pure reading of the repaired code.

  Sections 1 and 2 are universally quantified over ALL matcher trees and transformer states (structural
  induction).  Section 4 (injectivity) is EXHAUSTIVE-BOUNDED: it quantifies over the finite universe
  `universe` (every expression of nesting depth ≤ 2 over the alphabet below: 1082 matchers) and the
  finite separating value domain `domain`, as the property's own quantifier does; it is not an
  unbounded claim.
-/
import LccModel.Lemmas.MatcherDesc
import LccModel.Lemmas.MatcherInj

namespace LccModel.C17
open LccModel.Matcher

/-! ## 1. The wording of a sub-matcher does not depend on its sibling matchers -/

/-- Building a description never alters the transformer object it was handed (so nothing a matcher
    does while being described can reach its siblings), and the threaded computation yields the text
    of the pure reading. -/
theorem transformer_never_altered (m : M) (t : Tr) : describeSt false m t = (describe m t, t) :=
  describeSt_fixed m t

/-- **Sibling independence.**  Inside any list of sibling matchers described with one shared
    transformer, every child gets exactly the text it gets when described alone with that
    transformer — whatever stands before or after it. -/
theorem child_wording_independent_of_siblings (pre post : List M) (m : M) (t : Tr) :
    (describeListSt false (pre ++ m :: post) t).1 =
      (describeListSt false pre t).1 ++ (describeSt false m t).1 :: (describeListSt false post t).1 := by
  simp only [describeListSt_fixed, describeSt_fixed, describeList_eq_map, List.map_append, List.map_cons]

/-- `all_of`: the composite's text is the rendering (single line `… and …`, or itemised) of its
    children's own descriptions. -/
theorem describe_sibling_independent_allOf (ms : List M) (t : Tr) :
    (describeSt false (.allOf ms) t).1 =
      renderComposite c!"and" (ms.any M.isComposite)
        (ms.map fun m => (describeSt false m t).1) (ms.map fun m => (describeSt false m t).1) := by
  simp only [describeSt_fixed, describe, describeList_eq_map]

/-- `any_of`: likewise with `or`. -/
theorem describe_sibling_independent_anyOf (ms : List M) (t : Tr) :
    (describeSt false (.anyOf ms) t).1 =
      renderComposite c!"or" (ms.any M.isComposite)
        (ms.map fun m => (describeSt false m t).1) (ms.map fun m => (describeSt false m t).1) := by
  simp only [describeSt_fixed, describe, describeList_eq_map]

/-! ### D12 — the tree before the repair

  Full-strength statements (they hold for `legacy = false`, see above):
    `(describeSt true m t).2 = t`
    `(describeSt true (.allOf ms) t).1 = renderComposite "and" … (ms.map fun m => (describeSt true m t).1) …`
  Both are refuted for the unrepaired `Not.build_description`: -/

/-- D12 witness: `all_of(is_not_none(), greater_than(0))` reads "to not be null and to not be greater
    than 0" although `greater_than(0)` alone reads "to be greater than 0". -/
theorem sibling_independence_refuted_legacy :
    (describeSt true (.allOf [.not .isNone, .cmp (.ord .gt) (.int 0)]) Tr.plain).1
        = c!"to not be null and to not be greater than 0" ∧
    (describeSt true (.cmp (.ord .gt) (.int 0)) Tr.plain).1 = c!"to be greater than 0" ∧
    (describeSt true (.allOf [.not .isNone, .cmp (.ord .gt) (.int 0)]) Tr.plain).1 ≠
      renderComposite c!"and" false
        ([M.not .isNone, .cmp (.ord .gt) (.int 0)].map fun m => (describeSt true m Tr.plain).1)
        ([M.not .isNone, .cmp (.ord .gt) (.int 0)].map fun m => (describeSt true m Tr.plain).1) := by
  decide

/-- D12 mechanism: the unrepaired `Not` leaves the caller's transformer negative. -/
theorem transformer_altered_legacy : (describeSt true (.not .isNone) Tr.plain).2 = ⟨false, true⟩ := by decide

/-- D12, second pass: when the single-line attempt is abandoned (here: a line break in a child), the
    children are described again with the already altered transformer, so even the EARLIER sibling is
    negated. -/
theorem second_pass_refuted_legacy :
    (describeSt true (.anyOf [.startsWith c!"x\ny", .not .isNone]) Tr.plain).1
      = c!":\n    - to not start with \"x\n      y\"\n    - or to not be null" ∧
    (describeSt false (.anyOf [.startsWith c!"x\ny", .not .isNone]) Tr.plain).1
      = c!":\n    - to start with \"x\n      y\"\n    - or to not be null" := by decide

mutual
/-- no `not_` anywhere in the tree -/
def notFree : M → Bool
  | .not _ => false
  | .hasLength m => notFree m
  | .hasItem m => notFree m
  | .hasAllItems m => notFree m
  | .hasEntry _ m => notFree m
  | .isType _ m => notFree m
  | .allOf ms => notFreeList ms
  | .anyOf ms => notFreeList ms
  | .hidden m => notFree m
  | .described _ _ => true
  | _ => true
def notFreeList : List M → Bool
  | [] => true
  | m :: ms => notFree m && notFreeList ms
end

mutual
/-- … and outside exactly that class — trees without `not_` — the unrepaired code already behaved
    like the repaired one. -/
theorem legacy_partial : ∀ (m : M) (t : Tr), notFree m = true → describeSt true m t = describeSt false m t
  | .equalTo _, _, _ => rfl
  | .cmp _ _, _, _ => rfl
  | .between _ _, _, _ => rfl
  | .isNone, _, _ => rfl
  | .hasLength m, t, h => by simp only [notFree] at h; simp only [describeSt, legacy_partial m _ h]
  | .startsWith _, _, _ => rfl
  | .endsWith _, _, _ => rfl
  | .containsString _, _, _ => rfl
  | .hasItem m, t, h => by simp only [notFree] at h; simp only [describeSt, legacy_partial m _ h]
  | .hasItems _, _, _ => rfl
  | .hasOnlyItems _, _, _ => rfl
  | .hasAllItems m, t, h => by simp only [notFree] at h; simp only [describeSt, legacy_partial m _ h]
  | .isIn _, _, _ => rfl
  | .hasEntry p m, t, h => by simp only [notFree] at h; simp only [describeSt, legacy_partial m _ h]
  | .hasKey _, _, _ => rfl
  | .isType ty m, t, h => by simp only [notFree] at h; simp only [describeSt, legacy_partial m _ h]
  | .isTypeAny _, _, _ => rfl
  | .allOf ms, t, h => by
    simp only [notFree] at h
    simp only [describeSt, legacyList_partial ms _ h]
  | .anyOf ms, t, h => by
    simp only [notFree] at h
    simp only [describeSt, legacyList_partial ms _ h]
  | .anything _, _, _ => rfl
  | .not m, t, h => by simp [notFree] at h
  | .hidden m, t, h => by simp only [notFree] at h; simp only [describeSt, legacy_partial m _ h]
  | .described _ _, _, _ => rfl
theorem legacyList_partial : ∀ (ms : List M) (t : Tr), notFreeList ms = true →
    describeListSt true ms t = describeListSt false ms t
  | [], _, _ => rfl
  | m :: ms, t, h => by
    simp only [notFreeList, Bool.and_eq_true] at h
    simp only [describeListSt, legacy_partial m _ h.1, legacyList_partial ms _ h.2]
end

example : notFree (.allOf [.hasItem (.equalTo (.int 1)), .anyOf [.isNone, .startsWith c!"a"]]) = true := by decide

/-! ## 2. Negation in the wording follows negation in the logic -/

/-- `not_(m)` is described as `m` with the polarity of the wording toggled (and the logic is
    `C16.not_exact`: the outcome is negated). -/
theorem describe_not (m : M) (t : Tr) : (describeSt false (.not m) t).1 = (describeSt false m t.neg).1 := by
  simp only [describeSt_fixed, describe]

/-- double negation reads like the matcher itself … -/
theorem describe_not_not (m : M) (t : Tr) : (describeSt false (.not (.not m)) t).1 = (describeSt false m t).1 := by
  simp only [describeSt_fixed, describe, Tr.neg_neg]

/-- … whereas the unrepaired code (D13) worded `not_(not_(m))` like `not_(m)`:
    full-strength statement `(describeSt true (.not (.not m)) t).1 = (describeSt true m t).1`, refuted by -/
theorem double_negation_refuted_legacy :
    (describeSt true (.not (.not (.equalTo (.int 1)))) Tr.plain).1 = (describeSt true (.not (.equalTo (.int 1))) Tr.plain).1 ∧
    (describeSt true (.not (.not (.equalTo (.int 1)))) Tr.plain).1 ≠ (describeSt true (.equalTo (.int 1)) Tr.plain).1 := by
  decide

/-- **Clause invariance.**  The clause a matcher devotes to its sub-matcher ("… whose value <clause>",
    "… that <clause>") is, verbatim, the sub-matcher's own sentence (conjugated, with its OWN polarity),
    whatever the state of the transformer the parent was handed — so negating the parent (`not_(has_entry(k, m))`)
    never changes, abbreviates or negates what is said about `m`. -/
theorem clause_wording_independent_of_parent (m : M) (t : Tr) :
    (∃ pre, (describeSt false (.hasItem m) t).1 = pre ++ (describeSt false m Tr.conj).1) ∧
    (∃ pre, (describeSt false (.hasAllItems m) t).1 = pre ++ (describeSt false m Tr.conj).1) ∧
    (∃ pre, (describeSt false (.hasLength m) t).1 = pre ++ (describeSt false m Tr.conj).1) ∧
    (∀ p, ∃ pre, (describeSt false (.hasEntry p m) t).1 = pre ++ (describeSt false m Tr.conj).1) ∧
    (∀ ty, ∃ pre, (describeSt false (.isType ty m) t).1 = pre ++ (describeSt false m Tr.conj).1) := by
  simp only [describeSt_fixed, describe]
  refine ⟨?_, ?_, ?_, fun p => ⟨_, rfl⟩, fun ty => ⟨_, rfl⟩⟩
  · obtain ⟨pre, h⟩ := apply_keeps_suffix_have t (c!" an item whose value " ++ describe m Tr.conj)
    exact ⟨pre ++ c!" an item whose value ", by rw [List.append_assoc]; exact h⟩
  · obtain ⟨pre, h⟩ := apply_keeps_suffix_have t (c!" all items whose value " ++ describe m Tr.conj)
    exact ⟨pre ++ c!" all items whose value ", by rw [List.append_assoc]; exact h⟩
  · obtain ⟨pre, h⟩ := apply_keeps_suffix_have t (c!" a length that " ++ describe m Tr.conj)
    exact ⟨pre ++ c!" a length that ", by rw [List.append_assoc]; exact h⟩

/-- matchers whose own sentence begins with a verb the transformer rewrites: everything except the
    composites and overridden descriptions, looking through `not_` and `hide_result_details()` -/
def verbal : M → Bool
  | .allOf _ => false
  | .anyOf _ => false
  | .described _ _ => false
  | .not m => verbal m
  | .hidden m => verbal m
  | _ => true

/-- the lengths of the positive and the negative wording differ (so the texts do, whatever follows) -/
theorem polarity_changes_length : ∀ (m : M), verbal m = true → ∀ (c : Bool),
    (describe m ⟨c, true⟩).length ≠ (describe m ⟨c, false⟩).length
  | .equalTo e, _, c => by simp only [describe]; exact apply_neg_length_ne c _ (verbal_to_be _)
  | .cmp op e, _, c => by simp only [describe]; exact apply_neg_length_ne c _ (verbal_to_be _)
  | .between lo hi, _, c => by simp only [describe]; exact apply_neg_length_ne c _ (verbal_to_be _)
  | .isNone, _, c => by simp only [describe]; exact apply_neg_length_ne c _ (verbal_to_be c!" null")
  | .hasLength m, _, c => by simp only [describe]; exact apply_neg_length_ne c _ (verbal_to_have _)
  | .startsWith s, _, c => by
    simp only [describe]; exact apply_neg_length_ne c _ (Or.inr (Or.inr (Or.inr (Or.inr ⟨_, rfl, rfl⟩))))
  | .endsWith s, _, c => by
    simp only [describe]; exact apply_neg_length_ne c _ (Or.inr (Or.inr (Or.inr (Or.inr ⟨_, rfl, rfl⟩))))
  | .containsString s, _, c => by
    simp only [describe]; exact apply_neg_length_ne c _ (Or.inr (Or.inr (Or.inr (Or.inr ⟨_, rfl, rfl⟩))))
  | .hasItem m, _, c => by simp only [describe]; exact apply_neg_length_ne c _ (verbal_to_have _)
  | .hasItems vs, _, c => by simp only [describe]; exact apply_neg_length_ne c _ (verbal_to_have _)
  | .hasOnlyItems vs, _, c => by simp only [describe]; exact apply_neg_length_ne c _ (verbal_to_have _)
  | .hasAllItems m, _, c => by simp only [describe]; exact apply_neg_length_ne c _ (verbal_to_have _)
  | .isIn vs, _, c => by simp only [describe]; exact apply_neg_length_ne c _ (verbal_to_be _)
  | .hasEntry p m, _, c => by
    simp only [describe, List.length_append]
    have := apply_neg_length_ne c (c!"to have entry " ++ pathDesc p) (verbal_to_have _); omega
  | .hasKey p, _, c => by simp only [describe]; exact apply_neg_length_ne c _ (verbal_to_have _)
  | .isType ty m, _, c => by
    simp only [describe, List.length_append]
    have := apply_neg_length_ne c (c!"to be " ++ ty.name) (verbal_to_be _); omega
  | .isTypeAny ty, _, c => by simp only [describe]; exact apply_neg_length_ne c _ (verbal_to_be _)
  | .anything w, _, c => by
    simp only [describe]
    cases w
    · exact apply_neg_length_ne c _ (verbal_to_be _)
    · exact apply_neg_length_ne c _ (verbal_to_be _)
    · exact apply_neg_length_ne c _ (Or.inr (Or.inr (Or.inr (Or.inr ⟨_, rfl, rfl⟩))))
    · exact apply_neg_length_ne c _ (verbal_to_be _)
  | .not m, h, c => by
    simp only [verbal] at h
    simp only [describe, Tr.neg, Bool.not_true, Bool.not_false]
    exact fun e => polarity_changes_length m h c e.symm
  | .hidden m, h, c => by
    simp only [verbal] at h
    simp only [describe]
    exact polarity_changes_length m h c
  | .allOf _, h, _ => by simp [verbal] at h
  | .anyOf _, h, _ => by simp [verbal] at h
  | .described _ _, h, _ => by simp [verbal] at h

/-- **Negation is visible**: for every matcher that has a sentence of its own, `not_(m)` is never
    described like `m`, under any transformer state.  (`_partial`: the full-strength statement
    `∀ m t, describe (.not m) t ≠ describe m t` is refuted by the empty composites, see below, and by
    overridden descriptions without a verb; non-empty composites are covered on the bounded universe
    of section 4.) -/
theorem negation_visible_partial (m : M) (h : verbal m = true) (t : Tr) :
    (describeSt false (.not m) t).1 ≠ (describeSt false m t).1 := by
  simp only [describeSt_fixed, describe]
  intro e
  have hl := polarity_changes_length m h t.conjugate
  cases t with
  | mk c n =>
    cases n with
    | false => simp only [Tr.neg, Bool.not_false] at e; exact hl (congrArg List.length e)
    | true => simp only [Tr.neg, Bool.not_true] at e; exact hl (congrArg List.length e).symm

example : verbal (.not (.hasEntry [.str c!"k"] (.allOf []))) = true := by decide

/-- D15 (open finding): an empty composite has no wording, so its negation is invisible. -/
theorem negation_visible_refuted_empty_composite :
    (describeSt false (.not (.allOf [])) Tr.plain).1 = (describeSt false (.allOf []) Tr.plain).1 ∧
    okE (.not (.allOf [])) .none ≠ okE (.allOf []) .none := by decide

/-! ## 3. Leaf separation -/

/-- the leaf matchers the generators use for the injectivity streams (alphabet "L" of harness/props/c17.py) -/
def leafAlphabet : List M :=
  [.equalTo (.int 1), .equalTo (.str c!"a"), .cmp (.ord .gt) (.int 0), .isNone, .startsWith c!"a", .isTypeAny .int]

def allTr : List Tr := [⟨false, false⟩, ⟨false, true⟩, ⟨true, false⟩, ⟨true, true⟩]

/-- all 6 × 4 texts of a leaf under a transformer state, paired with (leaf index, state index) -/
def leafTexts : List (Str × Nat × Nat) :=
  (List.range leafAlphabet.length).flatMap fun i =>
    (List.range allTr.length).map fun j =>
      (describe (leafAlphabet.getD i .isNone) (allTr.getD j Tr.plain), i, j)

/-- The 24 descriptions of the 6 leaves under the 4 transformer states (plain, negative, conjugated,
    conjugated negative) are pairwise distinct: the text determines the leaf and its polarity.
    (finite table, `decide`) -/
theorem leaf_separation :
    leafTexts.all (fun a => leafTexts.all fun b => a.1 != b.1 || (a.2.1 == b.2.1 && a.2.2 == b.2.2)) = true := by
  decide +kernel

example : leafTexts.length = 24 := by decide

/-! ## 4. Same description ⇒ same accepted values (EXHAUSTIVE-BOUNDED: depth ≤ 2) -/

def leaves : List M := [.equalTo (.int 1), .cmp (.ord .gt) (.int 0)]
def unary : List (M → M) := [.not, .hasItem, .hasEntry [.str c!"k"]]

/-- one more level of constructors: a leaf, a unary constructor (`not_`, `has_item`,
    `has_entry("k", ·)`) over a smaller expression, or `all_of` / `any_of` over 0, 1 or 2 of them -/
def level (prev : List M) : List M :=
  leaves ++ unary.flatMap (fun u => prev.map u) ++
  [.allOf [], .anyOf []] ++ prev.map (fun m => .allOf [m]) ++ prev.map (fun m => .anyOf [m]) ++
  prev.flatMap (fun a => prev.map fun b => .allOf [a, b]) ++ prev.flatMap (fun a => prev.map fun b => .anyOf [a, b])

/-- every expression of nesting depth ≤ 2 (two levels of constructors over the leaves) -/
def universe2 : List M := level (level leaves)

/-- the separating value domain -/
def domain : List Val :=
  [.none, .int 0, .int 1, .int 2, .str c!"a", .list [], .list [.int 1], .list [.int 0], .list [.int 2, .str c!"a"],
   .list [.list [.int 1]], .dict [.str c!"k"] [.int 1], .dict [.str c!"k"] [.int 0], .dict [.str c!"k"] [.list [.int 1]],
   .list [.dict [.str c!"k"] [.int 1]], .dict [] []]

/-- the matcher accepts the value (an exception is not an acceptance) -/
def accepts (m : M) (v : Val) : Bool :=
  match okE m v with
  | .ok true => true
  | _ => false

mutual
/-- the guard of the partial theorem: no empty `all_of()` / `any_of()` anywhere (D15) and no `not_`
    directly over a composite with two or more children (D14) -/
def clean : M → Bool
  | .allOf ms => !ms.isEmpty && cleanList ms
  | .anyOf ms => !ms.isEmpty && cleanList ms
  | .not (.allOf (_ :: _ :: _)) => false
  | .not (.anyOf (_ :: _ :: _)) => false
  | .not m => clean m
  | .hasItem m => clean m
  | .hasEntry _ m => clean m
  | .hasLength m => clean m
  | .hasAllItems m => clean m
  | .isType _ m => clean m
  | .hidden m => clean m
  | .described _ m => clean m
  | _ => true
def cleanList : List M → Bool
  | [] => true
  | m :: ms => clean m && cleanList ms
end

/-- the description as one number (any function of the text would do: equal texts give equal numbers) -/
def encode : Str → Nat
  | [] => 0
  | c :: cs => (c.toNat + 1) + 1114113 * encode cs

def keyOf (m : M) : Nat := encode (describe m Tr.plain)

/-- the accepted subset of a list of values as a bit mask -/
def accBits (m : M) : List Val → Nat
  | [] => 0
  | v :: vs => (if accepts m v then 1 else 0) + 2 * accBits m vs

def rows (u : List M) : List Inj.Row := (u.filter clean).map fun m => (keyOf m, accBits m domain)

theorem accBits_inj (m₁ m₂ : M) : ∀ (vs : List Val), accBits m₁ vs = accBits m₂ vs →
    ∀ v ∈ vs, accepts m₁ v = accepts m₂ v
  | [], _, v, hv => by cases hv
  | w :: ws, h, v, hv => by
    simp only [accBits] at h
    have h1 : accepts m₁ w = accepts m₂ w ∧ accBits m₁ ws = accBits m₂ ws := by
      revert h
      cases accepts m₁ w <;> cases accepts m₂ w <;> simp <;> omega
    rcases List.mem_cons.mp hv with hv | hv
    · subst hv; exact h1.1
    · exact accBits_inj m₁ m₂ ws h1.2 v hv

/-- the finite check: the table of (description, accepted set) of the clean part of the universe,
    sorted by description, has equal accepted sets wherever neighbours have equal descriptions -/
theorem universe2_table_checked : Inj.chainOk (Inj.msort 20 (rows universe2)) = true := by
  decide +kernel

/--
  **Bounded faithfulness (`_partial`)**: for any two matchers of the universe (all expressions of
  depth ≤ 2 over `leaves`, `not_`, `has_item`, `has_entry`, `all_of`, `any_of`) outside the two known
  classes, equal descriptions imply that they accept exactly the same values of the separating domain.

  Full-strength statement (without the two `clean` hypotheses):
    `∀ m₁ ∈ universe2, ∀ m₂ ∈ universe2, describe m₁ Tr.plain = describe m₂ Tr.plain →
       ∀ v ∈ domain, accepts m₁ v = accepts m₂ v`
  is REFUTED on the current code by `faithful_refuted_not_over_composite` (D14) and
  `faithful_refuted_empty_composites` (D15) below; `clean` excludes exactly those two classes.
-/
theorem faithful_universe2_partial :
    ∀ m₁ ∈ universe2, ∀ m₂ ∈ universe2, clean m₁ = true → clean m₂ = true →
      (describeSt false m₁ Tr.plain).1 = (describeSt false m₂ Tr.plain).1 →
      ∀ v ∈ domain, accepts m₁ v = accepts m₂ v := by
  intro m₁ h₁ m₂ h₂ c₁ c₂ hd v hv
  simp only [describeSt_fixed] at hd
  have hk : keyOf m₁ = keyOf m₂ := by unfold keyOf; rw [hd]
  have hr₁ : (keyOf m₁, accBits m₁ domain) ∈ rows universe2 :=
    List.mem_map.mpr ⟨m₁, List.mem_filter.mpr ⟨h₁, c₁⟩, rfl⟩
  have hr₂ : (keyOf m₂, accBits m₂ domain) ∈ rows universe2 :=
    List.mem_map.mpr ⟨m₂, List.mem_filter.mpr ⟨h₂, c₂⟩, rfl⟩
  have := Inj.functional_of_sorted_check 20 (rows universe2) universe2_table_checked _ hr₁ _ hr₂ hk
  exact accBits_inj m₁ m₂ domain this v hv

/-- size of the universe and of its clean part; the guard is far from vacuous -/
example : universe2.length = 1082 := by decide +kernel
example : (universe2.filter clean).length = 894 := by decide +kernel

/-- D14 (open finding): `not_(all_of(a, b))` and `all_of(not_(a), not_(b))` — both in the universe —
    have the same description and accept different values (`2` is accepted only by the former… the
    sentence states the wrong De Morgan dual). -/
theorem faithful_refuted_not_over_composite :
    (describeSt false (.not (.allOf [.equalTo (.int 1), .cmp (.ord .gt) (.int 0)])) Tr.plain).1 =
      (describeSt false (.allOf [.not (.equalTo (.int 1)), .not (.cmp (.ord .gt) (.int 0))]) Tr.plain).1 ∧
    accepts (.not (.allOf [.equalTo (.int 1), .cmp (.ord .gt) (.int 0)])) (.int 2) ≠
      accepts (.allOf [.not (.equalTo (.int 1)), .not (.cmp (.ord .gt) (.int 0))]) (.int 2) ∧
    (.int 2) ∈ domain := by
  refine ⟨by decide, by decide, by simp [domain]⟩

/-- D15 (open finding): `all_of()` accepts everything, `any_of()` nothing; both are described as ":". -/
theorem faithful_refuted_empty_composites :
    (describeSt false (.allOf []) Tr.plain).1 = (describeSt false (.anyOf []) Tr.plain).1 ∧
    (describeSt false (.allOf []) Tr.plain).1 = c!":" ∧
    ∀ v, accepts (.allOf []) v = true ∧ accepts (.anyOf []) v = false := by
  refine ⟨by decide, by decide, fun v => ⟨rfl, rfl⟩⟩

/-- D18 (open finding, outside the universe above: needs a string leaf with a quote in its argument):
    `starts_with` puts its argument between quotes without escaping it, so one leaf can read exactly
    like a composite of two leaves that accepts other values. -/
theorem faithful_refuted_unescaped_string_argument :
    (describeSt false (.anyOf [.startsWith c!"a", .startsWith c!"b"]) Tr.plain).1 =
      (describeSt false (.startsWith c!"a\" or to start with \"b") Tr.plain).1 ∧
    accepts (.anyOf [.startsWith c!"a", .startsWith c!"b"]) (.str c!"a") ≠
      accepts (.startsWith c!"a\" or to start with \"b") (.str c!"a") := by decide

/-- D33 (open finding, outside the universe above: needs an expected dict with a key that is not a `str`): `json.dumps` writes the
    keys `1`, `None`, `True` as `"1"`, `"null"`, `"true"`, so `equal_to({1: "a"})` reads exactly like `equal_to({"1": "a"})` and
    accepts other values. -/
theorem faithful_refuted_dict_key_type :
    (describeSt false (.equalTo (.dict [.int 1] [.str c!"a"])) Tr.plain).1 =
      (describeSt false (.equalTo (.dict [.str c!"1"] [.str c!"a"])) Tr.plain).1 ∧
    accepts (.equalTo (.dict [.int 1] [.str c!"a"])) (.dict [.int 1] [.str c!"a"]) ≠
      accepts (.equalTo (.dict [.str c!"1"] [.str c!"a"])) (.dict [.int 1] [.str c!"a"]) := by decide

theorem mem_level_not {prev : List M} {m : M} (h : m ∈ prev) : M.not m ∈ level prev := by
  simp only [level, unary, List.mem_append, List.mem_flatMap, List.mem_map, List.mem_cons]
  exact Or.inl (Or.inl (Or.inl (Or.inl (Or.inl (Or.inr ⟨M.not, Or.inl rfl, m, h, rfl⟩)))))
theorem mem_level_leaf {prev : List M} {m : M} (h : m ∈ leaves) : m ∈ level prev := by
  simp only [level, List.mem_append]
  exact Or.inl (Or.inl (Or.inl (Or.inl (Or.inl (Or.inl h)))))
theorem mem_level_allOf2 {prev : List M} {a b : M} (ha : a ∈ prev) (hb : b ∈ prev) : M.allOf [a, b] ∈ level prev := by
  simp only [level, List.mem_append, List.mem_flatMap, List.mem_map]
  exact Or.inl (Or.inr ⟨a, ha, b, hb, rfl⟩)
theorem mem_level_empty (prev : List M) : M.allOf [] ∈ level prev ∧ M.anyOf [] ∈ level prev := by
  simp only [level, List.mem_append, List.mem_cons]
  exact ⟨Or.inl (Or.inl (Or.inl (Or.inl (Or.inr (Or.inl trivial))))), Or.inl (Or.inl (Or.inl (Or.inl (Or.inr (Or.inr (Or.inl trivial))))))⟩

/-- the witnesses are members of the universe (so they do refute the full-strength bounded statement) -/
example : M.not (.allOf [.equalTo (.int 1), .cmp (.ord .gt) (.int 0)]) ∈ universe2 :=
  mem_level_not (mem_level_allOf2 (by simp [leaves]) (by simp [leaves]))
example : M.allOf [.not (.equalTo (.int 1)), .not (.cmp (.ord .gt) (.int 0))] ∈ universe2 :=
  mem_level_allOf2 (mem_level_not (by simp [leaves])) (mem_level_not (by simp [leaves]))
example : M.allOf [] ∈ universe2 ∧ M.anyOf [] ∈ universe2 := mem_level_empty _

end LccModel.C17

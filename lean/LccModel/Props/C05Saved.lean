/-
  C05 — the SAVED report (report.js) does not depend on the schedule either.

  Every save — the intermediate ones a saving strategy triggers (at_each_test, at_each_failed_test, at_each_log, every_Ns)
  and the final one — writes `json.dumps(serialize_report_into_json(report))`: a function of the report as it is at that
  moment, read through the rank-sorted accessors (`Serial.toJson` is defined on `Writer.view`); the file on disk after the
  run is the text of the LAST save, i.e. of the final report.  Hence, with `C05.view_independent_of_arrival_order`: two
  runs whose final reports have the same content (whatever the order in which results arrived, whatever the moments at
  which intermediate saves happened) leave the same file, generation time aside.

  Tie to the code: run-level runs with the REAL json backend attached and a saving strategy (`observe.run_project(
  file_backends=…, saving=…)`), the saved file read back by the real `load_report` and compared with the file saved by the
  1-thread run (`C05/saved-report-differs`).
-/
import LccModel.Lemmas.WriterOrder
import LccModel.Model.Serial
import LccModel.Model.JsonRender

namespace LccModel.C05Saved
open LccModel.Report LccModel.Writer LccModel.Serial

/-- Same content + pairwise distinct sibling ranks ⇒ the same JSON value is serialized, for every generation time. -/
theorem saved_json_independent_of_arrival_order {r₁ r₂ : Report} (h : SameContent r₁ r₂) (hd : DistinctSiblingRanks r₁)
    (g : Time) : toJson g r₁ = toJson g r₂ := by
  unfold toJson
  rw [view_eq_of_sameContent h hd, h.title, h.info, h.nbThreads, h.startTime, h.endTime, h.setup, h.teardown]

/-- … hence the same file text (compact or indented, with or without the `var reporting_data = ` prefix) -/
theorem saved_file_independent_of_arrival_order {r₁ r₂ : Report} (h : SameContent r₁ r₂) (hd : DistinctSiblingRanks r₁)
    (g : Time) (a : JsonFile.Atoms) (o : JsonFile.Opts) :
    JsonFile.fileText a o (toJson g r₁) = JsonFile.fileText a o (toJson g r₂) := by
  rw [saved_json_independent_of_arrival_order h hd g]

/-- A save has no memory: what a sequence of saves leaves on disk is the text of the last one — the reports saved before
    (the moments at which a saving strategy fired) do not matter. -/
theorem file_after_saves_is_the_last_save (g : Time) (a : JsonFile.Atoms) (o : JsonFile.Opts) (earlier : List Report)
    (final : Report) :
    ((earlier ++ [final]).map (fun r => JsonFile.fileText a o (toJson g r))).getLast? =
      some (JsonFile.fileText a o (toJson g final)) := by
  simp

end LccModel.C05Saved

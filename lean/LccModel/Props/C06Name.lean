/-
  C06, last sentence — "… the attachment files the report references exist on disk …": part (f) of the C06 theorems,
  the NAMES.  The report references `attachName n filename`; the file is created under `stored n filename` in the
  `attachments` directory (M14d `Model/AttachName.lean`; `filename` = whatever the test passes: `%`, `#`, `?`, blanks,
  quotes, any script, leading dots, further digits and `_`, any length).  The file system's part — names it refuses —
  is the API layer M3a (`Model/SessionApi.lean`, `Call.attachFile`).

  Property theorems only (helper lemmas: `Lemmas/AttachName.lean`, `Lemmas/SessionApi.lean`).
-/
import LccModel.Lemmas.AttachName
import LccModel.Lemmas.SessionApi

namespace LccModel.C06Name
open LccModel.Session LccModel.SessionApi LccModel.AttachName

/-- **`stored_name_determines_counter_and_name`** — for ALL counters and ALL given names (any characters, any length):
    the stored name `"%04d_%s" % (n, filename)` determines both the counter and the given name.  In particular two
    attachments never share a file, whatever they are called (the same name twice, a name that looks like a stored
    name `0002_f.txt`, names differing before their last 255 characters only). -/
theorem stored_name_determines_counter_and_name {n m : Nat} {f g : List Char} (h : stored n f = stored m g) :
    n = m ∧ f = g := stored_inj h

/-- **`referenced_path_is_stored_name`** — the path the `LogAttachmentEvent` (the report, every backend) carries is the
    attachments directory followed by the very name the file is created under: character for character, nothing
    escaped, nothing cut. -/
theorem referenced_path_is_stored_name (n : Nat) (f : String) :
    (attachName n f).toList = "attachments/".toList ++ stored n f.toList := by
  simp [attachName, String.toList_append, String.toList_ofList]

/-- **`attachment_path_injective`** — the same on the strings the events carry. -/
theorem attachment_path_injective {n m : Nat} {f g : String} (h : attachName n f = attachName m g) : n = m ∧ f = g := by
  have h' := congrArg String.toList h
  rw [referenced_path_is_stored_name, referenced_path_is_stored_name] at h'
  have := stored_inj (List.append_cancel_left h')
  exact ⟨this.1, String.toList_inj.mp this.2⟩

/-- distinct numbers (what `attachment_names_distinct` gives for every interleaving) are distinct paths, whatever the
    names given by the tests -/
theorem distinct_numbers_distinct_paths {n m : Nat} (hne : n ≠ m) (f g : String) : attachName n f ≠ attachName m g :=
  fun h => hne (attachment_path_injective h).1

set_option maxRecDepth 20000 in
/-- **What the counter prefix is for** (refutation of the variant that caps the stored name to 255 characters by keeping
    its END): the same 300-character name given twice is cut to the same stored name — the two files are one. -/
theorem cut_names_collide : ∃ n m f, n ≠ m ∧ cutStored n f = cutStored m f :=
  ⟨1, 2, List.replicate 300 'w', by decide, by decide⟩

/-- a one-call attachment whose stored name the file system takes is the core `attach` op -/
theorem storable_attachment_is_core_attach {s : St} {t : Nat} {f d : String} {img : Bool}
    (h : storable (s.attachCount + 1) f.toList = true) :
    stepCall s t (.attachFile f d img) = step s t (.attach f d img) :=
  stepCall_single s t _ _ (by simp [lower, h])

/-- **`refused_attachment_references_nothing`** — a one-call attachment whose stored name the file system refuses (too
    long in BYTES with its counter prefix, or not a single path component) is always accepted (by any thread, with or
    without a cursor), consumes its number, and changes nothing else: no event is fired, no cursor, held event or
    failure mark is touched, no block stays open.  The next attachment gets the next number. -/
theorem refused_attachment_references_nothing {s : St} {t : Nat} {f d : String} {img : Bool}
    (h : storable (s.attachCount + 1) f.toList = false) :
    ∃ s', stepCall s t (.attachFile f d img) = .ok s' ∧ s'.fired = s.fired ∧ s'.cursors = s.cursors ∧
      s'.saved = s.saved ∧ s'.failures = s.failures ∧ s'.prepared = s.prepared ∧ s'.attachCount = s.attachCount + 1 := by
  refine ⟨{ s with attachCount := s.attachCount + 1 }, ?_, rfl, rfl, rfl, rfl, rfl, rfl⟩
  simp [stepCall, lower, h, runOps, step, List.eraseP]

/-- **`call_sequences_are_op_sequences`** — every sequence of API calls (with refused attachments, `detached_step`
    blocks) runs exactly like the core op sequence `lowerAll` gives: the theorems of parts (a)–(d), stated for every op
    sequence, hold for every call sequence. -/
theorem call_sequences_are_op_sequences (cs : List (Nat × Call)) (s : St) :
    runCalls s cs = runOps s (lowerAll s cs) := runCalls_eq_runOps cs s

/-- non-vacuity: names with `%`, `#`, `?`, a name that looks like a stored name, counters beyond four digits -/
example : attachName 7 "core #1.txt" = "attachments/0007_core #1.txt" := by decide
example : attachName 12 "a%20b?.txt" = "attachments/0012_a%20b?.txt" := by decide
example : attachName 1 "0002_f.txt" = "attachments/0001_0002_f.txt" := by decide
example : attachName 12345 "" = "attachments/12345_" := by decide
set_option maxRecDepth 20000 in
example : storable 1 (List.replicate 250 'v') = true ∧ storable 1 (List.replicate 251 'v') = false
    ∧ storable 1 (List.replicate 126 'é') = false ∧ storable 1 "sub/dir.txt".toList = false
    ∧ storable 10000 (List.replicate 250 'v') = false := by decide
set_option maxRecDepth 20000 in
/-- the same too-long name twice, by two threads: nothing fired, the counter went on, the ordinary attachment after
    them is number 3 -/
example : (match runCalls St.init [(1, .op (.startTest ["s", "t"] default)), (1, .op (.setStep "a")),
      (1, .attachFile (String.ofList (List.replicate 251 'w')) "d" false), (2, .attachFile (String.ofList (List.replicate 251 'w')) "d" false),
      (1, .attachFile "f.txt" "d" false)] with
    | .ok s => (s.attachCount, s.fired.length, s.prepared.length) | .error _ => (0, 0, 0)) = (3, 3, 0) := by decide

end LccModel.C06Name

/-
  C01, declaration part — "… a run … contains every scheduled test exactly once … and a disabled test is
  executed only under --force-disabled", quantified over "all suite trees (… PARAMETRIZED and disabled
  tests, depends_on edges …)".

  The run-level theorems (`Props/C01.lean`, `C01Graph.lean`, `C01Run.lean`) speak of the tree the runner
  receives.  This file covers the step before: how DECLARED tests (decorated methods of suite classes)
  become that tree — model `Model/Expand.lean` of the decorators and of `suite/loader.py`.  Every theorem
  quantifies over all declarations (any metadata, any parameter sets, any naming scheme incl. arbitrary
  user callables), all class trees (any nesting, hidden and disabled classes).

    1. one test per parameter set (one test when not parametrized, none when hidden);
    2. every expansion inherits the disabled flag and reason, the tags, properties, links, rank and
       dependencies of its declaration, and carries its own parameter set;
    3. under the default naming scheme the expansions of a declaration get pairwise distinct names
       (`name_1 … name_k`) and descriptions;
    4. whenever the loader model succeeds its tree IS the specified expansion (`expandSuite`);
    5. the run-level project of an expanded tree schedules exactly one test task per expansion
       (`C01Graph.test_tasks_exact`), and an expansion of a disabled declaration is disabled at run time
       unless --force-disabled (`Run.testDisabledNow`), so that `C01Run.skipped_or_disabled_runs_nothing` applies.
-/
import LccModel.Lemmas.ExpandRank
import LccModel.Props.C01Graph

namespace LccModel.C01Expand
open LccModel.Report (Path)
open LccModel.Loader (PVal Params Seg Meta Disabled LoadErr)
open LccModel.Expand LccModel.Run LccModel.TaskGraph

/-! ### 1. How many tests a declaration stands for -/

/-- **Expansion count**: a visible declaration stands for one test per parameter set — exactly one test
    when it is not parametrized, none when it is hidden. -/
theorem expansion_count (d : TestDecl) :
    (expand d).length =
      if d.hidden then 0 else match d.param with
        | none => 1
        | some (sets, _) => sets.length :=
  length_expand d

/-- a visible declaration that is not parametrized is one test: `_load_test` of it -/
theorem plain_declaration_is_one_test (d : TestDecl) (hv : d.hidden = false) (hp : d.param = none) :
    expand d = [baseTest d] := by
  unfold expand; simp [hv, hp]

/-- a visible parametrized declaration: the k-th test carries the k-th parameter set, nothing is dropped,
    nothing is added — whatever the naming scheme (also with 0 sets: no test at all) -/
theorem parametrized_declaration_one_test_per_set (d : TestDecl) (sets : List Params) (n : Naming)
    (hv : d.hidden = false) (hp : d.param = some (sets, n)) :
    (expand d).length = sets.length ∧ (expand d).map (·.params) = sets := by
  unfold expand; simp only [hv, hp, Bool.false_eq_true, if_false]
  exact ⟨length_expandSets _ _ _ _, params_expandSets _ _ _ _⟩

/-! ### 2. What every expansion inherits -/

/-- **Inheritance**: every test a declaration stands for has the declaration's `disabled` value (flag AND
    reason), its tags, properties, links and dependencies — parametrized or not, for every naming scheme — and keeps
    the declaration's PLACE among its siblings: `t.rank = d.rank` is the integer part of the loaded rank.  Since fix
    N5 the rank itself is no longer copied verbatim: the variant of index `idx` gets `md.rank + idx / (idx + 1)`,
    modelled by the pair `Test.key = (rank, sub)`; see `expansion_rank_position` below. -/
theorem expansion_inherits (d : TestDecl) (t : Test) (ht : t ∈ expand d) :
    t.disabled = d.disabled ∧ t.md.tags = d.md.tags ∧ t.md.props = d.md.props ∧ t.md.links = d.md.links ∧
    t.deps = d.deps ∧ t.rank = d.rank := by
  unfold expand at ht
  cases hh : d.hidden with
  | true => simp [hh] at ht
  | false =>
    simp only [hh, Bool.false_eq_true, if_false] at ht
    cases hp : d.param with
    | none =>
      simp only [hp, List.mem_singleton] at ht
      subst ht; exact ⟨rfl, rfl, rfl, rfl, rfl, rfl⟩
    | some sn =>
      obtain ⟨sets, n⟩ := sn
      simp only [hp] at ht
      obtain ⟨h1, h2, h3, h4, _⟩ := mem_expandSets (baseTest d) n sets 1 t ht
      refine ⟨h3, ?_, ?_, ?_, h4, h1⟩ <;> rw [h2] <;> rfl

/-- **Rank after fix N5**: the expansions of a declaration stay at the declaration's position (`rank`), and among
    themselves follow the order of the parameter sets (`sub` strictly increasing along `expand d`); a plain test is
    `(d.rank, 0)`. -/
theorem expansion_rank_position (d : TestDecl) :
    (∀ t ∈ expand d, t.rank = d.rank) ∧ (expand d).Pairwise (fun a b => a.sub < b.sub) ∧
    (d.param = none → ∀ t ∈ expand d, t.sub = 0) := by
  refine ⟨fun t ht => (expansion_inherits d t ht).2.2.2.2.2, ?_, ?_⟩
  · have hr : ∀ t ∈ expand d, t.rank = d.rank := fun t ht => (expansion_inherits d t ht).2.2.2.2.2
    have hp := expand_pairwise d
    have : ∀ l : List Test, (∀ t ∈ l, t.rank = d.rank) → l.Pairwise (fun a c => keyLt a c = true) → l.Pairwise (fun a b => a.sub < b.sub) := by
      intro l
      induction l with
      | nil => intro _ _; exact List.Pairwise.nil
      | cons x rest ih =>
        intro hl hpw
        rw [List.pairwise_cons] at hpw ⊢
        refine ⟨fun c hc => ?_, ih (fun t ht => hl t (List.mem_cons_of_mem _ ht)) hpw.2⟩
        rcases keyLt_iff.mp (hpw.1 c hc) with h | ⟨_, h⟩
        · rw [hl x (List.mem_cons_self ..), hl c (List.mem_cons_of_mem _ hc)] at h; omega
        · exact h
    exact this _ hr hp
  · intro hp t ht
    unfold expand at ht
    split at ht
    · cases ht
    · simp only [hp, List.mem_singleton] at ht; subst ht; rfl

/-- in particular: **the expansions of a disabled declaration are all disabled** (and of an enabled one, enabled) -/
theorem expansion_disabled_iff (d : TestDecl) (t : Test) (ht : t ∈ expand d) :
    t.disabled.isDisabled = d.disabled.isDisabled := by
  rw [(expansion_inherits d t ht).1]

/-- every expansion of a parametrized declaration carries one of the declared parameter sets; of a plain one, none -/
theorem expansion_parameters (d : TestDecl) (t : Test) (ht : t ∈ expand d) :
    match d.param with
    | none => t.params = []
    | some (sets, _) => t.params ∈ sets := by
  unfold expand at ht
  cases hh : d.hidden with
  | true => simp [hh] at ht
  | false =>
    simp only [hh, Bool.false_eq_true, if_false] at ht
    cases hp : d.param with
    | none => simp only [hp, List.mem_singleton] at ht; subst ht; rfl
    | some sn =>
      obtain ⟨sets, n⟩ := sn
      simp only [hp] at ht
      exact (mem_expandSets (baseTest d) n sets 1 t ht).2.2.2.2

/-! ### 3. The default naming scheme -/

/-- under `_default_naming_scheme` the tests are named `name_1, …, name_k` and described `description #1, …` -/
theorem default_names_exact (d : TestDecl) (sets : List Params) (hv : d.hidden = false) (hp : d.param = some (sets, .default)) :
    (expand d).map (·.name) = (List.range' 1 sets.length).map (fun i => d.testName ++ "_" ++ toString i) ∧
    (expand d).map (·.desc) = (List.range' 1 sets.length).map (fun i => d.testDesc ++ " #" ++ toString i) := by
  unfold expand; simp only [hv, hp, Bool.false_eq_true, if_false]
  rw [names_expandSets, descs_expandSets]
  constructor
  · rw [← List.zipIdx_map_snd 1 sets, List.map_map]; rfl
  · rw [← List.zipIdx_map_snd 1 sets, List.map_map]; rfl

/-- **Distinctness**: the expansions of one declaration have pairwise distinct names and pairwise distinct
    descriptions under the default naming scheme (so `Suite.add_test` never rejects them against each other). -/
theorem default_names_distinct (d : TestDecl) (sets : List Params) (hp : d.param = some (sets, .default)) :
    ((expand d).map (·.name)).Nodup ∧ ((expand d).map (·.desc)).Nodup := by
  unfold expand
  cases d.hidden with
  | true => simp
  | false =>
    simp only [hp, Bool.false_eq_true, if_false]
    rw [names_expandSets, descs_expandSets]
    exact ⟨nodup_zipIdx_map (fun i => (baseTest d).name ++ "_" ++ toString i) (fun i j h => append_toString_inj _ h) sets 1,
           nodup_zipIdx_map (fun i => (baseTest d).desc ++ " #" ++ toString i) (fun i j h => append_toString_inj _ h) sets 1⟩

/-! ### 4. The loader model returns the specified expansion -/

/-- the tests of the suite a class stands for are the expansions of its test methods, in declaration order -/
theorem suite_tests_are_expansions (h : ClsHead) (tests : List TestDecl) (subs : List SuiteDecl) :
    (expandSuite (.mk h tests subs)).tests = (testOrder tests).flatMap expand := by
  rw [expandSuite]; rfl

/-- … every test of the suite comes from a declaration of the class, every expansion of every declaration is there -/
theorem mem_suite_tests_iff (h : ClsHead) (tests : List TestDecl) (subs : List SuiteDecl) (t : Test) :
    t ∈ (expandSuite (.mk h tests subs)).tests ↔ ∃ d ∈ tests, t ∈ expand d := by
  rw [suite_tests_are_expansions, List.mem_flatMap]
  constructor
  · rintro ⟨d, hd, ht⟩; exact ⟨d, Loader.mem_discover.mp hd, ht⟩
  · rintro ⟨d, hd, ht⟩; exact ⟨d, Loader.mem_discover.mpr hd, ht⟩

/-- **Whenever `load_suite_from_class` (model `loadSuite`: loader.py with every exception it can raise)
    succeeds, the suite it returns is `expandSuite` of the class** — so 1–3 hold for every loaded tree. -/
theorem load_ok_is_expansion (c : SuiteDecl) (s : Suite) (h : loadSuite c = .ok s) : s = expandSuite c :=
  loadSuite_ok c s h

/-- the same for `load_suites_from_classes` on a list of top-level classes -/
theorem load_all_ok_is_expansion (cs : List SuiteDecl) (ss : List Suite) (h : loadSuites cs = .ok ss) : ss = expandSuites cs :=
  loadSuites_ok cs ss h

/-- a disabled declaration in a loaded suite: every test it stands for is in the suite, disabled, with the declared reason -/
theorem loaded_suite_keeps_disabled (hd : ClsHead) (tests : List TestDecl) (subs : List SuiteDecl) (s : Suite)
    (h : loadSuite (.mk hd tests subs) = .ok s) (d : TestDecl) (hmem : d ∈ tests) (t : Test) (ht : t ∈ expand d) :
    t ∈ s.tests ∧ t.disabled = d.disabled := by
  rw [load_ok_is_expansion _ s h]
  exact ⟨(mem_suite_tests_iff hd tests subs t).mpr ⟨d, hmem, ht⟩, (expansion_inherits d t ht).1⟩

/-! ### 5. The run-level project of an expanded tree -/

/-- **One test task per expansion**: the test tasks of the task graph `build_tasks` builds for the expanded
    classes are, in task-list order, exactly the expansions with their paths (each suite's own tests in
    declaration order before those of its sub-suites) — for all class trees, thread counts and options. -/
theorem expanded_test_tasks_exact (cs : List SuiteDecl) (n : Nat) (force stop : Bool) :
    (graphOf (projOf (expandSuites cs) n force stop)).tasks.filter (fun t => t.kind == .test) =
      (suitesTests [] (expandSuites cs)).map (fun pt => (⟨.test, pt.1⟩ : TaskId)) := by
  rw [C01Graph.test_tasks_exact]
  have h := projTests_projOf_paths (expandSuites cs) n force stop
  have e : ∀ l : List (Path × TestSpec), l.map (fun pt => (⟨.test, pt.1⟩ : TaskId)) = (l.map (·.1)).map (fun p => (⟨.test, p⟩ : TaskId)) := by
    intro l; rw [List.map_map]; rfl
  have e' : ∀ l : List (Path × Test), l.map (fun pt => (⟨.test, pt.1⟩ : TaskId)) = (l.map (·.1)).map (fun p => (⟨.test, p⟩ : TaskId)) := by
    intro l; rw [List.map_map]; rfl
  rw [e, e', h]

/-- … so their number is the number of expansions the visible classes declare -/
theorem expanded_test_task_count (cs : List SuiteDecl) (n : Nat) (force stop : Bool) :
    ((graphOf (projOf (expandSuites cs) n force stop)).tasks.filter (fun t => t.kind == .test)).length =
      ((cs.filter (fun c => !c.head.hidden)).map declCount).sum := by
  rw [expanded_test_tasks_exact, List.length_map, length_suitesTests_expandSuites]

/-- the same for any tree the loader model returns -/
theorem loaded_test_tasks_exact (cs : List SuiteDecl) (ss : List Suite) (h : loadSuites cs = .ok ss) (n : Nat) (force stop : Bool) :
    (graphOf (projOf ss n force stop)).tasks.filter (fun t => t.kind == .test) =
      (suitesTests [] (expandSuites cs)).map (fun pt => (⟨.test, pt.1⟩ : TaskId)) := by
  rw [load_all_ok_is_expansion cs ss h]; exact expanded_test_tasks_exact cs n force stop

/-- **An expansion of a disabled declaration is disabled at run time exactly when --force-disabled is off**
    (in whatever suite it sits): its task then emits the single `disabled` event and runs nothing
    (`C01Run.skipped_or_disabled_runs_nothing`). -/
theorem expansion_of_disabled_is_disabled_now (P : Proj) (sv : SuiteView) (d : TestDecl) (t : Test) (ht : t ∈ expand d)
    (hd : d.disabled.isDisabled = true) : testDisabledNow P sv (toSpecTest t) = !P.forceDisabled := by
  unfold testDisabledNow toSpecTest
  simp [expansion_disabled_iff d t ht, hd]

/-- … and an expansion of an enabled declaration is disabled at run time only through an enclosing disabled suite -/
theorem expansion_of_enabled_disabled_only_by_suite (P : Proj) (sv : SuiteView) (d : TestDecl) (t : Test) (ht : t ∈ expand d)
    (hd : d.disabled.isDisabled = false) : testDisabledNow P sv (toSpecTest t) = (sv.inhDisabled && !P.forceDisabled) := by
  unfold testDisabledNow toSpecTest
  simp [expansion_disabled_iff d t ht, hd]

/-! ### Non-vacuity -/

open Sample

/-- the disabled parametrized declaration of the seeded change C01-3: three tests, all disabled with the reason,
    all tagged, all depending on `payments.regular`, each with its own currency -/
example : (expand pay).map (fun t => (t.name, t.desc, t.disabled, t.params)) =
    [("pay_1", "Pay with currency #1", .reason "sandbox is down", [("currency", .str "EUR")]),
     ("pay_2", "Pay with currency #2", .reason "sandbox is down", [("currency", .str "USD")]),
     ("pay_3", "Pay with currency #3", .reason "sandbox is down", [("currency", .str "GBP")])] := by decide
example : (expand pay).all (fun t => t.md.tags == ["net"] && t.deps == [.path ["payments", "regular"]] && t.rank == 3) = true := by decide
example : (expand regular).length = 1 ∧ (expand hiddenOne).length = 0 ∧ (expand noSets).length = 0 := by decide
example : (expand byFormat).map (fun t => (t.name, t.desc)) = [("conv_1_x", "Convert 1 to x"), ("conv_-4_y", "Convert -4 to y")] := by decide
/-- a user callable as naming scheme -/
example : (expand { regular with param := some ([[("i", .int 1)], [("i", .int 2)]], .custom (fun n d _ nb => (n ++ "!" ++ toString nb, d))) }).map (·.name)
    = ["regular!1", "regular!2"] := by decide

/-- the whole class: tests in declaration (rank) order although `dir()` lists them alphabetically; the hidden
    declaration, the hidden class and the declaration without parameter sets contribute nothing -/
example : pathsOf (expandSuites [payments]) =
    [["payments", "regular"], ["payments", "plain_disabled"], ["payments", "pay_1"], ["payments", "pay_2"], ["payments", "pay_3"],
     ["payments", "conv_1_x"], ["payments", "conv_-4_y"], ["payments", "refunds", "full_1"], ["payments", "refunds", "full_2"]] := by decide
example : declCount payments = 9 := by decide
example : (loadSuites [payments]).toOption.map pathsOf = some (pathsOf (expandSuites [payments])) := by decide
/-- the loader model does reject: `x_1` declared twice -/
example : errOf (loadSuite clash) = some (.dupTestName "x_1") := by decide
example : errOf (loadSuite (.mk { attr := "S", rank := 2 } [{ hiddenOne with param := some ([[("i", .int 1)]], .format [.field "j"] []) }] []))
    = some (.formatKeyError "j") := by decide

/-- run level: nine test tasks; without --force-disabled the five tests declared disabled (directly or through the
    disabled class `refunds`) are disabled, with it none is -/
example : ((graphOf (projOf (expandSuites [payments]) 2 false false)).tasks.filter (fun t => t.kind == .test)).length = 9 := by
  rw [expanded_test_task_count]; decide
example : ((allSuites (projOf (expandSuites [payments]) 2 false false)).flatMap (fun sv =>
      sv.spec.tests.map (fun ts => (ts.name, testDisabledNow (projOf (expandSuites [payments]) 2 false false) sv ts)))) =
    [("regular", false), ("plain_disabled", true), ("pay_1", true), ("pay_2", true), ("pay_3", true), ("conv_1_x", false),
     ("conv_-4_y", false), ("full_1", true), ("full_2", true)] := by decide
example : ((allSuites (projOf (expandSuites [payments]) 2 true false)).flatMap (fun sv =>
      sv.spec.tests.map (fun ts => testDisabledNow (projOf (expandSuites [payments]) 2 true false) sv ts))).all (· == false) = true := by decide

end LccModel.C01Expand

/-
  C13 — Suite discovery finds exactly the declared tests: the part played by the *attribute scan* of a suite class
  instance (`helpers/introspection.py`: `_get_unbound_object_attr`, `_is_property`, `_get_class_object_attributes`,
  behind `_get_test_symbols` / `_get_sub_suites` of `load_suite_from_class`).

  "Loading a project yields exactly the declared tests …" read on a suite class as it is written in practice: next to
  the `@lcc.test` methods and nested `@lcc.suite` classes the class — or a base / mixin class it inherits from — defines
  properties (`session`, `api`, `entry_point`, …) whose getters work only while a test runs.  Discovery must not evaluate
  them: a getter that raises would make the whole load die with a raw exception, a getter that returns a bound test method
  or a suite class would add a member nobody declared.  The real code decides "is a property" by walking the MRO, so the
  property is skipped wherever in the MRO it is defined.

  Property theorems only.  Model: `Model/ClassAttrs.lean` (the MRO as a list of class dicts, the getters' behaviour as
  explicit input, the scan `objectAttributes`, the seeded own-dict-only variant for the refutation examples);
  helper lemmas: `Lemmas/ClassAttrs.lean`.  The decision `listedName` is extracted from the real
  `get_object_attributes` on every run (`Generated/C13TablesCheck.lean`: `property_scan_agrees`).
  Every theorem quantifies over *all* MROs (any number of bases, any entries, any getters) and all names.
-/
import LccModel.Lemmas.ClassAttrs

namespace LccModel.C13Attrs
open LccModel.Loader LccModel.ClassAttrs

/-! ## 1. The scan never evaluates a property -/

/-- **The scan never raises** ("Loading a project yields …": the load is not killed by an attribute of the class):
    for every MRO and every getter behaviour — raising ones included — the generator runs to its end. -/
theorem scan_never_raises (mro : MRO) : ∃ l, objectAttributes mro = .ok l :=
  ⟨_, scan_closed mro⟩

/-- **Closed form of the scan**: one entry per name of `dir()` that does not start with `__` and whose first definition
    in the MRO is not a property — the entry itself; no getter's result occurs. -/
theorem scan_exact (mro : MRO) : objectAttributes mro = .ok ((dirNames mro).filterMap (yieldOf mro)) :=
  scan_closed mro

/-- **A property is skipped at any depth of the MRO** ("… and nothing else"): a name `_is_property` holds for is not
    among the yielded names. -/
theorem property_skipped_at_any_depth (mro : MRO) (n : String) (h : isProperty mro n = true) :
    ∀ l, objectAttributes mro = .ok l → n ∉ l.map Prod.fst := by
  intro l hl hn
  rw [scan_closed mro] at hl
  cases hl
  obtain ⟨_, hy⟩ := (mem_scan_names_iff mro n).mp hn
  obtain ⟨p, hp⟩ := Option.isSome_iff_exists.mp hy
  rw [(yieldOf_some hp).2.2] at h
  cases h

/-- **Constructive form, depth `pre.length`**: if the classes `pre` before `c` in the MRO do not define `n` and `c`'s
    dict has `n` as a property, `_is_property` holds — whatever `pre.length` is, whatever the getter does, whatever the
    classes after `c` define. -/
theorem inherited_property_detected (pre post : MRO) (c : ClassDict) (n : String) (g : Getter)
    (hpre : ∀ d ∈ pre, n ∉ d.map Prod.fst) (hc : c.lookup n = some (.property g)) :
    isProperty (pre ++ c :: post) n = true := by
  unfold isProperty
  rw [unboundAttr_append_of_undefined pre _ hpre, unboundAttr_cons, hc]

/-- The same with the dict entry spelled out: `c = c₁ ++ (n, property g) :: c₂`. -/
theorem inherited_property_detected' (pre post : MRO) (c₁ c₂ : ClassDict) (n : String) (g : Getter)
    (hpre : ∀ d ∈ pre, n ∉ d.map Prod.fst) (hc : n ∉ c₁.map Prod.fst) :
    isProperty (pre ++ (c₁ ++ (n, .property g) :: c₂) :: post) n = true :=
  inherited_property_detected pre post _ n g hpre (lookup_insert_self _ c₁ c₂ hc)

/-- … and hence such a name is never yielded. -/
theorem inherited_property_not_yielded (pre post : MRO) (c : ClassDict) (n : String) (g : Getter)
    (hpre : ∀ d ∈ pre, n ∉ d.map Prod.fst) (hc : c.lookup n = some (.property g)) :
    ∀ l, objectAttributes (pre ++ c :: post) = .ok l → n ∉ l.map Prod.fst :=
  property_skipped_at_any_depth _ n (inherited_property_detected pre post c n g hpre hc)

/-- **What is yielded**: exactly the names of `dir()` that do not start with `__` and are not properties. -/
theorem yielded_iff (mro : MRO) (n : String) (l : List (String × Got)) (hl : objectAttributes mro = .ok l) :
    n ∈ l.map Prod.fst ↔ n ∈ dirNames mro ∧ dunder n = false ∧ isProperty mro n = false := by
  rw [scan_closed mro] at hl
  cases hl
  rw [mem_scan_names_iff]
  constructor
  · rintro ⟨hn, hy⟩
    obtain ⟨p, hp⟩ := Option.isSome_iff_exists.mp hy
    exact ⟨hn, (yieldOf_some hp).2⟩
  · rintro ⟨hn, hd, hp⟩
    refine ⟨hn, ?_⟩
    obtain ⟨e, he⟩ := unboundAttr_of_mem_dirNames hn
    unfold isProperty at hp
    unfold yieldOf
    rw [he] at hp ⊢
    cases e <;> simp_all

/-! ## 2. Discovery yields exactly the declared members -/

/-- **Members exact** ("exactly the declared tests", one class): what `_get_test_symbols` / `_get_sub_suites` are handed
    is, for every MRO, exactly the declared members — for each name of `dir()` not starting with `__` whose first
    definition in the MRO is a test method / suite class, that member, once; never an error, never a getter's result. -/
theorem members_exact (mro : MRO) : members mro = .ok (declaredMembers mro) := by
  unfold members declaredMembers
  rw [scan_closed mro]
  simp only [keepMembers, List.filterMap_filterMap]
  congr 1
  exact filterMap_congr' (fun n _ => yieldOf_member mro n)

/-- **Adding a property changes nothing** ("… and nothing else"): inserting `(p, property g)` at any position of any
    class dict of the MRO (`pre.length` = which class, `d₁.length` = where), for a name `p` defined nowhere in the MRO,
    leaves the discovered members unchanged — whatever the getter does. -/
theorem adding_property_preserves_members (pre post : MRO) (d₁ d₂ : ClassDict) (p : String) (g : Getter)
    (hfresh : ∀ d ∈ pre ++ (d₁ ++ d₂) :: post, p ∉ d.map Prod.fst) :
    members (pre ++ (d₁ ++ (p, .property g) :: d₂) :: post) = members (pre ++ (d₁ ++ d₂) :: post) := by
  rw [members_exact, members_exact, declaredMembers_insert_property pre post d₁ d₂ p g hfresh]

/-- **Python semantics, kept honest**: a name the suite class itself defines as a plain attribute or a member shadows a
    base's property of that name — `_is_property` is false, the attribute is scanned (and is the class's own entry). -/
theorem subclass_plain_override_unhides (own : ClassDict) (bases : MRO) (n : String) (e : ClassAttrs.Entry)
    (h : own.lookup n = some e) (he : e = .plain ∨ ∃ m, e = .member m) :
    isProperty (own :: bases) n = false := by
  unfold isProperty
  rw [unboundAttr_cons, h]
  rcases he with rfl | ⟨m, rfl⟩ <;> rfl

/-- … and `getattr` is then the class's own entry, no getter of a base is evaluated. -/
theorem subclass_member_override_got (own : ClassDict) (bases : MRO) (n : String) (m : Member)
    (h : own.lookup n = some (.member m)) : getattr (own :: bases) n = .ok (.member m) := by
  unfold getattr
  rw [unboundAttr_cons, h]

/-! ## 3. The decision-table function `listedName` (extracted from the real code on every run) -/

/-- The real scan evaluates no getter, for any MRO and any name. -/
theorem listedName_never_evaluates (mro : MRO) (n : String) : (listedName mro n).2 = false :=
  listedName_snd mro n

/-- The first component of `listedName` is "the scan yields the name". -/
theorem listedName_yields_iff (mro : MRO) (n : String) :
    (listedName mro n).1 = true ↔ ∃ l, objectAttributes mro = .ok l ∧ n ∈ l.map Prod.fst := by
  rw [listedName_fst, scan_closed mro]
  simp only [Bool.and_eq_true, List.contains_iff_mem]
  constructor
  · intro h
    exact ⟨_, rfl, (mem_scan_names_iff mro n).mpr h⟩
  · rintro ⟨l, hl, hn⟩
    cases hl
    exact (mem_scan_names_iff mro n).mp hn

/-! ## 4. Non-vacuity and refutation of the own-dict-only variant -/

/-! Example classes `exAddItem`, `exMroRaises`, `exMroReturns`: `Model/ClassAttrs.lean`. -/

/-- Real scan: fine, the two properties of the base are skipped. -/
example : okNames (objectAttributes exMroRaises) = some ["add_item", "api"] := by decide
example : okMemberNames (members exMroRaises) = some ["add_item"] := by decide
example : isProperty exMroRaises "session" = true ∧ isProperty exMroRaises "entry_point" = true := by decide

/-- Own-dict-only: the inherited `session` getter is evaluated and raises — the whole scan dies. -/
example : okNames (objectAttributesOwnDictOnly exMroRaises) = none := by decide
example : listedNameOwnDictOnly exMroRaises "session" = (false, true) := by decide
example : listedName exMroRaises "session" = (false, false) := by decide

/-- Own-dict-only with only the `returns` property: `add_item` is discovered twice. -/
example : okMemberNames (membersOwnDictOnly exMroReturns) = some ["add_item", "add_item"] := by decide
example : okMemberNames (members exMroReturns) = some ["add_item"] := by decide
example : listedNameOwnDictOnly exMroReturns "entry_point" = (true, true) := by decide

/-- Shadowing: the class's own plain `session` hides the base's property. -/
example : listedName [[("session", .plain)], [("session", .property .raises)]] "session" = (true, false) := by decide

/-- The shape of the generated obligation (`Generated/C13TablesCheck.lean`, `property_scan_agrees`) on a sample table. -/
example : ∀ r ∈ ([
    (([[("t", ClassAttrs.Entry.member (ClassAttrs.Member.test { attr := "t", rank := 1 }))],
       [("p", ClassAttrs.Entry.property ClassAttrs.Getter.raises)]], "p"), (false, false)),
    (([[("t", ClassAttrs.Entry.member (ClassAttrs.Member.test { attr := "t", rank := 1 }))],
       [("p", ClassAttrs.Entry.property (ClassAttrs.Getter.returns (ClassAttrs.Member.test { attr := "t", rank := 1 }))),
        ("__x", ClassAttrs.Entry.plain),
        ("Sub", ClassAttrs.Entry.member (ClassAttrs.Member.suite
          (Cls.mk { attr := "Sub", rank := 2 } [{ attr := "u", rank := 3 }] [])))]], "Sub"), (true, false)),
    (([[("t", ClassAttrs.Entry.member (ClassAttrs.Member.test { attr := "t", rank := 1 }))],
       [("h", ClassAttrs.Entry.plain), ("q", ClassAttrs.Entry.property ClassAttrs.Getter.value)]], "__x"),
      (false, false))] : List ((MRO × String) × (Bool × Bool))),
    listedName r.1.1 r.1.2 = r.2 := by decide +kernel

end LccModel.C13Attrs

/-
  C14 — A project that passes validation cannot fail for structural reasons.

  "Preparing a project (lcc check, lcc run) rejects, before anything executes, exactly the
   structurally invalid projects: unknown, cyclic, scope-inverted or wrongly used per-thread fixtures,
   forbidden fixture names, unknown, cyclic or unscheduled test dependencies, and violations of the
   metadata policy.  Any project it accepts, whose user code does not fail, runs to a report in which
   every test is passed or disabled."

  Property theorems only; helper lemmas are in `Lemmas/{Loops,Fixture,FixtureCheck,FixtureRun,Deps,Policy}.lean`.
  Models: M6 `Model/Fixture.lean`, M7 `Model/Deps.lean`, `Model/Policy.lean`, `Model/Prepare.lean`.

  * Part A–D (completeness): every check of `PreparedProject.create` succeeds IFF a declarative
    validity predicate holds; an error is always of a `ValidationError` class (never a `KeyError`,
    never the recursion bound) — for ALL registries / suites / dependency graphs / policies.
  * Part E (soundness, fixture machinery): for every accepted project, every `ScheduledFixtures`
    object the runner builds sets up without `LookupError` / `AssertionError`, and every look-up by a
    consumer (test arguments, `setup_suite` arguments, injected attributes) succeeds.
    The remaining half of the property's last sentence ("runs to a report in which every test is
    passed or disabled") needs the task-graph / scheduler models M1, M2, M5 (C01–C03) and is covered
    here by the correspondence stream `C14.run` only — see `design.d/C14.md`.
-/
import LccModel.Lemmas.FixtureRun
import LccModel.Lemmas.Deps
import LccModel.Lemmas.Policy
import LccModel.Model.Prepare

namespace LccModel.C14
open LccModel.Loops

/-! ## A. Fixture registry (`fixture.py`) -/
section Fixtures
open LccModel.Fixture

/-- The registry built by `_build_fixture_registry` is a dict: names are distinct. -/
theorem registry_names_distinct {ds : List Decl} {R : Registry} (h : build ds = .ok R) : WF R :=
  build_wf h

/-- Building the registry is rejected iff some declared fixture name is a builtin fixture name
    (`cli_args`, `project_dir`) … -/
theorem build_ok_iff (ds : List Decl) :
    (∃ R, build ds = .ok R) ↔ ∀ d ∈ ds, ∀ n ∈ d.names, n ≠ "cli_args" ∧ n ≠ "project_dir" := by
  constructor
  · rintro ⟨R, h⟩ d hd n hn
    have := ((Fixture.build_ok_iff ds R).mp h).1 d hd n hn
    simpa [isBuiltinName] using this
  · intro h
    refine ⟨registryOf ds, (Fixture.build_ok_iff ds _).mpr ⟨?_, rfl⟩⟩
    intro d hd n hn
    have := h d hd n hn
    simp [isBuiltinName, this.1, this.2]

/-- … and the rejection is the `ValidationError` "is a builtin fixture name". -/
theorem build_error_is_validation {ds : List Decl} {e : Err} (h : build ds = .error e) :
    e.isValidation = true := by
  obtain ⟨n, rfl, _⟩ := build_error h
  rfl

/-- `get_fixture_dependencies` terminates on EVERY registry and every name, cyclic registries
    included: with the bound `len(registry) + 2` the model never runs out of fuel (the code recurses
    without a visited set, but the circular-dependency test stops every walk one level after the
    first repetition at the latest). -/
theorem fixture_deps_fuel_suffices (R : Registry) (name : String) :
    getFixtureDependencies R name ≠ .error .outOfFuel :=
  getFixtureDependencies_not_outOfFuel R name

/-- **Completeness of `check_dependencies`.**  It accepts a registry iff: no fixture is called
    `fixture_name`; every parameter (other than `fixture_name`) names a registered fixture; no fixture
    reaches itself through parameters; no fixture depends on a fixture of a narrower scope; a
    per-thread fixture is only a parameter of test-scoped fixtures. -/
theorem checkDependencies_ok_iff (R : Registry) (wf : WF R) :
    checkDependencies R = .ok () ↔
      (∀ f ∈ R, f.name ≠ "fixture_name") ∧
      (∀ f ∈ R, ∀ p ∈ fparams f, p ∈ names R) ∧
      (∀ n, ¬ Path R n n) ∧
      (∀ f ∈ R, ∀ p ∈ fparams f, ∀ g ∈ R, g.name = p → f.scope.level ≤ g.scope.level) ∧
      (∀ f ∈ R, ∀ p ∈ fparams f, ∀ g ∈ R, g.name = p → g.perThread = true → f.scope = .test) :=
  checkDependencies_ok_iff_spec R wf

/-- The usual "level function" notion of acyclicity implies the path-based one used above. -/
theorem level_function_implies_acyclic (R : Registry) (lvl : String → Nat)
    (h : ∀ n, ∀ p ∈ P R n, lvl p < lvl n) : ∀ n, ¬ Path R n n := by
  have key : ∀ a b, Path R a b → lvl b < lvl a := by
    intro a b hp
    induction hp with
    | edge hb => exact h _ _ hb
    | cons hb _ ih => have := h _ _ hb; omega
  intro n hp
  have := key n n hp
  omega

/-- The error branch of `check_dependencies` is always a `ValidationError` (never a `KeyError`, never
    unbounded recursion) and names a real defect of the registry. -/
theorem checkDependencies_error_witnessed (R : Registry) (wf : WF R) {e : Err}
    (h : checkDependencies R = .error e) :
    e.isValidation = true ∧
    ((∃ f ∈ R, e = .forbiddenName f.name ∧ f.name = "fixture_name") ∨
     (∃ x, e = .circular x ∧ Path R x x) ∨
     (∃ p x, e = .unknownParam p x ∧ p ∈ P R x ∧ x ∈ names R ∧ p ∉ names R) ∨
     (∃ f ∈ R, ∃ g ∈ R, e = .perThreadDep f.name g.name ∧ g.name ∈ fparams f ∧ g.perThread = true ∧ f.scope ≠ .test) ∨
     (∃ f ∈ R, ∃ g ∈ R, e = .scopeInversion f.name g.name ∧ g.name ∈ fparams f ∧ g.scope.level < f.scope.level)) := by
  have hc := checkDependencies_error_cases R wf h
  refine ⟨?_, hc⟩
  rcases hc with ⟨f, _, rfl, _⟩ | ⟨x, rfl, _⟩ | ⟨p, x, rfl, _⟩ | ⟨f, _, g, _, rfl, _⟩ | ⟨f, _, g, _, rfl, _⟩ <;> rfl

/-- **Completeness of `check_fixtures_in_suites`.**  Accepted iff in every suite of the tree: each
    fixture used by the suite itself (injected attribute or `setup_suite` argument) is registered, not
    per-thread and of scope suite, session or pre_run; each fixture used by a test (argument that is
    not a parameter of a parametrized test) is registered. -/
theorem checkFixturesInSuites_ok_iff (R : Registry) (S : List Suite) :
    checkFixturesInSuites R S = .ok () ↔
      ∀ s ∈ flattenSuites S,
        (∀ n ∈ s.fixtures, ∃ f, lookup R n = some f ∧ f.perThread = false ∧ Scope.suite.level ≤ f.scope.level) ∧
        (∀ t ∈ s.tests, ∀ n ∈ t.fixtures, n ∈ names R) :=
  checkSuites_ok_iff R S

theorem checkFixturesInSuites_error_is_validation (R : Registry) (S : List Suite) {e : Err}
    (h : checkFixturesInSuites R S = .error e) : e.isValidation = true :=
  checkSuites_error_validation R S e h

end Fixtures

/-! ## B. Test dependencies (`suite/core.py`) -/
section Dependencies
open LccModel.Deps

/-- `_resolve_test_dependencies` terminates on EVERY input, cyclic graphs included (bound: number of
    tests of the project + 2): the circular-dependency test runs before every recursive call. -/
theorem resolve_fuel_suffices (sched all : List T) : resolve sched all ≠ .error .outOfFuel :=
  resolve_not_outOfFuel sched all

/-- What `@lcc.depends_on(...)` denotes: an edge of the dependency graph is a test of the project named
    by a path dependency, or selected by a callable dependency among the other tests. -/
theorem dependency_edge_iff {all : List T} (hnd : (paths all).Nodup) (t d : T) :
    Except.ok d ∈ items all t ↔
      d ∈ all ∧ (Dep.path d.path ∈ t.deps ∨ ∃ sel, Dep.pred sel ∈ t.deps ∧ d.path ∈ sel ∧ d.path ≠ t.path) :=
  mem_items_ok_iff hnd

/-- **Completeness of `resolve_tests_dependencies`.**  It succeeds iff every path dependency of a
    scheduled test names a test of the project, everything a scheduled test depends on is itself going
    to be run, and no scheduled test reaches itself through dependencies. -/
theorem resolve_ok_iff (sched all : List T) (wf : WF sched all) :
    (∃ r, resolve sched all = .ok r) ↔
      (∀ t ∈ sched, ∀ p, Dep.path p ∈ t.deps → p ∈ paths all) ∧
      (∀ t ∈ sched, ∀ d, Except.ok d ∈ items all t → d.path ∈ paths sched) ∧
      (∀ t ∈ sched, ∀ y, TPath all t y → y.path ≠ t.path) :=
  Deps.resolve_ok_iff sched all wf

/-- The error branch is one of the three `ValidationError`s, never the recursion bound. -/
theorem resolve_error_is_validation (sched all : List T) {e : Err} (h : resolve sched all = .error e) :
    e.isValidation = true := by
  cases e with
  | outOfFuel => exact absurd h (resolve_not_outOfFuel sched all)
  | _ => rfl

/-- `test.resolved_dependencies` of an accepted project: for every scheduled test, in order,
    everything its declarations denote. -/
theorem resolved_dependencies_eq (sched all : List T) {r : List (String × List String)}
    (h : resolve sched all = .ok r) : r = sched.map (fun t => (t.path, targets all t)) :=
  resolve_ok_eq sched all h

end Dependencies

/-! ## C. Metadata policy (`metadatapolicy.py`) -/
section MetadataPolicy
open LccModel.Policy

/-- **Completeness of the metadata policy check** for one test or suite: accepted iff every property
    of the node has a rule applicable to its type whose accepted values (if any) contain the value —
    or has no rule while unknown properties are allowed —, every required property applicable to the
    type is present, and every tag has a rule applicable to the type — or no rule while unknown tags
    are allowed. -/
theorem policy_node_ok_iff (P : Policy) (wf : WF P) (n : Node) :
    checkNode P n = .ok () ↔
      (∀ kv ∈ n.props, match findProp P kv.1 with
          | none => P.noUnknownProps = false
          | some r => r.on n.type = true ∧ (r.values = [] ∨ kv.2 ∈ r.values)) ∧
      (∀ r ∈ P.props, r.on n.type = true → r.required = true → r.name ∈ n.props.map (·.1)) ∧
      (∀ t ∈ n.tags, match findTag P t with
          | none => P.noUnknownTags = false
          | some r => r.on n.type = true) :=
  checkNode_ok_iff P wf n

/-- `check_suites_compliance` accepts iff every suite and every test complies. -/
theorem policy_ok_iff (P : Policy) (wf : WF P) (nodes : List Node) :
    checkNodes P nodes = .ok () ↔ ∀ n ∈ nodes, Compliant P n := by
  unfold checkNodes
  rw [forE_ok_iff]
  constructor
  · intro h n hn; exact (checkNode_ok_iff P wf n).mp (h n hn)
  · intro h n hn; exact (checkNode_ok_iff P wf n).mpr (h n hn)

end MetadataPolicy

/-! ## D. `PreparedProject.create` -/
section Preparation
open LccModel.Prepare

/-- the declarative notion of a structurally valid project -/
structure Valid (p : Project) : Prop where
  policy : ∀ n ∈ nodesL p.sched, Policy.Compliant p.policy n
  depsKnown : Deps.Known (flatTestsL p.sched) (flatTestsL p.all)
  depsScheduled : Deps.AllScheduled (flatTestsL p.sched) (flatTestsL p.all)
  depsAcyclic : Deps.Acyclic (flatTestsL p.sched) (flatTestsL p.all)
  noBuiltinName : ∀ d ∈ p.decls, ∀ n ∈ d.names, Fixture.isBuiltinName n = false
  noForbidden : Fixture.NoForbidden (Fixture.registryOf p.decls)
  paramsKnown : Fixture.ParamsKnown (Fixture.registryOf p.decls)
  acyclic : Fixture.Acyclic (Fixture.registryOf p.decls)
  noScopeInversion : Fixture.NoScopeInversion (Fixture.registryOf p.decls)
  perThreadOk : Fixture.PerThreadOk (Fixture.registryOf p.decls)
  suitesOk : ∀ s ∈ Fixture.flattenSuites (toFixtureSuites p.sched), Fixture.SuiteOk (Fixture.registryOf p.decls) s

/-- **`prepare P = ok ↔ P.Valid`**: `PreparedProject.create` accepts exactly the structurally valid
    projects (rule names of the policy distinct; test paths of the project distinct and the scheduled
    tests among them). -/
theorem prepare_ok_iff (p : Project) (wfP : Policy.WF p.policy)
    (wfD : Deps.WF (flatTestsL p.sched) (flatTestsL p.all)) :
    (∃ r, prepare p = .ok r) ↔ Valid p := by
  unfold prepare
  constructor
  · rintro ⟨r, h⟩
    cases h1 : Policy.checkNodes p.policy (nodesL p.sched) with
    | error e => simp [h1] at h
    | ok u =>
      cases u
      simp only [h1] at h
      cases h2 : Deps.resolve (flatTestsL p.sched) (flatTestsL p.all) with
      | error e => simp [h2] at h
      | ok res =>
        simp only [h2] at h
        cases h3 : Fixture.build p.decls with
        | error e => simp [h3] at h
        | ok R =>
          simp only [h3] at h
          cases h4 : Fixture.checkDependencies R with
          | error e => simp [h4] at h
          | ok u =>
            cases u
            simp only [h4] at h
            cases h5 : Fixture.checkFixturesInSuites R (toFixtureSuites p.sched) with
            | error e => simp [h5] at h
            | ok u =>
              cases u
              obtain ⟨hb, hR⟩ := (Fixture.build_ok_iff p.decls R).mp h3
              have wfR := Fixture.build_wf h3
              subst hR
              obtain ⟨d1, d2, d3⟩ := (Deps.resolve_ok_iff _ _ wfD).mp ⟨res, h2⟩
              obtain ⟨f1, f2, f3, f4, f5⟩ := (Fixture.checkDependencies_ok_iff_spec _ wfR).mp h4
              exact ⟨(policy_ok_iff _ wfP _).mp h1, d1, d2, d3, hb, f1, f2, f3, f4, f5,
                (Fixture.checkSuites_ok_iff _ _).mp h5⟩
  · intro v
    have h1 := (policy_ok_iff _ wfP _).mpr v.policy
    obtain ⟨res, h2⟩ := (Deps.resolve_ok_iff _ _ wfD).mpr ⟨v.depsKnown, v.depsScheduled, v.depsAcyclic⟩
    have h3 := (Fixture.build_ok_iff p.decls _).mpr ⟨v.noBuiltinName, rfl⟩
    have wfR := Fixture.build_wf h3
    have h4 := (Fixture.checkDependencies_ok_iff_spec _ wfR).mpr
      ⟨v.noForbidden, v.paramsKnown, v.acyclic, v.noScopeInversion, v.perThreadOk⟩
    have h5 : Fixture.checkFixturesInSuites _ (toFixtureSuites p.sched) = .ok () :=
      (Fixture.checkSuites_ok_iff _ _).mpr v.suitesOk
    exact ⟨⟨Fixture.registryOf p.decls, res⟩, by simp only [h1, h2, h3, h4, h5]⟩

/-- Whatever the project, a rejection by `PreparedProject.create` is a `ValidationError` — never a
    crash (`KeyError`) and never unbounded recursion. -/
theorem prepare_error_is_validation (p : Project) {e : ValidationErr} (h : prepare p = .error e) :
    e.isValidation = true := by
  unfold prepare at h
  cases h1 : Policy.checkNodes p.policy (nodesL p.sched) with
  | error e1 => simp only [h1] at h; injection h with h; subst h; rfl
  | ok u =>
    cases u
    simp only [h1] at h
    cases h2 : Deps.resolve (flatTestsL p.sched) (flatTestsL p.all) with
    | error e2 =>
      simp only [h2] at h; injection h with h; subst h
      exact resolve_error_is_validation _ _ h2
    | ok res =>
      simp only [h2] at h
      cases h3 : Fixture.build p.decls with
      | error e3 =>
        simp only [h3] at h; injection h with h; subst h
        exact build_error_is_validation h3
      | ok R =>
        simp only [h3] at h
        cases h4 : Fixture.checkDependencies R with
        | error e4 =>
          simp only [h4] at h; injection h with h; subst h
          exact (checkDependencies_error_witnessed R (Fixture.build_wf h3) h4).1
        | ok u =>
          cases u
          simp only [h4] at h
          cases h5 : Fixture.checkFixturesInSuites R (toFixtureSuites p.sched) with
          | error e5 =>
            simp only [h5] at h; injection h with h; subst h
            exact checkFixturesInSuites_error_is_validation R _ h5
          | ok u => cases u; simp [h5] at h

end Preparation

/-! ## E. Soundness: the fixture machinery cannot fail at run time on an accepted project -/
section Soundness
open LccModel.Fixture

/-- Exactly the needed fixtures of a scope are scheduled: a fixture is in the `ScheduledFixtures` of
    scope `sc` built from the directly used names `D` iff it has scope `sc` and is used directly or
    is a (transitive) parameter of a directly used fixture.  (Reused by C03 `only_needed`.) -/
theorem scheduled_only_needed {R : Registry} {D I : List String} {sc : Scope}
    (h : scheduled R D sc = .ok I) (x : String) :
    x ∈ I ↔ scopeIs R sc x = true ∧ (x ∈ D ∨ ∃ f ∈ D, Path R f x) :=
  mem_scheduled_iff h x

/-- Scheduled fixtures come without duplicates and after the scheduled fixtures they depend on: at
    every split of the set-up order, the same-scope parameters of the next fixture are in the part
    already set up.  (Reused by C03 `deps_before`.) -/
theorem scheduled_deps_before {R : Registry} {D I : List String} {sc : Scope}
    (h : scheduled R D sc = .ok I) :
    I.Nodup ∧ ∀ l1 n l2, I = l1 ++ n :: l2 → ∀ p ∈ P R n, scopeIs R sc p = true → p ∈ l1 :=
  ⟨scheduled_nodup h, fun _ _ _ hs => Fixture.scheduled_deps_before h hs⟩

/-- **No `LookupError` / `AssertionError` from `ScheduledFixtures`.**  For a registry accepted by
    `check_dependencies` and direct uses `Dtest ⊆ Dsuite ⊆ Dsession` of registered names (what a
    test, its suite, and the whole run use): the four `get_scheduled_fixtures_for_scope` calls succeed
    (no `KeyError`, no circular-dependency error at run time), running the set-up functions of the
    pre_run, session, suite and test instances in that order succeeds (every parameter look-up finds
    the fixture in the instance itself — already executed — or in an enclosing instance), and then
    every name of `Dtest` resolves from the test instance and every name of `Dsuite` of scope ≥ suite
    resolves from the suite instance. -/
theorem accepted_lookups_sound {R : Registry} (wf : WF R) (hok : checkDependencies R = .ok ())
    (Dsession Dsuite Dtest : List String)
    (hks : ∀ n ∈ Dsession, n ∈ names R) (h1 : ∀ n ∈ Dsuite, n ∈ Dsession) (h2 : ∀ n ∈ Dtest, n ∈ Dsuite) :
    ∃ Ipre Isess Isuite Itest,
      scheduled R Dsession .preRun = .ok Ipre ∧ scheduled R Dsession .session = .ok Isess ∧
      scheduled R Dsuite .suite = .ok Isuite ∧ scheduled R Dtest .test = .ok Itest ∧
      ∃ c1 c2 c3 c4,
        enter R [] .preRun Ipre = .ok c1 ∧ enter R c1 .session Isess = .ok c2 ∧
        enter R c2 .suite Isuite = .ok c3 ∧ enter R c3 .test Itest = .ok c4 ∧
        (∀ n ∈ Dtest, getResult c4 n = .ok ()) ∧
        (∀ n ∈ Dsuite, (∀ g, lookup R n = some g → Scope.suite.level ≤ g.scope.level) → getResult c3 n = .ok ()) :=
  run_chain_sound wf hok Dsession Dsuite Dtest hks h1 h2

/-
  Full-strength form of the property's last sentence — kept visible, NOT proved in this file:

      ∀ P, prepare P = ok → (no failing act in any user script of P) →
        ∀ N ≥ 1, ∀ complete execution of `run_suites` with N workers,
          (every scheduled test ends `passed` or `disabled`) ∧ outcome = returned true

  It needs the scheduler M1, the task graph M2 and the run semantics M5 (C01–C03).  On the snapshot
  2db5dfe it was REFUTED by D1 (accepted project with a leaf suite without tests, N ≥ 2: `LookupError`
  in `on_suite_end`), repaired in /repo by 273e673; the witness `D1_WITNESS` stays in the corpus of
  stream `C14.run` and must now run all-passed.
  What IS proved here is the fixture-machinery half, for every accepted project, every suite that gets
  initialised and every test that really runs: `accepted_project_run_sound` below (the `_partial` form:
  "no structural failure can come from `ScheduledFixtures`").  The rest of the sentence is tied to the
  code by really running every accepted generated project (stream `C14.run`).
-/

/-- **The same for a whole accepted project**, with the direct uses the runner really computes
    (`get_fixtures_scheduled_for_pre_run/_session/_suite/_test`, `include_disabled = force_disabled`):
    for every suite `s` of the tree that gets initialised and every test `t` of `s` that really runs,
    all instances set up and every fixture argument of `t`, every `setup_suite` argument and every
    injected fixture of `s` is found, executed, in the chain. -/
theorem accepted_project_run_sound {R : Registry} (wf : WF R) (S : List Suite) (fd : Bool)
    (hdeps : checkDependencies R = .ok ()) (hsuites : checkFixturesInSuites R S = .ok ())
    (inh : Bool) (s : Suite) (hs : (inh, s) ∈ withInhSuites false S)
    (t : Test) (ht : t ∈ s.tests) (hruns : testRuns inh s t fd = true) :
    ∃ Ipre Isess Isuite Itest,
      scheduled R (usedInSuites S fd) .preRun = .ok Ipre ∧ scheduled R (usedInSuites S fd) .session = .ok Isess ∧
      scheduled R (usedInSuite inh s fd) .suite = .ok Isuite ∧ scheduled R t.fixtures .test = .ok Itest ∧
      ∃ c1 c2 c3 c4,
        enter R [] .preRun Ipre = .ok c1 ∧ enter R c1 .session Isess = .ok c2 ∧
        enter R c2 .suite Isuite = .ok c3 ∧ enter R c3 .test Itest = .ok c4 ∧
        (∀ n ∈ t.fixtures, getResult c4 n = .ok ()) ∧
        (∀ n ∈ s.fixtures, getResult c3 n = .ok ()) := by
  have hall := (checkSuites_ok_iff R S).mp hsuites
  have hsOk := hall s (withInh_mem_flatten_suites S false inh s hs)
  have hinit : suiteInitialised inh s fd = true := by
    unfold suiteInitialised hasEnabledTests
    unfold testRuns at hruns
    cases hfd : fd with
    | true => simp
    | false =>
      rw [hfd] at hruns
      simp only [Bool.or_false] at hruns ⊢
      exact List.any_eq_true.mpr ⟨t, ht, hruns⟩
  have hsub2 : ∀ n ∈ t.fixtures, n ∈ usedInSuite inh s fd :=
    fun n hn => (mem_usedInSuite inh s fd n).mpr ⟨hinit, .inr ⟨t, ht, hruns, hn⟩⟩
  have hsub1 : ∀ n ∈ usedInSuite inh s fd, n ∈ usedInSuites S fd :=
    fun n hn => usedRecList_sub S false fd [] inh s n hs hn
  have hknown : ∀ n ∈ usedInSuites S fd, n ∈ names R :=
    fun n hn => usedRecList_known R S false fd [] n hall (by simp) hn
  obtain ⟨Ipre, Isess, Isuite, Itest, a1, a2, a3, a4, c1, c2, c3, c4, e1, e2, e3, e4, l1, l2⟩ :=
    run_chain_sound wf hdeps (usedInSuites S fd) (usedInSuite inh s fd) t.fixtures hknown hsub1 hsub2
  refine ⟨Ipre, Isess, Isuite, Itest, a1, a2, a3, a4, c1, c2, c3, c4, e1, e2, e3, e4, l1, ?_⟩
  intro n hn
  apply l2 n ((mem_usedInSuite inh s fd n).mpr ⟨hinit, .inl hn⟩)
  intro g hg
  obtain ⟨f, hf, _, hlev⟩ := hsOk.1 n hn
  rw [hf] at hg; injection hg with hg; subst hg; exact hlev

end Soundness

/-! ## Non-vacuity: concrete accepted and rejected inputs -/
section Examples
open LccModel.Fixture

/-- a registry with every feature: multi-name fixture, four scopes, `fixture_name`, a per-thread
    fixture used by a test-scoped one, a diamond -/
def exDecls : List Decl :=
  [⟨["a"], .session, false, []⟩, ⟨["b", "b2"], .suite, false, ["a", "cli_args"]⟩,
   ⟨["c"], .test, false, ["b", "fixture_name"]⟩, ⟨["pt"], .suite, true, ["a"]⟩,
   ⟨["d"], .test, false, ["pt", "c", "b"]⟩, ⟨["pre"], .preRun, false, ["project_dir"]⟩]

def exR : Registry := registryOf exDecls

example : build exDecls = .ok exR := by decide
example : WF exR := by unfold WF; decide
example : checkDependencies exR = .ok () := by decide
example : getFixtureDependencies exR "d" = .ok ["a", "cli_args", "b", "pt", "c"] := by decide

def exSuites : List Suite :=
  [.mk "s" false ["a"] ["b2", "pre"]
      [⟨"s.t1", ["d", "x"], ["x"], false⟩, ⟨"s.t2", ["c", "pt"], [], true⟩]
      [.mk "s.u" false [] [] [⟨"s.u.t3", ["b"], [], false⟩] []]]

example : checkFixturesInSuites exR exSuites = .ok () := by decide
example : scheduled exR (usedInSuites exSuites false) .session = .ok ["a"] := by decide
example : scheduled exR (usedInSuites exSuites false) .preRun = .ok ["cli_args", "project_dir", "pre"] := by decide
example : scheduled exR (usedInSuite false (.mk "s" false ["a"] ["b2", "pre"]
      [⟨"s.t1", ["d", "x"], ["x"], false⟩, ⟨"s.t2", ["c", "pt"], [], true⟩] []) false) .suite
    = .ok ["b2", "b", "pt"] := by decide

-- every rejection class is reachable
example : build [⟨["cli_args"], .test, false, []⟩] = .error (.builtinName "cli_args") := by decide
example : checkDependencies [⟨"fixture_name", .test, false, []⟩] = .error (.forbiddenName "fixture_name") := by decide
example : checkDependencies [⟨"x", .test, false, ["x"]⟩] = .error (.circular "x") := by decide
example : checkDependencies [⟨"x", .test, false, ["y"]⟩, ⟨"y", .test, false, ["z"]⟩, ⟨"z", .test, false, ["x"]⟩]
    = .error (.circular "z") := by decide
example : checkDependencies [⟨"x", .test, false, ["nope"]⟩] = .error (.unknownParam "nope" "x") := by decide
example : checkDependencies [⟨"x", .session, false, ["y"]⟩, ⟨"y", .suite, false, []⟩]
    = .error (.scopeInversion "x" "y") := by decide
example : checkDependencies [⟨"x", .suite, false, ["y"]⟩, ⟨"y", .suite, true, []⟩]
    = .error (.perThreadDep "x" "y") := by decide
example : checkFixturesInSuites exR [.mk "s" false ["c"] [] [] []] = .error (.suiteScope "s" "c") := by decide
example : checkFixturesInSuites exR [.mk "s" false [] ["pt"] [] []] = .error (.suitePerThread "s" "pt") := by decide
example : checkFixturesInSuites exR [.mk "s" false [] ["zz"] [] []] = .error (.suiteUnknown "s" "zz") := by decide
example : checkFixturesInSuites exR [.mk "s" false [] [] [⟨"s.t", ["fixture_name"], [], false⟩] []]
    = .error (.testUnknown "s.t" "fixture_name") := by decide

open LccModel.Deps in
def exTests : List Deps.T :=
  [⟨"s.a", []⟩, ⟨"s.b", [.path "s.a"]⟩, ⟨"s.c", [.path "s.a", .pred ["s.b", "s.c"]]⟩, ⟨"s.d", [.path "s.b", .path "s.c"]⟩]

open LccModel.Deps in
example : resolve exTests exTests =
    .ok [("s.a", []), ("s.b", ["s.a"]), ("s.c", ["s.a", "s.b"]), ("s.d", ["s.b", "s.c"])] := by decide
open LccModel.Deps in
example : WF exTests exTests := ⟨by decide, fun _ h => h⟩
-- the callable dependency of `s.c` selects `s.c` itself: the depending test is excluded (D18, repaired)
open LccModel.Deps in
example : resolve [⟨"s.c", [.pred ["s.c"]]⟩] [⟨"s.c", [.pred ["s.c"]]⟩] = .ok [("s.c", [])] := by decide
open LccModel.Deps in
example : resolve [⟨"s.b", [.path "s.a"]⟩] exTests = .error (.notScheduled "s.b" "s.a") := by decide
open LccModel.Deps in
example : resolve [⟨"s.b", [.path "s.zz"]⟩] exTests = .error (.unknown "s.b" "s.zz") := by decide
open LccModel.Deps in
example : resolve [⟨"x", [.path "y"]⟩, ⟨"y", [.path "z"]⟩, ⟨"z", [.path "x"]⟩]
                  [⟨"x", [.path "y"]⟩, ⟨"y", [.path "z"]⟩, ⟨"z", [.path "x"]⟩] = .error (.circular "z" "x") := by decide

open LccModel.Policy in
def exPolicy : Policy.Policy :=
  ⟨[⟨"prio", ["low", "high"], true, false, true⟩, ⟨"owner", [], false, true, false⟩], [⟨"slow", true, true⟩, ⟨"suiteonly", false, true⟩], true, true⟩

open LccModel.Policy in
example : Policy.WF exPolicy := ⟨by decide, by decide⟩
open LccModel.Policy in
example : checkNode exPolicy ⟨.test, "s.t", [("prio", "low")], ["slow"]⟩ = .ok () := by decide
open LccModel.Policy in
example : checkNode exPolicy ⟨.test, "s.t", [], []⟩ = .error (.propMissing "s.t" "prio") := by decide
open LccModel.Policy in
example : checkNode exPolicy ⟨.test, "s.t", [("prio", "mid")], []⟩ = .error (.propBadValue "s.t" "prio" "mid") := by decide
open LccModel.Policy in
example : checkNode exPolicy ⟨.suite, "s", [("prio", "low")], []⟩ = .error (.propNotAllowed "s" "prio") := by decide
open LccModel.Policy in
example : checkNode { exPolicy with noUnknownProps := false } ⟨.suite, "s", [("prio", "low")], []⟩
    = .error (.propForbidden "s" "prio") := by decide
open LccModel.Policy in
example : checkNode exPolicy ⟨.test, "s.t", [("prio", "low")], ["other"]⟩ = .error (.tagNotAllowed "s.t" "other") := by decide
open LccModel.Policy in
example : checkNode { exPolicy with noUnknownTags := false } ⟨.test, "s.t", [("prio", "low")], ["suiteonly"]⟩
    = .error (.tagForbidden "s.t" "suiteonly") := by decide

end Examples

end LccModel.C14

/-
  C13 — "… every parameter set of a parametrized test … exactly once … with its declared … parameters":
  the parameter SOURCE of `@lcc.parametrized` (`Model/ParamSource.lean`), fourth seeded round.

  The declared parameter names of the CSV-like form with a string header are the fields the user wrote between the
  commas; white space around a field (before a comma, after it, at either end of the header: `"i, j"`,
  `"host      , port"`, `" value "`, tabs …) is a way of writing, not part of the name.  The theorems quantify over
  every list of fields and every padding.
-/
import LccModel.Model.ParamSource
import LccModel.Props.C13

namespace LccModel.C13Params
open LccModel.Loader LccModel.ParamSource

/-! ## helper facts about `split` / `strip` (kept here: they are statements about the model's text functions) -/

theorem splitOn_ne_nil (sep : Char) (l : List Char) : splitOn sep l ≠ [] := by
  induction l with
  | nil => simp [splitOn]
  | cons c cs ih =>
    unfold splitOn
    split
    · simp
    · split <;> simp

/-- a text without the separator is one field -/
theorem splitOn_no_sep (sep : Char) (a : List Char) (h : sep ∉ a) : splitOn sep a = [a] := by
  induction a with
  | nil => rfl
  | cons c cs ih =>
    have hc : (c == sep) = false := by
      simp only [List.mem_cons, not_or] at h
      simp [Ne.symm h.1]
    have hcs : sep ∉ cs := fun m => h (List.mem_cons_of_mem _ m)
    unfold splitOn
    simp [hc, ih hcs]

/-- the first separator ends the first field -/
theorem splitOn_append_sep (sep : Char) (a rest : List Char) (h : sep ∉ a) :
    splitOn sep (a ++ sep :: rest) = a :: splitOn sep rest := by
  induction a with
  | nil => simp [splitOn]
  | cons c cs ih =>
    have hc : (c == sep) = false := by
      simp only [List.mem_cons, not_or] at h
      simp [Ne.symm h.1]
    have hcs : sep ∉ cs := fun m => h (List.mem_cons_of_mem _ m)
    show splitOn sep (c :: (cs ++ sep :: rest)) = _
    rw [splitOn]
    simp [hc, ih hcs]

theorem dropWhile_all_append (p : Char → Bool) (a b : List Char) (h : ∀ c ∈ a, p c = true) :
    (a ++ b).dropWhile p = b.dropWhile p := by
  induction a with
  | nil => rfl
  | cons c cs ih =>
    have hc : p c = true := h c (List.mem_cons_self ..)
    simp [hc, ih (fun c m => h c (List.mem_cons_of_mem _ m))]

theorem dropWhile_all (p : Char → Bool) (a : List Char) (h : ∀ c ∈ a, p c = true) : a.dropWhile p = [] := by
  have := dropWhile_all_append p a [] h
  simpa using this

/-- a text that `lstrip` leaves alone does not begin with white space -/
theorem head_not_ws (c : Char) (cs : List Char) (h : (c :: cs).dropWhile isPyWs = c :: cs) : isPyWs c = false := by
  cases hc : isPyWs c with
  | false => rfl
  | true =>
    exfalso
    rw [List.dropWhile_cons_of_pos hc] at h
    have h1 : (cs.dropWhile isPyWs).length ≤ cs.length := (List.dropWhile_sublist _).length_le
    have h2 := congrArg List.length h
    simp at h2
    omega

/-- `strip` removes the padding and nothing else. -/
theorem strip_padded (p : Padded) (h : p.wf) : strip p.text = p.field := by
  obtain ⟨hpre, hpost, ⟨hl, hr⟩, _⟩ := h
  unfold strip rstrip lstrip Padded.text
  unfold lstrip at hl
  rw [List.append_assoc, dropWhile_all_append _ _ _ hpre]
  cases hf : p.field with
  | nil =>
    rw [List.nil_append, dropWhile_all _ _ hpost]
    rfl
  | cons c cs =>
    rw [hf] at hl hr
    have hc := head_not_ws c cs hl
    rw [List.cons_append, List.dropWhile_cons_of_neg (by simp [hc]), ← List.cons_append, List.reverse_append,
      dropWhile_all_append _ _ _ (by intro x hx; exact hpost x (List.mem_reverse.mp hx)), hr, List.reverse_reverse]

/-! ## 1. Header parsing -/

/-- `first_item.split(",")` of a spelling cuts exactly between the padded fields. -/
theorem split_spell (ps : List Padded) (hne : ps ≠ []) (h : ∀ p ∈ ps, p.wf) :
    splitOn ',' (spell ps) = ps.map Padded.text := by
  have nocomma : ∀ p : Padded, p.wf → ',' ∉ p.text := by
    intro p ⟨hpre, hpost, _, hf⟩ hm
    unfold Padded.text at hm
    rcases List.mem_append.mp hm with hm | hm
    · rcases List.mem_append.mp hm with hm | hm
      · have := hpre _ hm; revert this; decide
      · exact hf hm
    · have := hpost _ hm; revert this; decide
  induction ps with
  | nil => exact absurd rfl hne
  | cons p rest ih =>
    cases rest with
    | nil => simp [spell, splitOn_no_sep _ _ (nocomma p (h p (List.mem_cons_self ..)))]
    | cons q rest =>
      have := ih (by simp) (fun x hx => h x (List.mem_cons_of_mem _ hx))
      simp only [spell] at this ⊢
      rw [splitOn_append_sep _ _ _ (nocomma p (h p (List.mem_cons_self ..))), this]
      rfl

/-- **The names a CSV-like string header declares are its fields, whatever white space surrounds them**: for every
    non-empty list of fields (texts without a comma that do not begin or end with white space) and every padding of
    white space before and after each field — `"i,j"`, `"i, j"`, `"host      , port"`, `" value "`, tabs, … —
    `[s.strip() for s in header.split(",")]` is the list of fields. -/
theorem header_names_are_trimmed_fields (ps : List Padded) (hne : ps ≠ []) (h : ∀ p ∈ ps, p.wf) :
    parseHeader (spell ps) = ps.map Padded.field := by
  unfold parseHeader
  rw [split_spell ps hne h, List.map_map]
  apply List.map_congr_left
  intro p hp
  exact strip_padded p (h p hp)

/-- Two spellings of the same fields declare the same names. -/
theorem header_spelling_irrelevant (ps qs : List Padded) (hp : ps ≠ []) (hq : qs ≠ [])
    (h1 : ∀ p ∈ ps, p.wf) (h2 : ∀ p ∈ qs, p.wf) (same : ps.map Padded.field = qs.map Padded.field) :
    parseHeader (spell ps) = parseHeader (spell qs) := by
  rw [header_names_are_trimmed_fields ps hp h1, header_names_are_trimmed_fields qs hq h2, same]

/-- A header declares one name per comma plus one (nothing is merged or lost), for every text. -/
theorem header_field_count (h : List Char) : (parseHeader h).length = h.count ',' + 1 := by
  unfold parseHeader
  rw [List.length_map]
  induction h with
  | nil => rfl
  | cons c cs ih =>
    unfold splitOn
    by_cases hc : c = ','
    · subst hc; simp [ih]
    · have : (c == ',') = false := by simp [hc]
      simp only [this]
      have hne := splitOn_ne_nil ',' cs
      cases hs : splitOn ',' cs with
      | nil => exact absurd hs hne
      | cons f fs =>
        rw [hs] at ih
        simp [hc] at ih ⊢
        omega

/-! ## 2. What the source yields, and what the loader makes of it -/

/-- the fields as `str` names -/
def fieldsS (ps : List Padded) : List String := ps.map (fun p => String.ofList p.field)

/-- the header as the `str` the user wrote -/
def spellS (ps : List Padded) : String := String.ofList (spell ps)

theorem parseHeaderS_spell (ps : List Padded) (hne : ps ≠ []) (h : ∀ p ∈ ps, p.wf) :
    parseHeaderS (spellS ps) = fieldsS ps := by
  unfold parseHeaderS spellS fieldsS
  rw [String.toList_ofList, header_names_are_trimmed_fields ps hne h, List.map_map]
  rfl

/-- **CSV-like source with a string header**: every row becomes the parameter set `dict(zip(fields, row))` — keyed by
    the trimmed fields — once, in order, whatever white space the header is written with. -/
theorem csv_string_source_sets (ps : List Padded) (hne : ps ≠ []) (h : ∀ p ∈ ps, p.wf) (rows : List (List PVal)) :
    (Source.csvStr (spellS ps) rows).sets = rows.map (zipSet (fieldsS ps)) := by
  simp only [Source.sets, parseHeaderS_spell ps hne h]

/-- A string header means what the tuple / list header of its fields means. -/
theorem csv_string_header_same_as_sequence_header (ps : List Padded) (hne : ps ≠ []) (h : ∀ p ∈ ps, p.wf)
    (rows : List (List PVal)) :
    (Source.csvStr (spellS ps) rows).sets = (Source.csvSeq (fieldsS ps) rows).sets := by
  rw [csv_string_source_sets ps hne h]; rfl

/-- A row of the right length gives every name its own value (names and values of the set, in order). -/
theorem csv_row_parameters (names : List String) (values : List PVal) (hlen : names.length = values.length) :
    (zipSet names values).map Prod.fst = names ∧ (zipSet names values).map Prod.snd = values := by
  unfold zipSet
  constructor
  · exact List.map_fst_zip (by omega)
  · exact List.map_snd_zip (by omega)

/-- **Property sentence "every parameter set of a parametrized test … exactly once … with its declared parameters", CSV
    form**: a test parametrized by a string header and rows declares one test per row, in order, each carrying the
    row's values under the header's trimmed fields (through `C13.parametrized_once_each`, so the loaded tree of
    `load_directory_exact` carries exactly these). -/
theorem csv_parametrized_once_each (d : TestDecl) (ps : List Padded) (hne : ps ≠ []) (h : ∀ p ∈ ps, p.wf)
    (rows : List (List PVal)) (n : Naming) (hd : d.param = some ((Source.csvStr (spellS ps) rows).sets, n)) :
    (expansions d).map (·.params) = rows.map (zipSet (fieldsS ps)) := by
  rw [C13.parametrized_once_each d _ n hd, csv_string_source_sets ps hne h]

/-- Two spellings of the same fields load the same tests (names, descriptions, parameters, errors — the whole stream
    `_load_tests` yields). -/
theorem csv_spelling_same_tests (d : TestDecl) (ps qs : List Padded) (hp : ps ≠ []) (hq : qs ≠ [])
    (h1 : ∀ p ∈ ps, p.wf) (h2 : ∀ p ∈ qs, p.wf) (same : ps.map Padded.field = qs.map Padded.field)
    (rows : List (List PVal)) (n : Naming) :
    expandDecl { d with param := some ((Source.csvStr (spellS ps) rows).sets, n) }
      = expandDecl { d with param := some ((Source.csvStr (spellS qs) rows).sets, n) } := by
  have : fieldsS ps = fieldsS qs := by
    unfold fieldsS
    have := congrArg (List.map String.ofList) same
    rw [List.map_map, List.map_map] at this
    exact this
  rw [csv_string_source_sets ps hp h1, csv_string_source_sets qs hq h2, this]

/-! ## 3. Non-vacuity: the spellings of the documentation and of the seeded change, evaluated by the kernel -/

example : parseHeader "i,j".toList = ["i".toList, "j".toList] := by decide
example : parseHeader "i, j".toList = ["i".toList, "j".toList] := by decide
example : parseHeader "host      , port".toList = ["host".toList, "port".toList] := by decide
example : parseHeader " value ".toList = ["value".toList] := by decide
example : parseHeader "\ta\t,\tb\n".toList = ["a".toList, "b".toList] := by decide
/-- white space INSIDE a field is part of the name; an empty field is an (empty) name -/
example : parseHeader "first name ,, x".toList = ["first name".toList, [], "x".toList] := by decide
/-- the aligned header is a spelling in the sense of the theorems -/
example : spell [⟨[], "host".toList, "      ".toList⟩, ⟨" ".toList, "port".toList, []⟩] = "host      , port".toList := by decide
example : Padded.wf ⟨[], "host".toList, "      ".toList⟩ := by
  refine ⟨by decide, by decide, by decide, by decide⟩
example : (Source.csvStr "host      , port" [[.str "localhost", .int 80], [.str "example", .int 443]]).sets
    = [[("host", .str "localhost"), ("port", .int 80)], [("host", .str "example"), ("port", .int 443)]] := by decide

end LccModel.C13Params

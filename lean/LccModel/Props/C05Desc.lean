/-
  C05 — "running with N threads is equivalent to running with one": the DESCRIPTION a check records.

  With N worker threads several `check_that` / `require_that` / `assert_that` / `check_that_in` calls of
  different tests build their descriptions at the same time and are pre-empted at arbitrary points.  The
  description recorded for a check must be the one the same check records in a 1-thread run, i.e. the pure
  function `Matcher.checkDescription hint m` of C16 / C17's model (`describe m Tr.plain`).

  Property theorems only (model M12c `Model/Interleave.lean`, lemmas `Lemmas/Interleave.lean`).  The hypothesis
  of the main theorems — no transformer object is touched by two threads — is checked on the real calls by the
  stream `C05.desc` (every `MatcherDescriptionTransformer` a call applies or writes is recorded with the thread;
  an object seen by two threads is a broken correspondence), and the conclusion — every thread records what it
  records alone — is that stream's oracle.
-/
import LccModel.Lemmas.Interleave

namespace LccModel.C05Desc
open LccModel.Matcher LccModel.Interleave

/-- **No shared state ⇒ no dependence on the schedule** (for ANY threads, so also for `build_description`
    methods of user-defined `Matcher` subclasses): threads whose steps only look at and only write objects they
    own, with pairwise disjoint ownership.  After any schedule, the private state of each thread and its objects
    are those of the thread running alone from the initial heap for as many steps as it was given. -/
theorem concurrent_threads_compute_what_they_compute_alone {S : Type} (T : Nat → Thread S)
    (hl : ∀ i, (T i).Local) (hd : Disjoint T) (sched : List Nat) (c : Cfg S) (i : Nat) :
    (runSched T c sched).st i = (runAlone (T i) (sched.count i) (c.st i) c.heap).1 ∧
    ∀ r, (T i).owns r = true → (runSched T c sched).heap r = (runAlone (T i) (sched.count i) (c.st i) c.heap).2 r :=
  schedule_independent T hl hd sched c i

/-- description programs are such threads, whatever objects they are given -/
theorem description_threads_are_local (owns : Nat → Bool) : (progThread owns).Local := progThread_local owns

/-- **Concurrent description building = sequential** under the no-shared-state fact: any number of threads,
    thread `i` building the description of `m i` (any matcher of the fragment: one-sentence matchers under any
    nesting of `not_` / `hide_result_details` / `override_description`) on a transformer object of its own
    (`obj` injective) — even with a `Not` that flips the object in place —, under ANY schedule: once thread `i` has
    finished, what it produced is exactly `describe (m i)` of the state its object had initially.  With a freshly
    allocated `MatcherDescriptionTransformer()` that is `describe (m i) Tr.plain`, the text `checkDescription`
    puts after "Expect …": the 1-thread description. -/
theorem concurrent_description_building_is_sequential (obj : Nat → Nat) (hinj : ∀ i j, i ≠ j → obj i ≠ obj j)
    (m : Nat → M) (hm : ∀ i, simple (m i) = true) (h : Heap) (sched : List Nat) (i : Nat)
    (hfin : ((runSched (ownObjects obj) (startCfg obj m h) sched).st i).todo = []) :
    ((runSched (ownObjects obj) (startCfg obj m h) sched).st i).out = [describe (m i) (h (obj i))] := by
  have hd : Disjoint (ownObjects obj) := by
    intro a b r hab ha
    simp only [ownObjects, progThread, beq_iff_eq] at ha ⊢
    subst ha
    simpa using hinj a b hab
  have key := (schedule_independent (ownObjects obj) (fun i => progThread_local _) hd sched (startCfg obj m h) i).1
  rw [key] at hfin ⊢
  simp only [startCfg] at hfin ⊢
  have hown : ∀ x ∈ prog (obj i) (m i), (fun r => r == obj i) x.obj = true := by
    intro x hx; simp [prog_obj (obj i) (m i) x hx]
  have hr := runAlone_finished (fun r => r == obj i) (prog (obj i) (m i)) (sched.count i) [] h hfin hown
  simp only [ownObjects] at hr ⊢
  rw [hr]
  simpa using (execAll_prog (obj i) (m i) (hm i) h []).1

/-- with fresh transformers (`MatcherDescriptionTransformer()`: not conjugated, not negative) -/
theorem concurrent_check_descriptions_are_the_one_thread_descriptions (obj : Nat → Nat)
    (hinj : ∀ i j, i ≠ j → obj i ≠ obj j) (m : Nat → M) (hm : ∀ i, simple (m i) = true) (sched : List Nat) (i : Nat)
    (hint : Option Str)
    (hfin : ((runSched (ownObjects obj) (startCfg obj m (fun _ => Tr.plain)) sched).st i).todo = []) :
    ∃ d, ((runSched (ownObjects obj) (startCfg obj m (fun _ => Tr.plain)) sched).st i).out = [d] ∧
      checkDescription hint (m i) = (match hint with | some x => c!"Expect " ++ x ++ c!" " ++ d | none => c!"Expect " ++ d) := by
  refine ⟨describe (m i) Tr.plain, ?_, ?_⟩
  · exact concurrent_description_building_is_sequential obj hinj m hm (fun _ => Tr.plain) sched i hfin
  · cases hint <;> rfl

/-- **Each edit alone looks fine**: executed without interference, the in-place negating program appends exactly
    `describe m t` and gives the transformer back as it was (all single-threaded behaviour is unchanged). -/
theorem in_place_negation_alone_is_describe (r : Nat) (m : M) (hs : simple m = true) (h : Heap) (out : List Str) :
    (execAll (prog r m) h out).1 = out ++ [describe m (h r)] ∧ (execAll (prog r m) h out).2 = h :=
  execAll_prog r m hs h out

/-- **Refutation with a SHARED transformer** (the hypothesis `Disjoint` is necessary): thread 0 describes
    `not_(equal_to(3))`, thread 1 describes `equal_to(3)`, both on object 0.  Under the schedule
    0, 1, 0, 0 — thread 1 runs while thread 0 is between its flip and its flip back — the SUCCESSFUL check of
    thread 1 is described "to not be equal to 3"; under the schedule 0, 0, 0, 1 it is described "to be equal to 3". -/
theorem shared_transformer_with_in_place_negation_depends_on_schedule :
    ((runSched sharedObject sharedCfg [0, 1, 0, 0]).st 1).out = [c!"to not be equal to 3"] ∧
    ((runSched sharedObject sharedCfg [0, 0, 0, 1]).st 1).out = [c!"to be equal to 3"] ∧
    ((runSched sharedObject sharedCfg [0, 1, 0, 0]).st 0).out = [c!"to not be equal to 3"] ∧
    describe (.equalTo (.int 3)) Tr.plain = c!"to be equal to 3" := by decide +kernel

/-- non-vacuity of the main theorem: the same two computations on objects of their own, same schedules -/
example : ((runSched (ownObjects fun i => i + 1)
      (startCfg (fun i => i + 1) (fun i => if i = 0 then .not (.equalTo (.int 3)) else .equalTo (.int 3)) (fun _ => Tr.plain))
      [0, 1, 0, 0]).st 1) = ⟨[], [c!"to be equal to 3"]⟩ := by decide +kernel

end LccModel.C05Desc

/-
  C19 — Starting a run never destroys previous reports within the archive limit.

  Property theorems only (helper lemmas are in `Lemmas/ReportDir.lean`).  Every theorem quantifies
  over *all* histories of runs (any archive limit, including none) interleaved with manual deletion of
  arbitrary archive directories and of the current report directory, starting from the empty project
  directory.  Markers are run sequence numbers: larger marker = more recent run.
-/
import LccModel.Lemmas.ReportDir

namespace LccModel.C19
open LccModel.ReportDir

/-- States reachable from the empty project directory by any history. -/
def Reachable (s : St) : Prop := ∃ ops, runOps init ops = some s

theorem reachable_inv {s : St} (h : Reachable s) : Inv s := by
  obtain ⟨ops, h⟩ := h
  exact runOps_inv ops init s inv_init h

/-- No history makes `create_report_dir_with_rotation` fail or recurse without end
    (the model's recursion bound `hi + 1` always suffices). -/
theorem history_never_stuck (ops : List Op) : (runOps init ops).isSome = true :=
  runOps_total ops init inv_init

/-- The previous report is never overwritten or deleted: it becomes the most recent archive. -/
theorem run_keeps_previous {s s' : St} {l : Option Nat} {m : Nat}
    (_hs : Reachable s) (hc : s.current = some m) (h : run l s = some s') :
    s'.arch 1 = some m := by
  unfold run at h
  rw [hc] at h
  dsimp only at h
  cases hr : rotateDirs (s.hi + 1) (removeObsolete l s.arch) with
  | none => rw [hr] at h; cases h
  | some a => rw [hr] at h; injection h with h; subst h; simp

/-- The new report directory is a new, empty one: it carries a marker no existing directory has. -/
theorem run_new_dir_fresh {s s' : St} {l : Option Nat}
    (hs : Reachable s) (h : run l s = some s') :
    s'.current = some s.next ∧ (∀ n, s.arch n ≠ some s.next) ∧ s.current ≠ some s.next := by
  have hinv := reachable_inv hs
  refine ⟨?_, ?_, ?_⟩
  · unfold run at h
    cases hc : s.current with
    | none => rw [hc] at h; injection h with h; subst h; rfl
    | some m =>
      rw [hc] at h; dsimp only at h
      cases hr : rotateDirs (s.hi + 1) (removeObsolete l s.arch) with
      | none => rw [hr] at h; cases h
      | some a => rw [hr] at h; injection h with h; subst h; rfl
  · intro n hn; have := hinv.ltNext n _ hn; omega
  · intro hn; have := hinv.curLtNext _ hn; omega

/-- In every reachable state the slot order of the archives is their recency order … -/
theorem slot_order_is_recency {s : St} (hs : Reachable s) {i j a b : Nat}
    (hij : i < j) (hi : s.arch i = some a) (hj : s.arch j = some b) : b < a :=
  (reachable_inv hs).sorted i j a b hij hi hj

/-- … and the current report is more recent than every archive. -/
theorem current_is_newest {s : St} (hs : Reachable s) {m n a : Nat}
    (hc : s.current = some m) (ha : s.arch n = some a) : a < m :=
  (reachable_inv hs).curNewest m n a hc ha

/-- Older archives keep their relative recency order across a run. -/
theorem run_preserves_relative_order {s s' : St} {l : Option Nat}
    (hs : Reachable s) (h : run l s = some s') {i j i' j' a b : Nat}
    (hij : i < j) (hi : s.arch i = some a) (hj : s.arch j = some b)
    (hi' : s'.arch i' = some a) (hj' : s'.arch j' = some b) : i' < j' := by
  have hinv := reachable_inv hs
  have hinv' := run_inv l s s' hinv h
  have hba : b < a := hinv.sorted i j a b hij hi hj
  apply Classical.byContradiction
  intro hc
  by_cases e : i' = j'
  · subst e; rw [hi'] at hj'; injection hj' with e; omega
  · have := hinv'.sorted j' i' b a (by omega) hj' hi'
    omega

theorem countLe_mono (a : Arch) {L k : Nat} (h : L ≤ k) : countLe a L ≤ countLe a k := by
  unfold countLe
  have hsub : List.Sublist (List.range (L + 1)) (List.range (k + 1)) := by
    apply List.range_sublist.mpr; omega
  exact (List.Sublist.filter _ hsub).length_le

/-- Only the oldest archives beyond the configured limit are ever removed by a run: if archive `x`
    (at slot `k`) is gone afterwards then a limit `L` is configured, `x` sits at slot ≥ `L`, at least
    `L` archives are at least as recent as `x` (so with the report being archived `x` would be beyond
    the limit), and every archive that survives is more recent than `x`. -/
theorem run_removes_only_oldest_beyond_limit {s s' : St} {l : Option Nat} {k x : Nat}
    (hs : Reachable s) (h : run l s = some s')
    (hk : s.arch k = some x) (hgone : ∀ n, s'.arch n ≠ some x) :
    ∃ L, l = some L ∧ L ≤ k ∧ L ≤ countLe s.arch k ∧
      ∀ n y, s.arch n = some y → (∃ n', s'.arch n' = some y) → x < y := by
  have hinv := reachable_inv hs
  unfold run at h
  cases hc : s.current with
  | none =>
    rw [hc] at h; injection h with h; subst h
    exact absurd hk (hgone k)
  | some m =>
    rw [hc] at h; dsimp only at h
    cases hr : rotateDirs (s.hi + 1) (removeObsolete l s.arch) with
    | none => rw [hr] at h; cases h
    | some a =>
      rw [hr] at h; injection h with h; subst h
      dsimp only at hgone
      -- x is not in the table after removeObsolete (otherwise rotation would keep it)
      have hro : removeObsolete l s.arch k = none := by
        cases hq : removeObsolete l s.arch k with
        | none => rfl
        | some z =>
          have hz := removeObsolete_sub l s.arch k z hq
          rw [hk] at hz; injection hz with hz; subst hz
          obtain ⟨k', hk'⟩ := rotateDirs_keeps _ _ _ hr k x hq
          exfalso
          rcases hk' with ⟨hk1, _, _, hk2⟩ | ⟨_, hk0, _⟩
          · have := hgone k'
            have h1 : k' ≠ 1 := by omega
            simp only [h1, if_false] at this
            exact this hk1
          · subst hk0; rw [hinv.slot0] at hk; cases hk
      unfold removeObsolete at hro
      cases l with
      | none => dsimp only at hro; rw [hk] at hro; cases hro
      | some L =>
        dsimp only at hro
        by_cases hcnt : countLe s.arch L < L
        · simp only [hcnt, if_true] at hro; rw [hk] at hro; cases hro
        · simp only [hcnt, if_false] at hro
          have hLk : L ≤ k := by
            apply Classical.byContradiction; intro hc'
            simp only [hc', if_false] at hro; rw [hk] at hro; cases hro
          refine ⟨L, rfl, hLk, ?_, ?_⟩
          · have := countLe_mono s.arch hLk; omega
          · intro n y hn ⟨n', hn'⟩
            by_cases n1 : n' = 1
            · -- y is the report that has just been archived: not an archive of s, unless equal marker
              simp only [n1, if_true] at hn'
              injection hn' with hn'; subst hn'
              exact hinv.curNewest m k x hc hk
            · simp only [n1, if_false] at hn'
              obtain ⟨k0, hk0, _⟩ := rotateDirs_from _ _ _ hr n' y hn'
              have hk0' := hk0
              unfold removeObsolete at hk0'
              simp only [hcnt, if_false] at hk0'
              by_cases hl0 : L ≤ k0
              · simp only [hl0, if_true] at hk0'; cases hk0'
              · simp only [hl0, if_false] at hk0'
                exact hinv.sorted k0 k y x (by omega) hk0' hk

/-- Without a limit a run removes nothing. -/
theorem run_no_limit_keeps_all {s s' : St} {k x : Nat}
    (hs : Reachable s) (h : run none s = some s') (hk : s.arch k = some x) :
    ∃ n, s'.arch n = some x := by
  apply Classical.byContradiction
  intro hc
  have hgone : ∀ n, s'.arch n ≠ some x := fun n hn => hc ⟨n, hn⟩
  obtain ⟨L, hL, _⟩ := run_removes_only_oldest_beyond_limit hs h hk hgone
  cases hL

/-- While fewer than `L` archives occupy the slots up to `L`, a run with limit `L` removes nothing. -/
theorem run_under_limit_keeps_all {s s' : St} {L k x : Nat}
    (hs : Reachable s) (h : run (some L) s = some s') (hcnt : countLe s.arch L < L)
    (hk : s.arch k = some x) : ∃ n, s'.arch n = some x := by
  have hinv := reachable_inv hs
  unfold run at h
  cases hc : s.current with
  | none => rw [hc] at h; injection h with h; subst h; exact ⟨k, hk⟩
  | some m =>
    rw [hc] at h; dsimp only at h
    cases hr : rotateDirs (s.hi + 1) (removeObsolete (some L) s.arch) with
    | none => rw [hr] at h; cases h
    | some a =>
      rw [hr] at h; injection h with h; subst h
      have hq : removeObsolete (some L) s.arch k = some x := by
        unfold removeObsolete; simp only [hcnt, if_true]; exact hk
      obtain ⟨k', hk'⟩ := rotateDirs_keeps _ _ _ hr k x hq
      rcases hk' with ⟨hk1, _, _, hk2⟩ | ⟨_, hk0, _⟩
      · refine ⟨k', ?_⟩
        have h1 : k' ≠ 1 := by omega
        simp only [h1, if_false]; exact hk1
      · subst hk0; rw [hinv.slot0] at hk; cases hk

/-- Manual deletion of an archive removes that archive only and moves nothing. -/
theorem delete_removes_only_target (s : St) (n k : Nat) (hk : k ≠ n) :
    (delete n s).arch k = s.arch k ∧ (delete n s).current = s.current := by
  simp [delete, hk]

/-! Non-vacuity: a concrete history with a limit hit, a manual deletion (gap) and a current-directory
    deletion is reachable, and the hypotheses of the theorems above are met on it. -/
def sampleOps : List Op :=
  [.run (some 2), .run (some 2), .run (some 2), .delete 1, .run (some 2), .run (some 2), .deleteCurrent, .run none]

example : (runOps init sampleOps).map (fun s => (s.current, listing s)) = some (some 6, [(1, 4), (2, 3)]) := by
  decide

example : ∃ s, Reachable s ∧ s.current = some 3 ∧ s.arch 1 = some 2 ∧ s.arch 2 = some 1 :=
  match h : runOps init [.run (some 2), .run (some 2), .run (some 2)] with
  | some s => ⟨s, ⟨_, h⟩, by
      have : (some s).map (fun s => (s.current, s.arch 1, s.arch 2)) = some (some 3, some 2, some 1) := by
        rw [← h]; decide
      simpa using this⟩
  | none => by have := history_never_stuck [.run (some 2), .run (some 2), .run (some 2)]; rw [h] at this; cases this

end LccModel.C19

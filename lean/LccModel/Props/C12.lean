/-
  C12 — Test selection matches the filter, including report-based selection.

  Property theorems only (helper lemmas are in `Lemmas/Filter.lean`).  Every theorem quantifies over
  *all* suite trees (arbitrary depth and width, metadata at every level), all hierarchies, all filter
  expressions and all reports; text is a list of code points (`Str`).  `Tree τ` is the nested inductive
  suite tree; `flattenSuites`, `filterSuites`, `allSuites` are `flatten_tests`, `filter_suites`,
  `flatten_suites` of `testtree.py`.

  The model is the code with the candidate repair of D9 applied (an empty pattern string is an ordinary
  wildcard pattern); `empty_pattern_is_a_pattern` states that corner.
-/
import LccModel.Lemmas.Filter

namespace LccModel.C12
open LccModel.Filter

/-! ## 1. "the selected tree keeps hierarchy and order and drops only suites left empty" -/

/-- Flattening the filtered tree = filtering the flattened tree: the selected tests are exactly the
    tests the filter accepts, each with its complete hierarchy (hence its path), in the original order. -/
theorem flatten_filter {τ} (p : Hier → τ → Bool) (ctx : Hier) (S : List (Tree τ)) :
    flattenSuites ctx (filterSuites p ctx S) = (flattenSuites ctx S).filter (fun x => p x.1 x.2) :=
  flattenSuites_filter p ctx S

/-- The same, read on paths: the list of selected test paths is the sub-list of the project's test
    paths whose tests satisfy the filter, order kept. -/
theorem selected_paths_in_order (f : TestFilter) (S : List Suite) :
    (flattenSuites [] (filterSuites f.pred [] S)).map (fun x => pathOf (testHier x)) =
      ((flattenSuites [] S).filter (fun x => f.sel (testHier x))).map (fun x => pathOf (testHier x)) := by
  rw [flatten_filter]; rfl

/-- Membership form: a test is in the filtered tree iff it is in the tree and the filter accepts it. -/
theorem mem_selected_iff {τ} (p : Hier → τ → Bool) (ctx : Hier) (S : List (Tree τ)) (x : Hier × τ) :
    x ∈ flattenSuites ctx (filterSuites p ctx S) ↔ x ∈ flattenSuites ctx S ∧ p x.1 x.2 = true := by
  rw [flatten_filter, List.mem_filter]

/-- No suite of the result, at any depth, is empty. -/
theorem no_empty_suite {τ} (p : Hier → τ → Bool) (ctx : Hier) (S : List (Tree τ)) :
    ∀ x ∈ allSuites ctx (filterSuites p ctx S), x.2.isEmpty = false :=
  filterSuites_nonempty p ctx S

/-- Hierarchy kept, only empty suites dropped: the suites of the result (at every depth, in tree order,
    identified by their full hierarchy) are exactly the original suites that contain a selected test. -/
theorem kept_suites_exactly {τ} (p : Hier → τ → Bool) (ctx : Hier) (S : List (Tree τ)) :
    (allSuites ctx (filterSuites p ctx S)).map suiteHier =
      ((allSuites ctx S).filter (hasSelected p)).map suiteHier :=
  keptSuites p ctx S

/-- Filtering twice changes nothing. -/
theorem idempotent {τ} (p : Hier → τ → Bool) (ctx : Hier) (S : List (Tree τ)) :
    filterSuites p ctx (filterSuites p ctx S) = filterSuites p ctx S :=
  filterSuites_idem p ctx S

/-- A filter that accepts every test keeps every test (only suites that were already empty disappear). -/
theorem accept_all_keeps_all_tests {τ} (p : Hier → τ → Bool) (hp : ∀ c t, p c t = true) (ctx : Hier)
    (S : List (Tree τ)) : flattenSuites ctx (filterSuites p ctx S) = flattenSuites ctx S := by
  rw [flatten_filter]
  exact List.filter_eq_self.mpr (fun x _ => hp x.1 x.2)

/-! ## 2. "A test is selected if and only if it satisfies the filter" — the declarative reading -/

/-- One pattern holds of a set of values: a leading `-`, `^` or `~` negates ("no value matches the
    rest"), otherwise "some value matches". -/
def PatHolds (vals : List Str) (p : Str) : Prop :=
  if startsWithFlag p = true then ¬ ∃ v ∈ vals, fnmatch p.tail v = true
  else ∃ v ∈ vals, fnmatch p v = true

/-- One occurrence of an option holds: some of its values holds (an occurrence without values holds). -/
def OptHolds (vals : List Str) (opt : List Str) : Prop := opt = [] ∨ ∃ p ∈ opt, PatHolds vals p

/-- One `key:pattern` of `--property`: the key must be defined in the hierarchy, for either polarity. -/
def KeyPatHolds (look : Str → Option Str) (kv : Str × Str) : Prop :=
  ∃ x, look kv.1 = some x ∧
    (if startsWithFlag kv.2 = true then fnmatch kv.2.tail x = false else fnmatch kv.2 x = true)

def KeyOptHolds (look : Str → Option Str) (opt : List (Str × Str)) : Prop :=
  opt = [] ∨ ∃ kv ∈ opt, KeyPatHolds look kv

/-- What "the test with hierarchy `h` satisfies the filter `f`" means. -/
def Satisfies (f : TestFilter) (h : Hier) : Prop :=
  OptHolds (hierPaths h) f.paths ∧
  (∀ o ∈ f.descs, OptHolds (hierDescs h) o) ∧
  (∀ o ∈ f.tags, OptHolds (hierTags h) o) ∧
  (∀ o ∈ f.props, KeyOptHolds (lookupProp h) o) ∧
  (∀ o ∈ f.links, OptHolds (hierLinks h) o) ∧
  (f.enabled = true → isDisabled h = false) ∧
  (f.disabled = true → isDisabled h = true)

theorem matchPattern_iff (vals : List Str) (p : Str) : matchPattern vals p = true ↔ PatHolds vals p := by
  unfold PatHolds
  by_cases h : startsWithFlag p = true
  · cases p with
    | nil => simp [startsWithFlag, parsePat] at h
    | cons c g =>
      have hc : isNegFlag c = true := by
        unfold startsWithFlag parsePat at h
        by_cases hc : isNegFlag c = true
        · exact hc
        · simp [hc] at h
      simp [h, matchPattern_neg vals g hc, anyMatch]
  · have h' : startsWithFlag p = false := by simpa using h
    simp [h, matchPattern_pos vals h', anyMatch]

theorem matchValues_iff (vals : List Str) (opt : List Str) : matchValues vals opt = true ↔ OptHolds vals opt := by
  unfold OptHolds
  cases opt with
  | nil => simp [matchValues]
  | cons p r =>
    rw [matchValues_ne_nil vals (by simp)]
    simp only [List.any_eq_true, matchPattern_iff]
    simp

theorem matchKeyPattern_iff (look : Str → Option Str) (kv : Str × Str) :
    matchKeyPattern look kv = true ↔ KeyPatHolds look kv := by
  unfold KeyPatHolds matchKeyPattern
  cases hl : look kv.1 with
  | none => simp
  | some x =>
    by_cases h : startsWithFlag kv.2 = true
    · cases hv : kv.2 with
      | nil => rw [hv] at h; simp [startsWithFlag, parsePat] at h
      | cons c g =>
        rw [hv] at h
        have hc : isNegFlag c = true := by
          unfold startsWithFlag parsePat at h
          by_cases hc : isNegFlag c = true
          · exact hc
          · simp [hc] at h
        simp [h, parsePat_flag g hc]
    · have h' : startsWithFlag kv.2 = false := by simpa using h
      simp [h, parsePat_noflag h']

theorem matchKeyValues_iff (look : Str → Option Str) (opt : List (Str × Str)) :
    matchKeyValues look opt = true ↔ KeyOptHolds look opt := by
  unfold KeyOptHolds
  cases opt with
  | nil => simp [matchKeyValues]
  | cons p r =>
    rw [matchKeyValues_ne_nil look (by simp)]
    simp only [List.any_eq_true, matchKeyPattern_iff]
    simp

/-- The executable selection function decides exactly `Satisfies`: wildcard patterns on path,
    description, tag, property and link, negation flags, OR inside an option, AND across repeated
    options and across criteria, metadata of the whole hierarchy, enabled/disabled switches. -/
theorem selected_iff_satisfies (f : TestFilter) (h : Hier) : f.sel h = true ↔ Satisfies f h := by
  unfold Satisfies TestFilter.sel Base.sel Base.doPaths Base.doDescs Base.doTags Base.doProps Base.doLinks
  simp only [Bool.and_eq_true, List.all_eq_true, matchValues_iff, matchKeyValues_iff, Bool.or_eq_true,
    Bool.not_eq_true']
  constructor
  · rintro ⟨⟨⟨⟨⟨⟨h1, h2⟩, h3⟩, h4⟩, h5⟩, h6⟩, h7⟩
    refine ⟨h1, h2, h3, h4, h5, ?_, ?_⟩
    · intro he; rcases h6 with h6 | h6
      · rw [he] at h6; cases h6
      · exact h6
    · intro hd; rcases h7 with h7 | h7
      · rw [hd] at h7; cases h7
      · exact h7
  · rintro ⟨h1, h2, h3, h4, h5, h6, h7⟩
    refine ⟨⟨⟨⟨⟨⟨h1, h2⟩, h3⟩, h4⟩, h5⟩, ?_⟩, ?_⟩
    · cases he : f.enabled
      · left; rfl
      · right; exact h6 he
    · cases hd : f.disabled
      · left; rfl
      · right; exact h7 hd

/-- The first sentence of the property, end to end: a test is in the selected tree iff it is a test of
    the project and satisfies the filter. -/
theorem selected_iff (f : TestFilter) (S : List Suite) (x : Hier × Node) :
    x ∈ flattenSuites [] (filterSuites f.pred [] S) ↔
      x ∈ flattenSuites [] S ∧ Satisfies f (testHier x) := by
  rw [mem_selected_iff, ← selected_iff_satisfies]; rfl

/-- Non-vacuity: a two-level tree and a filter that selects a proper non-empty subset. -/
example :
    let t (n : Nat) (tags : List Str) : Node := { name := [n], desc := [n], tags := tags, props := [], links := [], disabled := false }
    let S : List Suite := [.mk (t 115 [[120]]) [t 97 [], t 98 [[121]]] [.mk (t 117 []) [t 99 [[121]]] []]]
    let f : TestFilter := { tags := [[[121]]] }
    (flattenSuites [] (filterSuites f.pred [] S)).map (fun x => pathOf (testHier x))
      = [[115, 46, 98], [115, 46, 117, 46, 99]] := by decide

/-! ## 3. "an empty filter selects everything" -/

/-- A filter without any criterion accepts every test. -/
theorem empty_selects_all (f : TestFilter) (hf : f.isEmpty = true) (h : Hier) : f.sel h = true := by
  obtain ⟨⟨paths, descs, tags, props, links⟩, en, dis⟩ := f
  simp only [TestFilter.isEmpty, Base.isEmpty, Bool.and_eq_true, List.isEmpty_iff, Bool.not_eq_true'] at hf
  obtain ⟨⟨⟨⟨⟨⟨rfl, rfl⟩, rfl⟩, rfl⟩, rfl⟩, rfl⟩, rfl⟩ := hf
  simp [TestFilter.sel, Base.sel, Base.doPaths, Base.doDescs, Base.doTags, Base.doProps, Base.doLinks, matchValues]

/-- `load_suites_from_project` with an empty filter returns the project's suites untouched
    (provided the project defines at least one test). -/
theorem load_empty_filter (f : TestFilter) (hf : f.isEmpty = true) (S : List Suite) (hS : allEmpty S = false) :
    loadSuites (Sel.tree f).truthy ((Sel.tree f).pred []) S = .ok S := by
  simp [loadSuites, Sel.truthy, hf, hS]

/-! ## 4. "values of one option OR-ed" -/

/-- The values of one option occurrence are alternatives. -/
theorem or_within (vals : List Str) (ps qs : List Str) (hp : ps ≠ []) (hq : qs ≠ []) :
    matchValues vals (ps ++ qs) = (matchValues vals ps || matchValues vals qs) := by
  rw [matchValues_ne_nil vals hp, matchValues_ne_nil vals hq, matchValues_ne_nil vals (by simp [hp])]
  exact List.any_append

/-- The same for `--property k1:v1 k2:v2`. -/
theorem or_within_props (look : Str → Option Str) (ps qs : List (Str × Str)) (hp : ps ≠ []) (hq : qs ≠ []) :
    matchKeyValues look (ps ++ qs) = (matchKeyValues look ps || matchKeyValues look qs) := by
  rw [matchKeyValues_ne_nil look hp, matchKeyValues_ne_nil look hq, matchKeyValues_ne_nil look (by simp [hp])]
  exact List.any_append

/-- On whole selections: the tests selected by `--tag p… q…` are the union of those selected by
    `--tag p…` and by `--tag q…` (same for the other criteria by `or_within`). -/
theorem or_within_selection (ps qs : List Str) (hp : ps ≠ []) (hq : qs ≠ []) (h : Hier) :
    ({ tags := [ps ++ qs] } : TestFilter).sel h =
      (({ tags := [ps] } : TestFilter).sel h || ({ tags := [qs] } : TestFilter).sel h) := by
  simp [TestFilter.sel, Base.sel, Base.doPaths, Base.doDescs, Base.doTags, Base.doProps, Base.doLinks,
    or_within _ ps qs hp hq, matchValues_nil]

/-- Path patterns (positional arguments) form a single option: they are alternatives. -/
theorem paths_are_alternatives (f : TestFilter) (ps qs : List Str) (hp : ps ≠ []) (hq : qs ≠ []) (h : Hier) :
    ({ f with paths := ps ++ qs } : TestFilter).sel h =
      (({ f with paths := ps } : TestFilter).sel h || ({ f with paths := qs } : TestFilter).sel h) := by
  simp only [TestFilter.sel, Base.sel, Base.doPaths, Base.doDescs, Base.doTags, Base.doProps, Base.doLinks,
    or_within _ ps qs hp hq]
  cases matchValues (hierPaths h) ps <;> cases matchValues (hierPaths h) qs <;> simp

/-! ## 5. "repeated options AND-ed" -/

/-- One more occurrence of `--tag` is one more condition. -/
theorem and_across_tags (f : TestFilter) (opt : List Str) (h : Hier) :
    ({ f with tags := opt :: f.tags } : TestFilter).sel h = (matchValues (hierTags h) opt && f.sel h) := by
  simp only [TestFilter.sel, Base.sel, Base.doPaths, Base.doDescs, Base.doTags, Base.doProps, Base.doLinks,
    List.all_cons]
  cases matchValues (hierTags h) opt <;> simp

theorem and_across_descs (f : TestFilter) (opt : List Str) (h : Hier) :
    ({ f with descs := opt :: f.descs } : TestFilter).sel h = (matchValues (hierDescs h) opt && f.sel h) := by
  simp only [TestFilter.sel, Base.sel, Base.doPaths, Base.doDescs, Base.doTags, Base.doProps, Base.doLinks,
    List.all_cons]
  cases matchValues (hierDescs h) opt <;> simp

theorem and_across_links (f : TestFilter) (opt : List Str) (h : Hier) :
    ({ f with links := opt :: f.links } : TestFilter).sel h = (matchValues (hierLinks h) opt && f.sel h) := by
  simp only [TestFilter.sel, Base.sel, Base.doPaths, Base.doDescs, Base.doTags, Base.doProps, Base.doLinks,
    List.all_cons]
  cases matchValues (hierLinks h) opt <;> simp

theorem and_across_props (f : TestFilter) (opt : List (Str × Str)) (h : Hier) :
    ({ f with props := opt :: f.props } : TestFilter).sel h =
      (matchKeyValues (lookupProp h) opt && f.sel h) := by
  simp only [TestFilter.sel, Base.sel, Base.doPaths, Base.doDescs, Base.doTags, Base.doProps, Base.doLinks,
    List.all_cons]
  cases matchKeyValues (lookupProp h) opt <;> simp

/-- Putting the criteria of two filters on one command line (`g` without path patterns, because all
    positional path patterns form one OR-ed option). -/
def conj (f g : TestFilter) : TestFilter :=
  { paths := f.paths ++ g.paths, descs := f.descs ++ g.descs, tags := f.tags ++ g.tags,
    props := f.props ++ g.props, links := f.links ++ g.links,
    enabled := f.enabled || g.enabled, disabled := f.disabled || g.disabled }

/-- Criteria of different kinds and repeated options intersect: the selection of the combined filter
    is the intersection of the selections. -/
theorem and_across (f g : TestFilter) (hg : g.paths = []) (h : Hier) :
    (conj f g).sel h = (f.sel h && g.sel h) := by
  simp only [conj, hg, List.append_nil, TestFilter.sel, Base.sel, Base.doPaths, Base.doDescs, Base.doTags,
    Base.doProps, Base.doLinks, List.all_append, matchValues_nil, Bool.true_and]
  rw [bool_and5, Bool.and_assoc, bool_switches, bool_and4]
  simp only [Bool.and_assoc]

example : ∃ f g : TestFilter, g.paths = [] ∧ ¬ f.isEmpty ∧ ¬ g.isEmpty :=
  ⟨{ paths := [[97]] }, { tags := [[[98]]] }, rfl, by decide, by decide⟩

/-! ## 6. "a leading ^ (or - or ~) negating a pattern" -/

/-- Negation is complement, on one set of values: for a pattern `g` that does not itself start with a
    flag, `^g` / `-g` / `~g` holds exactly when `g` does not. -/
theorem negation_complement (vals : List Str) (c : Nat) (g : Str) (hc : isNegFlag c = true)
    (hg : startsWithFlag g = false) :
    matchValues vals [c :: g] = !matchValues vals [g] := by
  simp [matchValues, matchPattern_neg vals g hc, matchPattern_pos vals hg]

example : isNegFlag cCaret = true ∧ isNegFlag cHyphen = true ∧ isNegFlag cTilde = true ∧
    startsWithFlag [102, 111, 111] = false := by decide

/-- On whole selections, for the four value criteria: the tests selected by the negated pattern are
    exactly the tests *not* selected by the pattern. -/
theorem negation_complement_tags (c : Nat) (g : Str) (hc : isNegFlag c = true) (hg : startsWithFlag g = false)
    (h : Hier) : ({ tags := [[c :: g]] } : TestFilter).sel h = !({ tags := [[g]] } : TestFilter).sel h := by
  simp [TestFilter.sel, Base.sel, Base.doPaths, Base.doDescs, Base.doTags, Base.doProps, Base.doLinks,
    negation_complement _ c g hc hg, matchValues_nil]

theorem negation_complement_paths (c : Nat) (g : Str) (hc : isNegFlag c = true) (hg : startsWithFlag g = false)
    (h : Hier) : ({ paths := [c :: g] } : TestFilter).sel h = !({ paths := [g] } : TestFilter).sel h := by
  simp [TestFilter.sel, Base.sel, Base.doPaths, Base.doDescs, Base.doTags, Base.doProps, Base.doLinks,
    negation_complement _ c g hc hg]

theorem negation_complement_descs (c : Nat) (g : Str) (hc : isNegFlag c = true) (hg : startsWithFlag g = false)
    (h : Hier) : ({ descs := [[c :: g]] } : TestFilter).sel h = !({ descs := [[g]] } : TestFilter).sel h := by
  simp [TestFilter.sel, Base.sel, Base.doPaths, Base.doDescs, Base.doTags, Base.doProps, Base.doLinks,
    negation_complement _ c g hc hg, matchValues_nil]

theorem negation_complement_links (c : Nat) (g : Str) (hc : isNegFlag c = true) (hg : startsWithFlag g = false)
    (h : Hier) : ({ links := [[c :: g]] } : TestFilter).sel h = !({ links := [[g]] } : TestFilter).sel h := by
  simp [TestFilter.sel, Base.sel, Base.doPaths, Base.doDescs, Base.doTags, Base.doProps, Base.doLinks,
    negation_complement _ c g hc hg, matchValues_nil]

/-- Properties, exactly as the code has them: a `key:^pattern` criterion selects the tests whose
    hierarchy *defines the key* with a value that does not match.  It is the complement of
    `key:pattern` only among the tests that define the key; a test without the key satisfies neither. -/
theorem negation_props (look : Str → Option Str) (k : Str) (c : Nat) (g : Str) (hc : isNegFlag c = true)
    (hg : startsWithFlag g = false) :
    matchKeyValues look [(k, c :: g)] = ((look k).isSome && !matchKeyValues look [(k, g)]) := by
  simp only [matchKeyValues, List.isEmpty_cons, List.any_cons, List.any_nil, Bool.or_false, Bool.false_or,
    matchKeyPattern]
  cases look k with
  | none => rfl
  | some v => simp [parsePat_flag g hc, parsePat_noflag hg]

/-- A test whose hierarchy does not define the key is rejected by both polarities. -/
theorem props_need_the_key (look : Str → Option Str) (k v : Str) (hk : look k = none) :
    matchKeyValues look [(k, v)] = false := by
  simp [matchKeyValues, matchKeyPattern, hk]

/-- The selection-level statement for properties. -/
theorem negation_props_selection (k : Str) (c : Nat) (g : Str) (hc : isNegFlag c = true)
    (hg : startsWithFlag g = false) (h : Hier) :
    ({ props := [[(k, c :: g)]] } : TestFilter).sel h =
      ((lookupProp h k).isSome && !({ props := [[(k, g)]] } : TestFilter).sel h) := by
  simp [TestFilter.sel, Base.sel, Base.doPaths, Base.doDescs, Base.doTags, Base.doProps, Base.doLinks,
    negation_props _ k c g hc hg, matchValues]

/-- A doubled flag is not a double negation: the second flag character belongs to the wildcard pattern. -/
theorem double_flag_is_literal (vals : List Str) (c d : Nat) (g : Str) (hc : isNegFlag c = true) :
    matchValues vals [c :: d :: g] = !anyMatch vals (d :: g) := by
  simp [matchValues, matchPattern_neg vals (d :: g) hc]

/-- D9 (repaired behaviour): an empty pattern is a positive wildcard pattern; it holds iff some value is
    the empty string.  The unrepaired code raises `IndexError` here (witness in the `C12.filter` corpus). -/
theorem empty_pattern_is_a_pattern (vals : List Str) : matchValues vals [[]] = vals.contains [] := by
  simp only [matchValues, List.isEmpty_cons, List.any_cons, List.any_nil, Bool.or_false, Bool.false_or,
    matchPattern, parsePat, anyMatch, Bool.false_eq_true, ↓reduceIte]
  induction vals with
  | nil => rfl
  | cons v r ih =>
    simp only [List.any_cons, List.contains_cons, ih, fnmatch_nil]
    congr 1
    cases v <;> rfl

/-! ## 7. "metadata inherited from enclosing suites" -/

/-- The values a criterion looks at only grow when going down the hierarchy: everything visible on a
    suite's hierarchy `a` is visible on every hierarchy `a ++ b` below it. -/
theorem inherited_values (a b : Hier) :
    (∀ v ∈ hierPaths a, v ∈ hierPaths (a ++ b)) ∧ (∀ v ∈ hierDescs a, v ∈ hierDescs (a ++ b)) ∧
    (∀ v ∈ hierTags a, v ∈ hierTags (a ++ b)) ∧ (∀ v ∈ hierLinks a, v ∈ hierLinks (a ++ b)) ∧
    (isDisabled a = true → isDisabled (a ++ b) = true) := by
  refine ⟨?_, ?_, ?_, ?_, ?_⟩
  · intro v hv; rw [hierPaths_append]; exact List.mem_append_left _ hv
  · intro v hv; rw [hierDescs_append]; exact List.mem_append_left _ hv
  · intro v hv; rw [hierTags_append]; exact List.mem_append_left _ hv
  · intro v hv; rw [hierLinks_append]; exact List.mem_append_left _ hv
  · intro h; rw [isDisabled_append, h]; rfl

/-- Properties are inherited unless redefined lower down: the deepest definition of a key wins. -/
theorem inherited_property (a b : Hier) (k : Str) :
    lookupProp (a ++ b) k = match lookupProp b k with
      | some v => some v
      | none => lookupProp a k := by
  rw [lookupProp_append]
  cases lookupProp b k <;> rfl

/-- The own path, description, tags and links of every node of the hierarchy count. -/
theorem node_values_count (a : Hier) (n : Node) (b : Hier) :
    pathOf (a ++ [n]) ∈ hierPaths (a ++ n :: b) ∧ n.desc ∈ hierDescs (a ++ n :: b) ∧
    (∀ t ∈ n.tags, t ∈ hierTags (a ++ n :: b)) ∧
    (∀ l ∈ n.links, ∀ v ∈ linkValues l, v ∈ hierLinks (a ++ n :: b)) := by
  have e : a ++ n :: b = (a ++ [n]) ++ b := by simp
  refine ⟨?_, ?_, ?_, ?_⟩
  · rw [e, hierPaths_append]
    apply List.mem_append_left
    simp only [hierPaths, List.mem_map]
    exact ⟨a ++ [n], mem_prefixes_self _ (by simp), rfl⟩
  · simp [hierDescs]
  · intro t ht
    simp only [hierTags, List.mem_flatMap]
    exact ⟨n, by simp, ht⟩
  · intro l hl v hv
    simp only [hierLinks, List.mem_flatMap]
    exact ⟨l, ⟨n, by simp, hl⟩, hv⟩

/-- Tree-level inheritance, positive pattern: if a (flag-less) path pattern matches the path of a suite,
    every test below that suite, at any depth, is selected by it.  (`lcc run mysuite` runs the whole suite.) -/
theorem suite_path_selects_subtree (ctx : Hier) (s : Suite) (g : Str) (hg : startsWithFlag g = false)
    (hm : fnmatch g (pathOf (ctx ++ [s.node])) = true) :
    ∀ x ∈ flattenSuite ctx s, ({ paths := [g] } : TestFilter).sel (testHier x) = true := by
  intro x hx
  obtain ⟨mid, hmid⟩ := flattenSuite_prefix ctx s x hx
  have hin : pathOf (ctx ++ [s.node]) ∈ hierPaths (testHier x) := by
    have := (node_values_count ctx s.node (mid ++ [x.2])).1
    simpa [testHier, hmid] using this
  simp only [TestFilter.sel, Base.sel, Base.doPaths, Base.doDescs, Base.doTags, Base.doProps, Base.doLinks,
    matchValues, List.isEmpty_cons, List.any_cons, List.any_nil, Bool.or_false, Bool.false_or,
    matchPattern_pos _ hg, anyMatch, List.all_nil, Bool.and_true, Bool.not_false, Bool.true_or]
  exact List.any_eq_true.mpr ⟨_, hin, hm⟩

/-- Non-vacuity: the hypotheses of `suite_path_selects_subtree` hold for the pattern `s` and a suite named `s`. -/
example : startsWithFlag [115] = false ∧
    fnmatch [115] (pathOf ([] ++ [(Tree.mk { name := [115], desc := [], tags := [], props := [], links := [], disabled := false }
      ([] : List Node) []).node])) = true := by decide

/-- Tree-level inheritance, tags, both polarities: if a tag of a suite matches `g`, then `--tag g`
    selects every test below the suite and `--tag ^g` selects none of them. -/
theorem suite_tag_inherited (ctx : Hier) (s : Suite) (g tag : Str) (hg : startsWithFlag g = false)
    (ht : tag ∈ s.node.tags) (hm : fnmatch g tag = true) (c : Nat) (hc : isNegFlag c = true) :
    ∀ x ∈ flattenSuite ctx s, ({ tags := [[g]] } : TestFilter).sel (testHier x) = true ∧
      ({ tags := [[c :: g]] } : TestFilter).sel (testHier x) = false := by
  intro x hx
  obtain ⟨mid, hmid⟩ := flattenSuite_prefix ctx s x hx
  have hin : tag ∈ hierTags (testHier x) := by
    have := (node_values_count ctx s.node (mid ++ [x.2])).2.2.1 tag ht
    simpa [testHier, hmid] using this
  have hpos : ({ tags := [[g]] } : TestFilter).sel (testHier x) = true := by
    simp only [TestFilter.sel, Base.sel, Base.doPaths, Base.doDescs, Base.doTags, Base.doProps, Base.doLinks,
      matchValues, List.isEmpty_cons, List.any_cons, List.any_nil, Bool.or_false, Bool.false_or,
      matchPattern_pos _ hg, anyMatch, List.all_nil, List.all_cons, Bool.and_true, Bool.not_false, Bool.true_or,
      List.isEmpty_nil, Bool.true_and]
    exact List.any_eq_true.mpr ⟨_, hin, hm⟩
  refine ⟨hpos, ?_⟩
  rw [negation_complement_tags c g hc hg, hpos]; rfl

/-- A disabled suite disables every test below it: `--disabled` selects them all, `--enabled` none. -/
theorem suite_disabled_inherited (ctx : Hier) (s : Suite) (hd : s.node.disabled = true) :
    ∀ x ∈ flattenSuite ctx s, ({ disabled := true } : TestFilter).sel (testHier x) = true ∧
      ({ enabled := true } : TestFilter).sel (testHier x) = false := by
  intro x hx
  obtain ⟨mid, hmid⟩ := flattenSuite_prefix ctx s x hx
  have hdis : isDisabled (testHier x) = true := by
    simp only [testHier, hmid, isDisabled, List.any_eq_true]
    exact ⟨s.node, by simp, hd⟩
  simp [TestFilter.sel, Base.sel, Base.doPaths, Base.doDescs, Base.doTags, Base.doProps, Base.doLinks,
    matchValues, hdis]

/-! ## 8. "the enabled/disabled switches" -/

/-- `--enabled` selects exactly the tests that are not disabled (directly or through a suite),
    `--disabled` exactly the disabled ones; together they select nothing (the command line rejects the
    combination, see `cli_rejects_enabled_and_disabled`). -/
theorem enabled_disabled_switches (h : Hier) :
    ({ enabled := true } : TestFilter).sel h = !isDisabled h ∧
    ({ disabled := true } : TestFilter).sel h = isDisabled h ∧
    ({ enabled := true, disabled := true } : TestFilter).sel h = false := by
  simp [TestFilter.sel, Base.sel, Base.doPaths, Base.doDescs, Base.doTags, Base.doProps, Base.doLinks, matchValues]

theorem cli_rejects_enabled_and_disabled (c : Cli) (h : c.enabled = true ∧ c.disabled = true) :
    makeTestFilter c = .error .enabledAndDisabled := by
  cases hr : c.reportBased <;> simp [makeTestFilter, makeResultFilter, h.1, h.2, hr]

/-! ## 9. Wildcards (`fnmatch`) -/

/-- `*` matches everything. -/
theorem star_matches_everything (s : Str) : fnmatch [cStar] s = true := by
  simp only [fnmatch, tokenize, cStar, cQuestion, cOpen]
  exact gmatch_star_nil s

/-- A pattern without `*`, `?`, `[` matches only itself. -/
theorem literal_matches_only_itself (p s : Str) (hp : ∀ c ∈ p, plainChar c = true) :
    fnmatch p s = true ↔ s = p := by
  unfold fnmatch
  rw [tokenize_plain p hp]
  have := gmatch_lits_append p [] s
  simp only [List.append_nil] at this
  rw [this]
  constructor
  · rintro ⟨t, rfl, ht⟩; rw [(gmatch_nil t).mp ht]; simp
  · rintro rfl; exact ⟨[], by simp, by simp [gmatch]⟩

/-- `prefix*` matches exactly the texts that start with the prefix (`lcc run "mysuite.*"`). -/
theorem prefix_star (p s : Str) (hp : ∀ c ∈ p, plainChar c = true) :
    fnmatch (p ++ [cStar]) s = true ↔ ∃ t, s = p ++ t := by
  unfold fnmatch
  rw [tokenize_append_plain p [cStar] hp]
  have h1 : tokenize 0 [cStar] = [.star] := by simp [tokenize, cStar]
  rw [h1, gmatch_lits_append]
  constructor
  · rintro ⟨t, rfl, _⟩; exact ⟨t, rfl⟩
  · rintro ⟨t, rfl⟩; exact ⟨t, rfl, gmatch_star_nil t⟩

/-- `?` matches exactly the one-character texts. -/
theorem question_matches_one_char (s : Str) : fnmatch [cQuestion] s = true ↔ s.length = 1 := by
  simp only [fnmatch, tokenize, cStar, cQuestion, cOpen]
  cases s with
  | nil => simp [gmatch]
  | cons c r => cases r <;> simp [gmatch, Tok.accepts]

/-- `*infix*` matches exactly the texts that contain the infix. -/
theorem star_infix_star (p s : Str) (hp : ∀ c ∈ p, plainChar c = true) :
    fnmatch (cStar :: (p ++ [cStar])) s = true ↔ ∃ a b, s = a ++ p ++ b := by
  unfold fnmatch
  have h0 : tokenize 0 (cStar :: (p ++ [cStar])) = .star :: tokenize 0 (p ++ [cStar]) := by
    simp [tokenize, cStar]
  have h1 : tokenize 0 [cStar] = [.star] := by simp [tokenize, cStar]
  rw [h0, tokenize_append_plain p [cStar] hp, h1]
  simp only [gmatch]
  rw [anySuffix_iff]
  constructor
  · rintro ⟨a, b, rfl, hb⟩
    obtain ⟨t, rfl, _⟩ := (gmatch_lits_append p [.star] b).mp hb
    exact ⟨a, t, by simp⟩
  · rintro ⟨a, b, rfl⟩
    exact ⟨a, p ++ b, by simp, (gmatch_lits_append p [.star] (p ++ b)).mpr ⟨b, rfl, gmatch_star_nil b⟩⟩

example : (∀ c ∈ [115, 46, 116], plainChar c = true) ∧ fnmatch [115, 46, 42] [115, 46, 116] = true ∧
    fnmatch [91, 97, 45, 99, 93] [98] = true ∧ fnmatch [91, 33, 97, 45, 99, 93] [98] = false := by decide

/-! ## 10. Report-based selection -/

/-- "the selected tests are exactly the project tests whose result in that report satisfies them":
    with a report-based filter the selection is the list of project tests (order kept) for which the
    report contains a test result *with the same path* that the result filter accepts. -/
theorem from_report (rf : ResultFilter) (R : List SuiteRes) (S : List Suite) :
    flattenSuites [] (filterSuites (fromTestsPred (fromReportPaths rf R)) [] S) =
      (flattenSuites [] S).filter (fun t =>
        (flattenSuites [] R).any (fun r => rf.sel r.1 r.2 && pathOf (resHier r) == pathOf (testHier t))) := by
  rw [flatten_filter]
  congr 1
  funext t
  simp only [fromTestsPred, fromReportPaths, contains_map_filter]
  rfl

/-- Membership form of `from_report`. -/
theorem from_report_iff (rf : ResultFilter) (R : List SuiteRes) (S : List Suite) (t : Hier × Node) :
    t ∈ flattenSuites [] (filterSuites (fromTestsPred (fromReportPaths rf R)) [] S) ↔
      t ∈ flattenSuites [] S ∧
      ∃ r ∈ flattenSuites [] R, rf.sel r.1 r.2 = true ∧ pathOf (resHier r) = pathOf (testHier t) := by
  rw [from_report, List.mem_filter]
  simp only [List.any_eq_true, Bool.and_eq_true, beq_iff_eq]

/-- What a result must fulfil: the tree criteria evaluated on the *report's* hierarchy, a status in the
    requested set (if any), the enabled/disabled switches read on the status, and the `--grep` pattern found
    in SOME SINGLE grepable item (`Props/C12Grep.lean` says what "found" means). -/
theorem result_filter_iff (rf : ResultFilter) (ctx : Hier) (r : TestRes) :
    rf.sel ctx r = true ↔
      rf.toBase.sel (ctx ++ [r.node]) = true ∧
      (rf.statuses = [] ∨ ∃ s ∈ rf.statuses, r.status = some s) ∧
      (rf.enabled = true → r.status ≠ some .disabled) ∧
      (rf.disabled = true → r.status = some .disabled) ∧
      (∀ re, rf.grep = some re → ∃ txt ∈ grepables r.steps, Regex.search re txt = true) := by
  simp only [ResultFilter.sel, ResultFilter.resultCriteria, ResultFilter.doStatuses, ResultFilter.doGrep,
    Bool.and_eq_true, Bool.or_eq_true, List.isEmpty_iff, Bool.not_eq_true', bne_iff_ne, ne_eq, beq_iff_eq]
  constructor
  · rintro ⟨hb, ⟨⟨hs, he⟩, hd⟩, hg⟩
    refine ⟨hb, ?_, ?_, ?_, ?_⟩
    · rcases hs with hs | hs
      · left; exact hs
      · right
        cases hst : r.status with
        | none => rw [hst] at hs; cases hs
        | some s => rw [hst] at hs; exact ⟨s, by simpa using hs, rfl⟩
    · intro h; rcases he with he | he
      · rw [h] at he; cases he
      · exact he
    · intro h; rcases hd with hd | hd
      · rw [h] at hd; cases hd
      · exact hd
    · intro lit hl; rw [hl] at hg; simpa using hg
  · rintro ⟨hb, hs, he, hd, hg⟩
    refine ⟨hb, ⟨⟨?_, ?_⟩, ?_⟩, ?_⟩
    · rcases hs with hs | ⟨s, hs, hst⟩
      · left; exact hs
      · right; rw [hst]; simpa using hs
    · cases h : rf.enabled
      · left; rfl
      · right; exact he h
    · cases h : rf.disabled
      · left; rfl
      · right; exact hd h
    · cases h : rf.grep with
      | none => rfl
      | some lit => simpa using hg lit h

/-- The status set built from the command line: `--passed`, `--failed`, `--skipped` add their status,
    `--non-passed` is `--failed --skipped`. -/
theorem cli_statuses (c : Cli) (s : Status) :
    s ∈ cliStatuses c ↔
      (s = .passed ∧ c.passed = true) ∨ (s = .failed ∧ (c.failed = true ∨ c.nonPassed = true)) ∨
      (s = .skipped ∧ (c.skipped = true ∨ c.nonPassed = true)) := by
  unfold cliStatuses
  cases s <;> cases c.passed <;> cases c.failed <;> cases c.skipped <;> cases c.nonPassed <;> simp

/-- Any of the report-based options switches to report-based selection, with every other criterion of
    the command line evaluated on the report side; without them a plain `TestFilter` is built. -/
theorem make_test_filter_kind (c : Cli) (h : ¬ (c.enabled = true ∧ c.disabled = true)) :
    (c.reportBased = true → ∃ rf, makeTestFilter c = .ok (.report rf) ∧ rf.toBase = c.base ∧
        rf.statuses = cliStatuses c ∧ rf.enabled = c.enabled ∧ rf.disabled = c.disabled ∧ rf.grep = c.grepNonEmpty) ∧
    (c.reportBased = false → makeTestFilter c = .ok (.tree { toBase := c.base, enabled := c.enabled, disabled := c.disabled })) := by
  have h' : (c.enabled && c.disabled) = false := by
    cases he : c.enabled <;> cases hd : c.disabled <;> simp_all
  constructor
  · intro hr
    exact ⟨{ toBase := c.base, statuses := cliStatuses c, enabled := c.enabled, disabled := c.disabled,
             grep := c.grepNonEmpty }, by simp [makeTestFilter, makeResultFilter, h', hr], rfl, rfl, rfl, rfl, rfl⟩
  · intro hr
    simp [makeTestFilter, h', hr]

/-- The whole command, report-based case: whenever `lcc run <args>` carries a report-based option and
    succeeds, the tests it selects are exactly the project tests (order kept, see `from_report`) whose path has
    a result in the report that fulfils *all* criteria of the command line (`result_filter_iff`). -/
theorem report_based_selection (c : Cli) (R : List SuiteRes) (S kept : List Suite)
    (hr : c.reportBased = true) (h : selectCli c R S = .ok kept) :
    ∃ rf, makeResultFilter c = .ok rf ∧ ∀ t : Hier × Node,
      (t ∈ flattenSuites [] kept ↔
        t ∈ flattenSuites [] S ∧
        ∃ r ∈ flattenSuites [] R, rf.sel r.1 r.2 = true ∧ pathOf (resHier r) = pathOf (testHier t)) := by
  unfold selectCli makeTestFilter at h
  rw [if_pos hr] at h
  cases hm : makeResultFilter c with
  | error e => rw [hm] at h; cases h
  | ok rf =>
    rw [hm] at h
    refine ⟨rf, rfl, fun t => ?_⟩
    have hk := loadSuites_true_ok (p := fromTestsPred (fromReportPaths rf R)) h
    rw [hk, from_report_iff]

/-- The whole command, plain case: without report-based options, whenever `lcc run <args>` succeeds the
    tests it selects are exactly the project tests that satisfy the filter of the command line. -/
theorem tree_based_selection (c : Cli) (R : List SuiteRes) (S kept : List Suite)
    (hr : c.reportBased = false) (h : selectCli c R S = .ok kept) (t : Hier × Node) :
    t ∈ flattenSuites [] kept ↔
      t ∈ flattenSuites [] S ∧
      Satisfies { toBase := c.base, enabled := c.enabled, disabled := c.disabled } (testHier t) := by
  unfold selectCli makeTestFilter at h
  rw [hr] at h
  simp only [Bool.false_eq_true, ↓reduceIte] at h
  by_cases hed : (c.enabled && c.disabled) = true
  · rw [if_pos hed] at h; cases h
  · rw [if_neg hed] at h
    simp only [Sel.truthy, Sel.pred] at h
    cases hemp : ({ toBase := c.base, enabled := c.enabled, disabled := c.disabled } : TestFilter).isEmpty with
    | true =>
      rw [hemp] at h
      have hk := loadSuites_false_ok h
      rw [hk, ← selected_iff_satisfies, empty_selects_all _ hemp]
      simp
    | false =>
      rw [hemp] at h
      have hk := loadSuites_true_ok h
      rw [hk, selected_iff]

/-- Non-vacuity of `tree_based_selection`: `lcc run --tag y` on a two-level project succeeds. -/
example :
    let t (n : Nat) (tags : List Str) : Node := { name := [n], desc := [n], tags := tags, props := [], links := [], disabled := false }
    let S : List Suite := [.mk (t 115 []) [t 97 [], t 98 [[121]]] [.mk (t 117 [[121]]) [t 99 []] []]]
    let c : Cli := { base := { tags := [[[121]]] } }
    c.reportBased = false ∧
    (selectCli c [] S).toOption.map (fun k => (flattenSuites [] k).map (fun x => pathOf (testHier x)))
      = some [[115, 46, 98], [115, 46, 117, 46, 99]] := by decide

/-- `lcc run --failed` re-runs exactly the failed tests: with only `--failed` on the command line the
    selected project tests are those whose path has a result with status `failed` in the report. -/
theorem rerun_failed (R : List SuiteRes) (S : List Suite) (kept : List Suite)
    (h : selectCli { failed := true } R S = .ok kept) (t : Hier × Node) :
    t ∈ flattenSuites [] kept ↔
      t ∈ flattenSuites [] S ∧
      ∃ r ∈ flattenSuites [] R, r.2.status = some .failed ∧ pathOf (resHier r) = pathOf (testHier t) := by
  obtain ⟨rf, hrf, hiff⟩ := report_based_selection { failed := true } R S kept rfl h
  have hrf' : rf = { statuses := [.failed] } := by
    have : makeResultFilter ({ failed := true } : Cli) = .ok { statuses := [.failed] } := rfl
    rw [this] at hrf; injection hrf with hrf; exact hrf.symm
  subst hrf'
  rw [hiff]
  constructor
  · rintro ⟨ht, r, hr, hsel, hp⟩
    refine ⟨ht, r, hr, ?_, hp⟩
    have := (result_filter_iff _ _ _).mp hsel
    rcases this.2.1 with h0 | ⟨s, hs, hst⟩
    · cases h0
    · simp at hs; rw [hst, hs]
  · rintro ⟨ht, r, hr, hst, hp⟩
    refine ⟨ht, r, hr, ?_, hp⟩
    simp [ResultFilter.sel, ResultFilter.resultCriteria, ResultFilter.doStatuses, ResultFilter.doGrep, hst,
      Base.sel, Base.doPaths, Base.doDescs, Base.doTags, Base.doProps, Base.doLinks, matchValues]

/-- Non-vacuity of the three theorems above: a project, a report and `--failed` for which the command
    succeeds and keeps one of two tests. -/
example :
    let t (n : Nat) : Node := { name := [n], desc := [n], tags := [], props := [], links := [], disabled := false }
    let S : List Suite := [.mk (t 115) [t 97, t 98] []]
    let R : List SuiteRes := [.mk (t 115) [{ node := t 97, status := some .passed, steps := [] },
                                            { node := t 98, status := some .failed, steps := [] }] []]
    (selectCli { failed := true } R S).toOption.map (fun k => (flattenSuites [] k).map (fun x => pathOf (testHier x)))
      = some [[115, 46, 98]] := by decide

/-! ## 11. `load_suites_from_project` -/

/-- With a non-empty filter the command succeeds iff some test is selected, and then returns the
    filtered tree; otherwise it reports "The filter does not match any test". -/
theorem load_filtered (p : Hier → Node → Bool) (S : List Suite) (hS : allEmpty S = false) :
    loadSuites true p S =
      if (flattenSuites [] S).any (fun x => p x.1 x.2) then .ok (filterSuites p [] S) else .error .noMatch := by
  have key : (filterSuites p [] S).isEmpty = !(flattenSuites [] S).any (fun x => p x.1 x.2) := by
    rw [← filter_isEmpty_eq, ← flatten_filter, ← allEmpty_eq_flatten]
    cases hk : filterSuites p [] S with
    | nil => simp [allEmpty]
    | cons s r =>
      have := no_empty_suite p [] S (([] : Hier), s) (by
        rw [hk]; cases s; simp [allSuites, allSuitesOf])
      simp [allEmpty, this]
  simp only [loadSuites, hS, Bool.false_eq_true, ↓reduceIte, key]
  cases (flattenSuites [] S).any (fun x => p x.1 x.2) <;> simp

/-- A project without any test is rejected before any filtering. -/
theorem load_no_test (t : Bool) (p : Hier → Node → Bool) (S : List Suite) (hS : allEmpty S = true) :
    loadSuites t p S = .error .noTestDefined := by
  simp [loadSuites, hS]

end LccModel.C12

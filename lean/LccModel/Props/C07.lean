/-
  C07 — reporting backends receive a well-formed event stream.

  Part 1 (session level, model M3): step bracketing.  For EVERY sequence of Session API calls by ANY
  number of threads that follows the runner's protocol (`okOp`: a thread opens a new result only when it
  has no step open, and logs only while a step is current — the runner sets a step before it calls user
  code), the fired stream projected on each emitting thread is a word of
      (stepStart (log|check|url|attachment)* stepEnd)*  [stepStart (log|…)*]
  i.e. every log lies inside the step open for the emitting thread, steps are properly opened and closed,
  an empty step is elided (start and end together), and a step is open in the stream exactly when the
  thread's cursor says so — in particular no step stays open once the result has been ended.
-/
import LccModel.Lemmas.SessionSteps

namespace LccModel.C07
open LccModel.Report LccModel.Session

/-- the op sequence follows the runner's protocol at every step -/
def Follows : St → List (Nat × Op) → Prop
  | _, [] => True
  | s, (t, op) :: rest => okOp s t op = true ∧ ∀ s', step s t op = .ok s' → Follows s' rest

theorem sinv_runOps : ∀ (ops : List (Nat × Op)) (s s' : St), SInv s → Follows s ops → runOps s ops = .ok s' → SInv s' := by
  intro ops
  induction ops with
  | nil => intro s s' hinv _ h; simp only [runOps] at h; injection h with h; subst h; exact hinv
  | cons op ops ih =>
    intro s s' hinv hf h
    obtain ⟨t, o⟩ := op
    simp only [runOps] at h
    cases hs : step s t o with
    | error e => rw [hs] at h; cases h
    | ok s1 =>
      rw [hs] at h
      exact ih s1 s' (sinv_step hinv hf.1 hs) (hf.2 s1 hs) h

/-- **Steps are properly bracketed per emitting thread, and every log is inside the step open for its
    thread** — the automaton `accepts` runs through the whole projected stream without getting stuck,
    and ends in the state the thread's cursor describes. -/
theorem steps_bracketed_per_thread (ops : List (Nat × Op)) (s : St) (hf : Follows St.init ops)
    (h : runOps St.init ops = .ok s) (a : Nat) :
    accepts false (proj a s.fired) = some (openFired s a) :=
  (sinv_runOps ops St.init s sinv_init hf h).bal a

/-- **No start without its end**: right after a thread ended a test or a setup/teardown phase, no step of
    that thread is open in the stream. -/
theorem no_step_left_open_after_result_end (ops : List (Nat × Op)) (s s' : St) (hf : Follows St.init ops)
    (h : runOps St.init ops = .ok s) (t : Nat) (op : Op)
    (hop : (∃ p, op = .endTest p) ∨ op = .endSessionSetup ∨ op = .endSessionTeardown ∨
           (∃ p, op = .endSuiteSetup p) ∨ (∃ p, op = .endSuiteTeardown p))
    (hok : okOp s t op = true) (hs : step s t op = .ok s') :
    accepts false (proj t s'.fired) = some false := by
  have hinv := sinv_runOps ops St.init s sinv_init hf h
  have hinv' := sinv_step hinv hok hs
  rw [hinv'.bal t]
  congr 1
  -- after the op the cursor's step is none
  have key : ∀ c', getCursor s' t = some c' → c'.step = none := by
    intro c' hc'
    rcases hop with ⟨p, rfl⟩ | rfl | rfl | ⟨p, rfl⟩ | ⟨p, rfl⟩
    · simp only [step, withCursor] at hs
      cases hc : getCursor s t with
      | none => rw [hc] at hs; cases hs
      | some c =>
        rw [hc] at hs; simp only at hs; injection hs with hs; subst hs
        rw [getCursor_setCursor] at hc'; simp at hc'; subst hc'
        exact endStepIfAny_step_none s t c
    all_goals
      simp only [step] at hs
      exact endPhase_step_none hs hc'
  rw [openFired_eq]
  cases hc' : getCursor s' t with
  | none => rfl
  | some c' => simp [copen, key c' hc']

/-! Non-vacuity: two workers and an `lcc.Thread` interleaved; empty step elided; all projections accepted. -/
def sampleOps : List (Nat × Op) :=
  [(1, .startTest ["s", "a"] default), (2, .startTest ["s", "b"] default), (1, .setStep "Setup test"),
   (2, .setStep "body"), (1, .setStep "body"), (2, .log .info "x"), (1, .threadCreate 10), (10, .threadRun),
   (10, .log .error "y"), (1, .log .info "z"), (10, .threadEnd), (2, .endTest ["s", "b"]), (1, .endTest ["s", "a"])]

example : (match runOps St.init sampleOps with
    | .ok s => (accepts false (proj 1 s.fired), accepts false (proj 2 s.fired), accepts false (proj 10 s.fired),
                (proj 1 s.fired).length, s.fired.length)
    | .error _ => (none, none, none, 0, 0)) = (some false, some false, some false, 3, 13) := by decide

end LccModel.C07

/-
  C07 — reporting backends receive a well-formed event stream.

  Part 1 (session level, model M3): step bracketing.  For EVERY sequence of Session API calls by ANY
  number of threads that follows the runner's protocol (`okOp`: a thread opens a new result only when it
  has no step open, and logs only while a step is current — the runner sets a step before it calls user
  code), the fired stream projected on each emitting thread is a word of
      (stepStart (log|check|url|attachment)* stepEnd)*  [stepStart (log|…)*]
  i.e. every log lies inside the step open for the emitting thread, steps are properly opened and closed,
  an empty step is elided (start and end together), and a step is open in the stream exactly when the
  thread's cursor says so — in particular no step stays open once the result has been ended.
  The calls include both halves of the context manager `prepare_attachment` (`attachBegin` / `attachEnd`)
  with any calls of any thread in between.
-/
import LccModel.Lemmas.SessionSteps
import LccModel.Lemmas.SessionApi

namespace LccModel.C07
open LccModel.Report LccModel.Session

/-- the op sequence follows the runner's protocol at every step -/
def Follows : St → List (Nat × Op) → Prop
  | _, [] => True
  | s, (t, op) :: rest => okOp s t op = true ∧ ∀ s', step s t op = .ok s' → Follows s' rest

theorem sinv_runOps : ∀ (ops : List (Nat × Op)) (s s' : St), SInv s → Follows s ops → runOps s ops = .ok s' → SInv s' := by
  intro ops
  induction ops with
  | nil => intro s s' hinv _ h; simp only [runOps] at h; injection h with h; subst h; exact hinv
  | cons op ops ih =>
    intro s s' hinv hf h
    obtain ⟨t, o⟩ := op
    simp only [runOps] at h
    cases hs : step s t o with
    | error e => rw [hs] at h; cases h
    | ok s1 =>
      rw [hs] at h
      exact ih s1 s' (sinv_step hinv hf.1 hs) (hf.2 s1 hs) h

/-- **Steps are properly bracketed per emitting thread, and every log is inside the step open for its
    thread** — the automaton `accepts` runs through the whole projected stream without getting stuck,
    and ends in the state the thread's cursor describes. -/
theorem steps_bracketed_per_thread (ops : List (Nat × Op)) (s : St) (hf : Follows St.init ops)
    (h : runOps St.init ops = .ok s) (a : Nat) :
    accepts false (proj a s.fired) = some (openFired s a) :=
  (sinv_runOps ops St.init s sinv_init hf h).bal a

/-- **No start without its end**: right after a thread ended a test or a setup/teardown phase, no step of
    that thread is open in the stream. -/
theorem no_step_left_open_after_result_end (ops : List (Nat × Op)) (s s' : St) (hf : Follows St.init ops)
    (h : runOps St.init ops = .ok s) (t : Nat) (op : Op)
    (hop : (∃ p, op = .endTest p) ∨ op = .endSessionSetup ∨ op = .endSessionTeardown ∨
           (∃ p, op = .endSuiteSetup p) ∨ (∃ p, op = .endSuiteTeardown p))
    (hok : okOp s t op = true) (hs : step s t op = .ok s') :
    accepts false (proj t s'.fired) = some false := by
  have hinv := sinv_runOps ops St.init s sinv_init hf h
  have hinv' := sinv_step hinv hok hs
  rw [hinv'.bal t]
  congr 1
  -- after the op the cursor's step is none
  have key : ∀ c', getCursor s' t = some c' → c'.step = none := by
    intro c' hc'
    rcases hop with ⟨p, rfl⟩ | rfl | rfl | ⟨p, rfl⟩ | ⟨p, rfl⟩
    · simp only [step, withCursor] at hs
      cases hc : getCursor s t with
      | none => rw [hc] at hs; cases hs
      | some c =>
        rw [hc] at hs; simp only at hs; injection hs with hs; subst hs
        rw [getCursor_setCursor] at hc'; simp at hc'; subst hc'
        exact endStepIfAny_step_none s t c
    all_goals
      simp only [step] at hs
      exact endPhase_step_none hs hc'
  rw [openFired_eq]
  cases hc' : getCursor s' t with
  | none => rfl
  | some c' => simp [copen, key c' hc']

/-- **The step of an `lcc.Thread` is closed when the thread ends — however its target ended.**  `Thread.run` ends
    the thread's step in a `finally` clause: the epilogue `threadEnd` is the last call of the thread whether the
    target returned, raised an `Exception` (logged as an error first) or a `BaseException` that is no `Exception`
    (`sys.exit()` in the thread, `GeneratorExit`, a project's own: nothing is logged).  Right after it no step of
    that thread is open in the stream the backends receive — for every protocol-following call sequence of any
    number of threads before it (the run model `Run.execActs` issues `threadEnd` on every exit path of a `thread`
    act: `C07Run.thread_act_always_runs_the_epilogue`). -/
theorem no_step_left_open_after_thread_end (ops : List (Nat × Op)) (s s' : St) (hf : Follows St.init ops)
    (h : runOps St.init ops = .ok s) (t : Nat) (hok : okOp s t .threadEnd = true) (hs : step s t .threadEnd = .ok s') :
    accepts false (proj t s'.fired) = some false := by
  have hinv := sinv_runOps ops St.init s sinv_init hf h
  have hinv' := sinv_step hinv hok hs
  rw [hinv'.bal t]
  congr 1
  have key : ∀ c', getCursor s' t = some c' → c'.step = none := by
    intro c' hc'
    simp only [step, withCursor] at hs
    cases hc : getCursor s t with
    | none => rw [hc] at hs; cases hs
    | some c =>
      rw [hc] at hs; simp only at hs
      cases hst : c.step with
      | none => rw [hst] at hs; cases hs
      | some d =>
        rw [hst] at hs; simp only at hs; injection hs with hs; subst hs
        rw [getCursor_setCursor] at hc'; simp at hc'; subst hc'
        exact endStepIfAny_step_none s t c
  rw [openFired_eq]
  cases hc' : getCursor s' t with
  | none => rfl
  | some c' => simp [copen, key c' hc']

/-! Non-vacuity: two workers and an `lcc.Thread` interleaved; empty step elided; all projections accepted. -/
def sampleOps : List (Nat × Op) :=
  [(1, .startTest ["s", "a"] default), (2, .startTest ["s", "b"] default), (1, .setStep "Setup test"),
   (2, .setStep "body"), (1, .setStep "body"), (2, .log .info "x"), (1, .threadCreate 10), (10, .threadRun),
   (10, .log .error "y"), (1, .log .info "z"), (10, .threadEnd), (2, .endTest ["s", "b"]), (1, .endTest ["s", "a"])]

example : (match runOps St.init sampleOps with
    | .ok s => (accepts false (proj 1 s.fired), accepts false (proj 2 s.fired), accepts false (proj 10 s.fired),
                (proj 1 s.fired).length, s.fired.length)
    | .error _ => (none, none, none, 0, 0)) = (some false, some false, some false, 3, 13) := by decide

/-- an `lcc.Thread` that logged, changed its step (to an UNTITLED one, `set_step("")`, a step like any other), logged
    again and then ended (by whatever: the epilogue is the same): its projection is accepted and closed; so is the
    test thread's -/
def threadEndOps : List (Nat × Op) :=
  [(1, .startTest ["s", "a"] default), (1, .setStep "body"), (1, .threadCreate 10), (10, .threadRun),
   (10, .log .info "in thread"), (10, .setStep ""), (10, .log .info "more"), (10, .threadEnd), (1, .log .info "after"),
   (1, .setStep "two\nlines"), (1, .log .info "x"), (1, .endTest ["s", "a"])]

example : (match runOps St.init threadEndOps with
    | .ok s => (accepts false (proj 1 s.fired), accepts false (proj 10 s.fired), (proj 10 s.fired).length, s.fired.length)
    | .error _ => (none, none, 0, 0)) = (some false, some false, 6, 14) := by decide

/-! ## `prepare_attachment` is a context manager: two phases with arbitrary api calls in between

  `attachBegin` = entering the `with` block (name computed and counter bumped under the lock; nothing is
  flushed or fired, the cursor is not read), `attachEnd` = leaving it (flush the held events, then fire the
  attachment event with the location and the step the cursor has AT EXIT).  All theorems above quantify over
  op sequences that contain these two ops; the atomic `.attach` is their composition. -/

/-- Entering `with prepare_attachment(..)` fires nothing, flushes nothing and touches no cursor: it only
    takes the next attachment number and remembers the prepared name for the entering thread. -/
theorem attachBegin_fires_nothing (s : St) (t : Nat) (f d : String) (img : Bool) :
    ∃ s', step s t (.attachBegin f d img) = .ok s' ∧ s'.fired = s.fired ∧ s'.cursors = s.cursors ∧
      s'.saved = s.saved ∧ s'.failures = s.failures ∧ s'.now = s.now ∧ s'.attachCount = s.attachCount + 1 ∧
      s'.prepared = { tid := t, name := attachName (s.attachCount + 1) f, description := d, asImage := img } :: s.prepared :=
  ⟨_, rfl, rfl, rfl, rfl, rfl, rfl, rfl, rfl⟩

/-- Leaving the block: the held events of the thread's cursor (in particular the held start of a step set
    INSIDE the block) are flushed first, then the attachment event is fired with the cursor's location and
    step as they are at exit time, under the name prepared by the newest still-open `attachBegin` of the
    same thread. -/
theorem attachEnd_reports_exit_time_step {s s' : St} {t : Nat} {c : Cursor} (hc : getCursor s t = some c)
    (h : step s t .attachEnd = .ok s') :
    ∃ p, s.prepared.find? (fun p => p.tid == t) = some p ∧
      s'.fired = s.fired ++ c.pending ++ [.attachment c.loc c.step t p.name p.description p.asImage s.now] ∧
      getCursor s' t = some { c with pending := [] } ∧
      s'.prepared = s.prepared.eraseP (fun p => p.tid == t) := by
  simp only [step] at h
  cases hf : s.prepared.find? (fun p => p.tid == t) with
  | none => rw [hf] at h; cases h
  | some p =>
    rw [hf] at h
    have hc' : getCursor { s with prepared := s.prepared.eraseP (fun p => p.tid == t) } t = some c := hc
    simp only [stepped, withCursor, hc'] at h
    injection h with h; subst h
    exact ⟨p, rfl, by simp [flush, fire, fireAll, tick, setCursor], by rw [getCursor_setCursor]; simp [flush], rfl⟩

/-- The one-call forms (`save_attachment_content`, `save_attachment_file`, … = `with prepare_attachment(..)`
    around a body that calls no session api) are `attachBegin` immediately followed by `attachEnd`. -/
theorem attach_is_begin_then_end (s : St) (t : Nat) (f d : String) (img : Bool) :
    step s t (.attach f d img) = (step s t (.attachBegin f d img)).bind (fun s1 => step s1 t .attachEnd) :=
  step_attach_eq s t f d img

def firedOf (ops : List (Nat × Op)) : Option (List Event) :=
  match runOps St.init ops with | .ok s => some s.fired | .error _ => none

/-! Non-vacuity / pinned behaviour.  A step set inside the block: the attachment is reported under the NEW
    step "b", whose held start is flushed at exit; the step "a" that was current on entry is ended first
    (and, when nothing was logged in it, elided together with its start). -/
example : firedOf [(1, .startTest ["s", "t"] default), (1, .setStep "a"), (1, .log .info "x"),
      (1, .attachBegin "f" "d" false), (1, .setStep "b"), (1, .attachEnd)] =
    some [.testStart ["s", "t"] default 1, .stepStart (.test ["s", "t"]) "a" 1 2,
          .log (.test ["s", "t"]) (some "a") 1 .info "x" 3, .stepEnd (.test ["s", "t"]) "a" 1 4,
          .stepStart (.test ["s", "t"]) "b" 1 5,
          .attachment (.test ["s", "t"]) (some "b") 1 "attachments/0001_f" "d" false 6] := by decide

example : firedOf [(1, .startTest ["s", "t"] default), (1, .setStep "a"), (1, .attachBegin "f" "d" false),
      (1, .setStep "b"), (1, .attachEnd)] =
    some [.testStart ["s", "t"] default 1, .stepStart (.test ["s", "t"]) "b" 1 4,
          .attachment (.test ["s", "t"]) (some "b") 1 "attachments/0001_f" "d" false 5] := by decide

/-! Nested blocks of one thread are left innermost first; blocks of different threads are independent; the
    number in the name is the one taken on ENTRY. -/
example : firedOf [(1, .startTest ["s", "t"] default), (1, .setStep "a"), (1, .attachBegin "f" "outer" false),
      (1, .attachBegin "g" "inner" true), (1, .attachEnd), (1, .attachEnd)] =
    some [.testStart ["s", "t"] default 1, .stepStart (.test ["s", "t"]) "a" 1 2,
          .attachment (.test ["s", "t"]) (some "a") 1 "attachments/0002_g" "inner" true 3,
          .attachment (.test ["s", "t"]) (some "a") 1 "attachments/0001_f" "outer" false 4] := by decide

example : firedOf [(1, .startTest ["s", "t"] default), (2, .startTest ["s", "u"] default), (1, .setStep "a"),
      (2, .setStep "b"), (1, .attachBegin "f" "one" false), (2, .attachBegin "g" "two" false), (1, .attachEnd),
      (2, .attachEnd)] =
    some [.testStart ["s", "t"] default 1, .testStart ["s", "u"] default 2, .stepStart (.test ["s", "t"]) "a" 1 3,
          .attachment (.test ["s", "t"]) (some "a") 1 "attachments/0001_f" "one" false 5,
          .stepStart (.test ["s", "u"]) "b" 2 4,
          .attachment (.test ["s", "u"]) (some "b") 2 "attachments/0002_g" "two" false 6] := by decide

/-- leaving a block that was never entered is rejected (not expressible with a Python `with`) -/
example : (match runOps St.init [(1, .startTest ["s", "t"] default), (1, .setStep "a"), (1, .attachEnd)] with
    | .ok _ => none | .error e => some e) = some Err.noAttach := by decide

/-- the steps of the two-phase sequences above are accepted by the bracket automaton -/
example : (match runOps St.init [(1, .startTest ["s", "t"] default), (1, .setStep "a"), (1, .log .info "x"),
      (1, .attachBegin "f" "d" false), (1, .setStep "b"), (1, .attachEnd), (1, .endTest ["s", "t"])] with
    | .ok s => (accepts false (proj 1 s.fired), s.fired.length)
    | .error _ => (none, 0)) = (some false, 8) := by decide

/-! ## the calls as WRITTEN (API layer M3a, `Model/SessionApi.lean`): `with lcc.detached_step(d):`, `lcc.end_step(step)`

  `lcc.detached_step(d)` (deprecated since 1.4.5, still public) is a context manager that "only does a set_step":
  entering it is `set_step(d)`, leaving it does nothing — the step stays the current step of the thread and whatever
  the thread logs after the block lands in it.  A call sequence is LOWERED to the core op sequence it stands for
  (`SessionApi.lowerAll`); the bracketing theorems above, stated for every op sequence, therefore hold for every call
  sequence with such blocks, nested, in any thread, around any calls. -/

open LccModel.SessionApi

/-- **`calls_steps_bracketed_per_thread`** — `steps_bracketed_per_thread` for every sequence of API calls (core ops,
    `detached_step` blocks, the deprecated `end_step`, attachments the file system refuses) whose lowering follows the
    runner's protocol: per emitting thread the fired stream is a word of the bracket language, every log inside the step
    open for its thread. -/
theorem calls_steps_bracketed_per_thread (cs : List (Nat × Call)) (s : St) (hf : Follows St.init (lowerAll St.init cs))
    (h : runCalls St.init cs = .ok s) (a : Nat) :
    accepts false (proj a s.fired) = some (openFired s a) :=
  steps_bracketed_per_thread _ s hf (by rw [← runCalls_eq_runOps]; exact h) a

/-- entering `with lcc.detached_step(d):` IS `set_step(d)` -/
theorem detached_enter_is_set_step (s : St) (t : Nat) (d : String) :
    stepCall s t (.detachedEnter d) = step s t (.setStep d) := stepCall_single s t _ _ rfl

/-- **`detached_exit_does_nothing`** — leaving the block (and the deprecated `lcc.end_step(step)`) changes NOTHING: no
    event, no cursor, in particular the current step of the thread stays current. -/
theorem detached_exit_does_nothing (s : St) (t : Nat) :
    stepCall s t .detachedExit = .ok s ∧ stepCall s t .endStepDeprecated = .ok s := ⟨rfl, rfl⟩

/-- **`record_after_detached_block_is_in_its_step`** — after `with lcc.detached_step(d): <nothing that changes the step>`
    the thread's current step is `d`, so a record the thread emits right after the block follows the protocol (`okOp`: it
    has a current step — the hypothesis of the bracketing theorem) and carries step `d`. -/
theorem record_after_detached_block_is_in_its_step {s s1 s2 : St} {t : Nat} {d : String}
    (h1 : stepCall s t (.detachedEnter d) = .ok s1) (h2 : stepCall s1 t .detachedExit = .ok s2) :
    s2 = s1 ∧ (∃ c, getCursor s2 t = some c ∧ c.step = some d) ∧
      ∀ l m, okOp s2 t (.log l m) = true := by
  have e2 : s2 = s1 := by
    have := (detached_exit_does_nothing s1 t).1
    rw [this] at h2; injection h2 with h2; exact h2.symm
  subst e2
  rw [detached_enter_is_set_step] at h1
  simp only [step, withCursor] at h1
  cases hc : getCursor s t with
  | none => rw [hc] at h1; cases h1
  | some c =>
    rw [hc] at h1
    simp only [Except.ok.injEq] at h1
    have hcur : ∃ c', getCursor s2 t = some c' ∧ c'.step = some d := by
      rw [← h1, getCursor_setCursor]; simp
    refine ⟨rfl, hcur, ?_⟩
    intro l m
    obtain ⟨c', hc', hs'⟩ := hcur
    simp [okOp, hc', hs']

/-- **What "it only does a set_step" is for** (refutation of the variant in which leaving the block ends the step,
    `SessionApi.lowerClosing`): `with detached_step("d"): pass` followed by a log — the log is fired outside any step, the
    stream of the thread is NOT a word of the bracket language. -/
theorem detached_exit_ending_the_step_breaks_bracketing :
    ∃ cs s, runCallsWith lowerClosing St.init cs = .ok s ∧ accepts false (proj 1 s.fired) = none :=
  ⟨[(1, .op (.startTest ["s", "t"] default)), (1, .detachedEnter "d"), (1, .detachedExit), (1, .op (.log .info "after"))],
   _, rfl, by decide⟩

/-- non-vacuity: the same calls (and more: a block inside a block, a step set inside, an `lcc.Thread`) on the model of the
    code as it is — accepted, the log after the block is in step "d" -/
example : (match runCalls St.init [(1, .op (.startTest ["s", "t"] default)), (1, .detachedEnter "d"), (1, .detachedExit),
      (1, .op (.log .info "after")), (1, .detachedEnter "e"), (1, .detachedEnter "e2"), (1, .op (.setStep "inner")), (1, .detachedExit),
      (1, .op (.check "c" true none)), (1, .detachedExit), (1, .endStepDeprecated), (1, .op (.url "u" "d")),
      (1, .op (.endTest ["s", "t"]))] with
    | .ok s => (accepts false (proj 1 s.fired), (proj 1 s.fired).length, s.fired.length)
    | .error _ => (none, 0, 0)) = (some false, 7, 9) := by decide

end LccModel.C07

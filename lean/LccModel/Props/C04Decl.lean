/-
  C04, declaration and validation part — "… through depends_on paths or predicates …" and "Projects whose
  dependencies are cyclic, unknown, or excluded from the run by a filter are rejected before anything executes."

  The scheduler-level theorems (`Props/C04.lean`, `C01Graph.lean`) speak of the dependencies the runner RECEIVES
  (`Test.resolved_dependencies`).  This file covers the two steps before:

    A. how the dependencies WRITTEN on a test — in one `@lcc.depends_on(a, b, …)` call, in several stacked
       `@lcc.depends_on` decorators, mixed with any other decorator in any order — become the dependencies of every
       test the declaration stands for (model `Model/Expand.lean`: decorators as metadata transformers folded in
       application order, then the loader).  Quantified over ALL decorator lists.
    B. the verdict of `resolve_tests_dependencies` (model `Model/Deps.lean`, as run by `PreparedProject.create`):
       accepted ⇔ every dependency of a scheduled test names a test, is itself scheduled, and no scheduled test reaches
       itself — for EVERY graph (cycles of any length, self-dependencies, cycles only reachable from outside tests,
       diamonds), in whatever order the tests are resolved; an accepted graph has a topological numbering (the
       hypothesis `depsAcyclic` of the scheduler theorems); the error is always a `ValidationError`.
  The stream `C04.decl` compares both models with the real decorators / loader / `PreparedProject.create`.
-/
import LccModel.Lemmas.ExpandDeco
import LccModel.Props.C01Expand

namespace LccModel.C04Decl
open LccModel.Report (Path)
open LccModel.Loader (PVal Params Seg Meta Disabled LoadErr)
open LccModel.Expand LccModel.Deps

/-! ### A. Decorators accumulate dependencies -/

/-- **The dependencies of a declaration are the concatenation of the arguments of ALL its `depends_on` decorators**, in
    the order the decorators are applied — however many there are, whatever stands between them. -/
theorem declared_dependencies_are_all_decorator_arguments (attr : String) (rank : Nat) (args : List String) (decos : List Deco) :
    (decorate attr rank args decos).deps = (decos.map depArgs).flatten := by
  unfold decorate; rw [foldl_applyDeco_deps]; rfl

/-- no argument of any `depends_on` decorator is lost -/
theorem every_decorator_argument_is_a_dependency (attr : String) (rank : Nat) (args : List String) (decos : List Deco)
    (as : List DepArg) (h : Deco.dependsOn as ∈ decos) (a : DepArg) (ha : a ∈ as) :
    a ∈ (decorate attr rank args decos).deps := by
  rw [declared_dependencies_are_all_decorator_arguments, List.mem_flatten]
  exact ⟨as, List.mem_map.mpr ⟨_, h, rfl⟩, ha⟩

/-- … and nothing else becomes a dependency -/
theorem every_dependency_is_a_decorator_argument (attr : String) (rank : Nat) (args : List String) (decos : List Deco)
    (a : DepArg) (ha : a ∈ (decorate attr rank args decos).deps) : ∃ as, Deco.dependsOn as ∈ decos ∧ a ∈ as := by
  rw [declared_dependencies_are_all_decorator_arguments, List.mem_flatten] at ha
  obtain ⟨l, hl, hal⟩ := ha
  obtain ⟨c, hc, e⟩ := List.mem_map.mp hl
  cases c <;> simp [depArgs] at e <;> subst e <;> first | exact ⟨_, hc, hal⟩ | cases hal

/-- **Stacking = one call**: two stacked decorators (the inner one applied first) declare what a single
    `@lcc.depends_on(inner…, outer…)` declares, wherever they stand among the other decorators. -/
theorem stacked_decorators_equal_one_call (attr : String) (rank : Nat) (args : List String) (pre post : List Deco) (inner outer : List DepArg) :
    (decorate attr rank args (pre ++ [.dependsOn inner, .dependsOn outer] ++ post)).deps =
    (decorate attr rank args (pre ++ [.dependsOn (inner ++ outer)] ++ post)).deps := by
  simp [declared_dependencies_are_all_decorator_arguments, depArgs]

/-- decorators between two `depends_on` do not matter for the dependencies: any decorator that is not a `depends_on` can
    be removed -/
theorem other_decorators_do_not_touch_dependencies (attr : String) (rank : Nat) (args : List String) (pre post : List Deco) (c : Deco)
    (hc : depArgs c = []) :
    (decorate attr rank args (pre ++ [c] ++ post)).deps = (decorate attr rank args (pre ++ post)).deps := by
  simp [declared_dependencies_are_all_decorator_arguments, hc]

/-- the same accumulation for tags and links (`extend` / `append`), so that stacking those decorators loses nothing either -/
theorem declared_tags_are_all_decorator_arguments (attr : String) (rank : Nat) (args : List String) (decos : List Deco) :
    (decorate attr rank args decos).md.tags = (decos.map tagArgs).flatten ∧
    (decorate attr rank args decos).md.links = (decos.map linkArgs).flatten := by
  unfold decorate; rw [foldl_applyDeco_tags, foldl_applyDeco_links]; exact ⟨rfl, rfl⟩

/-- **Every test a decorated method stands for — the plain test, or each variant of a parametrized one — carries every
    declared dependency**, in order. -/
theorem expansion_dependencies (attr : String) (rank : Nat) (args : List String) (decos : List Deco) (t : Test)
    (ht : t ∈ expand (decorate attr rank args decos)) : t.deps = (decos.map depArgs).flatten := by
  rw [(C01Expand.expansion_inherits _ t ht).2.2.2.2.1, declared_dependencies_are_all_decorator_arguments]

/-- … and so does every test of a suite the loader model returns -/
theorem loaded_test_dependencies (hd : ClsHead) (tests : List TestDecl) (subs : List SuiteDecl) (s : Suite)
    (h : loadSuite (.mk hd tests subs) = .ok s) (attr : String) (rank : Nat) (args : List String) (decos : List Deco)
    (hmem : decorate attr rank args decos ∈ tests) (t : Test) (ht : t ∈ expand (decorate attr rank args decos)) :
    t ∈ s.tests ∧ ∀ as, Deco.dependsOn as ∈ decos → ∀ a ∈ as, a ∈ t.deps := by
  refine ⟨(C01Expand.loaded_suite_keeps_disabled hd tests subs s h _ hmem t ht).1, ?_⟩
  intro as has a ha
  rw [expansion_dependencies attr rank args decos t ht, List.mem_flatten]
  exact ⟨as, List.mem_map.mpr ⟨_, has, rfl⟩, ha⟩

/-- run level: the path dependencies of the scheduled test are the declared paths (callables are replaced by the paths
    they select, `Expand.resolvePreds`) -/
theorem scheduled_test_path_dependencies (attr : String) (rank : Nat) (args : List String) (decos : List Deco) (t : Test)
    (ht : t ∈ expand (decorate attr rank args decos)) :
    (toSpecTest t).deps = ((decos.map depArgs).flatten).filterMap DepArg.path? := by
  unfold toSpecTest; simp only; rw [expansion_dependencies attr rank args decos t ht]

/-! ### B. Validation of the dependency graph -/

/-- **Accepted ⇔ known, closed and acyclic** — for every list of scheduled tests and every project (any graph shape). -/
theorem validation_accepts_iff (sched all : List T) (wf : WF sched all) :
    (∃ r, resolve sched all = .ok r) ↔ Known sched all ∧ AllScheduled sched all ∧ Acyclic sched all :=
  resolve_ok_iff sched all wf

/-- **A cycle of any length among the scheduled tests is rejected** (length 1 = a test depending on itself). -/
theorem cycle_is_rejected (sched all : List T) (wf : WF sched all) (t y : T) (ht : t ∈ sched) (hp : TPath all t y)
    (hy : y.path = t.path) : ∀ r, resolve sched all ≠ .ok r := by
  intro r h
  exact ((validation_accepts_iff sched all wf).mp ⟨r, h⟩).2.2 t ht y hp hy

/-- **… also when it is only REACHED from a scheduled test outside it** — whichever test is resolved first: `s` depends
    (directly or not) on `c`, and `c` lies on a cycle. -/
theorem cycle_reached_from_outside_is_rejected (sched all : List T) (wf : WF sched all) (s c c' : T) (hs : s ∈ sched)
    (hsc : TPath all s c) (hcc : TPath all c c') (hc' : c'.path = c.path) : ∀ r, resolve sched all ≠ .ok r := by
  intro r h
  obtain ⟨_, hclosed, hac⟩ := (validation_accepts_iff sched all wf).mp ⟨r, h⟩
  exact hac c (TPath.mem_sched wf hclosed hs hsc) c' hcc hc'

/-- an unknown path and a dependency that is not going to be run are rejected -/
theorem unknown_dependency_is_rejected (sched all : List T) (wf : WF sched all) (t : T) (ht : t ∈ sched) (p : String)
    (hp : Dep.path p ∈ t.deps) (hun : p ∉ paths all) : ∀ r, resolve sched all ≠ .ok r := by
  intro r h
  exact hun (((validation_accepts_iff sched all wf).mp ⟨r, h⟩).1 t ht p hp)

theorem unscheduled_dependency_is_rejected (sched all : List T) (wf : WF sched all) (t d : T) (ht : t ∈ sched)
    (hd : Except.ok d ∈ items all t) (hns : d.path ∉ paths sched) : ∀ r, resolve sched all ≠ .ok r := by
  intro r h
  exact hns (((validation_accepts_iff sched all wf).mp ⟨r, h⟩).2.1 t ht d hd)

/-- **The verdict does not depend on the order in which the scheduled tests are resolved** (nor on how often one occurs):
    only on WHICH tests are scheduled. -/
theorem verdict_independent_of_resolution_order (sched sched' all : List T) (wf : WF sched all)
    (hsame : ∀ t, t ∈ sched ↔ t ∈ sched') :
    (∃ r, resolve sched all = .ok r) ↔ (∃ r, resolve sched' all = .ok r) := by
  have wf' : WF sched' all := ⟨wf.nodup, fun t ht => wf.sub t ((hsame t).mpr ht)⟩
  have hp : ∀ x, x ∈ paths sched ↔ x ∈ paths sched' := by
    intro x; unfold paths; simp only [List.mem_map]
    constructor
    · rintro ⟨t, ht, e⟩; exact ⟨t, (hsame t).mp ht, e⟩
    · rintro ⟨t, ht, e⟩; exact ⟨t, (hsame t).mpr ht, e⟩
  rw [validation_accepts_iff sched all wf, validation_accepts_iff sched' all wf']
  constructor
  · rintro ⟨h1, h2, h3⟩
    exact ⟨fun t ht => h1 t ((hsame t).mpr ht), fun t ht d hd => (hp _).mp (h2 t ((hsame t).mpr ht) d hd),
           fun t ht => h3 t ((hsame t).mpr ht)⟩
  · rintro ⟨h1, h2, h3⟩
    exact ⟨fun t ht => h1 t ((hsame t).mp ht), fun t ht d hd => (hp _).mpr (h2 t ((hsame t).mp ht) d hd),
           fun t ht => h3 t ((hsame t).mp ht)⟩

/-- in particular for every permutation of the scheduled tests -/
theorem verdict_independent_of_permutation (sched sched' all : List T) (wf : WF sched all) (hperm : sched.Perm sched') :
    (∃ r, resolve sched all = .ok r) ↔ (∃ r, resolve sched' all = .ok r) :=
  verdict_independent_of_resolution_order sched sched' all wf (fun _ => hperm.mem_iff)

/-- a rejection is always a `ValidationError` (the recursion bound of the model is never what stops it) -/
theorem rejection_is_a_validation_error (sched all : List T) (e : Err) (h : resolve sched all = .error e) : e.isValidation = true := by
  cases e with
  | outOfFuel => exact absurd h (resolve_not_outOfFuel sched all)
  | _ => rfl

/-- **An accepted graph has a topological numbering**: every scheduled test is numbered above everything it depends on —
    the hypothesis under which the scheduler theorems (`C04.deps_finished_before_start`, deadlock freedom) are proved. -/
theorem accepted_graph_has_levels (sched all : List T) (wf : WF sched all) (r : List (String × List String))
    (h : resolve sched all = .ok r) : ∃ lvl : T → Nat, ∀ t ∈ sched, ∀ d, Except.ok d ∈ items all t → lvl d < lvl t := by
  obtain ⟨_, hclosed, hac⟩ := (validation_accepts_iff sched all wf).mp ⟨r, h⟩
  exact ⟨reachCount all, fun t ht d hd => reachCount_lt wf hclosed hac ht hd⟩

/-- what the runner then receives: for every scheduled test exactly what its declarations denote, in order -/
theorem accepted_dependencies_exact (sched all : List T) (r : List (String × List String)) (h : resolve sched all = .ok r) :
    r = sched.map (fun t => (t.path, targets all t)) :=
  resolve_ok_eq sched all h

/-! ### Non-vacuity (sample data: `Lemmas/ExpandDeco.lean`) -/

open LccModel.Expand.DecoSample

example : stacked.deps = [.path ["s", "prepare"], .path ["s", "slow"], .pred "tag=db", .path ["s", "quick"]] := by decide
example : (expand { stacked with param := some ([[("n", .int 1)], [("n", .int 2)]], .default) }).map (fun t => (t.name, t.deps.length)) =
    [("use_1", 4), ("use_2", 4)] := by decide

/-- `a → b → c → d → b`: the cycle is first entered from `a`, which is outside it — rejected, at the cycle -/
example : resolve [tA, tB, tC, tD] [tA, tB, tC, tD] = .error (.circular "s.d" "s.b") := by decide
/-- a self-dependency reached from an earlier test -/
example : resolve [{ path := "s.first", deps := [.path "s.loop"] }, { path := "s.loop", deps := [.path "s.loop"] }]
    [{ path := "s.first", deps := [.path "s.loop"] }, { path := "s.loop", deps := [.path "s.loop"] }] = .error (.circular "s.loop" "s.loop") := by decide
/-- a diamond is fine (and walked twice) -/
example : resolve [{ path := "t", deps := [.path "l", .path "r"] }, { path := "l", deps := [.path "m"] }, { path := "r", deps := [.path "m"] }, { path := "m", deps := [] }]
    [{ path := "t", deps := [.path "l", .path "r"] }, { path := "l", deps := [.path "m"] }, { path := "r", deps := [.path "m"] }, { path := "m", deps := [] }]
    = .ok [("t", ["l", "r"]), ("l", ["m"]), ("r", ["m"]), ("m", [])] := by decide
/-- a dependency left out by the filter; a predicate entering a 2-cycle from another suite -/
example : resolve [tA] [tA, { path := "s.b", deps := [] }] = .error (.notScheduled "s.a" "s.b") := by decide
example : resolve [{ path := "first.e", deps := [.pred ["second.x"]] }, { path := "second.x", deps := [.path "second.y"] }, { path := "second.y", deps := [.path "second.x"] }]
    [{ path := "first.e", deps := [.pred ["second.x"]] }, { path := "second.x", deps := [.path "second.y"] }, { path := "second.y", deps := [.path "second.x"] }]
    = .error (.circular "second.y" "second.x") := by decide

end LccModel.C04Decl

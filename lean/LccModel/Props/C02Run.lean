/-
  C02 (run level, model M5 `Model/Run.lean`) — verdicts are sound.

  The result class a task reports to the scheduler (`TaskResultSuccess` / `TaskResultFailure`, which drives
  the skipping of dependent tasks) agrees with what the reporting backends were told: the task fails exactly
  when one of the events in its output is an error log or a failed check at the task's own location.
  Exceptions raised by user code never get lost: `handle_exception` turns each of them into exactly one
  error log at the current location.
-/
import LccModel.Lemmas.RunTask
import LccModel.Lemmas.RunBody

namespace LccModel.C02Run
open LccModel.Report LccModel.Session LccModel.Run

theorem mem_filterMap_evOf (l : List Item) (e : Event) : e ∈ l.filterMap evOf ↔ Item.ev e ∈ l := by
  rw [List.mem_filterMap]
  constructor
  · rintro ⟨x, hx, he⟩
    cases x with
    | ev e' => simp [evOf] at he; subst he; exact hx
    | user r u w => simp [evOf] at he
  · intro h; exact ⟨_, h, rfl⟩

/-- the location is marked failed in the task's final session state iff a failing event is in its output -/
theorem failed_iff_failing_item {s : St} {items : List Item} (hinv : Inv s) (hf : s.fired = items.filterMap evOf)
    (loc : Loc) : isSuccessful s loc = false ↔ ∃ e, Item.ev e ∈ items ∧ failsAt e loc = true := by
  unfold isSuccessful
  have := hinv.sync loc
  simp only [Bool.not_eq_false', List.contains_iff_mem]
  rw [this, hf]
  constructor
  · rintro ⟨e, he, h⟩; exact ⟨e, (mem_filterMap_evOf _ _).mp he, h⟩
  · rintro ⟨e, he, h⟩; exact ⟨e, (mem_filterMap_evOf _ _).mpr he, h⟩

/-- both directions at once, from "the result is computed by `is_successful(location)` at the end" -/
theorem res_iff {s : St} {items : List Item} {res : ResClass} (hinv : Inv s) (hf : s.fired = items.filterMap evOf)
    (loc : Loc) (hres : res = if isSuccessful s loc then .success else .failure) :
    (res = .failure ↔ ∃ e, Item.ev e ∈ items ∧ failsAt e loc = true) ∧
    (res = .success ↔ ¬ ∃ e, Item.ev e ∈ items ∧ failsAt e loc = true) := by
  rw [← failed_iff_failing_item hinv hf loc, hres]
  cases isSuccessful s loc <;> simp

/-! ### Test tasks -/

theorem testRun_res (P : Proj) (svs : List SuiteView) (w : Nat) (path : Path) (sv : SuiteView) (ts : TestSpec) (s : TS) :
    (exec (testRun P svs w path sv ts) s).1 =
      (if isSuccessful (exec (testRun P svs w path sv ts) s).2.sess (.test path) then .success else .failure, []) := by
  unfold testRun
  simp only [exec_bind, isOk, exec_get, exec_pure]
  rfl

/-- **Result class ⇔ failure, test tasks**: a test that is run (not skipped, not disabled) reports
    `failure` to the scheduler iff its output contains an event that fails the test's location (an error log or
    a failed check at `.test path`), and `success` iff it contains none.  No "without model error" side
    condition is needed: the equivalence holds in every state the model can reach. -/
theorem test_result_iff_failing_event (P : Proj) (insts : Insts) (w : Nat) (t : TaskId) (reason : Bool) (kept : List Td)
    (cut : Option Nat) (hk : t.kind = .test)
    (sv : SuiteView) (hsv : (allSuites P).find? (fun sv => sv.path == t.path.dropLast) = some sv)
    (ts : TestSpec) (hts : sv.spec.tests.find? (fun x => x.name == t.path.getLast?.getD "") = some ts)
    (hen : testDisabledNow P sv ts = false) :
    let out := runTask P insts w t true reason kept cut
    (out.res = .failure ↔ ∃ e, Item.ev e ∈ out.items ∧ failsAt e (.test t.path) = true) ∧
    (out.res = .success ↔ ¬ ∃ e, Item.ev e ∈ out.items ∧ failsAt e (.test t.path) = true) := by
  intro out
  have h := tra_taskProgram_own P (allSuites P) w t true reason kept (.test t.path) (by simp [taskLoc, hk])
  obtain ⟨_, hj, hf⟩ := runTask_of_tr P insts w t true reason kept cut h (jt_init _)
  refine res_iff hj.1 hf (.test t.path) ?_
  show (runTask P insts w t true reason kept cut).res = _
  rw [runTask_res]
  unfold finalTS
  rw [taskProgram_test hk hsv hts]
  have : testTask P (allSuites P) w t.path true reason sv ts = testRun P (allSuites P) w t.path sv ts := by
    simp [testTask, hen]
  rw [this, testRun_res]

/-- a skipped test is reported as `skipped`, a disabled one that is "run" as `success` — and the skipped
    event does fail the test's location (that is how `session.is_successful()` learns about it) -/
theorem skipped_test_result (P : Proj) (insts : Insts) (w : Nat) (t : TaskId) (reason : Bool) (kept : List Td)
    (cut : Option Nat) (hk : t.kind = .test)
    (sv : SuiteView) (hsv : (allSuites P).find? (fun sv => sv.path == t.path.dropLast) = some sv)
    (ts : TestSpec) (hts : sv.spec.tests.find? (fun x => x.name == t.path.getLast?.getD "") = some ts) :
    (runTask P insts w t false reason kept cut).res = .skipped := by
  rw [runTask_res, taskProgram_test hk hsv hts]
  simp only [testTask, Bool.not_false, if_true, testSkip]
  split <;> rfl

/-! ### Setup tasks (`SuiteInitializationTask`, `TestSessionSetupTask`) -/

theorem phaseProgram_failed (P : Proj) (svs : List SuiteView) (w : Nat) (suite : Path) (loc : Loc)
    (startOp endOp : Session.Op) (stepName : String) (pairs : List (Option SetupFn × Td)) (s : TS)
    (h0 : isSuccessful s.sess loc = true) :
    (exec (phaseProgram P svs w suite loc startOp endOp stepName pairs) s).1.2 =
      !isSuccessful (exec (phaseProgram P svs w suite loc startOp endOp stepName pairs) s).2.sess loc := by
  unfold phaseProgram
  split
  · simp only [exec_bind, isOk, exec_get, exec_pure]
  · simp only [exec_pure, h0]; rfl

theorem ts0_successful (insts : Insts) (cut : Option Nat) (loc : Loc) : isSuccessful (ts0 insts cut).sess loc = true := rfl

/-- **Result class ⇔ failure, suite setup**: a suite-initialization task that is run reports `failure` iff
    its output contains an event failing `.suiteSetup path`, `success` iff none. -/
theorem init_result_iff_failing_event (P : Proj) (insts : Insts) (w : Nat) (t : TaskId) (reason : Bool) (kept : List Td)
    (cut : Option Nat) (hk : t.kind = .init)
    (sv : SuiteView) (hsv : (allSuites P).find? (fun sv => sv.path == t.path) = some sv) :
    let out := runTask P insts w t true reason kept cut
    (out.res = .failure ↔ ∃ e, Item.ev e ∈ out.items ∧ failsAt e (.suiteSetup t.path) = true) ∧
    (out.res = .success ↔ ¬ ∃ e, Item.ev e ∈ out.items ∧ failsAt e (.suiteSetup t.path) = true) := by
  intro out
  have h := tra_taskProgram_own P (allSuites P) w t true reason kept (.suiteSetup t.path) (by simp [taskLoc, hk])
  obtain ⟨_, hj, hf⟩ := runTask_of_tr P insts w t true reason kept cut h (jt_init _)
  refine res_iff hj.1 hf (.suiteSetup t.path) ?_
  show (runTask P insts w t true reason kept cut).res = _
  rw [runTask_res]
  unfold finalTS taskProgram
  simp only [hk, hsv, Bool.not_true, Bool.false_eq_true, if_false, exec_bind, exec_pure]
  rw [phaseProgram_failed _ _ _ _ _ _ _ _ _ _ (ts0_successful insts cut _)]
  cases isSuccessful _ _ <;> rfl

/-- **Result class ⇔ failure, session setup** -/
theorem sessSetup_result_iff_failing_event (P : Proj) (insts : Insts) (w : Nat) (t : TaskId) (reason : Bool)
    (kept : List Td) (cut : Option Nat) (hk : t.kind = .sessSetup) :
    let out := runTask P insts w t true reason kept cut
    (out.res = .failure ↔ ∃ e, Item.ev e ∈ out.items ∧ failsAt e .sessionSetup = true) ∧
    (out.res = .success ↔ ¬ ∃ e, Item.ev e ∈ out.items ∧ failsAt e .sessionSetup = true) := by
  intro out
  have h := tra_taskProgram_own P (allSuites P) w t true reason kept .sessionSetup (by simp [taskLoc, hk])
  obtain ⟨_, hj, hf⟩ := runTask_of_tr P insts w t true reason kept cut h (jt_init _)
  refine res_iff hj.1 hf .sessionSetup ?_
  show (runTask P insts w t true reason kept cut).res = _
  rw [runTask_res]
  unfold finalTS taskProgram
  simp only [hk, Bool.not_true, Bool.false_eq_true, if_false, exec_bind, exec_pure]
  rw [phaseProgram_failed _ _ _ _ _ _ _ _ _ _ (ts0_successful insts cut _)]
  cases isSuccessful _ _ <;> rfl

/-! ### Teardown tasks, and the session-wide failure flag -/

/-- Teardown tasks have no verdict of their own: `SuiteTeardownTask.run` / `TestSessionTeardownTask.run`
    return nothing (→ `TaskResultSuccess`), and `skip` just calls `run`.  So the full-strength statement
    "`res = failure` ⇔ a failing event at the task's location" is FALSE for them by design of the runner
    (an error log in a teardown leaves `res = success`); what is true is this, together with
    `task_failed_flag_iff` below (the failure reaches `session.is_successful()` and the report). -/
theorem teardown_task_result (P : Proj) (insts : Insts) (w : Nat) (t : TaskId) (run reason : Bool) (kept : List Td)
    (cut : Option Nat) (hk : t.kind = .teardown ∨ t.kind = .sessTeardown) :
    (runTask P insts w t run reason kept cut).res = if run then .success else .skipped := by
  rw [runTask_res]
  unfold taskProgram
  rcases hk with hk | hk <;> simp only [hk, exec_bind, exec_pure]

/-- **`session.is_successful()` ⇔ no failing event**, per task: the flag a task leaves for
    `--stop-on-failure` and the exit code (`eff.failed`) is set iff some event in the task's output fails
    some location — for every located task kind, run or skipped. -/
theorem task_failed_flag_iff (P : Proj) (insts : Insts) (w : Nat) (t : TaskId) (run reason : Bool) (kept : List Td)
    (cut : Option Nat) (L : Loc) (hL : taskLoc t = some L) :
    (runTask P insts w t run reason kept cut).eff.failed = true ↔
      ∃ e loc, Item.ev e ∈ (runTask P insts w t run reason kept cut).items ∧ failsAt e loc = true := by
  have h := tra_taskProgram_own P (allSuites P) w t run reason kept L hL
  obtain ⟨_, hj, hf⟩ := runTask_of_tr P insts w t run reason kept cut h (jt_init _)
  show (!(finalTS P insts w t run reason kept cut).sess.failures.isEmpty) = true ↔ _
  constructor
  · intro hne
    cases hfl : (finalTS P insts w t run reason kept cut).sess.failures with
    | nil => rw [hfl] at hne; cases hne
    | cons l rest =>
      have hm : l ∈ (finalTS P insts w t run reason kept cut).sess.failures := by rw [hfl]; simp
      obtain ⟨e, he, hfa⟩ := (hj.1.sync l).mp hm
      rw [hf] at he
      exact ⟨e, l, (mem_filterMap_evOf _ _).mp he, hfa⟩
  · rintro ⟨e, loc, he, hfa⟩
    have hm : loc ∈ (finalTS P insts w t run reason kept cut).sess.failures :=
      (hj.1.sync loc).mpr ⟨e, by rw [hf]; exact (mem_filterMap_evOf _ _).mpr he, hfa⟩
    cases hfl : (finalTS P insts w t run reason kept cut).sess.failures with
    | nil => rw [hfl] at hm; cases hm
    | cons l rest => rfl

/-! ### Exceptions become error logs -/

theorem markFailed_now (s : St) (l : Loc) : (markFailed s l).now = s.now := by
  unfold markFailed; split <;> rfl

theorem mem_markFailed_self (s : St) (l : Loc) : l ∈ (markFailed s l).failures :=
  (mem_markFailed s l l).mpr (Or.inr rfl)

/-- **`handle_exception`**: whatever the exception (`AbortTest`, `AbortSuite`, `AbortAllTests`, `UserError`,
    a keyboard interrupt turned into `AbortTest`, any other exception), provided the calling thread has a
    cursor (precondition: a test / setup / teardown result has been started by the worker — always the case
    where the runner calls it), the task emits first the events held by the cursor (the pending step start
    and phase start: the log must appear inside its step), then EXACTLY ONE error log, at the cursor's
    location and in the cursor's current step; the location is marked failed; `AbortSuite` records the
    suite (or `None`) as aborted, `AbortAllTests` sets the session-abort flag, nothing else changes. -/
theorem handleException_spec (k : ExcKind) (suite : Option Path) (withSuite : Bool) (ts : TS) (c : Cursor)
    (hc : getCursor ts.sess 0 = some c) :
    let ts' := (exec (handleException k suite withSuite) ts).2
    ts'.out.toList = ts.out.toList ++ c.pending.map Item.ev ++ [.ev (.log c.loc c.step 0 .error "" ts.sess.now)] ∧
    ts'.sess.fired = ts.sess.fired ++ c.pending ++ [.log c.loc c.step 0 .error "" ts.sess.now] ∧
    isSuccessful ts'.sess c.loc = false ∧
    ts'.abortedSuites = (if k = .abortSuite then ts.abortedSuites ++ [if withSuite then suite else none]
                         else ts.abortedSuites) ∧
    ts'.abortAll = (if k = .abortAll then true else ts.abortAll) ∧
    ts'.err = ts.err ∧ ts'.insts = ts.insts ∧ ts'.acts = ts.acts := by
  intro ts'
  have hstep : Session.step ts.sess 0 (.log .error "") =
      .ok (setCursor (fire (tick (markFailed (fireAll ts.sess c.pending) c.loc))
            (.log c.loc c.step 0 .error "" ts.sess.now)) 0 { c with pending := [] }) := by
    simp only [Session.step, stepped, withCursor, hc, flush]
    simp only [beq_self_eq_true, if_true, markFailed_now]
    rfl
  have hts' : ts' = (exec (match k with
      | .abortSuite => modify fun ts => { ts with abortedSuites := ts.abortedSuites ++ [if withSuite then suite else none] }
      | .abortAll => modify fun ts => { ts with abortAll := true }
      | _ => (pure () : M Unit)) (exec (sop 0 (.log .error "")) ts).2).2 := rfl
  have hsop := exec_sop 0 (.log .error "") ts
  rw [hstep] at hsop
  simp only at hsop
  rw [hts', hsop]
  have hfail : isSuccessful (setCursor (fire (tick (markFailed (fireAll ts.sess c.pending) c.loc))
      (.log c.loc c.step 0 .error "" ts.sess.now)) 0 { c with pending := [] }) c.loc = false := by
    unfold isSuccessful
    simp only [setCursor_failures, fire_failures, tick_failures, Bool.not_eq_false', List.contains_iff_mem]
    exact mem_markFailed_self _ _
  cases k <;> refine ⟨?_, ?_, hfail, ?_⟩ <;> simp

/-- the events flushed before the error log are held step/phase starts — never logs: the error log is the
    only log `handle_exception` emits -/
theorem handleException_flushes_only_starts (ts : TS) (c : Cursor) (hinv : Inv ts.sess)
    (hc : getCursor ts.sess 0 = some c) : ∀ e ∈ c.pending, holdable e = true :=
  pending_holdable hinv.held hc

/-! ### "Passed" also means: ran to completion -/

/-- a failure recorded at `L` stays recorded through any program that keeps the session invariant and only
    appends to the fired stream (the failure set is in sync with the fired failing events) -/
theorem failed_sticky {α : Type} {J J' : St → Prop} {Φ : List Item → Prop} {m : M α} (h : Tr J J' Φ m)
    (hJ : ∀ s, J s → Inv s) (hJ' : ∀ s, J' s → Inv s) (ts : TS) (hj : J ts.sess) (L : Loc)
    (hf : isSuccessful ts.sess L = false) : isSuccessful (exec m ts).2.sess L = false := by
  obtain ⟨hj', new, hext, _⟩ := h ts hj
  unfold isSuccessful at hf ⊢
  simp only [Bool.not_eq_false', List.contains_iff_mem] at hf ⊢
  obtain ⟨e, he, hfe⟩ := ((hJ _ hj).sync L).mp hf
  refine ((hJ' _ hj').sync L).mpr ⟨e, ?_, hfe⟩
  rw [hext.fired]
  exact List.mem_append_left _ he

/-- what a program has emitted stays in the output -/
theorem out_mono {α : Type} {J J' : St → Prop} {Φ : List Item → Prop} {m : M α} (h : Tr J J' Φ m)
    (ts : TS) (hj : J ts.sess) {x : Item} (hx : x ∈ ts.out.toList) : x ∈ (exec m ts).2.out.toList := by
  obtain ⟨_, new, hext, _⟩ := h ts hj
  rw [hext.out]
  exact List.mem_append_left _ hx

theorem userOk_any (L : Loc) : UserOk (PIn L (fun _ _ _ => True)) :=
  ⟨fun _ _ _ _ => trivial, fun _ _ _ _ _ => trivial, fun _ _ _ _ => trivial, fun _ _ _ _ => trivial⟩

/-- `handle_exception` by a worker that has a cursor at `L` marks `L` failed -/
theorem handleException_fails {L : Loc} (k : ExcKind) (suite : Option Path) (ws : Bool) (ts : TS) (hj : JC L ts.sess) :
    isSuccessful (exec (handleException k suite ws) ts).2.sess L = false := by
  obtain ⟨c, hc⟩ := Option.isSome_iff_exists.mp hj.2.2
  have hl : c.loc = L := (locInv_cur hj.2.1 hc).1
  have := (handleException_spec k suite ws ts c hc).2.2.1
  rw [hl] at this
  exact this

/-- **the body phase**: started by a worker working at the test's location, if the test is still successful
    when the phase is over (and the model recorded no error), the body unit has run to its end -/
theorem testBody_exit (P : Proj) (svs : List SuiteView) (w : Nat) (path : Path) (tsp : TestSpec) (ts : TS)
    (hj : JC (.test path) ts.sess)
    (hok : isSuccessful (exec (testBody P svs w path tsp) ts).2.sess (.test path) = true)
    (herr : (exec (testBody P svs w path tsp) ts).2.err = none) :
    Item.user 0 (.body path) "exit" ∈ (exec (testBody P svs w path tsp) ts).2.out.toList := by
  have hI := inner_JC (.test path) (fun _ _ _ => True)
  have hU := userOk_any (.test path)
  have hInv : ∀ s, JC (.test path) s → Inv s := fun s h => h.1
  have hl := tra_lookupAll hI hU P svs w (.test path) path.dropLast tsp.fixtures
  have hs := tra_sop_inner hI 0 (.setStep ("test " ++ tsp.name)) rfl
  have hr := tra_runUnit hI hU (.body path) tsp.script (fun _ _ _ => trivial) (fun _ => trivial)
  rw [testBody_exec] at hok herr ⊢
  revert hok herr
  cases h0 : isSuccessful ts.sess (.test path)
  · intro hok _
    simp only at hok
    rw [h0] at hok; cases hok
  · simp only
    rcases h1 : exec (lookupAll P svs w (.test path) path.dropLast tsp.fixtures) ts with ⟨v1, s1⟩
    have hj1 : JC (.test path) s1.sess := by
      have := (hl ts hj).1
      rw [h1] at this; exact this
    cases v1 with
    | some e =>
      intro hok _
      simp only at hok
      rw [handleException_fails e _ true s1 hj1] at hok; cases hok
    | none =>
      simp only
      cases h2 : isSuccessful s1.sess (.test path)
      · intro hok _
        simp only at hok
        rw [h2] at hok; cases hok
      · simp only
        have hj2 := (hs s1 hj1).1
        rcases h3 : exec (runUnit (.body path) tsp.script) (exec (sop 0 (.setStep ("test " ++ tsp.name))) s1).2 with ⟨v3, s3⟩
        have hj3 : JC (.test path) s3.sess := by
          have := (hr _ hj2).1
          rw [h3] at this; exact this
        cases v3 with
        | some e =>
          intro hok _
          simp only at hok
          rw [handleException_fails e _ true s3 hj3] at hok; cases hok
        | none =>
          intro _ herr
          simp only at herr ⊢
          have hx := (exit_of_none FUEL).2 0 (.body path) tsp.script
            (exec (sop 0 (.setStep ("test " ++ tsp.name))) s1).2
          have h3' : exec (execScript FUEL 0 (.body path) tsp.script)
              (exec (sop 0 (.setStep ("test " ++ tsp.name))) s1).2 = (none, s3) := h3
          rw [h3'] at hx
          rcases hx rfl with h | h
          · exact h
          · rw [herr] at h; cases h

/-- **A test reported passed ran to completion.**  For every project, every enabled test that is run (any
    fixtures, hooks, scripts, threads, attachment blocks, any interrupt point `cut`): if the task's result class is
    `success` (the report status is then `passed`: no failing event, `test_result_iff_failing_event`) and the model
    recorded no error, the body unit was entered and ran to its end — its `exit` record is in the task's output.
    There is no way for a test to end `success` with its body skipped, cut short or replaced: the body is guarded
    only by "the test is still successful" (a failed setup fails the test), and whatever leaves the body by an
    exception is turned into an error log by `handle_exception`. -/
theorem passed_test_ran_its_body_to_completion (P : Proj) (insts : Insts) (w : Nat) (t : TaskId) (reason : Bool)
    (kept : List Td) (cut : Option Nat) (hk : t.kind = .test)
    (sv : SuiteView) (hsv : (allSuites P).find? (fun sv => sv.path == t.path.dropLast) = some sv)
    (ts : TestSpec) (hts : sv.spec.tests.find? (fun x => x.name == t.path.getLast?.getD "") = some ts)
    (hen : testDisabledNow P sv ts = false)
    (hres : (runTask P insts w t true reason kept cut).res = .success)
    (herr : (runTask P insts w t true reason kept cut).err = none) :
    Item.user 0 (.body t.path) "exit" ∈ (runTask P insts w t true reason kept cut).items := by
  have hprog : taskProgram P (allSuites P) w t true reason kept = testRun P (allSuites P) w t.path sv ts := by
    rw [taskProgram_test hk hsv hts]; simp [testTask, hen]
  have hI := inner_JC (.test t.path) (fun _ _ _ => True)
  have hU := userOk_any (.test t.path)
  have hInv : ∀ s, JC (.test t.path) s → Inv s := fun s h => h.1
  -- result, error flag and items of the task in terms of the final state of `testRun`
  have e := testRun_exec P (allSuites P) w t.path sv ts (ts0 insts cut)
  rw [runTask_res, hprog, e] at hres
  have herr' : (exec (testRun P (allSuites P) w t.path sv ts) (ts0 insts cut)).2.err = none := by
    have : (runTask P insts w t true reason kept cut).err = (finalTS P insts w t true reason kept cut).err := rfl
    rw [this] at herr; unfold finalTS at herr; rw [hprog] at herr; exact herr
  rw [e] at herr'
  rw [runTask_items]; unfold finalTS; rw [hprog, e]
  clear e herr hprog
  dsimp only at hres herr' ⊢
  -- the six phases, one after the other
  have h1 := (tr_startTest t.path (mdOf ts.name ts.rank) (ts0 insts cut) (jt_init _)).1
  generalize (exec (sop 0 (.startTest t.path (mdOf ts.name ts.rank))) (ts0 insts cut)).2 = s1 at *
  have h2 := (tra_sop_inner hI 0 (.setStep "Setup test") rfl s1 h1).1
  generalize (exec (sop 0 (.setStep "Setup test")) s1).2 = s2 at *
  have h3 := (tra_testSetup hI hU P (allSuites P) w t.path sv ts s2 h2).1
  generalize exec (testSetup P (allSuites P) w t.path sv ts) s2 = r3 at *
  obtain ⟨kept3, s3⟩ := r3
  dsimp only at hres herr' h3 ⊢
  have h4 := (tra_testBody hI hU P (allSuites P) w t.path ts (fun _ _ _ => trivial) (fun _ => trivial) s3 h3).1
  have hbody := testBody_exit P (allSuites P) w t.path ts s3 h3
  generalize (exec (testBody P (allSuites P) w t.path ts) s3).2 = s4 at *
  have t5 := tra_testTeardown hI hU P (allSuites P) t.path kept3
  have h5 := (t5 s4 h4).1
  have hf5 := failed_sticky t5 hInv hInv s4 h4 (.test t.path)
  have ho5 := fun x (hx : x ∈ s4.out.toList) => out_mono t5 s4 h4 hx
  have hk5 := ke_testTeardown P (allSuites P) t.path kept3 s4
  generalize (exec (testTeardown P (allSuites P) t.path kept3) s4).2 = s5 at *
  have t6 := tr_endTest t.path
  have hf6 := failed_sticky t6 hInv hInv s5 h5 (.test t.path)
  have ho6 := fun x (hx : x ∈ s5.out.toList) => out_mono t6 s5 h5 hx
  have hk6 := ke_sop 0 (.endTest t.path) s5
  generalize (exec (sop 0 (.endTest t.path)) s5).2 = s6 at *
  -- success at the end: success after the body (failures are sticky), no model error after the body
  have hok6 : isSuccessful s6.sess (.test t.path) = true := by
    revert hres
    cases isSuccessful s6.sess (.test t.path)
    · intro h; simp at h
    · intro _; rfl
  have hok4 : isSuccessful s4.sess (.test t.path) = true := by
    cases h : isSuccessful s4.sess (.test t.path) with
    | true => rfl
    | false => rw [hf6 (hf5 h)] at hok6; cases hok6
  have herr4 : s4.err = none := by
    cases h : s4.err with
    | none => rfl
    | some m =>
      have := hk6 (hk5 (by rw [h]; rfl))
      rw [herr'] at this; cases this
  exact ho6 _ (ho5 _ (hbody hok4 herr4))

/-! ### Non-vacuity (premises hold on the concrete project `Sample.PA`; a state with a cursor exists) -/

open Sample in
example :
    let out := runTask PA Insts.empty 0 ⟨.test, ["s", "t"]⟩ true false [] none
    (out.res = .failure ↔ ∃ e, Item.ev e ∈ out.items ∧ failsAt e (.test ["s", "t"]) = true) :=
  (test_result_iff_failing_event PA Insts.empty 0 ⟨.test, ["s", "t"]⟩ false [] none rfl svA hsvA tA htA rfl).1

open Sample in
example :
    let out := runTask PA Insts.empty 0 ⟨.init, ["s"]⟩ true false [] none
    (out.res = .success ↔ ¬ ∃ e, Item.ev e ∈ out.items ∧ failsAt e (.suiteSetup ["s"]) = true) :=
  (init_result_iff_failing_event PA Insts.empty 0 ⟨.init, ["s"]⟩ false [] none rfl svA hsvS).2

open PassSample in
/-- `passed_test_ran_its_body_to_completion` is not vacuous: the test `s.p` of `PassSample.P` ends `success` without
    model error, and the theorem puts the `exit` record of its body into the output (it is there: `decide`) -/
example : PassSample.out.res = .success ∧ PassSample.out.err = none ∧
    Item.user 0 (.body ["s", "p"]) "exit" ∈ PassSample.out.items := by
  have h1 : PassSample.out.res = .success := by decide +kernel
  have h2 : PassSample.out.err = none := by decide +kernel
  exact ⟨h1, h2, passed_test_ran_its_body_to_completion P Insts.empty 0 ⟨.test, ["s", "p"]⟩ false [] none rfl
    PassSample.sv (by rfl) tp (by rfl) (by rfl) h1 h2⟩

/-- a failing event does fail its location (the right-hand sides above are satisfiable) -/
example : failsAt (.check (.test ["s", "t"]) (some "x") 0 "" false none 5) (.test ["s", "t"]) = true := by decide

/-- `handleException_spec` on a worker whose cursor holds a pending step start: step start flushed, then the error log -/
example :
    let c : Cursor := { loc := .test ["s", "t"], step := some "x", pending := [.stepStart (.test ["s", "t"]) "x" 0 2] }
    let ts : TS := { ts0 Insts.empty none with sess := setCursor St.init 0 c }
    (exec (handleException .abortSuite (some ["s"]) true) ts).2.out.toList =
        [.ev (.stepStart (.test ["s", "t"]) "x" 0 2), .ev (.log (.test ["s", "t"]) (some "x") 0 .error "" 1)] ∧
     (exec (handleException .abortSuite (some ["s"]) true) ts).2.abortedSuites = [some ["s"]] := by
  intro c ts
  have h := handleException_spec .abortSuite (some ["s"]) true ts c (by rfl)
  exact ⟨h.1, h.2.2.2.1⟩

end LccModel.C02Run

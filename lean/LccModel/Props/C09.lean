/-
  C09 — Saved reports load back unchanged (JSON and XML).

  Property theorems only (helper lemmas: `Lemmas/Serial.lean`, `Lemmas/Sort.lean`).

  "Equal to the original in every field" is stated against `Serial.loaded g r`: the report as every
  reader sees it through the accessors (`get_tests()` / `get_suites()`: children stably sorted by
  rank), as a fresh object graph (rank is not serialized: 0 on every loaded node) whose `saving_time`
  is the generation time `g` of the file.  For a report that is already of that shape (e.g. one that was
  itself loaded) `loaded g r` is `r` up to `savingTime` (`json_roundtrip_loaded_shape`).

  `representable r` is not a restriction of the property: it says that `r` is a value a Python object
  graph can hold (`_tests` and `properties` are dicts, so test names within a suite / property keys
  within a node are distinct).  The Lean types do not enforce it.

  The XML serializer is modelled WITH `fixes/D8b-xml-empty-attribute-strings.diff` (optional attributes are written
  when they are not `None`, not when they are truthy).

  Times are integers of milliseconds; the text layers (`json` module, `xml.etree`, ISO-8601 formatting
  and float rounding) are parameters of the model validated by the streams C09.json / C09.etnorm /
  C09.time, not theorems.
-/
import LccModel.Lemmas.Serial

namespace LccModel.C09
open LccModel.Report LccModel.Writer LccModel.Serial

/-! ## JSON: every report, every string, every optional field -/

/-- Sentence 1 (JSON half): saving ANY representable report — finished or in progress, any tree shape,
    any text, any optional field present or absent, start times missing or not — with the JSON backend and
    loading it back yields the report (as seen through the accessors) unchanged in every field. -/
theorem json_roundtrip (g : Time) (r : Report) (h : representable r = true) :
    fromJson (toJson g r) = .ok (loaded g r) := by
  apply json_roundtrip_fuel g r _ _ h
  have h1 := suiteDepthList_le (view r)
  have h2 : (JVal.arr (toJsonSuites (view r))).depth ≤ depthKvs
      ([("lemoncheesecake_version", JVal.str "lcc"), ("report_version", JVal.ver 1 1), ("start_time", jTime r.startTime),
         ("end_time", jTime r.endTime), ("generation_time", JVal.time g), ("nb_threads", JVal.num r.nbThreads),
         ("title", JVal.str r.title), ("info", JVal.arr (r.info.map (fun (n, v) => JVal.arr [JVal.str n, JVal.str v])))]
        ++ optField "test_session_setup" r.setup ++ [("suites", JVal.arr (toJsonSuites (view r)))]
        ++ optField "test_session_teardown" r.teardown) :=
    depthKvs_ge _ "suites" _ (by simp)
  simp only [toJson, JVal.depth] at *
  omega

/-- A report in loaded shape (rank 0 everywhere) comes back literally identical, `saving_time` aside. -/
theorem json_roundtrip_loaded_shape (g : Time) (r : Report) (h : representable r = true)
    (hz : ranksZeroList r.suites = true) :
    fromJson (toJson g r) = .ok { r with savingTime := some g } := by
  rw [json_roundtrip g r h]
  have hv : view r = r.suites := by
    unfold view
    rw [sortDeepList_of_zero _ hz]
    exact sortByRank_of_const suiteRank 0 _ (fun s hs => ranksZero_rank s ((ranksZeroList_iff _).mp hz s hs))
  simp [loaded, hv, clearRanksList_of_zero _ hz]

/-! ## XML: exactly the reports satisfying `xmlSafe`

  Full-strength statement (FALSE for the code as it is, see the refutations below):
      ∀ g r, representable r → xmlRoundTrip g r = .loaded (loaded g r)
-/

/-- Sentence 1 (XML half), under the exact decidable guard `xmlSafe`: the XML serializer succeeds, the
    XML text layer (`etNorm`) leaves the document alone, and the loader returns the report unchanged. -/
theorem xml_roundtrip_partial (g : Time) (r : Report) (hs : xmlSafe r = true) (hr : representable r = true) :
    ∃ x, toXml g r = .ok x ∧ etNorm x = .ok x ∧ fromXml x = .ok (loaded g r) := by
  obtain ⟨x, h1, h2, h3⟩ := xml_roundtrip_core g r hs hr
  exact ⟨x, h1, etNorm_of_clean x h2, h3⟩

/-- The same, phrased on the whole save → file → load pipeline. -/
theorem xml_roundtrip_pipeline_partial (g : Time) (r : Report) (hs : xmlSafe r = true) (hr : representable r = true) :
    ∃ r', xmlRoundTrip g r = .loaded r' ∧ r' = loaded g r := by
  obtain ⟨x, h1, h2, h3⟩ := xml_roundtrip_partial g r hs hr
  exact ⟨loaded g r, by simp [xmlRoundTrip, h1, h2, h3], rfl⟩

/-- Sentence 2: the two backends agree with each other (on every report the XML format can carry). -/
theorem backends_agree (g : Time) (r : Report) (hs : xmlSafe r = true) (hr : representable r = true) :
    ∃ x, toXml g r = .ok x ∧ (etNorm x).toOption.bind (fun y => (fromXml y).toOption) = (fromJson (toJson g r)).toOption := by
  obtain ⟨x, h1, h2, h3⟩ := xml_roundtrip_partial g r hs hr
  exact ⟨x, h1, by simp [h2, h3, json_roundtrip g r hr, Except.toOption]⟩

/-! ### non-vacuity: a report with nested suites, all four log kinds, unfinished items, non-ASCII and
    markup text satisfies both guards -/

def sampleStep : Step :=
  { description := "step <1> & \"two\"", startTime := some 1001, endTime := none,
    entries := [.log .info " naïve café\n日本語 " 1002, .check "x < y" false (some "got 3\n\texpected 2") 1003,
                .attachment "shot" "attachments/a b.png" true 1004, .url "home" "http://x/?a=1&b=2" 1005] }

def sampleTest (name : String) (rank : Nat) (st : Option Status) : TestResult :=
  { md := { name := name, description := "d", tags := ["slow", "é"], properties := [("prio", "1"), ("k", " v ")],
            links := [("http://bug/1", some "#1"), ("http://bug/2", none)], rank := rank },
    result := { steps := [sampleStep], startTime := some 1000, endTime := st.map (fun _ => 1010), status := st,
                statusDetails := none } }

def sampleReport : Report :=
  { title := "T", info := [("k", "v")], nbThreads := 2, startTime := some 999, endTime := none, savingTime := none,
    setup := some { steps := [], startTime := some 999, endTime := some 1000, status := some .passed, statusDetails := none },
    teardown := none,
    suites := [.mk { name := "s", description := "", tags := [], properties := [], links := [], rank := 1 } (some 1000) none
                  none none [sampleTest "b" 2 (some .failed), sampleTest "a" 1 none]
                  [.mk { name := "sub", description := "x", tags := [], properties := [], links := [], rank := 0 } (some 1000)
                      (some 1020) none none [sampleTest "c" 0 (some .skipped)] []]] }

example : xmlSafe sampleReport = true ∧ representable sampleReport = true := by decide

/-! ### refutations: the XML backend violates the full-strength statement (finding D8), one theorem per class.
    `w msg` is a report with one test holding one log with message `msg`. -/

def wTest (msg : String) (details : Option String) (links : List (String × Option String)) (stepDesc : String)
    (checkDetails : Option (Option String)) : TestResult :=
  { md := { name := "t1", description := "d", tags := [], properties := [], links := links, rank := 0 },
    result := { steps := [{ description := stepDesc, startTime := some 1, endTime := some 3,
                             entries := [.log .info msg 2] ++ (match checkDetails with
                               | none => []
                               | some d => [.check "c" true d 2]) }],
                startTime := some 1, endTime := some 4, status := some .passed, statusDetails := details } }

def w (t : TestResult) : Report :=
  { title := "t", info := [], nbThreads := 1, startTime := some 0, endTime := some 6, savingTime := none, setup := none,
    teardown := none,
    suites := [.mk { name := "s1", description := "d", tags := [], properties := [], links := [], rank := 0 }
                    (some 0) (some 5) none none [t] []] }

def isNoneText : XmlOutcome → Bool
  | .loadError (.noneText _) => true
  | _ => false

/-- the message the XML round trip gives back for the first log of the first test -/
def firstMsg : XmlOutcome → Option String
  | .loaded r => match r.suites with
    | (.mk _ _ _ _ _ (t :: _) _) :: _ => match t.result.steps with
      | s :: _ => match s.entries with
        | (.log _ m _) :: _ => some m
        | _ => none
      | _ => none
    | _ => none
  | _ => none

/-- D8 / `C09/xml/empty-text-loads-None`: an empty log message comes back as `None` (not a string at all),
    while the JSON backend keeps it. -/
theorem xml_empty_text_loads_none :
    isNoneText (xmlRoundTrip 9 (w (wTest "" none [] "s" none))) = true ∧
    (fromJson (toJson 9 (w (wTest "" none [] "s" none)))).toOption.isSome = true := by decide

/-- the same class for an OPTIONAL text: check details `""` come back as `None`. -/
theorem xml_empty_check_details_load_none :
    (match xmlRoundTrip 9 (w (wTest "m" none [] "s" (some (some "")))) with
     | .loaded r => (match r.suites with
        | (.mk _ _ _ _ _ (t :: _) _) :: _ => t.result.steps.map (fun s => s.entries.length) == [2] &&
            t.result.steps.all (fun s => s.entries.all (fun e => match e with
              | .check _ _ d _ => d == none
              | _ => true))
        | _ => false)
     | _ => false) = true := by decide

/-- D8 / `C09/xml/cr-becomes-lf`: `"a\rb"` comes back as `"a\nb"`. -/
theorem xml_cr_becomes_lf :
    firstMsg (xmlRoundTrip 9 (w (wTest "a\rb" none [] "s" none))) = some "a\nb" := by decide

/-- … and CRLF collapses to a single LF. -/
theorem xml_crlf_becomes_lf :
    firstMsg (xmlRoundTrip 9 (w (wTest "a\r\nb" none [] "s" none))) = some "a\nb" := by decide

def isParseError : XmlOutcome → Bool
  | .textError .parse => true
  | _ => false

def isEncodeError : XmlOutcome → Bool
  | .saveError .encode => true
  | _ => false

/-- D8 / `C09/xml/non-xml-char-unloadable`: U+0001 in a log message makes the saved file unloadable. -/
theorem xml_control_char_unloadable :
    isParseError (xmlRoundTrip 9 (w (wTest "\x01" none [] "s" none))) = true := by decide

/-- … and so does U+FFFE in an attribute position (a step description). -/
theorem xml_fffe_in_attribute_unloadable :
    isParseError (xmlRoundTrip 9 (w (wTest "m" none [] (String.singleton (Char.ofNat 0xFFFE)) none))) = true := by decide

/-- D8 / `C09/xml/lone-surrogate-save-fails`: a lone surrogate (carried as U+10F800, see `ProtoReport.lean`)
    makes the XML *save* raise; the JSON backend round-trips it. -/
theorem xml_lone_surrogate_save_fails :
    isEncodeError (xmlRoundTrip 9 (w (wTest (String.singleton (Char.ofNat 0x10F800)) none [] "s" none))) = true ∧
    (fromJson (toJson 9 (w (wTest (String.singleton (Char.ofNat 0x10F800)) none [] "s" none)))).toOption.isSome = true := by
  decide

/-- `C09/xml/empty-status-details-loads-None` — FIXED by `fixes/D8b-xml-empty-attribute-strings.diff`
    (`if result.status_details is not None:`): an empty `status_details` is written as `status-details=""` and comes back. -/
theorem xml_empty_status_details_preserved :
    (match xmlRoundTrip 9 (w (wTest "m" (some "") [] "s" none)) with
     | .loaded r => (match r.suites with
        | (.mk _ _ _ _ _ (t :: _) _) :: _ => t.result.statusDetails == some ""
        | _ => false)
     | _ => false) = true ∧ xmlSafe (w (wTest "m" (some "") [] "s" none)) = true := by decide

/-- `C09/xml/empty-link-name-loads-None` — FIXED by the same patch (`if link[1] is not None:`). -/
theorem xml_empty_link_name_preserved :
    (match xmlRoundTrip 9 (w (wTest "m" none [("http://x", some "")] "s" none)) with
     | .loaded r => (match r.suites with
        | (.mk _ _ _ _ _ (t :: _) _) :: _ => t.md.links == [("http://x", some "")]
        | _ => false)
     | _ => false) = true ∧ xmlSafe (w (wTest "m" none [("http://x", some "")] "s" none)) = true := by decide

/-- every witness above violates exactly the guard (so the guard is not wider than needed on them),
    while the same report with a harmless message satisfies it -/
theorem witnesses_violate_guard :
    xmlSafe (w (wTest "" none [] "s" none)) = false ∧ xmlSafe (w (wTest "a\rb" none [] "s" none)) = false ∧
    xmlSafe (w (wTest "\x01" none [] "s" none)) = false ∧
    xmlSafe (w (wTest (String.singleton (Char.ofNat 0x10F800)) none [] "s" none)) = false ∧
    xmlSafe (w (wTest "m" none [] "s" (some (some "")))) = false ∧
    xmlSafe (w (wTest "m" (some "why") [("http://x", some "n")] "s" (some (some "d")))) = true := by decide

/-- the XML serializer formats start times unconditionally: a report without start time (not producible by
    the reporting API, but representable) makes the save raise `TypeError`; the JSON backend saves `null`. -/
theorem xml_missing_start_time_save_fails :
    (match xmlRoundTrip 9 { Report.empty with title := "t" } with
     | .saveError (.noneTime _) => true
     | _ => false) = true ∧
    (fromJson (toJson 9 { Report.empty with title := "t" })).toOption.isSome = true := by decide

end LccModel.C09

/-
  C09 — Saved reports load back unchanged (JSON and XML).

  Property theorems only (helper lemmas: `Lemmas/Serial.lean`, `Lemmas/Sort.lean`).

  "Equal to the original in every field" is stated against `Serial.loaded g r`: the report as every
  reader sees it through the accessors (`get_tests()` / `get_suites()`: children stably sorted by
  rank), as a fresh object graph (rank is not serialized: 0 on every loaded node) whose `saving_time`
  is the generation time `g` of the file.  For a report that is already of that shape (e.g. one that was
  itself loaded) `loaded g r` is `r` up to `savingTime` (`json_roundtrip_loaded_shape`).

  `representable r` is not a restriction of the property: it says that `r` is a value a Python object
  graph can hold (`_tests` and `properties` are dicts, so test names within a suite / property keys
  within a node are distinct).  The Lean types do not enforce it.

  The XML serializer is modelled WITH `fixes/D8b-xml-empty-attribute-strings.diff` (optional attributes are written
  when they are not `None`, not when they are truthy).

  Times are integers of milliseconds; the text layers (`json` module, `xml.etree`, ISO-8601 formatting
  and float rounding) are parameters of the model validated by the streams C09.json / C09.etnorm /
  C09.time, not theorems.
-/
import LccModel.Lemmas.Serial
import LccModel.Lemmas.JsonFile
import LccModel.Lemmas.Store

namespace LccModel.C09
open LccModel.Report LccModel.Writer LccModel.Serial LccModel.JsonFile LccModel.Store

/-! ## JSON: every report, every string, every optional field -/

/-- Sentence 1 (JSON half): saving ANY representable report — finished or in progress, any tree shape,
    any text, any optional field present or absent, start times missing or not — with the JSON backend and
    loading it back yields the report (as seen through the accessors) unchanged in every field. -/
theorem json_roundtrip (g : Time) (r : Report) (h : representable r = true) :
    fromJson (toJson g r) = .ok (loaded g r) := by
  apply json_roundtrip_fuel g r _ _ h
  have h1 := suiteDepthList_le (view r)
  have h2 : (JVal.arr (toJsonSuites (view r))).depth ≤ depthKvs
      ([("lemoncheesecake_version", JVal.str "lcc"), ("report_version", JVal.ver 1 1), ("start_time", jTime r.startTime),
         ("end_time", jTime r.endTime), ("generation_time", JVal.time g), ("nb_threads", JVal.num r.nbThreads),
         ("title", JVal.str r.title), ("info", JVal.arr (r.info.map (fun (n, v) => JVal.arr [JVal.str n, JVal.str v])))]
        ++ optField "test_session_setup" r.setup ++ [("suites", JVal.arr (toJsonSuites (view r)))]
        ++ optField "test_session_teardown" r.teardown) :=
    depthKvs_ge _ "suites" _ (by simp)
  simp only [toJson, JVal.depth] at *
  omega

/-- A report in loaded shape (rank 0 everywhere) comes back literally identical, `saving_time` aside. -/
theorem json_roundtrip_loaded_shape (g : Time) (r : Report) (h : representable r = true)
    (hz : ranksZeroList r.suites = true) :
    fromJson (toJson g r) = .ok { r with savingTime := some g } := by
  rw [json_roundtrip g r h]
  have hv : view r = r.suites := by
    unfold view
    rw [sortDeepList_of_zero _ hz]
    exact sortByRank_of_const suiteRank 0 _ (fun s hs => ranksZero_rank s ((ranksZeroList_iff _).mp hz s hs))
  simp [loaded, hv, clearRanksList_of_zero _ hz]

/-! ## XML: exactly the reports satisfying `xmlSafe`

  Full-strength statement (FALSE for the code as it is, see the refutations below):
      ∀ g r, representable r → xmlRoundTrip g r = .loaded (loaded g r)
-/

/-- Sentence 1 (XML half), under the exact decidable guard `xmlSafe`: the XML serializer succeeds, the
    XML text layer (`etNorm`) leaves the document alone, and the loader returns the report unchanged. -/
theorem xml_roundtrip_partial (g : Time) (r : Report) (hs : xmlSafe r = true) (hr : representable r = true) :
    ∃ x, toXml g r = .ok x ∧ etNorm x = .ok x ∧ fromXml x = .ok (loaded g r) := by
  obtain ⟨x, h1, h2, h3⟩ := xml_roundtrip_core g r hs hr
  exact ⟨x, h1, etNorm_of_clean x h2, h3⟩

/-- The same, phrased on the whole save → file → load pipeline. -/
theorem xml_roundtrip_pipeline_partial (g : Time) (r : Report) (hs : xmlSafe r = true) (hr : representable r = true) :
    ∃ r', xmlRoundTrip g r = .loaded r' ∧ r' = loaded g r := by
  obtain ⟨x, h1, h2, h3⟩ := xml_roundtrip_partial g r hs hr
  exact ⟨loaded g r, by simp [xmlRoundTrip, h1, h2, h3], rfl⟩

/-- Sentence 2: the two backends agree with each other (on every report the XML format can carry). -/
theorem backends_agree (g : Time) (r : Report) (hs : xmlSafe r = true) (hr : representable r = true) :
    ∃ x, toXml g r = .ok x ∧ (etNorm x).toOption.bind (fun y => (fromXml y).toOption) = (fromJson (toJson g r)).toOption := by
  obtain ⟨x, h1, h2, h3⟩ := xml_roundtrip_partial g r hs hr
  exact ⟨x, h1, by simp [h2, h3, json_roundtrip g r hr, Except.toOption]⟩

/-! ### non-vacuity: a report with nested suites, all four log kinds, unfinished items, non-ASCII and
    markup text satisfies both guards -/

def sampleStep : Step :=
  { description := "step <1> & \"two\"", startTime := some 1001, endTime := none,
    entries := [.log .info " naïve café\n日本語 " 1002, .check "x < y" false (some "got 3\n\texpected 2") 1003,
                .attachment "shot" "attachments/a b.png" true 1004, .url "home" "http://x/?a=1&b=2" 1005] }

def sampleTest (name : String) (rank : Nat) (st : Option Status) : TestResult :=
  { md := { name := name, description := "d", tags := ["slow", "é"], properties := [("prio", "1"), ("k", " v ")],
            links := [("http://bug/1", some "#1"), ("http://bug/2", none)], rank := rank },
    result := { steps := [sampleStep], startTime := some 1000, endTime := st.map (fun _ => 1010), status := st,
                statusDetails := none } }

def sampleReport : Report :=
  { title := "T", info := [("k", "v")], nbThreads := 2, startTime := some 999, endTime := none, savingTime := none,
    setup := some { steps := [], startTime := some 999, endTime := some 1000, status := some .passed, statusDetails := none },
    teardown := none,
    suites := [.mk { name := "s", description := "", tags := [], properties := [], links := [], rank := 1 } (some 1000) none
                  none none [sampleTest "b" 2 (some .failed), sampleTest "a" 1 none]
                  [.mk { name := "sub", description := "x", tags := [], properties := [], links := [], rank := 0 } (some 1000)
                      (some 1020) none none [sampleTest "c" 0 (some .skipped)] []]] }

example : xmlSafe sampleReport = true ∧ representable sampleReport = true := by decide

/-! ### refutations: the XML backend violates the full-strength statement (finding D8), one theorem per class.
    `w msg` is a report with one test holding one log with message `msg`. -/

def wTest (msg : String) (details : Option String) (links : List (String × Option String)) (stepDesc : String)
    (checkDetails : Option (Option String)) : TestResult :=
  { md := { name := "t1", description := "d", tags := [], properties := [], links := links, rank := 0 },
    result := { steps := [{ description := stepDesc, startTime := some 1, endTime := some 3,
                             entries := [.log .info msg 2] ++ (match checkDetails with
                               | none => []
                               | some d => [.check "c" true d 2]) }],
                startTime := some 1, endTime := some 4, status := some .passed, statusDetails := details } }

def w (t : TestResult) : Report :=
  { title := "t", info := [], nbThreads := 1, startTime := some 0, endTime := some 6, savingTime := none, setup := none,
    teardown := none,
    suites := [.mk { name := "s1", description := "d", tags := [], properties := [], links := [], rank := 0 }
                    (some 0) (some 5) none none [t] []] }

def isNoneText : XmlOutcome → Bool
  | .loadError (.noneText _) => true
  | _ => false

/-- the message the XML round trip gives back for the first log of the first test -/
def firstMsg : XmlOutcome → Option String
  | .loaded r => match r.suites with
    | (.mk _ _ _ _ _ (t :: _) _) :: _ => match t.result.steps with
      | s :: _ => match s.entries with
        | (.log _ m _) :: _ => some m
        | _ => none
      | _ => none
    | _ => none
  | _ => none

/-- D8 / `C09/xml/empty-text-loads-None`: an empty log message comes back as `None` (not a string at all),
    while the JSON backend keeps it. -/
theorem xml_empty_text_loads_none :
    isNoneText (xmlRoundTrip 9 (w (wTest "" none [] "s" none))) = true ∧
    (fromJson (toJson 9 (w (wTest "" none [] "s" none)))).toOption.isSome = true := by decide

/-- the same class for an OPTIONAL text: check details `""` come back as `None`. -/
theorem xml_empty_check_details_load_none :
    (match xmlRoundTrip 9 (w (wTest "m" none [] "s" (some (some "")))) with
     | .loaded r => (match r.suites with
        | (.mk _ _ _ _ _ (t :: _) _) :: _ => t.result.steps.map (fun s => s.entries.length) == [2] &&
            t.result.steps.all (fun s => s.entries.all (fun e => match e with
              | .check _ _ d _ => d == none
              | _ => true))
        | _ => false)
     | _ => false) = true := by decide

/-- D8 / `C09/xml/cr-becomes-lf`: `"a\rb"` comes back as `"a\nb"`. -/
theorem xml_cr_becomes_lf :
    firstMsg (xmlRoundTrip 9 (w (wTest "a\rb" none [] "s" none))) = some "a\nb" := by decide

/-- … and CRLF collapses to a single LF. -/
theorem xml_crlf_becomes_lf :
    firstMsg (xmlRoundTrip 9 (w (wTest "a\r\nb" none [] "s" none))) = some "a\nb" := by decide

def isParseError : XmlOutcome → Bool
  | .textError .parse => true
  | _ => false

def isEncodeError : XmlOutcome → Bool
  | .saveError .encode => true
  | _ => false

/-- D8 / `C09/xml/non-xml-char-unloadable`: U+0001 in a log message makes the saved file unloadable. -/
theorem xml_control_char_unloadable :
    isParseError (xmlRoundTrip 9 (w (wTest "\x01" none [] "s" none))) = true := by decide

/-- … and so does U+FFFE in an attribute position (a step description). -/
theorem xml_fffe_in_attribute_unloadable :
    isParseError (xmlRoundTrip 9 (w (wTest "m" none [] (String.singleton (Char.ofNat 0xFFFE)) none))) = true := by decide

/-- D8 / `C09/xml/lone-surrogate-save-fails`: a lone surrogate (carried as U+10F800, see `ProtoReport.lean`)
    makes the XML *save* raise; the JSON backend round-trips it. -/
theorem xml_lone_surrogate_save_fails :
    isEncodeError (xmlRoundTrip 9 (w (wTest (String.singleton (Char.ofNat 0x10F800)) none [] "s" none))) = true ∧
    (fromJson (toJson 9 (w (wTest (String.singleton (Char.ofNat 0x10F800)) none [] "s" none)))).toOption.isSome = true := by
  decide

/-- `C09/xml/empty-status-details-loads-None` — FIXED by `fixes/D8b-xml-empty-attribute-strings.diff`
    (`if result.status_details is not None:`): an empty `status_details` is written as `status-details=""` and comes back. -/
theorem xml_empty_status_details_preserved :
    (match xmlRoundTrip 9 (w (wTest "m" (some "") [] "s" none)) with
     | .loaded r => (match r.suites with
        | (.mk _ _ _ _ _ (t :: _) _) :: _ => t.result.statusDetails == some ""
        | _ => false)
     | _ => false) = true ∧ xmlSafe (w (wTest "m" (some "") [] "s" none)) = true := by decide

/-- `C09/xml/empty-link-name-loads-None` — FIXED by the same patch (`if link[1] is not None:`). -/
theorem xml_empty_link_name_preserved :
    (match xmlRoundTrip 9 (w (wTest "m" none [("http://x", some "")] "s" none)) with
     | .loaded r => (match r.suites with
        | (.mk _ _ _ _ _ (t :: _) _) :: _ => t.md.links == [("http://x", some "")]
        | _ => false)
     | _ => false) = true ∧ xmlSafe (w (wTest "m" none [("http://x", some "")] "s" none)) = true := by decide

/-- every witness above violates exactly the guard (so the guard is not wider than needed on them),
    while the same report with a harmless message satisfies it -/
theorem witnesses_violate_guard :
    xmlSafe (w (wTest "" none [] "s" none)) = false ∧ xmlSafe (w (wTest "a\rb" none [] "s" none)) = false ∧
    xmlSafe (w (wTest "\x01" none [] "s" none)) = false ∧
    xmlSafe (w (wTest (String.singleton (Char.ofNat 0x10F800)) none [] "s" none)) = false ∧
    xmlSafe (w (wTest "m" none [] "s" (some (some "")))) = false ∧
    xmlSafe (w (wTest "m" (some "why") [("http://x", some "n")] "s" (some (some "d")))) = true := by decide

/-! ### independent fields of a result: end time, status, start time

  `ReportWriter._finalize_result` sets `end_time` first and `status` afterwards; tools that build reports fill the fields in
  any order.  A result of ANY kind (session setup / teardown, suite setup / teardown, test) is serialised FIELD BY FIELD: each
  optional field is written when it is set, whatever the others hold.  `xml_roundtrip_partial` / `json_roundtrip` already
  quantify over these reports (the fields of `Result` are independent `Option`s and neither guard relates them); the
  theorems below say it for the one element. -/

/-- XML: a result element carries every combination of (end time, status, status details) back — also an end time without
    status, a status without end time, an end before the start — for every tag (`test`, `suite-setup`, …). -/
theorem xml_result_fields_independent (tag : String) (r : Result) (h : resultSafe r = true) :
    ∃ x, toXmlResult tag r = .ok x ∧ fromXmlResult x = .ok r := by
  obtain ⟨x, h1, h2, _, _⟩ := xresult_rt tag r h
  exact ⟨x, h1, h2⟩

/-- in particular the end time of a result that has NO status (yet) is written and loaded -/
theorem xml_end_time_without_status_kept (tag : String) (r : Result) (t : Time) (h : resultSafe r = true)
    (he : r.endTime = some t) (hs : r.status = none) :
    ∃ x r', toXmlResult tag r = .ok x ∧ fromXmlResult x = .ok r' ∧ r'.endTime = some t ∧ r'.status = none := by
  obtain ⟨x, h1, h2⟩ := xml_result_fields_independent tag r h
  exact ⟨x, r, h1, h2, he, hs⟩

/-- JSON: the same, without any guard -/
theorem json_result_fields_independent (r : Result) : fromJsonResult (toJsonResult r) = .ok r := result_rt r

/-- a report holding a result of every kind with (end time, no status), (status, no end time), (end before start): the XML
    round trip gives the report back, as the JSON one does -/
def oddFieldsReport : Report :=
  let res (st en : Time) (status : Option Status) (hasEnd : Bool) : Result :=
    { steps := [{ description := "s", startTime := some (st + 1), endTime := some (st + 2), entries := [.log .info "m" (st + 1)] }],
      startTime := some st, endTime := if hasEnd then some en else none, status := status, statusDetails := none }
  { title := "t", info := [], nbThreads := 1, startTime := some 0, endTime := some 90, savingTime := none,
    setup := some (res 10 15 none true), teardown := some (res 80 75 (some .passed) true),
    suites := [.mk { name := "s1", description := "d", tags := [], properties := [], links := [], rank := 0 }
                    (some 20) (some 70) (some (res 20 25 none true)) (some (res 60 0 (some .failed) false))
                    [{ md := { name := "t1", description := "d", tags := [], properties := [], links := [], rank := 0 },
                       result := res 30 35 none true },
                     { md := { name := "t2", description := "d", tags := [], properties := [], links := [], rank := 0 },
                       result := res 40 0 (some .passed) false }] []] }

theorem odd_fields_report_round_trips :
    xmlSafe oddFieldsReport = true ∧ representable oddFieldsReport = true ∧
    (match xmlRoundTrip 9 oddFieldsReport with
     | .loaded r => (r.setup.map (fun x => (x.endTime, x.status)) == some (some 15, none)) &&
        (match r.suites with
          | (.mk _ _ _ su td (t1 :: t2 :: _) _) :: _ =>
            su.map (fun x => (x.endTime, x.status)) == some (some 25, none) &&
            td.map (fun x => (x.endTime, x.status)) == some (none, some .failed) &&
            (t1.result.endTime, t1.result.status) == (some 35, none) &&
            (t2.result.endTime, t2.result.status) == (none, some .passed)
          | _ => false)
     | _ => false) = true := by decide

/-- the XML serializer formats start times unconditionally: a report without start time (not producible by
    the reporting API, but representable) makes the save raise `TypeError`; the JSON backend saves `null`. -/
theorem xml_missing_start_time_save_fails :
    (match xmlRoundTrip 9 { Report.empty with title := "t" } with
     | .saveError (.noneTime _) => true
     | _ => false) = true ∧
    (fromJson (toJson 9 { Report.empty with title := "t" })).toOption.isSome = true := by decide

/-! ## The JSON *file*: backend options, JavaScript prefix

  `JsonBackend(javascript_compatibility, pretty_formatting)` — four option combinations; the loader does not know which
  one wrote the file.  `render pretty` / `parse` are the text layer (`json.dumps(…[, indent=4])` / `json.loads`), a
  parameter with the two facts the stream `C09.json` validates on every real file: it is the identity on values and
  an object is rendered starting with `{`. -/

/-- Sentence 1, on the file as it is written and read: for EVERY option combination, every representable report and
    every text (the report may quote the prefix itself, or any other piece of the file format, anywhere), stripping the
    JavaScript prefix the way the loader does (anchored at offset 0), parsing and unserialising gives the report back. -/
theorem json_file_roundtrip (render : Bool → JVal → List Char) (parse : List Char → Option JVal)
    (hid : ∀ p v, parse (render p v) = some v)
    (hobj : ∀ p kvs, ∃ rest, render p (.obj kvs) = '{' :: rest)
    (o : Opts) (g : Time) (r : Report) (h : representable r = true) :
    (parse (unframe (frame o (render o.pretty (toJson g r))))).map fromJson = some (.ok (loaded g r)) := by
  have hun : unframe (frame o (render o.pretty (toJson g r))) = render o.pretty (toJson g r) := by
    unfold frame
    cases o.jsCompat with
    | true => simp only [if_true]; exact unframe_prefixed _
    | false =>
      simp only [Bool.false_eq_true, if_false]
      obtain ⟨rest, hr⟩ := hobj o.pretty _
      rw [toJson, hr]
      exact unframe_of_head_ne (by decide)
  rw [hun, hid, Option.map_some, json_roundtrip g r h]

/-- The anchoring is necessary: removing the FIRST OCCURRENCE of the prefix instead (a loader written with
    `text.replace(JS_PREFIX, "", 1)`) damages a file saved without the prefix whose content quotes it. -/
theorem unanchored_strip_refuted :
    ∃ body : List Char, body.head? = some '{' ∧ unframe (frame { jsCompat := false, pretty := false } body) = body
      ∧ removeFirst jsPrefix body ≠ body :=
  ⟨"{\"title\": \"var reporting_data = x\"}".toList, by decide, by decide, by decide⟩

/-- `C09/json/split-surrogate-pair-merged` (open finding): the `ensure_ascii` escaping of the JSON text layer is NOT
    injective — the two code points U+D83D U+DE00 (a high surrogate followed by a low one, as a Python `str` can hold
    them) and the single character U+1F600 are written as the same text, so no loader can give both back; `json.loads`
    returns the astral character.  (The theorems above are on JSON *values*: the text layer is their parameter, and it is
    the identity on every string without such a split pair — validated by stream `C09.jsontext`.) -/
theorem json_escape_not_injective :
    jsonEscape [0xD83D, 0xDE00] = jsonEscape [0x1F600] ∧ ([0xD83D, 0xDE00] : List Nat) ≠ [0x1F600] := by decide

/-- … whereas every *lone* surrogate has its own spelling (`\udXXX`), different from that of every other single code point
    of the BMP. -/
theorem json_escape_lone_surrogate : jsonEscape [0xD800] = [92, 117, 100, 56, 48, 48] ∧ jsonEscape [0xDFFF] = [92, 117, 100, 102, 102, 102] := by
  decide

/-- The JSON text is pure printable ASCII whatever the strings of the report hold (lone surrogates, controls, astral
    characters): it can be written to the report file under every ASCII-compatible locale encoding, and contains no line
    break and no character the prefix-stripping could be confused by other than those of the text itself. -/
theorem json_text_is_printable_ascii (s : List Nat) : ∀ x ∈ jsonEscape s, 32 ≤ x ∧ x ≤ 126 := jsonEscape_range s

/-! ## Sequences: the same live report saved, modified, saved again

  `Store.run` is the pipeline on an arbitrary sequence of modifications (`mutate f`, ANY function on the report value:
  tags, links, status, steps, logs of tests that were already finished and already saved), saves (either backend, any
  options, any path, any generation time) and loads; `Store.specRun` is the same sequence where a file simply stands
  for the report value that was current at the save. -/

/-- **No history in a file**: on every operation sequence the real pipeline answers every save and every load exactly
    like the specification — a saved file depends on the report as it is at the moment of the save and on nothing else
    (not on earlier saves of the same objects, not on what a test looked like when it was first serialised). -/
theorem seq_run_is_spec (r0 : Report) (ops : List Op) :
    Store.run (St.init r0) ops = Store.specRun { report := r0, files := [] } ops :=
  run_eq_specRun ops (St.init r0) { report := r0, files := [] } rfl trivial

/-- one-shot JSON round trip, any options -/
theorem oneShot_json (o : Opts) (g : Time) (r : Report) (h : representable r = true) :
    oneShot (.json o) g r = .loaded (loaded g r) := by
  simp [oneShot, loadContent, json_roundtrip g r h]

/-- one-shot XML round trip under the guard of `xml_roundtrip_partial` -/
theorem oneShot_xml_partial (g : Time) (r : Report) (hs : xmlSafe r = true) (hr : representable r = true) :
    oneShot .xml g r = .loaded (loaded g r) := by
  obtain ⟨r', h1, h2⟩ := xml_roundtrip_pipeline_partial g r hs hr
  rw [oneShot_xml, h1, h2]
  rfl

/-- Sentence 1 for a report that is saved again after having been modified (JSON, any options): after ANY history
    `pre` (earlier saves to this or other paths, loads, modifications), a save to `p`, then anything that does not save
    to `p` again (further modifications included), a load of `p` yields the report exactly as it was at that save. -/
theorem seq_json_load_is_report_at_save (r0 : Report) (pre post : List Op) (p : Nat) (o : Opts) (g : Time)
    (hrep : representable (reportAfter r0 pre) = true) (hpost : ∀ op ∈ post, op.savesTo p = false) :
    (Store.run (St.init r0) (pre ++ [.save p (.json o) g] ++ post ++ [.load p])).getLast? =
      some (.loaded (loaded g (reportAfter r0 pre))) := by
  rw [seq_run_is_spec, specRun_last_load pre post p (.json o) g _ rfl hpost, oneShot_json o g _ hrep]

/-- The same for the XML backend, under `xmlSafe` of the report at the save. -/
theorem seq_xml_load_is_report_at_save_partial (r0 : Report) (pre post : List Op) (p : Nat) (g : Time)
    (hs : xmlSafe (reportAfter r0 pre) = true) (hrep : representable (reportAfter r0 pre) = true)
    (hpost : ∀ op ∈ post, op.savesTo p = false) :
    (Store.run (St.init r0) (pre ++ [.save p .xml g] ++ post ++ [.load p])).getLast? =
      some (.loaded (loaded g (reportAfter r0 pre))) := by
  have hone := oneShot_xml_partial g _ hs hrep
  have hsave : saveOutcome .xml g (reportAfter r0 pre) = .saved := by
    simp only [oneShot] at hone
    simp only [saveOutcome]
    cases hx : xmlFile g (reportAfter r0 pre) with
    | error e => rw [hx] at hone; cases hone
    | ok c => rfl
  rw [seq_run_is_spec, specRun_last_load pre post p .xml g _ hsave hpost, hone]

/-- non-vacuity: the test `a` of `sampleReport`… finished, saved, then annotated (status details, a tag), saved again
    with other options to the same path: the load shows the annotated test -/
example :
    (match (Store.run (St.init (w (wTest "m" none [] "s" none)))
        [.save 0 (.json { jsCompat := true, pretty := false }) 9,
         .mutate (fun _ => w (wTest "m" (some "known issue") [("http://bug/1", some "#1")] "s" none)),
         .save 0 (.json { jsCompat := false, pretty := true }) 10, .load 0]).getLast? with
     | some (.loaded r) => (match r.suites with
        | (.mk _ _ _ _ _ (t :: _) _) :: _ => t.result.statusDetails == some "known issue" && t.md.links.length == 1
        | _ => false)
     | _ => false) = true := by decide

end LccModel.C09

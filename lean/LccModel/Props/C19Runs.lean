/-
  C19 — Starting a run never destroys previous reports within the archive limit: the level of RUNS.

  `Props/C19.lean` proves the statements about `create_report_dir_with_rotation`.  Here the same sentences are
  proved about *runs* (`run_suites_from_project`: `cli/commands/run.py:create_report_dir` → `--report-dir` /
  `$LCC_REPORT_DIR` / `Project.create_report_dir`, default implementation or an override with its own limit; runs that
  leave their directory EMPTY — `--reporting console`, a run aborting right after the directory creation —; runs that
  fail before; explicit report directories, inside or outside the default location), over every history of runs with
  arbitrary configurations interleaved with manual deletions, from the empty project directory.

  A directory is identified by the marker of the run that created it; `filled m` says whether it holds report files.
  Property theorems only (helper lemmas: `Lemmas/RunSeq.lean`, `Lemmas/ReportDir.lean`).
-/
import LccModel.Lemmas.RunSeq
import LccModel.Props.C19

namespace LccModel.C19Runs
open LccModel.ReportDir LccModel.RunSeq

/-- States reachable from the empty project directory by any history of runs and manual deletions. -/
def Reachable (s : RunSeq.St) : Prop := ∃ ops, RunSeq.runOps RunSeq.init ops = some s

theorem reachable_inv {s : RunSeq.St} (h : Reachable s) : RunSeq.Inv s := by
  obtain ⟨ops, h⟩ := h
  exact RunSeq.runOps_inv ops _ _ RunSeq.inv_init h

/-- The `report` / `reports/report-<n>` part of a reachable run-level state is reachable by a history of
    `create_report_dir_with_rotation` calls and manual deletions: every theorem of `LccModel.C19` applies to it. -/
theorem reachable_fs {s : RunSeq.St} (h : Reachable s) : C19.Reachable s.fs := by
  obtain ⟨ops, h⟩ := h
  exact ⟨_, RunSeq.runOps_project ops _ _ h⟩

/-- No history of runs gets stuck (whatever the configurations). -/
theorem history_never_stuck (ops : List RunSeq.Op) : (RunSeq.runOps RunSeq.init ops).isSome = true :=
  RunSeq.runOps_total ops _ RunSeq.inv_init

/-! ## where the report directory comes from -/

/-- `--report-dir` wins over `$LCC_REPORT_DIR`, which wins over the project; an empty string counts as absent. -/
theorem dir_source_priority (cli env : Option Target) :
    (dirSource cli env = .cli ↔ ∃ t, cli = some t ∧ t ≠ .empty) ∧
    (dirSource cli env = .project ↔ (cli = none ∨ cli = some .empty) ∧ (env = none ∨ env = some .empty)) := by
  cases cli with
  | none => cases env with
    | none => simp [dirSource, truthy]
    | some e => cases e <;> simp [dirSource, truthy]
  | some t => cases t <;> cases env with
    | none => simp [dirSource, truthy]
    | some e => cases e <;> simp [dirSource, truthy]

theorem default_source_iff (cli env : Option Target) : dirSource cli env = .project ↔ explicitTarget cli env = none := by
  cases cli with
  | none => cases env with
    | none => simp [dirSource, truthy, explicitTarget]
    | some e => cases e <;> simp [dirSource, truthy, explicitTarget]
  | some t => cases t <;> cases env with
    | none => simp [dirSource, truthy, explicitTarget]
    | some e => cases e <;> simp [dirSource, truthy, explicitTarget]

/-! ## a run with the default report location -/

/-- A run with the default report location IS one `create_report_dir_with_rotation(project.dir, limit)` with the limit
    of the project's implementation (20 for the default one), whatever happened in earlier runs — no short cut, no
    memory of earlier runs. -/
theorem default_run_is_rotation {c : Cfg} {s s1 : RunSeq.St} {d : Option DirRef}
    (hsrc : dirSource c.cli c.env = .project) (h : createDir c s = some (s1, d)) :
    ReportDir.run c.impl.limit s.fs = some s1.fs ∧ d = some (.fs s.fs.next) := by
  have he := (default_source_iff _ _).mp hsrc
  rcases createDir_fs h with ⟨_, hr, hd⟩ | ⟨k, hk, _⟩ | ⟨hne, _⟩
  · exact ⟨hr, hd⟩
  · rw [he] at hk; cases hk
  · exact absurd he hne

theorem default_impl_limit : ProjImpl.default.limit = some 20 := rfl

/-- The new report directory is a NEW one — its marker is carried by no directory existing before the run, neither
    the previous `report` nor any archive — and it starts EMPTY. -/
theorem default_run_dir_fresh_and_empty {c : Cfg} {s s1 : RunSeq.St} {d : Option DirRef} (hs : Reachable s)
    (hsrc : dirSource c.cli c.env = .project) (h : createDir c s = some (s1, d)) :
    d = some (.fs s.fs.next) ∧ s1.fs.current = some s.fs.next ∧
    (∀ n, s.fs.arch n ≠ some s.fs.next) ∧ s.fs.current ≠ some s.fs.next ∧ s1.filled s.fs.next = false := by
  obtain ⟨hr, hd⟩ := default_run_is_rotation hsrc h
  obtain ⟨hcur, hna, hnc⟩ := C19.run_new_dir_fresh (reachable_fs hs) hr
  obtain ⟨_, hf, _⟩ := createDir_inv (reachable_inv hs) h
  refine ⟨hd, hcur, hna, hnc, ?_⟩
  rw [hf]
  exact (reachable_inv hs).freshEmpty _ (Nat.le_refl _)

/-- The previous report is never overwritten or deleted — EMPTY OR NOT (a previous run with `--reporting console`, or
    one that aborted right after creating its directory, leaves an empty `report`): it becomes the most recent
    archive and keeps its content. -/
theorem default_run_archives_previous {c : Cfg} {s s1 : RunSeq.St} {d : Option DirRef} {p : Nat} (hs : Reachable s)
    (hsrc : dirSource c.cli c.env = .project) (h : createDir c s = some (s1, d)) (hp : s.fs.current = some p) :
    s1.fs.arch 1 = some p ∧ s1.filled p = s.filled p := by
  obtain ⟨hr, _⟩ := default_run_is_rotation hsrc h
  obtain ⟨_, hf, _⟩ := createDir_inv (reachable_inv hs) h
  exact ⟨C19.run_keeps_previous (reachable_fs hs) hp hr, by rw [hf]⟩

/-- Older archives keep their relative recency order across a run. -/
theorem default_run_preserves_relative_order {c : Cfg} {s s1 : RunSeq.St} {d : Option DirRef} (hs : Reachable s)
    (hsrc : dirSource c.cli c.env = .project) (h : createDir c s = some (s1, d)) {i j i' j' a b : Nat}
    (hij : i < j) (hi : s.fs.arch i = some a) (hj : s.fs.arch j = some b)
    (hi' : s1.fs.arch i' = some a) (hj' : s1.fs.arch j' = some b) : i' < j' :=
  C19.run_preserves_relative_order (reachable_fs hs) (default_run_is_rotation hsrc h).1 hij hi hj hi' hj'

/-- Only the oldest archives beyond the limit of the project's implementation are ever removed by a run. -/
theorem default_run_removes_only_oldest_beyond_limit {c : Cfg} {s s1 : RunSeq.St} {d : Option DirRef} {k x : Nat}
    (hs : Reachable s) (hsrc : dirSource c.cli c.env = .project) (h : createDir c s = some (s1, d))
    (hk : s.fs.arch k = some x) (hgone : ∀ n, s1.fs.arch n ≠ some x) :
    ∃ L, c.impl.limit = some L ∧ L ≤ k ∧ L ≤ countLe s.fs.arch k ∧
      ∀ n y, s.fs.arch n = some y → (∃ n', s1.fs.arch n' = some y) → x < y :=
  C19.run_removes_only_oldest_beyond_limit (reachable_fs hs) (default_run_is_rotation hsrc h).1 hk hgone

/-- … in particular the default implementation never removes an archive among the 19 most recent slots, and an
    override without limit removes nothing. -/
theorem default_run_no_limit_keeps_all {c : Cfg} {s s1 : RunSeq.St} {d : Option DirRef} {k x : Nat}
    (hs : Reachable s) (hsrc : dirSource c.cli c.env = .project) (himpl : c.impl = .rotation none)
    (h : createDir c s = some (s1, d)) (hk : s.fs.arch k = some x) : ∃ n, s1.fs.arch n = some x := by
  have hr := (default_run_is_rotation hsrc h).1
  rw [himpl] at hr
  exact C19.run_no_limit_keeps_all (reachable_fs hs) hr hk

/-! ## no run, of any kind, overwrites a report -/

/-- Whatever its configuration (default location, explicit directory, failing, aborting, console only), a run never
    changes the content of a directory that existed before it, at the default location, in the archives or elsewhere:
    the only directory whose content changes is the one the run created. -/
theorem run_never_overwrites {c : Cfg} {s s' : RunSeq.St} (hs : Reachable s) (h : RunSeq.run c s = some s') :
    (∀ m, m < s.fs.next → s'.filled m = s.filled m) ∧ (∀ m, m < s.onext → s'.ofilled m = s.ofilled m) := by
  have hinv := reachable_inv hs
  unfold RunSeq.run at h
  split at h
  · cases h; exact ⟨fun _ _ => rfl, fun _ _ => rfl⟩
  · cases hcd : createDir c s with
    | none => rw [hcd] at h; cases h
    | some p =>
      obtain ⟨s1, d⟩ := p
      rw [hcd] at h
      obtain ⟨_, hf, hof, hfs, hext, _⟩ := createDir_inv hinv hcd
      cases d with
      | none => cases h; exact ⟨fun _ _ => by rw [hf], fun _ _ => by rw [hof]⟩
      | some d =>
        simp only at h
        split at h
        · cases h
          cases d with
          | fs m =>
            obtain ⟨hm, _⟩ := hfs m rfl
            refine ⟨fun j hj => ?_, fun j _ => by simp only [fill]; rw [hof]⟩
            have : j ≠ m := by omega
            simp only [fill, this, if_false]; rw [hf]
          | ext m =>
            obtain ⟨hm, _⟩ := hext m rfl
            refine ⟨fun j _ => by simp only [fill]; rw [hf], fun j hj => ?_⟩
            have : j ≠ m := by omega
            simp only [fill, this, if_false]; rw [hof]
        · cases h; exact ⟨fun _ _ => by rw [hf], fun _ _ => by rw [hof]⟩

/-- A run with an explicit report directory outside the default location leaves `report` and the archives alone. -/
theorem explicit_run_leaves_default_location {c : Cfg} {s s' : RunSeq.St} {k : Nat}
    (he : explicitTarget c.cli c.env = some (.other k)) (h : RunSeq.run c s = some s') : s'.fs = s.fs := by
  have hp := run_project h
  unfold project at hp
  cases hf : c.fate <;> simp only [hf, he, ReportDir.runOps, Option.some.injEq] at hp <;> exact hp.symm

/-- An explicit report directory that already exists is never re-used (`os.mkdir` fails): nothing changes at all.
    (What the run does INSTEAD — on the unchanged tree the exception is returned instead of raised, observation O1 — is
    not a statement of C19: nothing is destroyed either way.) -/
theorem explicit_existing_dir_untouched {c : Cfg} {s s' : RunSeq.St}
    (hex : (∃ k m, explicitTarget c.cli c.env = some (.other k) ∧ s.other k = some m) ∨
           (explicitTarget c.cli c.env = some .defaultLoc ∧ s.fs.current.isSome = true))
    (h : RunSeq.run c s = some s') : s' = s := by
  unfold RunSeq.run at h
  split at h
  · cases h; rfl
  · have hcd : createDir c s = some (s, none) := by
      unfold createDir
      rcases hex with ⟨k, m, he, hk⟩ | ⟨he, hc⟩
      · simp only [he, hk]
      · obtain ⟨p, hp⟩ := Option.isSome_iff_exists.mp hc
        simp only [he, hp]
    rw [hcd] at h
    cases h; rfl

/-- A run that fails before the report directory is created changes nothing. -/
theorem failed_start_changes_nothing {c : Cfg} {s s' : RunSeq.St} (hf : c.fate = .failsBefore)
    (h : RunSeq.run c s = some s') : s' = s := by
  unfold RunSeq.run at h
  simp only [hf] at h
  cases h; rfl

/-- Manual deletions touch the content of no directory. -/
theorem manual_ops_keep_contents {s s' : RunSeq.St} {op : RunSeq.Op} (hop : ∀ c, op ≠ .run c)
    (h : RunSeq.step s op = some s') : s'.filled = s.filled ∧ s'.ofilled = s.ofilled := by
  cases op with
  | run c => exact absurd rfl (hop c)
  | delete n => simp only [RunSeq.step] at h; cases h; exact ⟨rfl, rfl⟩
  | deleteCurrent => simp only [RunSeq.step] at h; cases h; exact ⟨rfl, rfl⟩
  | deleteOther k => simp only [RunSeq.step] at h; cases h; exact ⟨rfl, rfl⟩

/-- After a completed run the new directory holds the report iff a file-producing backend was active; after a run
    that aborted right after the directory creation it is empty. -/
theorem default_run_content {c : Cfg} {s s' : RunSeq.St} (hs : Reachable s)
    (hsrc : dirSource c.cli c.env = .project) (hf : c.fate ≠ .failsBefore) (h : RunSeq.run c s = some s') :
    s'.fs.current = some s.fs.next ∧ s'.filled s.fs.next = (decide (c.fate = .completes) && c.writes) := by
  have hinv := reachable_inv hs
  unfold RunSeq.run at h
  split at h
  · rename_i hfb; exact absurd hfb hf
  · cases hcd : createDir c s with
    | none => rw [hcd] at h; cases h
    | some p =>
      obtain ⟨s1, d⟩ := p
      rw [hcd] at h
      obtain ⟨hd, hcur, _, _, hemp⟩ := default_run_dir_fresh_and_empty hs hsrc hcd
      subst hd
      simp only at h
      split at h
      · rename_i hw
        cases h
        simp [fill, hcur, hw.1, hw.2]
      · rename_i hw
        cases h
        refine ⟨hcur, ?_⟩
        rw [hemp]
        cases hfate : c.fate <;> cases hwr : c.writes <;> simp_all

/-! ### non-vacuity: concrete histories -/

def cfg (writes : Bool) : Cfg := { cli := none, env := none, impl := .default, writes := writes, fate := .completes }

/-- observable state: marker of `report`, the archives (slot, marker), and which of the markers 1..next-1 are filled -/
def obsOf (s : RunSeq.St) : Option Nat × List (Nat × Nat) × List Bool :=
  (s.fs.current, ReportDir.listing s.fs, (List.range s.fs.next).tail.map s.filled)

/-- json, console only, json, aborted, console only, json: every previous directory — empty or not — is archived, in order -/
example : (RunSeq.runOps RunSeq.init
      [.run (cfg true), .run (cfg false), .run (cfg true), .run { cfg true with fate := .abortsAfter }, .run (cfg false),
       .run (cfg true)]).map obsOf =
    some (some 6, [(1, 5), (2, 4), (3, 3), (4, 2), (5, 1)], [true, false, true, false, false, true]) := by decide

/-- explicit directories (outside, and the default location itself while it exists), a failing start, an override with
    limit 2: the default location only moves on default runs -/
example : (RunSeq.runOps RunSeq.init
      [.run (cfg true), .run { cfg true with cli := some (.other 0) }, .run { cfg true with cli := some (.other 0) },
       .run { cfg true with env := some .defaultLoc }, .run { cfg true with fate := .failsBefore },
       .run { cfg true with cli := some .empty, impl := .rotation (some 2) }, .run { cfg true with impl := .rotation (some 2) },
       .run { cfg true with impl := .rotation (some 2) }, .deleteCurrent, .run { cfg false with cli := some .defaultLoc }]).map obsOf =
    some (some 5, [(1, 3), (2, 2)], [true, true, true, true, false]) := by decide

example : ∃ s, Reachable s ∧ s.fs.current = some 2 ∧ s.filled 2 = false ∧ s.fs.arch 1 = some 1 :=
  match h : RunSeq.runOps RunSeq.init [.run (cfg true), .run (cfg false)] with
  | some s => ⟨s, ⟨_, h⟩, by
      have : (some s).map (fun s => (s.fs.current, s.filled 2, s.fs.arch 1)) = some (some 2, false, some 1) := by
        rw [← h]; decide
      simpa using this⟩
  | none => by have := history_never_stuck [.run (cfg true), .run (cfg false)]; rw [h] at this; cases this

end LccModel.C19Runs

/-
  C04 — test dependencies: ordering, skip propagation (scheduler level, model M1).

  Quantified over ALL well-formed task graphs, ALL worker counts and ALL interleavings, a keyboard
  interrupt at any moment included: `skip_all_tasks` (as repaired by fix D11) still releases the
  remaining tasks in dependency order, so the ordering theorems need no exception for interrupted
  runs.  `forced` tasks are those released by `skip_all_tasks`; they only ever *skip*.
-/
import LccModel.Lemmas.SchedProgress
import LccModel.Props.C01

namespace LccModel.C04
open LccModel.Sched

variable {Tid : Type} [DecidableEq Tid]

/-- A task never starts before every task it depends on (on-success or on-completion) has finished —
    in every reachable state, interrupted or not, run or force-skipped. -/
theorem deps_finished_before_start (g : Graph Tid) (n : Nat) (s : State Tid) (hr : Reachable g n s)
    (t : Tid) (i : Nat) (hi : s.startAt t = some i) (d : Tid) (hd : d ∈ g.deps t) :
    ∃ j, s.finishAt d = some j ∧ j < i :=
  ((inv_reachable hr).order t i hi d hd).2

/-- `d` is reachable from `t` through one or more dependency edges. -/
inductive DependsPlus (g : Graph Tid) : Tid → Tid → Prop
  | direct {t d} : d ∈ g.deps t → DependsPlus g t d
  | trans {t m d} : m ∈ g.deps t → DependsPlus g m d → DependsPlus g t d

/-- … transitively: if t depends on d through any chain of dependencies, d finished before t started. -/
theorem transitive_deps_finished_before_start (g : Graph Tid) (n : Nat) (s : State Tid) (hr : Reachable g n s)
    (t d : Tid) (hdep : DependsPlus g t d) :
    ∀ i, s.startAt t = some i → ∃ j, s.finishAt d = some j ∧ j < i := by
  have hinv := inv_reachable hr
  induction hdep with
  | direct hd => intro i hi; exact (hinv.order _ i hi _ hd).2
  | trans hm _ ih =>
    intro i hi
    obtain ⟨_, jm, hjm, hlt⟩ := hinv.order _ i hi _ hm
    obtain ⟨im, him, hlt2⟩ := hinv.finishAfterStart _ jm hjm
    obtain ⟨j, hj, hlt3⟩ := ih im him
    exact ⟨j, hj, by omega⟩

/-- A task is *run* only if every on-success dependency ended in success … -/
theorem run_only_if_deps_succeeded (g : Graph Tid) (n : Nat) (s : State Tid) (hr : Reachable g n s)
    (t : Tid) (hm : s.mode t = some .run) : ∀ d ∈ g.succDeps t, s.result d = some .success :=
  fun d hd => (((inv_reachable hr).runOk t hm).2 d hd).2

/-- … otherwise it is skipped (its result is `skipped`, or `exception` if the skip hook itself
    crashed), and therefore so are its own dependents: skipping propagates along every chain. -/
theorem skip_propagates (g : Graph Tid) (n : Nat) (s : State Tid) (hr : Reachable g n s)
    (t : Tid) (hdone : s.phase t = .done ∨ s.phase t = .completed)
    (hbad : ∃ d ∈ g.succDeps t, s.result d ≠ some .success) :
    s.result t = some .skipped ∨ s.result t = some .exception := by
  have hinv := inv_reachable hr
  obtain ⟨r, m, hr', hm, hra⟩ := hinv.resultSome t hdone
  cases m with
  | run =>
    obtain ⟨d, hd, hne⟩ := hbad
    exact absurd (((hinv.runOk t hm).2 d hd).2) hne
  | skip =>
    rw [hr']
    cases r <;> simp [resAllowed] at hra ⊢

/-- A skipped task's dependents are skipped too (one more link of the chain). -/
theorem dependents_of_skipped_are_skipped (g : Graph Tid) (n : Nat) (s : State Tid) (hr : Reachable g n s)
    (t d : Tid) (hd : d ∈ g.succDeps t) (hdone : s.phase t = .done ∨ s.phase t = .completed)
    (hskip : s.result d = some .skipped ∨ s.result d = some .failure ∨ s.result d = some .exception) :
    s.result t = some .skipped ∨ s.result t = some .exception := by
  apply skip_propagates g n s hr t hdone
  refine ⟨d, hd, ?_⟩
  rcases hskip with h | h | h <;> rw [h] <;> simp

/-- The decision `handle_task` takes: with all on-success dependencies successful, no interrupt and
    no skip reason from the context, the task is run. -/
theorem runs_when_nothing_forbids (g : Graph Tid) (s : State Tid) (t : Tid)
    (hf : s.forced t = false) (hok : ∀ d ∈ g.succDeps t, s.result d = some .success) :
    decideMode g s t false = .run := by
  unfold decideMode
  have : depFailed g s t = false := by
    unfold depFailed
    apply List.any_eq_false.mpr
    intro d hd; simp [hok d hd]
  simp [hf, this]

/-! Non-vacuity: in the sample execution of C01 task 3 depends on 2, which failed, and is skipped. -/
example : ((run C01.sampleGraph 2 (init C01.sampleGraph 2)
    [.start 0 false, .finish 0 .success, .receive 0, .start 2 false, .start 1 false, .finish 2 .failure,
     .receive 2, .finish 1 .success, .receive 1, .start 4 false, .start 3 false]).map
       (fun s => (s.mode 3, s.mode 4))) = some (some .skip, some .run) := by decide

/-! Non-vacuity of the ordering theorems on an INTERRUPTED run: the interrupt arrives while task 0 is running;
    task 1 (which depends on 0) is released only when 0 is completed, force-skipped, and started (clock 4)
    after 0 finished (clock 2); task 3 (depends on 1 and 2) starts after both finished. -/
example : ((run C01.sampleGraph 2 (init C01.sampleGraph 2)
    [.start 0 false, .interrupt, .finish 0 .success, .receive 0, .start 1 false, .start 2 false,
     .finish 1 .skipped, .finish 2 .skipped, .receive 1, .receive 2, .start 3 false]).map
       (fun s => (s.aborted, s.finishAt 0, s.startAt 1, s.mode 1))) = some (true, some 2, some 4, some .skip) := by decide

example : ((run C01.sampleGraph 2 (init C01.sampleGraph 2)
    [.start 0 false, .interrupt, .finish 0 .success, .receive 0, .start 1 false, .start 2 false,
     .finish 1 .skipped, .finish 2 .skipped, .receive 1, .receive 2, .start 3 false]).map
       (fun s => (s.finishAt 1, s.finishAt 2, s.startAt 3))) = some (some 6, some 7, some 10) := by decide

end LccModel.C04

/-
  C17 — the wording of a key path determines the path: `has_entry` / `check_that_in` word their keys as
  `jsonify(k1) -> jsonify(k2) -> …`; every key token is self-delimiting (a JSON string ends at its first unescaped quote, an
  index at its last digit), so the sentence can be read back in one way only — for ALL keys: strings that contain the
  wording's own separators (`", "`, `" -> "`), quotes, backslashes, brackets, control characters, text that looks like a
  rendered key, the empty string; negative indices; paths of any length incl. the empty one.
  Property theorems only (lemmas: `Lemmas/KeyPathInj.lean`).
-/
import LccModel.Lemmas.KeyPathInj

namespace LccModel.C17Keys
open LccModel.Matcher

/-- one key: the JSON text of a key followed by the rest of a path wording splits in one way only -/
theorem key_token_self_delimiting (k k' : Key) (ks ks' : List Key)
    (h : k.json ++ pathTail ks = k'.json ++ pathTail ks') : k = k' ∧ pathTail ks = pathTail ks' :=
  keyJson_append_inj k k' _ _ (pathTail_stops ks) (pathTail_stops ks') h

/-- a string key is read back from its rendering whatever follows it (quotes and backslashes inside are escaped) -/
theorem str_key_self_delimiting (s s' r r' : Str) (h : jsonStr s ++ r = jsonStr s' ++ r') : s = s' ∧ r = r' :=
  jsonStr_append_inj s s' r r' h

/-- **the sentence determines the path**: two key paths with the same wording are the same path -/
theorem key_path_wording_injective (p q : List Key) (h : pathDesc p = pathDesc q) : p = q :=
  pathDesc_inj p q h

/-- under every transformer state, the description of `has_entry(path)` is a fixed text followed by the path wording … -/
theorem has_key_description_shape (t : Tr) : ∃ pre : Str, ∀ p : List Key, describe (.hasKey p) t = pre ++ pathDesc p := by
  obtain ⟨c, n⟩ := t
  cases c <;> cases n
  · exact ⟨c!"to have entry ", fun p => by simp [describe, Tr.apply]⟩
  · exact ⟨c!"to have no entry ", fun p => by simp [describe, Tr.apply, dropPrefix?, Tr.pick]⟩
  · exact ⟨c!"has entry ", fun p => by simp [describe, Tr.apply, dropPrefix?, Tr.pick]⟩
  · exact ⟨c!"has not entry ", fun p => by simp [describe, Tr.apply, dropPrefix?, Tr.pick]⟩

/-- … so no two `has_entry(path)` matchers with different paths share a description, positive or negated, as a sentence of their
    own or as a clause -/
theorem has_key_description_determines_path (t : Tr) (p q : List Key)
    (h : describe (.hasKey p) t = describe (.hasKey q) t) : p = q := by
  obtain ⟨pre, hpre⟩ := has_key_description_shape t
  rw [hpre p, hpre q] at h
  exact pathDesc_inj p q (List.append_cancel_left h)

/-- the failure details `No entry <path>` determine the path as well -/
theorem no_entry_details_determine_path (p q : List Key) (h : c!"No entry " ++ pathDesc p = c!"No entry " ++ pathDesc q) : p = q :=
  pathDesc_inj p q (List.append_cancel_left h)

-- keys that hold the wording's own separators are told apart from real two-level paths
example : pathDesc [.str c!"a, b"] ≠ pathDesc [.str c!"a", .str c!"b"] := by decide
example : pathDesc [.str c!"a -> b"] ≠ pathDesc [.str c!"a", .str c!"b"] := by decide
example : pathDesc [.str c!"a -> b"] ≠ pathDesc [.str c!"a, b"] := by decide
example : pathDesc [.str c!"a\" -> \"b"] ≠ pathDesc [.str c!"a", .str c!"b"] := by decide
example : pathDesc [.str c!"1"] ≠ pathDesc [.int 1] := by decide
example : pathDesc [.str c!"a", .str c!"b"] = c!"\"a\" -> \"b\"" := by decide

end LccModel.C17Keys

/-
  C01 — every scheduled test is accounted for exactly once and the run terminates.

  Part 1 (this section): the dispatch loop of `task.py` (model M1).  Every theorem quantifies over ALL
  well-formed task graphs, ALL worker counts n ≥ 1 and ALL interleavings of workers and main loop
  (every label sequence `step` accepts), including a keyboard interrupt at any moment.
-/
import LccModel.Lemmas.SchedProgress

namespace LccModel.C01
open LccModel.Sched

variable {Tid : Type} [DecidableEq Tid]

/-- **The run cannot get stuck**: as long as some task is not completed, a worker can pick a task, a
    running task can finish, or the main loop can receive a completion. -/
theorem run_never_stuck (g : Graph Tid) (wf : g.WF) (n : Nat) (hn : 0 < n) (s : State Tid)
    (hr : Reachable g n s) (hnf : ¬ Final g s) : ∃ l, (step g n s l).isSome = true :=
  no_deadlock g wf n hn s hr hnf

/-- **Every execution is finite**: no schedule performs more than `4·|tasks| + 1` transitions. -/
theorem executions_bounded (g : Graph Tid) (n : Nat) (ls : List (Label Tid)) (s' : State Tid)
    (h : run g n (init g n) ls = some s') : ls.length ≤ 4 * g.tasks.length + 1 := by
  have h1 := run_length_le_mu g n ls (init g n) s' h
  have h2 := mu_empty_le g n
  omega

/-- Together: a maximal execution (one that cannot be extended) ends with every task completed,
    i.e. `run_tasks` returns. -/
theorem maximal_execution_is_final (g : Graph Tid) (wf : g.WF) (n : Nat) (hn : 0 < n)
    (ls : List (Label Tid)) (s' : State Tid) (h : run g n (init g n) ls = some s')
    (hmax : ∀ l, step g n s' l = none) : Final g s' := by
  apply Classical.byContradiction
  intro hnf
  have hr : Reachable g n s' := reachable_run g n ls (init g n) s' Reachable.init h
  obtain ⟨l, hl⟩ := no_deadlock g wf n hn s' hr hnf
  rw [hmax l] at hl; cases hl

/-- **Exactly once**: a worker picks every task at most once, and exactly once by the time the run
    ends — no task (hence no test body) is executed or skipped twice, none is forgotten. -/
theorem task_handled_exactly_once (g : Graph Tid) (n : Nat) (s : State Tid) (hr : Reachable g n s) (t : Tid) :
    s.starts t ≤ 1 ∧ (Final g s → t ∈ g.tasks → s.starts t = 1) := by
  have hinv := inv_reachable hr
  have := hinv.starts t
  constructor
  · rw [this]; split <;> omega
  · intro hf ht
    rw [this, hf t ht]; simp [Phase.rank]

/-- When the run ends every task has exactly one result, of a class allowed by the decision taken
    for it (run → success / failure / exception; skip → skipped / exception). -/
theorem task_has_one_result (g : Graph Tid) (n : Nat) (s : State Tid) (hr : Reachable g n s)
    (hf : Final g s) (t : Tid) (ht : t ∈ g.tasks) :
    ∃ r m, s.result t = some r ∧ s.mode t = some m ∧ resAllowed m r = true :=
  (inv_reachable hr).resultSome t (Or.inr (hf t ht))

/-! Non-vacuity: a diamond-shaped graph with an on-completion edge is well-formed, and a complete
    execution of it with 2 workers exists. -/
def sampleGraph : Graph Nat :=
  { tasks := [0, 1, 2, 3, 4]
    succDeps := fun t => if t = 1 then [0] else if t = 2 then [0] else if t = 3 then [1, 2] else []
    complDeps := fun t => if t = 4 then [1, 2] else [] }

example : sampleGraph.WF := checkWF_sound sampleGraph (fun t => if t = 0 then 0 else if t = 3 then 2 else if t = 4 then 2 else 1) (by decide)

example : ((run sampleGraph 2 (init sampleGraph 2)
    [.start 0 false, .finish 0 .success, .receive 0, .start 2 false, .start 1 false, .finish 2 .failure,
     .receive 2, .finish 1 .success, .receive 1, .start 4 false, .start 3 false, .finish 3 .skipped,
     .finish 4 .success, .receive 4, .receive 3]).map (fun s => finalB sampleGraph s)) = some true := by decide

end LccModel.C01

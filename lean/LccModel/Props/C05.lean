/-
  C05 — "The report does not depend on the schedule: N threads equals one thread".

  Part (a), this section: what the rank-sorted accessors (`SuiteResult.get_tests/get_suites`, `Report.get_suites`:
  `sorted(..., key=rank)`, stable) remove — the order in which children ARRIVED — and the exact guard under which they
  remove it (pairwise distinct sibling ranks; defect D5 is the refutation without it).
-/
import LccModel.Lemmas.WriterOrder

namespace LccModel.C05
open LccModel.Report LccModel.Writer

/-- **Sorting removes arrival order** (uniqueness of the sorted permutation): under pairwise distinct ranks
    `sorted(xs, key=rank)` is the same list for every arrival order `l₂` of the same elements `l₁`. -/
theorem sortByRank_perm {α : Type} (rank : α → Nat) {l₁ l₂ : List α} (hp : l₁.Perm l₂) (hn : (l₁.map rank).Nodup) :
    sortByRank rank l₁ = sortByRank rank l₂ :=
  sortByRank_eq_of_perm rank hp hn

/-- **…at every level of the tree**: two reports with the same content (`SameContent`: same report-level fields; at
    every level the tests are a permutation of each other and the sub-suites a permutation up to `SameContent` of the
    sub-suites; setup / teardown results equal) and pairwise distinct sibling ranks have the same deep rank-sorted view —
    the suites, sub-suites and tests every reader (`get_suites()`, `get_tests()`) sees are equal, in the same order. -/
theorem view_independent_of_arrival_order {r₁ r₂ : Report} (h : SameContent r₁ r₂) (hd : DistinctSiblingRanks r₁) :
    view r₁ = view r₂ :=
  view_eq_of_sameContent h hd

/-- the guard is a property of the content, not of the arrival order -/
theorem distinctSiblingRanks_of_sameContent {r₁ r₂ : Report} (h : SameContent r₁ r₂) (hd : DistinctSiblingRanks r₁) :
    DistinctSiblingRanks r₂ :=
  hd.of_sameContent h

/-! ### D5: without the guard the view depends on arrival order -/

def mdr (n : String) (rank : Nat) : Meta :=
  { name := n, description := n, tags := [], properties := [], links := [], rank := rank }

/-- suite `s`, then tests `a` and `b` of ranks `ra`, `rb`, started and ended in the order given by `aFirst` -/
def twoTests (ra rb : Nat) (aFirst : Bool) : List Event :=
  let a := [Event.testStart ["s", "a"] (mdr "a" ra) 2, .testEnd ["s", "a"] 3]
  let b := [Event.testStart ["s", "b"] (mdr "b" rb) 2, .testEnd ["s", "b"] 3]
  [.sessionStart 1, .suiteStart ["s"] (mdr "s" 0) 1] ++ (if aFirst then a ++ b else b ++ a) ++ [.suiteEnd ["s"] 4, .sessionEnd 5]

/-- test names of the rank-sorted view, suite by suite -/
def viewNames : Except WriterErr Report → List (List String)
  | .ok r => (view r).map (fun s => s.tests.map (·.md.name))
  | .error _ => []

/-- **Refutation without `DistinctSiblingRanks` (defect D5)**: two tests of EQUAL rank (what `add_test_into_suite` produced
    before fix a149e47: every added test had rank 0) arriving in the two possible orders give two different views — the
    stable sort falls back to arrival order. -/
theorem equal_ranks_view_depends_on_arrival_order :
    viewNames (fold (twoTests 0 0 true)) = [["a", "b"]] ∧ viewNames (fold (twoTests 0 0 false)) = [["b", "a"]] ∧
    (∀ r₁ r₂, fold (twoTests 0 0 true) = .ok r₁ → fold (twoTests 0 0 false) = .ok r₂ → view r₁ ≠ view r₂) := by
  refine ⟨by decide, by decide, ?_⟩
  intro r₁ r₂ h₁ h₂ hv
  have h : viewNames (fold (twoTests 0 0 true)) = viewNames (fold (twoTests 0 0 false)) := by
    rw [h₁, h₂]; simp only [viewNames, hv]
  revert h
  decide

/-- non-vacuity of the guard: with distinct ranks (the fixed code) both arrival orders give the same view -/
example : viewNames (fold (twoTests 0 1 true)) = [["a", "b"]] ∧ viewNames (fold (twoTests 0 1 false)) = [["a", "b"]] := by
  decide

end LccModel.C05

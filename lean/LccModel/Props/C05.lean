/-
  C05 — "The report does not depend on the schedule: N threads equals one thread".

  The report is aggregated by ONE consumer (`ReportWriter`) from the event queue the worker threads feed.  What N threads
  change, compared with one, is the ORDER in which the events of concurrently running tasks reach that consumer.  This file
  proves that the aggregated report does not depend on that order:

    (a) the rank-sorted accessors remove the order in which children arrived (guard: distinct sibling ranks; D5 without);
    (b) two independent events commute: `independent_events_commute`, with `Indep` spelled out by `indep_iff`;
    (c) two streams that differ by swaps of adjacent independent events — every interleaving of concurrently running,
        mutually independent tasks (`interleavings_swapEquiv`) — give reports with the same content, hence, under the
        guard, the same view: `report_independent_of_interleaving`.

    (d) the REAL streams of an N-thread run and of a 1-thread run differ in thread ids, times and attachment counters; these
        are labels the writer only copies (times, counters: `only_timestamps_differ`) or only uses as keys (thread ids:
        `thread_ids_are_only_keys`), so the harness's re-labelling does not change the folded report, and
        `n_threads_equals_one_thread` carries (c) back to the real streams: equal views up to timestamps.

  What is NOT proved here (it is the subject of C01/C07 and of the harness streams): that the streams the real runner
  produces under two schedules always pass the check `nThreadsCheckB` (same events, same order of the dependent ones, inside
  the discipline: each result location started once, step ends and logs emitted at the location of the emitting thread's
  current step, unique sibling names) — this is decided by the verified boolean on every generated pair.

  Part (a): what the rank-sorted accessors (`SuiteResult.get_tests/get_suites`, `Report.get_suites`:
  `sorted(..., key=rank)`, stable) remove — the order in which children ARRIVED — and the exact guard under which they
  remove it (pairwise distinct sibling ranks; defect D5 is the refutation without it).
-/
import LccModel.Lemmas.WriterSwap
import LccModel.Lemmas.WriterTrace
import LccModel.Lemmas.WriterNThreads

namespace LccModel.C05
open LccModel.Report LccModel.Writer

/-- **Sorting removes arrival order** (uniqueness of the sorted permutation): under pairwise distinct ranks
    `sorted(xs, key=rank)` is the same list for every arrival order `l₂` of the same elements `l₁`. -/
theorem sortByRank_perm {α : Type} (rank : α → Nat) {l₁ l₂ : List α} (hp : l₁.Perm l₂) (hn : (l₁.map rank).Nodup) :
    sortByRank rank l₁ = sortByRank rank l₂ :=
  sortByRank_eq_of_perm rank hp hn

/-- **…at every level of the tree**: two reports with the same content (`SameContent`: same report-level fields; at
    every level the tests are a permutation of each other and the sub-suites a permutation up to `SameContent` of the
    sub-suites; setup / teardown results equal) and pairwise distinct sibling ranks have the same deep rank-sorted view —
    the suites, sub-suites and tests every reader (`get_suites()`, `get_tests()`) sees are equal, in the same order. -/
theorem view_independent_of_arrival_order {r₁ r₂ : Report} (h : SameContent r₁ r₂) (hd : DistinctSiblingRanks r₁) :
    view r₁ = view r₂ :=
  view_eq_of_sameContent h hd

/-- the guard is a property of the content, not of the arrival order -/
theorem distinctSiblingRanks_of_sameContent {r₁ r₂ : Report} (h : SameContent r₁ r₂) (hd : DistinctSiblingRanks r₁) :
    DistinctSiblingRanks r₂ :=
  hd.of_sameContent h

/-! ### D5: without the guard the view depends on arrival order -/

def mdr (n : String) (rank : Nat) : Meta :=
  { name := n, description := n, tags := [], properties := [], links := [], rank := rank }

/-- suite `s`, then tests `a` and `b` of ranks `ra`, `rb`, started and ended in the order given by `aFirst` -/
def twoTests (ra rb : Nat) (aFirst : Bool) : List Event :=
  let a := [Event.testStart ["s", "a"] (mdr "a" ra) 2, .testEnd ["s", "a"] 3]
  let b := [Event.testStart ["s", "b"] (mdr "b" rb) 2, .testEnd ["s", "b"] 3]
  [.sessionStart 1, .suiteStart ["s"] (mdr "s" 0) 1] ++ (if aFirst then a ++ b else b ++ a) ++ [.suiteEnd ["s"] 4, .sessionEnd 5]

/-- test names of the rank-sorted view, suite by suite -/
def viewNames : Except WriterErr Report → List (List String)
  | .ok r => (view r).map (fun s => s.tests.map (·.md.name))
  | .error _ => []

/-- **Refutation without `DistinctSiblingRanks` (defect D5)**: two tests of EQUAL rank (what `add_test_into_suite` produced
    before fix a149e47: every added test had rank 0) arriving in the two possible orders give two different views — the
    stable sort falls back to arrival order. -/
theorem equal_ranks_view_depends_on_arrival_order :
    viewNames (fold (twoTests 0 0 true)) = [["a", "b"]] ∧ viewNames (fold (twoTests 0 0 false)) = [["b", "a"]] ∧
    (∀ r₁ r₂, fold (twoTests 0 0 true) = .ok r₁ → fold (twoTests 0 0 false) = .ok r₂ → view r₁ ≠ view r₂) := by
  refine ⟨by decide, by decide, ?_⟩
  intro r₁ r₂ h₁ h₂ hv
  have h : viewNames (fold (twoTests 0 0 true)) = viewNames (fold (twoTests 0 0 false)) := by
    rw [h₁, h₂]; simp only [viewNames, hv]
  revert h
  decide

/-- non-vacuity of the guard: with distinct ranks (the fixed code) both arrival orders give the same view -/
example : viewNames (fold (twoTests 0 1 true)) = [["a", "b"]] ∧ viewNames (fold (twoTests 0 1 false)) = [["a", "b"]] := by
  decide

/-! ## Part (b): independent events commute -/

/-- **The independence condition, spelled out.**  `Indep e₁ e₂` holds iff both events have a footprint
    (`evFoot`: the suite addressed + the field touched: end time / setup result / teardown result / the test of a given
    name / the creation of the sub-suite of a given name — session-level events have none), the two footprints are different,
    neither event is the START of a suite on the path of the suite the other addresses (the causal constraint "a suite
    start precedes everything inside it"), and, if both are step / log events, they come from different threads. -/
theorem indep_iff (e₁ e₂ : Event) :
    Indep e₁ e₂ ↔ ∃ p a q b, evFoot e₁ = some (p, a) ∧ evFoot e₂ = some (q, b) ∧ (p, a) ≠ (q, b) ∧
      (∀ n, a = .child n → ¬ (p ++ [n]) <+: q) ∧ (∀ m, b = .child m → ¬ (q ++ [m]) <+: p) ∧
      (∀ t₁ t₂, evTid e₁ = some t₁ → evTid e₂ = some t₂ → t₁ ≠ t₂) := by
  constructor
  · intro h
    obtain ⟨p, a, q, b, h1, h2, hf, ht⟩ := h.unpack
    obtain ⟨f1, f2, f3⟩ := (footIndep_iff p a q b).mp hf
    exact ⟨p, a, q, b, h1, h2, f1, f2, f3, ht⟩
  · rintro ⟨p, a, q, b, h1, h2, f1, f2, f3, ht⟩
    exact Indep.of_feet h1 h2 ((footIndep_iff p a q b).mpr ⟨f1, f2, f3⟩) ht

/-- **Independent events commute.**  From any writer state `w`: if the handlers of `e₁` then `e₂` succeed within the
    discipline (`disc`: a result location is started while no step binding points into it; step ends and logs are emitted at
    the location of the emitting thread's current step), then so do `e₂` then `e₁`, and the two final states have the same
    content (`StEq`): reports `SameContent`, every thread bound to the same step reference (`active_steps` equal as a
    mapping). -/
theorem independent_events_commute {e₁ e₂ : Event} (hi : Indep e₁ e₂) {w w₁ w₂ : WriterState}
    (h1 : apply w e₁ = .ok w₁) (d1 : disc w e₁ = true) (h2 : apply w₁ e₂ = .ok w₂) (d2 : disc w₁ e₂ = true) :
    ∃ w₁' w₂', apply w e₂ = .ok w₁' ∧ disc w e₂ = true ∧ apply w₁' e₁ = .ok w₂' ∧ disc w₁' e₁ = true ∧
      SameContent w₂.report w₂'.report ∧ (∀ tid, w₂.active.lookup tid = w₂'.active.lookup tid) := by
  obtain ⟨w₁', w₂', a, b, c, d, e⟩ := apply_comm hi h1 d1 h2 d2
  exact ⟨w₁', w₂', a, b, c, d, e.report, e.active⟩

/-- **…both orders are errors or both are ok**: within the discipline, `e₁; e₂` is handled without error from `w` iff
    `e₂; e₁` is. -/
theorem independent_events_fail_together {e₁ e₂ : Event} (hi : Indep e₁ e₂) (w : WriterState) :
    (∃ w₁ w₂, dapply w e₁ = .ok w₁ ∧ dapply w₁ e₂ = .ok w₂) ↔ (∃ w₁ w₂, dapply w e₂ = .ok w₁ ∧ dapply w₁ e₁ = .ok w₂) := by
  constructor
  · rintro ⟨w₁, w₂, h1, h2⟩
    obtain ⟨x, y, h3, h4, _⟩ := dapply_comm hi h1 h2
    exact ⟨x, y, h3, h4⟩
  · rintro ⟨w₁, w₂, h1, h2⟩
    obtain ⟨x, y, h3, h4, _⟩ := dapply_comm hi.symm h1 h2
    exact ⟨x, y, h3, h4⟩

/-- **The same event on two states with the same content** (unique sibling names, because `find_suite` / the `_tests` dict
    take the first child of a name): the handler succeeds on both or fails on both, and the results have the same content.
    This is what lets a swap in the middle of a stream be followed through to its end. -/
theorem same_event_on_same_content {e : Event} {w w' w₁ : WriterState} (hs : StEq w w') (hu : uniqNames w.report = true)
    (h : apply w e = .ok w₁) : ∃ w₁', apply w' e = .ok w₁' ∧ StEq w₁ w₁' :=
  apply_congr hs ((uniqNames_iff _).mp hu) h

/-! ### what `Indep` covers -/

/-- Events addressing two different (suite, field) pairs, none of them a suite start — test start / end / skipped /
    disabled of different tests (of the same or of different suites), steps and logs of different tests or phases, setup /
    teardown phases of different suites, suite ends — are independent as soon as their threads differ. -/
theorem indep_of_different_results {e₁ e₂ : Event} {p q : Path} {a b : Field}
    (h1 : evFoot e₁ = some (p, a)) (h2 : evFoot e₂ = some (q, b)) (hne : (p, a) ≠ (q, b))
    (ha : ∀ n, a ≠ .child n) (hb : ∀ n, b ≠ .child n)
    (ht : ∀ t₁ t₂, evTid e₁ = some t₁ → evTid e₂ = some t₂ → t₁ ≠ t₂) : Indep e₁ e₂ :=
  Indep.of_feet h1 h2 ((footIndep_iff p a q b).mpr ⟨hne, fun n h => absurd h (ha n), fun n h => absurd h (hb n)⟩) ht

/-- starts of two sibling suites (different names) are independent -/
theorem indep_sibling_suite_starts (parent : Path) (x y : String) (mdx mdy : Meta) (t₁ t₂ : Time)
    (hne : mdx.name ≠ mdy.name) :
    Indep (.suiteStart (parent ++ [x]) mdx t₁) (.suiteStart (parent ++ [y]) mdy t₂) := by
  refine Indep.of_feet (p := parent) (a := .child mdx.name) (q := parent) (b := .child mdy.name)
    (by simp [evFoot]) (by simp [evFoot]) ((footIndep_iff _ _ _ _).mpr ⟨?_, ?_, ?_⟩) (by simp [evTid])
  · simp [hne]
  · intro n _ hp; have := hp.length_le; simp at this; omega
  · intro n _ hp; have := hp.length_le; simp at this; omega

def tA : Loc := .test ["s", "a"]
def tB : Loc := .test ["s", "b"]

/-- coverage, on concrete events (`Indep` is decidable) -/
example :
    -- test start / end / skipped / disabled of different tests, same suite or not
    Indep (.testStart ["s", "a"] (mdr "a" 0) 1) (.testStart ["s", "b"] (mdr "b" 1) 1) ∧
    Indep (.testStart ["s", "a"] (mdr "a" 0) 1) (.testEnd ["s", "b"] 2) ∧
    Indep (.testEnd ["s", "a"] 1) (.testSkipped ["u", "b"] (mdr "b" 1) none 1) ∧
    Indep (.testDisabled ["s", "a"] (mdr "a" 0) none 1) (.testEnd ["u", "a"] 2) ∧
    -- steps and logs of different tests emitted by different threads
    Indep (.stepStart tA "step" 1 5) (.stepStart tB "step" 2 5) ∧
    Indep (.log tA (some "step") 1 .info "x" 5) (.check tB (some "step") 2 "c" true none 5) ∧
    Indep (.stepEnd tA "step" 1 5) (.testEnd ["s", "b"] 6) ∧
    -- starts of sibling suites, setup / teardown phases of different suites
    Indep (.suiteStart ["s", "x"] (mdr "x" 0) 1) (.suiteStart ["s", "y"] (mdr "y" 1) 1) ∧
    Indep (.suiteSetupStart ["s"] 1) (.suiteTeardownEnd ["u"] 2) ∧
    Indep (.log (.suiteSetup ["s"]) none 1 .info "x" 5) (.stepStart (.suiteSetup ["u"]) "st" 2 5) ∧
    -- a test of one suite and the start of a sub-suite of another
    Indep (.testStart ["s", "a"] (mdr "a" 0) 1) (.suiteStart ["u", "x"] (mdr "x" 0) 1) := by decide

/-- what is NOT independent (the causal constraints, and the per-thread / per-location order) -/
example :
    ¬ Indep (.suiteStart ["s"] (mdr "s" 0) 1) (.testStart ["s", "a"] (mdr "a" 0) 2) ∧      -- suite start before its content
    ¬ Indep (.suiteStart ["s"] (mdr "s" 0) 1) (.suiteStart ["s", "x"] (mdr "x" 0) 2) ∧
    ¬ Indep (.testStart ["s", "a"] (mdr "a" 0) 1) (.testEnd ["s", "a"] 2) ∧                -- same test
    ¬ Indep (.log tA none 1 .info "x" 5) (.testEnd ["s", "a"] 6) ∧
    ¬ Indep (.log tA none 1 .info "x" 5) (.log tB none 1 .info "y" 6) ∧                    -- same thread
    ¬ Indep (.sessionStart 1) (.testEnd ["s", "a"] 6) := by decide

/-! ## Part (c): interleavings -/

/-- a stream handled without error within the discipline, from the empty report -/
def Disciplined (es : List Event) : Prop := ∃ w, drun (initState) es = .ok w

theorem fold_of_drun {es : List Event} {w : WriterState} (h : drun (initState) es = .ok w) : fold es = .ok w.report := by
  simp only [fold, run_of_drun h]

/-- **The report does not depend on the interleaving** (main theorem).  Let `es₂` be obtained from `es₁` by swaps of adjacent
    independent events (`SwapEquiv` — any two schedules of the same run are related this way, see
    `interleavings_swapEquiv`), and let `es₁` be handled without error within the discipline.  Then so is `es₂`; the two
    aggregated reports have the same content (`SameContent`: same report-level fields, at every level the same tests and
    sub-suites up to insertion order, with equal statuses, skip reasons, steps, logs, checks, attachments, times); and if
    sibling ranks are pairwise distinct, the rank-sorted views every reader of the report goes through are EQUAL. -/
theorem report_independent_of_interleaving {es₁ es₂ : List Event} (hsw : SwapEquiv es₁ es₂) (hd : Disciplined es₁) :
    Disciplined es₂ ∧ ∃ r₁ r₂, fold es₁ = .ok r₁ ∧ fold es₂ = .ok r₂ ∧ SameContent r₁ r₂ ∧
      (DistinctSiblingRanks r₁ → view r₁ = view r₂) := by
  obtain ⟨w₁, h₁⟩ := hd
  obtain ⟨w₂, h₂, hs⟩ := drun_swapEquiv hsw (StEq.refl _) (by decide) h₁
  exact ⟨⟨w₂, h₂⟩, w₁.report, w₂.report, fold_of_drun h₁, fold_of_drun h₂, hs.report,
    fun hdr => view_eq_of_sameContent hs.report hdr⟩

/-- the two streams are handled without error together -/
theorem disciplined_iff_of_swapEquiv {es₁ es₂ : List Event} (hsw : SwapEquiv es₁ es₂) : Disciplined es₁ ↔ Disciplined es₂ :=
  ⟨fun h => (report_independent_of_interleaving hsw h).1, fun h => (report_independent_of_interleaving hsw.symm h).1⟩

/-- the same, from an arbitrary pair of states with the same content, keeping the `active_steps` part of the conclusion -/
theorem states_independent_of_interleaving {es₁ es₂ : List Event} (hsw : SwapEquiv es₁ es₂) {w w' w₁ : WriterState}
    (hs : StEq w w') (hu : uniqNames w.report = true) (h : drun w es₁ = .ok w₁) :
    ∃ w₂, drun w' es₂ = .ok w₂ ∧ StEq w₁ w₂ :=
  drun_swapEquiv hsw hs hu h

/-- **Any two interleavings of two mutually independent event sequences** (two tasks running concurrently on two threads:
    each keeps its own order, every event of one is independent of every event of the other), after a common prefix and
    before a common suffix, are swap-equivalent.  (N concurrent tasks: iterate.) -/
theorem interleavings_swapEquiv {pre post A B es es' : List Event} (h : Interleaving A B es) (h' : Interleaving A B es')
    (hi : ∀ a ∈ A, ∀ b ∈ B, Indep a b) : SwapEquiv (pre ++ es ++ post) (pre ++ es' ++ post) := by
  have key : ∀ {x y : List Event}, SwapEquiv x y → SwapEquiv (pre ++ x ++ post) (pre ++ y ++ post) := by
    intro x y hxy
    induction hxy with
    | refl => exact .refl _
    | swap p q e₁ e₂ hi' =>
      have := SwapEquiv.swap (pre ++ p) (q ++ post) e₁ e₂ hi'
      simpa [List.append_assoc] using this
    | trans _ _ ih1 ih2 => exact .trans ih1 ih2
  exact key ((h.swapEquiv hi).trans (h'.swapEquiv hi).symm)

/-- …hence every interleaving of two independent tasks gives the same report as every other -/
theorem report_independent_of_interleaving_of_two_tasks {pre post A B es es' : List Event}
    (h : Interleaving A B es) (h' : Interleaving A B es') (hi : ∀ a ∈ A, ∀ b ∈ B, Indep a b)
    (hd : Disciplined (pre ++ es ++ post)) :
    Disciplined (pre ++ es' ++ post) ∧ ∃ r₁ r₂, fold (pre ++ es ++ post) = .ok r₁ ∧ fold (pre ++ es' ++ post) = .ok r₂ ∧
      SameContent r₁ r₂ ∧ (DistinctSiblingRanks r₁ → view r₁ = view r₂) :=
  report_independent_of_interleaving (interleavings_swapEquiv h h' hi) hd

/-- **Two schedules of the same run** (any number of tasks and threads).  If two streams consist of the same events
    (`Perm`, no event twice) and every two DEPENDENT events (`¬ Indep`: same result location, same thread, a suite start
    and what happens inside the suite, …) are ordered the same way by both — which is what two schedules of one run
    differ by, and what the harness checks on every pair (N threads, 1 thread) of real streams after renaming thread ids
    and times — then they are swap-equivalent (the projection lemma of trace theory, `Lemmas/WriterTrace.lean`). -/
theorem schedules_are_swapEquiv {es₁ es₂ : List Event} (hn : es₁.Nodup) (hp : es₁.Perm es₂)
    (hord : ∀ a b, a ≠ b → ¬ Indep a b → Before es₁ a b → Before es₂ a b) : SwapEquiv es₁ es₂ :=
  swapEquiv_of_same_dependent_order es₁ es₂ hn hp hord

/-- …hence **the report does not depend on the schedule**: same events, same order of the dependent ones, one of the
    streams handled without error ⟹ the other one is too, the reports have the same content and, under distinct sibling
    ranks, equal rank-sorted views. -/
theorem report_independent_of_schedule {es₁ es₂ : List Event} (hn : es₁.Nodup) (hp : es₁.Perm es₂)
    (hord : ∀ a b, a ≠ b → ¬ Indep a b → Before es₁ a b → Before es₂ a b) (hd : Disciplined es₁) :
    Disciplined es₂ ∧ ∃ r₁ r₂, fold es₁ = .ok r₁ ∧ fold es₂ = .ok r₂ ∧ SameContent r₁ r₂ ∧
      (DistinctSiblingRanks r₁ → view r₁ = view r₂) :=
  report_independent_of_interleaving (schedules_are_swapEquiv hn hp hord) hd

/-- **The check the harness runs on every pair of real streams is sound**: when the boolean `scheduleCheckB es₁ es₂`
    (`Lemmas/WriterTrace.lean`, executed by `drivers/C05.lean` on the fired stream of the N-thread run and the re-labelled
    stream of the 1-thread run) answers `true`, both streams are handled without error, the two reports have the same
    content and, under distinct sibling ranks, equal views. -/
theorem checked_schedules_give_the_same_report {es₁ es₂ : List Event} (h : scheduleCheckB es₁ es₂ = true) :
    Disciplined es₂ ∧ ∃ r₁ r₂, fold es₁ = .ok r₁ ∧ fold es₂ = .ok r₂ ∧ SameContent r₁ r₂ ∧
      (DistinctSiblingRanks r₁ → view r₁ = view r₂) := by
  obtain ⟨hn, hp, hord, hd⟩ := scheduleCheckB_sound h
  exact report_independent_of_schedule hn hp hord hd

/-! ### non-vacuity: two tests of one suite run by two threads, two interleavings -/

def evA (tid : Nat) : List Event :=
  [.testStart ["s", "a"] (mdr "a" 0) 2, .stepStart tA "st" tid 2, .log tA (some "st") tid .info "in a" 3,
   .stepEnd tA "st" tid 4, .testEnd ["s", "a"] 4]
def evB (tid : Nat) : List Event :=
  [.testStart ["s", "b"] (mdr "b" 1) 2, .stepStart tB "st" tid 2, .check tB (some "st") tid "c" false none 3,
   .stepEnd tB "st" tid 4, .testEnd ["s", "b"] 4]
def preS : List Event := [.sessionStart 1, .suiteStart ["s"] (mdr "s" 0) 1]
def postS : List Event := [.suiteEnd ["s"] 5, .sessionEnd 6]

/-- one thread: `a` then `b` -/
def sequentialRun : List Event := preS ++ (evA 1 ++ evB 1) ++ postS
/-- two threads, `b` starts first and the events alternate -/
def parallelRun : List Event :=
  preS ++ [.testStart ["s", "b"] (mdr "b" 1) 2, .testStart ["s", "a"] (mdr "a" 0) 2, .stepStart tB "st" 2 2,
    .stepStart tA "st" 1 2, .log tA (some "st") 1 .info "in a" 3, .check tB (some "st") 2 "c" false none 3,
    .stepEnd tB "st" 2 4, .testEnd ["s", "b"] 4, .stepEnd tA "st" 1 4, .testEnd ["s", "a"] 4] ++ postS
/-- two threads, `a` entirely before `b` -/
def parallelRun' : List Event := preS ++ (evA 1 ++ evB 2) ++ postS

theorem evA_evB_indep : ∀ a ∈ evA 1, ∀ b ∈ evB 2, Indep a b := by decide

theorem parallelRun_swapEquiv : SwapEquiv parallelRun' parallelRun := by
  refine interleavings_swapEquiv (A := evA 1) (B := evB 2) ?_ ?_ evA_evB_indep
  · exact .left (.left (.left (.left (.left (.right (.right (.right (.right (.right .nil)))))))))
  · exact .right (.left (.right (.left (.left (.right (.right (.right (.left (.left .nil)))))))))

theorem disciplined_of_isSome {es : List Event} (h : (drun initState es).toOption.isSome = true) : Disciplined es := by
  cases hr : drun initState es with
  | ok w => exact ⟨w, hr⟩
  | error e => simp [hr, Except.toOption] at h

/-- the hypotheses of the main theorem are satisfiable… -/
theorem parallelRun'_disciplined : Disciplined parallelRun' := disciplined_of_isSome (by decide)

/-- insertion-ordered test names, suite by suite -/
def insertionNames : Except WriterErr Report → List (List String)
  | .ok r => r.suites.map (fun s => s.tests.map (·.md.name))
  | .error _ => []

/-- …and its conclusion is observable: in the alternating run `b` ARRIVED first, the views are equal (and equal to the
    one-thread run's) -/
example : insertionNames (fold parallelRun') = [["a", "b"]] ∧ insertionNames (fold parallelRun) = [["b", "a"]] ∧
    viewNames (fold parallelRun') = [["a", "b"]] ∧ viewNames (fold parallelRun) = [["a", "b"]] ∧
    viewNames (fold sequentialRun) = [["a", "b"]] := by decide

example : ∃ r₁ r₂, fold parallelRun' = .ok r₁ ∧ fold parallelRun = .ok r₂ ∧ SameContent r₁ r₂ ∧
    (DistinctSiblingRanks r₁ → view r₁ = view r₂) :=
  (report_independent_of_interleaving parallelRun_swapEquiv parallelRun'_disciplined).2

/-- non-vacuity of `report_independent_of_schedule`: the two concrete runs above satisfy its hypotheses (decidable) -/
example : scheduleCheckB parallelRun' parallelRun = true := by decide

example : parallelRun'.Nodup ∧ parallelRun'.Perm parallelRun ∧
    (∀ a ∈ parallelRun', ∀ b ∈ parallelRun', a ≠ b → ¬ Indep a b → Before parallelRun' a b → Before parallelRun a b) := by
  refine ⟨by decide, by decide, by decide⟩

/-! ## Part (d): the REAL streams of an N-thread run and of a 1-thread run

  Two real streams of one project are not made of the same events: they differ in THREAD IDS (which worker ran which test;
  with one thread every test shares the worker's id), in TIMES and in the global counter of attachment file names.  Before
  `scheduleCheckB` runs, the harness re-labels them (harness/props/c05.py).  This part proves that the re-labelling does
  not change what the writer folds, and closes the chain

      real N-thread stream ~ re-labelled ~swap~ re-labelled 1-thread stream ~ real 1-thread stream.
-/

/-! ### (d1) times and attachment counters -/

/-- **The labels the writer copies are only copied.**  For every re-labelling `L` of times and attachment file names whose
    step-end component keeps "is zero" (`Lab.Ok`: `step.end_time` is the one time the writer reads back —
    `assert not step.end_time` — and Python truthiness makes `0` mean "not ended"), folding the re-labelled stream gives the
    re-labelled outcome: the same error, or the re-labelled report. -/
theorem fold_commutes_with_relabelling_of_times {L : Lab} (hL : L.Ok) (es : List Event) :
    fold (es.map (labEvent L)) = Except.map (labReport L) (fold es) :=
  fold_lab hL es

/-- …step by step, on any state (same error or re-labelled new state), and for the discipline -/
theorem apply_commutes_with_relabelling_of_times {L : Lab} (hL : L.Ok) (w : WriterState) (e : Event) :
    apply (labState L w) (labEvent L e) = Except.map (labState L) (apply w e) ∧
    dapply (labState L w) (labEvent L e) = Except.map (labState L) (dapply w e) :=
  ⟨apply_lab hL w e, dapply_lab hL w e⟩

/-- **Only timestamps differ** (times).  Two streams that are, position by position, the same event up to times — a
    step-end time being replaced only by a time that is zero iff it is — and up to the counter in attachment file names
    (`SameUpToLabels`), are handled with the same outcome: the same error, or reports that are EQUAL once times and
    attachment counters are erased (`eraseTimes`: every time that is set becomes `some 0`, every entry time 0,
    `attachments/000k_name` becomes `attachments/name`). -/
theorem only_timestamps_differ {es es' : List Event} (h : SameUpToLabels es es') :
    Except.map eraseTimes (fold es) = Except.map eraseTimes (fold es') :=
  fold_sameUpToLabels h

/-- the same for a per-event time re-labelling `τ` (`τ e` is `e` up to its time, with the zero-ness of a step-end time kept,
    and up to the attachment counter) -/
theorem retimed_stream_folds_the_same {τ : Event → Event} (hτ : ∀ e, labEvent normLab (τ e) = labEvent normLab e)
    (es : List Event) : Except.map eraseTimes (fold (es.map τ)) = Except.map eraseTimes (fold es) :=
  fold_sameUpToLabels (sameUpToLabels_map hτ es)

/-- the re-labelling the harness applies: every time := the position of the event.  Side condition: no step ends at time 0. -/
theorem times_as_positions_fold_the_same (es : List Event) (h : ∀ e ∈ es, stepEndAtZero e = false) :
    Except.map eraseTimes (fold (retimeFrom 0 es)) = Except.map eraseTimes (fold es) :=
  fold_sameUpToLabels (retimeFrom_sameUpToLabels 0 es h)

/-- streams that differ in labels only are inside the discipline together -/
theorem disciplined_of_sameUpToLabels {es es' : List Event} (h : SameUpToLabels es es') : Disciplined es ↔ Disciplined es' :=
  ⟨drun_sameUpToLabels h, drun_sameUpToLabels h.symm⟩

/-- `view` commutes with `eraseTimes`; the guard `DistinctSiblingRanks` does not see times -/
theorem view_commutes_with_eraseTimes (r : Report) :
    view (eraseTimes r) = eraseTimesSuites (view r) ∧ (DistinctSiblingRanks (eraseTimes r) ↔ DistinctSiblingRanks r) :=
  ⟨view_eraseTimes r, distinctSiblingRanks_eraseTimes r⟩

def zeroEnd (t : Time) : List Event :=
  [.suiteStart ["s"] (mdr "s" 0) 1, .testStart ["s", "a"] (mdr "a" 0) 2, .stepStart tA "st" 1 3, .stepEnd tA "st" 1 t,
   .log tA (some "st") 1 .info "late" 9]

def errOf : Except WriterErr Report → Option WriterErr
  | .ok _ => none
  | .error e => some e

/-- **The side condition is exact**: a step-end time of 0 is not "only a timestamp".  The same stream with the step ended
    at time 0 / at time 5: after `stepEnd … 0` the step still accepts a log (`step.end_time` is falsy), after `stepEnd … 5`
    the same log raises the `assert not step.end_time` AssertionError.  (Real step-end times are `time.time()`, never 0.) -/
theorem zero_step_end_time_is_not_only_a_timestamp :
    errOf (fold (zeroEnd 0)) = none ∧ errOf (fold (zeroEnd 5)) = some .assertStepEnded := by decide

/-! ### (d2) thread ids -/

/-- **Thread ids are only keys.**  `es` is handled without error within the strengthened discipline (`DisciplinedT`: `disc`,
    unique sibling names, and the session setup / teardown result started while no step binding points into it), and `ρ`
    — new thread id from the event's result location and its old id — is injective on the (location, thread id) pairs
    that occur in `es`.  Then the re-labelled stream is handled without error within the same discipline and folds to the
    SAME report (the report holds no thread id).  In particular a worker that runs several tests may be split into one id
    per test. -/
theorem thread_ids_are_only_keys {ρ : Loc → Nat → Nat} {es : List Event} (hd : DisciplinedT es) (hinj : TidInjOn ρ es) :
    DisciplinedT (es.map (relabelTid ρ)) ∧ fold (es.map (relabelTid ρ)) = fold es := by
  obtain ⟨w, hw⟩ := hd
  obtain ⟨w', hw', hr⟩ := drunT_relabelTid hinj hw
  exact ⟨⟨w', hw'⟩, by rw [fold_of_drunT hw', fold_of_drunT hw, hr]⟩

/-- **…general form**: instead of injectivity, `ρ` keeps every lookup of `active_steps` on the same binding — a condition on the
    stream alone, decided by `tidSimB ρ es` (at every step end / log of thread `t` at location `l`, the most recent binding
    pushed under key `t` and the most recent binding pushed under key `ρ l t` are the same one).  This covers the MERGING of
    the ids of threads that do not overlap — CPython re-uses `threading.get_ident()` values of ended threads, so one real
    run may give two `lcc.Thread`s of a test the same id while the other run tells them apart.  `TidOk ρ es` := injective on
    the pairs of `es`, or `tidSimB ρ es`. -/
theorem thread_ids_are_only_keys_general {ρ : Loc → Nat → Nat} {es : List Event} (hd : DisciplinedT es) (hok : TidOk ρ es) :
    DisciplinedT (es.map (relabelTid ρ)) ∧ fold (es.map (relabelTid ρ)) = fold es := by
  obtain ⟨w, hw⟩ := hd
  obtain ⟨w', hw', hr⟩ := drunT_relabelTid_ok hok hw
  exact ⟨⟨w', hw'⟩, by rw [fold_of_drunT hw', fold_of_drunT hw, hr]⟩

/-- the strengthened discipline implies the discipline of parts (b), (c) -/
theorem disciplined_of_disciplinedT {es : List Event} (h : DisciplinedT es) : Disciplined es := by
  obtain ⟨w, hw⟩ := h
  exact ⟨w, drun_of_drunT hw⟩

def twoOpen : List Event :=
  preS ++ [.testStart ["s", "a"] (mdr "a" 0) 2, .testStart ["s", "b"] (mdr "b" 1) 2, .stepStart tA "st" 1 2,
    .stepStart tB "st" 2 2, .log tA (some "st") 1 .info "in a" 3]

/-- every thread id becomes 5 -/
def merge5 : Loc → Nat → Nat := fun _ _ => 5

/-- number of entries of every step of every test of the first suite -/
def entryCounts : Except WriterErr Report → List (List Nat)
  | .ok r => (r.suites.flatMap (·.tests)).map (fun t => t.result.steps.map (·.entries.length))
  | .error _ => []

/-- **Injectivity must be JOINT in (location, thread id)** — injectivity of `ρ l` for every location `l` is not enough, and
    MERGING thread ids (what the 1-thread stream is with respect to the N-thread one) is not invariant.  Two workers 1, 2
    with one open step each, in tests `a` and `b`; `ρ = merge5` sends both to 5 (for each location, `ρ l` is injective on the ids
    occurring at `l`).  The original is disciplined and the log goes into `a`'s step; in the re-labelled stream the log of
    "thread 5" at `a` finds the step thread 5 opened LAST — `b`'s: outside the discipline, and the plain writer appends the
    log to `b`'s step.  This is why the discipline of the 1-thread stream is checked on that stream itself
    (`n_threads_equals_one_thread` below). -/
theorem injectivity_per_location_is_not_enough :
    disciplinedTB twoOpen = true ∧
    (∀ p ∈ tidLocs twoOpen, ∀ q ∈ tidLocs twoOpen, p.1 = q.1 → merge5 p.1 p.2 = merge5 q.1 q.2 → p.2 = q.2) ∧
    tidInjOnB merge5 twoOpen = false ∧ disciplinedTB (twoOpen.map (relabelTid merge5)) = false ∧
    entryCounts (fold twoOpen) = [[1], [0]] ∧ entryCounts (fold (twoOpen.map (relabelTid merge5))) = [[0], [1]] := by
  decide

/-- two `lcc.Thread`s (ids 3 and 4) of test `a`, one after the other -/
def seqThreads : List Event :=
  preS ++ [.testStart ["s", "a"] (mdr "a" 0) 2, .stepStart tA "st" 3 2, .log tA (some "st") 3 .info "x" 3, .stepEnd tA "st" 3 4,
    .stepStart tA "st2" 4 5, .log tA (some "st2") 4 .info "y" 6, .stepEnd tA "st2" 4 7, .testEnd ["s", "a"] 8] ++ postS
/-- the same two threads, overlapping: both steps open when thread 3 logs -/
def overlapThreads : List Event :=
  preS ++ [.testStart ["s", "a"] (mdr "a" 0) 2, .stepStart tA "st" 3 2, .stepStart tA "st2" 4 3,
    .log tA (some "st") 3 .info "x" 4]

/-- **Merging the ids of threads that do not overlap is fine, merging overlapping ones is not — and `tidSimB` tells them
    apart.**  `merge5` is not injective on either stream.  On `seqThreads` (what the re-use of thread idents produces) every
    lookup still finds the same binding: `tidSimB` holds and the report is unchanged.  On `overlapThreads` the re-labelled
    stream is even INSIDE the discipline (both steps are at the same location) yet the log lands in the other step:
    the discipline alone does not make a merge safe; `tidSimB` answers false. -/
theorem merging_thread_ids :
    tidInjOnB merge5 seqThreads = false ∧ tidSimB merge5 seqThreads = true ∧
    entryCounts (fold (seqThreads.map (relabelTid merge5))) = entryCounts (fold seqThreads) ∧
    tidInjOnB merge5 overlapThreads = false ∧ tidSimB merge5 overlapThreads = false ∧
    disciplinedTB overlapThreads = true ∧ disciplinedTB (overlapThreads.map (relabelTid merge5)) = true ∧
    entryCounts (fold overlapThreads) = [[1, 0]] ∧ entryCounts (fold (overlapThreads.map (relabelTid merge5))) = [[0, 1]] ∧
    tidSimB merge5 twoOpen = false := by decide

def twiceSetup : List Event :=
  [.sessionSetupStart 1, .stepStart .sessionSetup "st" 1 2, .sessionSetupStart 3, .sessionTeardownStart 4,
   .log .sessionTeardown none 1 .info "x" 5]

/-- one id for the session setup, one for everything else (injective on the pairs of `twiceSetup`) -/
def split10 : Loc → Nat → Nat := fun l _ => if l = .sessionSetup then 10 else 20

/-- **The extra clause of the discipline is needed** (`sessionFresh`: the session setup / teardown result is started while
    no step binding points into it; `disc` says this for suite setups / teardowns and tests only).  A second
    `sessionSetupStart` detaches the step of the first one; the detached `Step` object has lost its location and the writer
    accepts a log of that thread anywhere (it goes into the orphan step).  The stream is inside `disc`, `ρ = split10` is injective —
    and the re-labelled stream raises (`assert step, "Cannot find active step"`).  No run fires `sessionSetupStart` twice:
    `drivers/C05.lean` evaluates the strengthened discipline on every real stream. -/
theorem sessionFresh_needed :
    (drun initState twiceSetup).toOption.isSome = true ∧ disciplinedTB twiceSetup = false ∧ errOf (fold twiceSetup) = none ∧
    tidInjOnB split10 twiceSetup = true ∧
    errOf (fold (twiceSetup.map (relabelTid split10))) = some .assertActiveStep := by
  decide

/-! ### (d3) N threads equals one thread, on the real streams -/

/-- **N threads equals one thread — only timestamps differ.**  `esN`, `es1`: the REAL event streams of an N-thread run and of
    a 1-thread run (thread ids, times, attachment file names as the writer received them).  `a`, `b`: any two streams
    (the harness's re-labelled ones) such that
      * `a` is `esN` with thread ids re-labelled by `ρN`, up to times and attachment counters; `b` is `es1` re-labelled
        by `ρ1` likewise (`SameUpToLabels`);
      * `ρN` (`ρ1`) is injective on the (location, thread id) pairs of `esN` (`es1`) or, more generally, keeps every lookup
        on the same binding (`TidOk`);
      * both real streams are inside the strengthened discipline (this cannot be dropped for `es1`, whose worker id is
        shared by all tests: `injectivity_per_location_is_not_enough`);
      * `a` and `b` pass `scheduleCheckB`: same events, no event twice, every two dependent events in the same order.
    Then both real streams fold without error, the two REAL reports have the same content once times and attachment
    counters are erased, and under distinct sibling ranks their rank-sorted views — what every reader of the report sees
    — are EQUAL up to timestamps (and attachment counters). -/
theorem n_threads_equals_one_thread {esN es1 a b : List Event} {ρN ρ1 : Loc → Nat → Nat}
    (hdN : DisciplinedT esN) (hd1 : DisciplinedT es1) (hiN : TidOk ρN esN) (hi1 : TidOk ρ1 es1)
    (haN : SameUpToLabels a (esN.map (relabelTid ρN))) (hb1 : SameUpToLabels b (es1.map (relabelTid ρ1)))
    (hc : scheduleCheckB a b = true) :
    ∃ rN r1, fold esN = .ok rN ∧ fold es1 = .ok r1 ∧ SameContent (eraseTimes rN) (eraseTimes r1) ∧
      (DistinctSiblingRanks rN → eraseTimesSuites (view rN) = eraseTimesSuites (view r1)) := by
  obtain ⟨wN, hwN⟩ := hdN
  obtain ⟨w1, hw1⟩ := hd1
  have fN := (thread_ids_are_only_keys_general ⟨wN, hwN⟩ hiN).2
  have f1 := (thread_ids_are_only_keys_general ⟨w1, hw1⟩ hi1).2
  obtain ⟨_, ra, rb, hfa, hfb, hsc, hview⟩ := checked_schedules_give_the_same_report hc
  have eN := fold_sameUpToLabels haN
  have e1 := fold_sameUpToLabels hb1
  rw [fN, fold_of_drunT hwN, hfa] at eN
  rw [f1, fold_of_drunT hw1, hfb] at e1
  have eN' : eraseTimes ra = eraseTimes wN.report := by injection eN
  have e1' : eraseTimes rb = eraseTimes w1.report := by injection e1
  refine ⟨wN.report, w1.report, fold_of_drunT hwN, fold_of_drunT hw1, ?_, ?_⟩
  · rw [← eN', ← e1']
    exact sameContent_lab eraseLab hsc
  · intro hdr
    have hdra : DistinctSiblingRanks ra := by
      rw [← distinctSiblingRanks_eraseTimes, eN', distinctSiblingRanks_eraseTimes]
      exact hdr
    have hv := hview hdra
    rw [← view_eraseTimes, ← view_eraseTimes, ← eN', ← e1', view_eraseTimes, view_eraseTimes, hv]

/-- **The check the harness runs on every pair of REAL streams is sound**: when the boolean `nThreadsCheckB`
    (`Lemmas/WriterNThreads.lean`; executed by `drivers/C05.lean` on the fired stream of the N-thread run, the fired stream of
    the 1-thread run, the two re-labelled streams and the two thread-id tables the harness computed) answers `true`, the
    conclusion of `n_threads_equals_one_thread` holds for the two real streams. -/
theorem n_threads_check_sound {esN es1 a b : List Event} {tabN tab1 : List ((Loc × Nat) × Nat)}
    (h : nThreadsCheckB esN es1 a b tabN tab1 = true) :
    ∃ rN r1, fold esN = .ok rN ∧ fold es1 = .ok r1 ∧ SameContent (eraseTimes rN) (eraseTimes r1) ∧
      (DistinctSiblingRanks rN → eraseTimesSuites (view rN) = eraseTimesSuites (view r1)) := by
  simp only [nThreadsCheckB, Bool.and_eq_true, decide_eq_true_eq] at h
  obtain ⟨⟨⟨⟨⟨⟨h1, h2⟩, h3⟩, h4⟩, h5⟩, h6⟩, h7⟩ := h
  exact n_threads_equals_one_thread (disciplinedTB_sound h1) (disciplinedTB_sound h2) (tidOkB_sound h3)
    (tidOkB_sound h4) h5 h6 h7

/-! ### non-vacuity: a 2-worker run and a 1-worker run of the same suite, as the writer receives them -/

def attA (tid : Nat) (file : String) (t : Time) : Event := .attachment tA (some "st") tid file "x" false t
def attB (tid : Nat) (file : String) (t : Time) : Event := .attachment tB (some "st") tid file "x" false t

/-- two workers (thread ids 11 and 12), `b` starts first and gets attachment number 1; wall-clock times -/
def realN : List Event :=
  [.sessionStart 1000, .suiteStart ["s"] (mdr "s" 0) 1001,
   .testStart ["s", "b"] (mdr "b" 1) 1002, .testStart ["s", "a"] (mdr "a" 0) 1003, .stepStart tB "st" 12 1004,
   .stepStart tA "st" 11 1005, attB 12 "attachments/0001_x.txt" 1006, attA 11 "attachments/0002_x.txt" 1007,
   .stepEnd tB "st" 12 1008, .testEnd ["s", "b"] 1009, .stepEnd tA "st" 11 1010, .testEnd ["s", "a"] 1011,
   .suiteEnd ["s"] 1012, .sessionEnd 1013]

/-- one worker (thread id 7) runs `a` then `b`: other times, other attachment numbers, ONE thread id for both tests -/
def real1 : List Event :=
  [.sessionStart 2000, .suiteStart ["s"] (mdr "s" 0) 2001,
   .testStart ["s", "a"] (mdr "a" 0) 2002, .stepStart tA "st" 7 2003, attA 7 "attachments/0001_x.txt" 2004,
   .stepEnd tA "st" 7 2005, .testEnd ["s", "a"] 2006,
   .testStart ["s", "b"] (mdr "b" 1) 2007, .stepStart tB "st" 7 2008, attB 7 "attachments/0002_x.txt" 2009,
   .stepEnd tB "st" 7 2010, .testEnd ["s", "b"] 2011, .suiteEnd ["s"] 2012, .sessionEnd 2013]

/-- the harness's tables: one id per (location, real thread) in the N-thread run; the 1-thread run gets the ids of the
    matching N-thread events -/
def tabN : List ((Loc × Nat) × Nat) := [((tB, 12), 1), ((tA, 11), 2)]
def tab1 : List ((Loc × Nat) × Nat) := [((tA, 7), 2), ((tB, 7), 1)]

/-- the re-labelled N-thread stream: ids through `tabN`, time := position -/
def relN : List Event := retimeFrom 0 (realN.map (relabelTid (tableRho tabN)))
/-- the re-labelled 1-thread stream: each event of `real1` replaced by the matching event of `relN` -/
def rel1 : List Event := [0, 1, 3, 5, 7, 10, 11, 2, 4, 6, 8, 9, 12, 13].map (relN[·]!)

/-- the hypotheses of `n_threads_equals_one_thread` are satisfiable: the boolean check holds on the two runs -/
theorem example_runs_pass_the_check : nThreadsCheckB realN real1 relN rel1 tabN tab1 = true := by decide

/-- …and its conclusion says something: the two real reports differ (times, attachment numbers, arrival order of the
    tests) and are equal once erased and viewed -/
example : insertionNames (fold realN) = [["b", "a"]] ∧ insertionNames (fold real1) = [["a", "b"]] ∧
    ∃ rN r1, fold realN = .ok rN ∧ fold real1 = .ok r1 ∧ SameContent (eraseTimes rN) (eraseTimes r1) ∧
      (DistinctSiblingRanks rN → eraseTimesSuites (view rN) = eraseTimesSuites (view r1)) :=
  ⟨by decide, by decide, n_threads_check_sound example_runs_pass_the_check⟩

/-- the attachment counter is a label: `eraseTimes` drops it (and nothing else of the name) -/
example : blankCounter "attachments/0002_x.txt" = "attachments/x.txt" ∧ blankCounter "attachments/0001_x.txt" = "attachments/x.txt" ∧
    blankCounter "attachments/12345_0_x" = "attachments/0_x" ∧ blankCounter "attachments/001_x" = "attachments/001_x" ∧
    blankCounter "0001_x" = "0001_x" := by decide

end LccModel.C05

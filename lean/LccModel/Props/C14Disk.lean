/-
  C14 — "Preparing a project (lcc check, lcc run) rejects, before anything executes, exactly the structurally invalid
  projects … Any project it accepts …": THE project = the one that is DESIGNATED (`-p` before `$LCC_PROJECT` before
  `$LCC_PROJECT_FILE` before the working directory), judged by the files AS THEY ARE at that preparation — also the second,
  third, … preparation in the same process (`Model/ProjectFiles.lean`), fifth seeded round.

  * `import_returns_current_file`, `prepare_in_any_process`, `checks_reflect_current_files`, `kth_check_current_files`,
    `kth_check_accepts_iff_valid_now`: the verdict of the k-th preparation is the verdict function (`Prepare.prepareFull`,
    characterised by `C14C.prepareFull_accepts_iff`) applied to the k-th file state; what earlier preparations registered in
    `sys.modules` — the same path or another — has no influence.
  * `argument_wins`, `env_project_without_argument`, `env_project_file_only_when_project_unset`, `search_only_when_nothing_given`,
    `choose_cases`: the precedence of the designation; `verdict_of_designated_project`, `argument_verdict_ignores_environment`:
    the verdict is that of the designated project, the environment is irrelevant under `-p X`.
  The finite decision `Desig.choose` (3 × 3 × 3 ways of giving / not giving / giving an empty path) and the resolution of a path
  on disk are re-extracted from the real `load_project` on every run (`Generated/C14TablesCheck.lean`: `designation_table_agrees`,
  `resolution_table_agrees`).
-/
import LccModel.Model.ProjectFiles
import LccModel.Props.C14Callable

namespace LccModel.C14Disk
open LccModel.ProjectFiles LccModel.Prepare LccModel.Inject

/-! ## Several preparations in one process -/

/-- the importer returns the module of the file as it is now, whatever is registered -/
theorem import_returns_current_file {μ : Type} (st : Proc μ) (path : String) (m : μ) : (importModule st path m).2 = m := rfl

/-- … and registers it under the path string -/
theorem import_registers {μ : Type} (st : Proc μ) (path : String) (m : μ) : (importModule st path m).1.has path = true := by
  simp [importModule, Proc.register, Proc.has]

theorem import_all_id {μ : Type} (st : Proc μ) (fs : List (String × μ)) : (importAll st fs).2 = fs.map (·.2) := by
  induction fs generalizing st with
  | nil => rfl
  | cons f rest ih => obtain ⟨p, m⟩ := f; simp [importAll, importModule, ih]

theorem policyOf_suites (l : List (String × DSuite)) (f : String × DSuite → String) :
    policyOf ((l.map (fun s => (f s, PMod.suite s.2))).map (·.2)) = Policy.empty := by
  induction l with
  | nil => rfl
  | cons s rest ih => simpa [policyOf] using ih

theorem declsOf_suites (l : List (String × DSuite)) (f : String × DSuite → String) :
    declsOf ((l.map (fun s => (f s, PMod.suite s.2))).map (·.2)) = [] := by
  induction l with
  | nil => rfl
  | cons s rest ih => simpa [declsOf] using ih

theorem suitesOf_suites (l : List (String × DSuite)) (f : String × DSuite → String) :
    suitesOf ((l.map (fun s => (f s, PMod.suite s.2))).map (·.2)) = l.map (·.2) := by
  induction l with
  | nil => rfl
  | cons s rest ih => simpa [suitesOf] using ih

/-- the modules of a project directory, put together again, are the project the directory declares -/
theorem assemble_modulesOf (root : String) (d : ProjDir) : assemble ((modulesOf root d).map (·.2)) = d.project := by
  obtain ⟨pp, sd, fx, ss⟩ := d
  cases pp with
  | none =>
    simp only [modulesOf, List.nil_append, List.map_cons, assemble, policyOf, declsOf, suitesOf, ProjDir.project, Option.getD_none,
      policyOf_suites, declsOf_suites, suitesOf_suites, List.append_nil]
  | some p =>
    simp only [modulesOf, List.cons_append, List.nil_append, List.map_cons, assemble, policyOf, declsOf, suitesOf, ProjDir.project,
      Option.getD_some, declsOf_suites, suitesOf_suites, List.append_nil]

/-- **One preparation in a process with any history** is the preparation of the files as they are now. -/
theorem prepare_in_any_process (st : Proc PMod) (root : String) (d : ProjDir) :
    (prepareIn st root d).2 = prepareFull d.project := by
  simp only [prepareIn, import_all_id, assemble_modulesOf]

/-- `lcc check` / `lcc run` in a process with any history: the verdict of the designated project's current files -/
theorem check_in_any_process (st : Proc PMod) (s : Step) : (checkIn st s).2 = verdictNow s := by
  unfold checkIn verdictNow
  cases h : loadProject s.fs s.hier s.desig with
  | error e => rfl
  | ok r => obtain ⟨root, d⟩ := r; simp only [prepare_in_any_process, Except.map]

/-- **Every preparation of a sequence reflects the files as they are at that moment**: prepare → edit → prepare, a defect
    introduced or repaired in a suite module, a fixture module or `project.py`, another project under the same path, another
    designation — for every initial `sys.modules`. -/
theorem checks_reflect_current_files (st : Proc PMod) (steps : List Step) :
    (runChecks st steps).2 = steps.map verdictNow := by
  induction steps generalizing st with
  | nil => rfl
  | cons s rest ih => simp only [runChecks, List.map_cons, check_in_any_process, ih]

/-- the k-th verdict is the verdict function applied to the k-th file state (of the project designated at step k) -/
theorem kth_check_current_files (st : Proc PMod) (steps : List Step) (k : Nat) (s : Step) (hk : steps[k]? = some s) :
    (runChecks st steps).2[k]? = some (verdictNow s) := by
  rw [checks_reflect_current_files, List.getElem?_map, hk]; rfl

/-- Property sentence for the k-th preparation of any sequence: the project it loads is accepted iff it is — NOW — one whose
    fixture declarations the decorator accepts and that is structurally valid (`C14I.ValidD`). -/
theorem kth_check_accepts_iff_valid_now (st : Proc PMod) (steps : List Step) (k : Nat) (s : Step) (root : String) (d : ProjDir)
    (hk : steps[k]? = some s) (hl : loadProject s.fs s.hier s.desig = .ok (root, d))
    (wfP : Policy.WF d.project.policy)
    (wfD : Deps.WF (flatTestsL d.project.lower.sched) (flatTestsL d.project.lower.all)) :
    (∃ r, (runChecks st steps).2[k]? = some (.ok (.ok r))) ↔
      (∀ x ∈ d.project.decls, x.perThread = true → x.scope = .session ∨ x.scope = .suite) ∧ C14I.ValidD d.project := by
  rw [kth_check_current_files st steps k s hk, ← C14C.prepareFull_accepts_iff d.project wfP wfD]
  simp only [verdictNow, hl, Except.map]
  constructor
  · rintro ⟨r, h⟩
    refine ⟨r, ?_⟩
    simpa using h
  · rintro ⟨r, h⟩
    exact ⟨r, by rw [h]⟩

/-- the same files prepared twice give the same verdict, whatever happened in between -/
theorem reprepare_same_files (st st' : Proc PMod) (root root' : String) (d : ProjDir) :
    (prepareIn st root d).2 = (prepareIn st' root' d).2 := by
  rw [prepare_in_any_process, prepare_in_any_process]

/-! ## Which project is designated -/

/-- `-p X` (X not empty) designates X: whatever `$LCC_PROJECT` / `$LCC_PROJECT_FILE` hold -/
theorem argument_wins (p : String) (hp : p ≠ "") (e1 e2 : Option String) : (Desig.mk (some p) e1 e2).choose = .path p := by
  simp [Desig.choose, truthy, hp]

/-- without `-p` (or with an empty one): `$LCC_PROJECT` when it is set and not empty, whatever `$LCC_PROJECT_FILE` holds -/
theorem env_project_without_argument (a : Option String) (ha : truthy a = none) (p : String) (hp : p ≠ "") (e2 : Option String) :
    (Desig.mk a (some p) e2).choose = .path p := by
  simp only [Desig.choose, ha]
  simp [Desig.fromEnv, truthy, hp]

/-- `$LCC_PROJECT_FILE` counts only when `$LCC_PROJECT` is UNSET (an empty `$LCC_PROJECT` hides it: the search is made) -/
theorem env_project_file_only_when_project_unset (a : Option String) (ha : truthy a = none) (p : String) (hp : p ≠ "") :
    (Desig.mk a none (some p)).choose = .path p ∧ (Desig.mk a (some "") (some p)).choose = .search := by
  simp only [Desig.choose, ha]
  simp [Desig.fromEnv, truthy, hp]

/-- the working directory is searched only when nothing (non-empty) was designated -/
theorem search_only_when_nothing_given (d : Desig) :
    d.choose = .search ↔ truthy d.arg = none ∧ truthy d.fromEnv = none := by
  unfold Desig.choose
  cases h1 : truthy d.arg <;> cases h2 : truthy d.fromEnv <;> simp

/-- the decision is one of the given strings, in that order of precedence -/
theorem choose_cases (d : Desig) :
    d.choose = (match truthy d.arg, truthy d.fromEnv with
      | some p, _ => .path p
      | none, some p => .path p
      | none, none => .search) := by
  unfold Desig.choose
  cases truthy d.arg <;> cases truthy d.fromEnv <;> rfl

/-- **The verdict is that of the designated project**: with `-p X` the preparation judges what X holds now — in any process,
    under any environment. -/
theorem verdict_of_designated_project (st : Proc PMod) (fs : FS) (hier : List String) (p : String) (hp : p ≠ "")
    (e1 e2 : Option String) :
    (checkIn st ⟨fs, hier, ⟨some p, e1, e2⟩⟩).2 = (fromPath fs p).map (fun r => prepareFull r.2.project) := by
  rw [check_in_any_process]
  simp only [verdictNow, loadProject, argument_wins p hp]

/-- two runs of `lcc check -p X` that differ only in the environment (and the process history) agree -/
theorem argument_verdict_ignores_environment (st st' : Proc PMod) (fs : FS) (hier hier' : List String) (p : String) (hp : p ≠ "")
    (e1 e2 e1' e2' : Option String) :
    (checkIn st ⟨fs, hier, ⟨some p, e1, e2⟩⟩).2 = (checkIn st' ⟨fs, hier', ⟨some p, e1', e2'⟩⟩).2 := by
  rw [verdict_of_designated_project st fs hier p hp, verdict_of_designated_project st' fs hier' p hp]

/-- a directory is a suitable `-p` exactly when it holds `project.py` or `suites` -/
theorem fromPath_dir_ok_iff (fs : FS) (p : String) (d : ProjDir) (h : fs.get p = some (.dir d)) :
    (∃ r, fromPath fs p = .ok r) ↔ (d.projectPy.isSome = true ∨ d.suitesDir = true) := by
  unfold fromPath
  rw [h]
  by_cases hc : (d.projectPy.isSome || d.suitesDir) = true
  · simp only [hc, if_true]
    exact ⟨fun _ => by simpa using hc, fun _ => ⟨_, rfl⟩⟩
  · simp only [hc]
    constructor
    · rintro ⟨r, hr⟩; cases hr
    · intro h'; exact absurd (by simpa using h') hc

/-! ## Non-vacuity (kernel-evaluated) -/

def tGhost : PTest := { path := "sa.t1", args := ["ghost"], parameters := [], disabled := false, deps := [], props := [], tags := [] }
def tOk : PTest := { path := "sa.t1", args := [], parameters := [], disabled := false, deps := [], props := [], tags := [] }
def good : ProjDir := ⟨none, true, [], [("sa", .mk "sa" false [] [] [] [] [tOk] [])]⟩
def bad : ProjDir := ⟨none, true, [], [("sa", .mk "sa" false [] [] [] [] [tGhost] [])]⟩

def acc (r : Except LoadErr (Except PrepErr Prepared)) : Option Bool := r.toOption.map (fun v => v.toOption.isSome)

/-- prepare (valid) → edit (unknown fixture) → prepare → repair → prepare, all under the same path strings -/
example : ((runChecks {} [⟨[("A", .dir good)], [], ⟨some "A", none, none⟩⟩, ⟨[("A", .dir bad)], [], ⟨some "A", none, none⟩⟩,
                          ⟨[("A", .dir good)], [], ⟨some "A", none, none⟩⟩]).2.map acc) = [some true, some false, some true] := by
  decide +kernel

/-- `-p A` with `$LCC_PROJECT=B`: A is judged; without `-p`: B; `$LCC_PROJECT=""` hides `$LCC_PROJECT_FILE`: the cwd is searched -/
example : ((runChecks {} [⟨[("A", .dir bad), ("B", .dir good)], ["B"], ⟨some "A", some "B", none⟩⟩,
                          ⟨[("A", .dir bad), ("B", .dir good)], ["A"], ⟨none, some "B", some "A"⟩⟩,
                          ⟨[("A", .dir bad), ("B", .dir good)], ["B"], ⟨none, some "", some "A"⟩⟩,
                          ⟨[("A", .dir bad), ("B", .dir good)], ["C"], ⟨none, none, none⟩⟩]).2.map acc)
    = [some false, some true, some true, none] := by
  decide +kernel

example : (runChecks {} [⟨[("A", .dir good)], [], ⟨some "A", none, none⟩⟩]).1.has "A/suites/sa.py" = true := by decide +kernel

end LccModel.C14Disk

/-
  C01 (and C03 / C04 / C08) — what the replay of a REAL run proves: every trace the run-level acceptor accepts
  is an execution of the scheduler model M1.

  The scheduler theorems of `Props/C01.lean`, `C01Graph.lean`, `C03.lean`, `C04.lean`, `C08.lean` speak about the
  reachable states of `Sched.step` on `graphOf P`.  Every real run of every run stream is replayed by the
  acceptor `RunAccept.replay` (`Model/RunAccept.lean`, executed by `drivers/Run.lean`).  This file links the two:

      Accepted P gts parents recs a   →
      Sched.run (graphOf P) n (Sched.init (graphOf P) n) (labelsOf P recs) = some (schedOf P a)

  where `Accepted` (`Lemmas/AcceptSound.lean`) says exactly what the driver reports as success of the replay —
  the graph check `graphOk P gts` passed and `replay (mkCtx P gts parents) recs` rejected no record, ending in
  acceptor state `a` —, `labelsOf P recs` is the projection of the records onto scheduler labels (start / finish
  / receive / interrupt, task indices renamed to task ids; every other record projects to nothing) and
  `schedOf P a` is the acceptor's embedded scheduler state read by task id.  NO hypothesis on the project is
  needed: distinctness of the task ids is part of `graphOk`.
  Hence every scheduler theorem holds of every accepted real trace; the corollaries below spell that out
  (those that name suites / tests of the project need `Valid P`, as the theorems they instantiate do).

  Non-vacuity: `Lemmas/AcceptSamples.lean` holds two real traces (a complete run with a failing test, an
  interrupted run) of a valid project; the kernel replays the acceptor on them.
-/
import LccModel.Lemmas.AcceptSound
import LccModel.Lemmas.AcceptSamples
import LccModel.Props.C08

namespace LccModel.C01Accept
open LccModel.Report LccModel.Run LccModel.Sched LccModel.RunAccept LccModel.TaskGraph LccModel.AcceptSound
  LccModel.AcceptSamples

variable {P : Proj} {gts : List GTask} {parents : List (Nat × Nat)} {recs : List Rec} {a : G}

/-! ### Soundness of the acceptor -/

/-- **An accepted trace is an execution of M1**: the label sequence the records project onto is accepted by
    `Sched.step` from the initial state of `graphOf P` with `P.nbThreads` workers, and leads to the acceptor's
    final scheduler state. -/
theorem accepted_trace_is_execution (h : Accepted P gts parents recs a) :
    Sched.run (graphOf P) P.nbThreads (Sched.init (graphOf P) P.nbThreads) (labelsOf P recs) = some (schedOf P a) :=
  accepted_run h

/-- … hence the acceptor's final scheduler state is a reachable state of M1: every theorem about reachable
    states applies to it. -/
theorem accepted_state_reachable (h : Accepted P gts parents recs a) :
    Reachable (graphOf P) P.nbThreads (schedOf P a) :=
  reachable_run (graphOf P) P.nbThreads _ _ _ Reachable.init (accepted_run h)

/-- The same on the acceptor's own graph (task indices, no renaming): the embedded scheduler state is moved by
    `Sched.step` only, along the projected labels `labelsNat recs`. -/
theorem accepted_trace_is_execution_on_indices (h : Accepted P gts parents recs a) :
    Sched.run (natGraph gts) P.nbThreads (Sched.init (natGraph gts) P.nbThreads) (labelsNat recs) = some a.sched :=
  (accepted_run_nat h).1

/-- One record, one transition (the statement per record kind): an accepted `start` / `finish` / `receive` /
    `interrupt` record is exactly that transition of `Sched.step`; every other record (`init`, `fire`, `user`,
    `handled`, `backend-raise`, `handler-exit`) leaves the scheduler state unchanged. -/
theorem accepted_record_is_transition (c : Ctx) (g g' : G) (r : Rec) (h : RunAccept.step c g r = .ok g') :
    Sched.run c.graph c.n g.sched (labelNat r) = some g'.sched :=
  step_sched c g g' r h

/-- What `schedOf` means: at the id of task index `i` it is the acceptor's state at `i` (the driver's `results`
    output, compared with the real task results, is `a.sched.result`). -/
theorem schedOf_reads_index (h : Accepted P gts parents recs a) (i : Nat) (hi : i < gts.length) :
    (schedOf P a).phase (idAt P i) = a.sched.phase i ∧ (schedOf P a).result (idAt P i) = a.sched.result i ∧
    (schedOf P a).mode (idAt P i) = a.sched.mode i ∧ (schedOf P a).forced (idAt P i) = a.sched.forced i ∧
    (schedOf P a).startAt (idAt P i) = a.sched.startAt i ∧ (schedOf P a).finishAt (idAt P i) = a.sched.finishAt i ∧
    (schedOf P a).starts (idAt P i) = a.sched.starts i :=
  schedOf_at h.1 a i hi

/-- The driver's completeness check (`final`, required whenever `run_suites` returned) is M1's `Final`. -/
theorem accepted_complete_is_final (h : Accepted P gts parents recs a)
    (hf : finalB (natGraph gts) a.sched = true) : Final (graphOf P) (schedOf P a) :=
  pull_final (embeds_of_graphOk h.1) a.sched (final_of_finalB hf)

/-- An accepted trace has at most `4·|tasks| + 1` scheduler records. -/
theorem accepted_trace_bounded (h : Accepted P gts parents recs a) :
    (labelsOf P recs).length ≤ 4 * (buildTasks P).length + 1 :=
  C01Graph.valid_project_executions_bounded P P.nbThreads _ _ (accepted_run h)

/-! ### (a) exactly once -/

/-- In an accepted trace no task is started twice … -/
theorem accepted_every_task_at_most_once (h : Accepted P gts parents recs a) (t : TaskId) :
    (schedOf P a).starts t ≤ 1 :=
  (C01.task_handled_exactly_once (graphOf P) P.nbThreads _ (accepted_state_reachable h) t).1

/-- … and in a complete accepted trace every task of the graph is started exactly once. -/
theorem accepted_complete_every_task_exactly_once (h : Accepted P gts parents recs a)
    (hf : finalB (natGraph gts) a.sched = true) (t : TaskId) (ht : t ∈ (graphOf P).tasks) :
    (schedOf P a).starts t = 1 :=
  (C01.task_handled_exactly_once (graphOf P) P.nbThreads _ (accepted_state_reachable h) t).2
    (accepted_complete_is_final h hf) ht

/-- … in particular every test of a valid project (run or skipped: one start). -/
theorem accepted_complete_every_test_exactly_once (hv : Valid P) (h : Accepted P gts parents recs a)
    (hf : finalB (natGraph gts) a.sched = true) (pt : Path × TestSpec) (hpt : pt ∈ projTests P) :
    (schedOf P a).starts ⟨.test, pt.1⟩ = 1 :=
  (C01Graph.valid_project_tasks_exactly_once hv P.nbThreads _ (accepted_state_reachable h)).2.1
    (accepted_complete_is_final h hf) pt hpt

/-! ### (b) dependencies finished before start -/

/-- In an accepted trace — interrupted or not — every started task started after every task it depends on had
    finished (ghost clock of the replayed execution). -/
theorem accepted_dependencies_finished_before_start (h : Accepted P gts parents recs a)
    (t : TaskId) (i : Nat) (hi : (schedOf P a).startAt t = some i) (d : TaskId) (hd : d ∈ (graphOf P).deps t) :
    ∃ j, (schedOf P a).finishAt d = some j ∧ j < i :=
  C04.deps_finished_before_start (graphOf P) P.nbThreads _ (accepted_state_reachable h) t i hi d hd

/-- … for the tests of a valid project: a test started after every test it depends on had finished. -/
theorem accepted_test_starts_after_its_dependencies (hv : Valid P) (h : Accepted P gts parents recs a)
    {sv : SuiteView} (hsv : sv ∈ allSuites P) {t : TestSpec} (ht : t ∈ sv.spec.tests) {d : Path} (hd : d ∈ t.deps)
    (i : Nat) (hi : (schedOf P a).startAt ⟨.test, sv.path ++ [t.name]⟩ = some i) :
    ∃ j, (schedOf P a).finishAt ⟨.test, d⟩ = some j ∧ j < i :=
  C01Graph.test_starts_after_its_dependencies hv hsv ht hd P.nbThreads _ (accepted_state_reachable h) i hi

/-! ### (c) a failed on-success dependency forces the skip -/

/-- In an accepted trace a task one of whose on-success dependencies did not end in success was decided `skip`. -/
theorem accepted_task_with_failed_dependency_is_skipped (h : Accepted P gts parents recs a)
    (t : TaskId) (m : Mode) (hm : (schedOf P a).mode t = some m)
    (d : TaskId) (hd : d ∈ (graphOf P).succDeps t) (hbad : (schedOf P a).result d ≠ some .success) : m = .skip := by
  cases m with
  | skip => rfl
  | run =>
    exact absurd (C04.run_only_if_deps_succeeded (graphOf P) P.nbThreads _ (accepted_state_reachable h) t hm d hd) hbad

/-- … for the tests of a valid project: a test that depends on a test that did not succeed was skipped. -/
theorem accepted_test_with_failed_dependency_is_skipped (hv : Valid P) (h : Accepted P gts parents recs a)
    {sv : SuiteView} (hsv : sv ∈ allSuites P) {t : TestSpec} (ht : t ∈ sv.spec.tests) {d : Path} (hd : d ∈ t.deps)
    (m : Mode) (hm : (schedOf P a).mode ⟨.test, sv.path ++ [t.name]⟩ = some m)
    (hbad : (schedOf P a).result ⟨.test, d⟩ ≠ some .success) : m = .skip := by
  cases m with
  | skip => rfl
  | run =>
    exact absurd (C01Graph.test_runs_only_if_dependencies_succeeded hv hsv ht hd P.nbThreads _
      (accepted_state_reachable h) hm) hbad

/-! ### (d) teardown / suite end / session teardown ordering -/

/-- In an accepted trace of a valid project the suite teardown task started after the suite setup task and
    every test of the suite had finished. -/
theorem accepted_suite_teardown_after_setup_and_tests (hv : Valid P) (h : Accepted P gts parents recs a)
    {sv : SuiteView} (hsv : sv ∈ allSuites P) (hinit : hasInit P sv = true)
    (i : Nat) (hi : (schedOf P a).startAt ⟨.teardown, sv.path⟩ = some i) :
    (∃ j, (schedOf P a).finishAt ⟨.init, sv.path⟩ = some j ∧ j < i) ∧
    ∀ t ∈ sv.spec.tests, ∃ j, (schedOf P a).finishAt ⟨.test, sv.path ++ [t.name]⟩ = some j ∧ j < i :=
  C03.suite_teardown_after_setup_and_tests hv hsv hinit P.nbThreads _ (accepted_state_reachable h) i hi

/-- … a suite was ended after it was begun, all its tests, its teardown and all its sub-suites had finished. -/
theorem accepted_suite_end_after_everything_inside (hv : Valid P) (h : Accepted P gts parents recs a)
    {sv : SuiteView} (hsv : sv ∈ allSuites P)
    (i : Nat) (hi : (schedOf P a).startAt ⟨.end_, sv.path⟩ = some i) :
    (∃ j, (schedOf P a).finishAt ⟨.begin, sv.path⟩ = some j ∧ j < i) ∧
    (∀ t ∈ sv.spec.tests, ∃ j, (schedOf P a).finishAt ⟨.test, sv.path ++ [t.name]⟩ = some j ∧ j < i) ∧
    (hasInit P sv = true → ∃ j, (schedOf P a).finishAt ⟨.teardown, sv.path⟩ = some j ∧ j < i) ∧
    (∀ sub ∈ sv.spec.subs, ∃ j, (schedOf P a).finishAt ⟨.end_, sv.path ++ [sub.name]⟩ = some j ∧ j < i) :=
  C03.suite_end_after_everything_inside hv hsv P.nbThreads _ (accepted_state_reachable h) i hi

/-- … and the session teardown task started after every top-level suite had ended. -/
theorem accepted_session_teardown_after_all_suites (hv : Valid P) (h : Accepted P gts parents recs a)
    (hs : hasSessSetup P = true) (i : Nat) (hi : (schedOf P a).startAt ⟨.sessTeardown, []⟩ = some i) :
    ∀ top ∈ P.suites, ∃ j, (schedOf P a).finishAt ⟨.end_, [top.name]⟩ = some j ∧ j < i :=
  C03.session_teardown_after_all_suites hv hs P.nbThreads _ (accepted_state_reachable h) i hi

/-! ### (e) after an accepted `interrupt` record -/

/-- An accepted trace with an `interrupt` record: the trace up to and including that record is accepted (state
    `a₁`), the abort flag is set in `a₁`, and every task that was still waiting in `remaining_tasks` in `a₁` is,
    whatever the rest of the trace does, only ever decided `skip` (never run). -/
theorem accepted_after_interrupt_waiting_tasks_only_skipped {pre post : List Rec} {d : List Nat}
    (h : Accepted P gts parents (pre ++ .interrupt d :: post) a) :
    ∃ a₁, Accepted P gts parents (pre ++ [.interrupt d]) a₁ ∧ (schedOf P a₁).aborted = true ∧
      ∀ t m, (schedOf P a₁).phase t = .remaining → (schedOf P a).mode t = some m → m = .skip := by
  have h' : Accepted P gts parents ((pre ++ [.interrupt d]) ++ post) a := by
    rw [List.append_assoc]; exact h
  obtain ⟨a₁, hacc, hrun⟩ := accepted_split h'
  have hab : (schedOf P a₁).aborted = true := by
    have := accepted_run hacc
    rw [labelsOf_append, labelsOf_interrupt] at this
    exact aborted_after_interrupt _ _ _ _ _ this
  exact ⟨a₁, hacc, hab, fun t m hrem hm =>
    C08.interrupt_waiting_tasks_only_skipped (graphOf P) P.nbThreads _ (accepted_state_reachable hacc) hab t hrem
      _ _ hrun m hm⟩

/-- … and the ordering holds after the interrupt as before it: a force-skipped task (one released by
    `skip_all_tasks`) still started after all its dependencies had finished, and was only skipped. -/
theorem accepted_forced_task_skipped_after_its_dependencies (h : Accepted P gts parents recs a)
    (t : TaskId) (hf : (schedOf P a).forced t = true) :
    (∀ m, (schedOf P a).mode t = some m → m = .skip) ∧
    ∀ i, (schedOf P a).startAt t = some i → ∀ d ∈ (graphOf P).deps t,
      ∃ j, (schedOf P a).finishAt d = some j ∧ j < i :=
  ⟨fun m hm => C08.interrupt_forced_tasks_only_skipped (graphOf P) P.nbThreads _ (accepted_state_reachable h) t m hf hm,
   fun i hi d hd => C08.interrupt_no_task_starts_before_its_dependencies_finished (graphOf P) P.nbThreads _
     (accepted_state_reachable h) t d hd i hi⟩

/-! ### Non-vacuity: two real traces (`Lemmas/AcceptSamples.lean`)

    `failingProj` = the sample project of C01Graph with a failing check in `a.b.u1`; valid.  `failingRecs` is a
    complete real run of it, `interruptedRecs = interruptedPre ++ .interrupt [] :: interruptedPost` a real
    interrupted run; both are accepted by the entry point (kernel replay).  A `Row` is
    (phase, result, mode, forced, startAt, finishAt, starts). -/

example : Valid failingProj := failingProj_valid

/-- the hypotheses of the main theorem hold for both traces, and both are complete -/
example : Accepted failingProj sampleGts [] failingRecs failingFinal ∧
    finalB (natGraph sampleGts) failingFinal.sched = true := ⟨failing_accepted, failing_final⟩
example : Accepted failingProj sampleGts [] interruptedRecs interruptedFinal ∧
    finalB (natGraph sampleGts) interruptedFinal.sched = true := ⟨interrupted_accepted, interrupted_final⟩

/-- the projection of the complete run has 48 scheduler labels (16 tasks × start, finish, receive) -/
example : (labelsOf failingProj failingRecs).length = 48 := by decide

/-- (a): the test `a.t1` (skipped) and the teardown of `a` (run) were each started once -/
example : rowOf (schedOf failingProj failingFinal) ⟨.test, ["a", "t1"]⟩ =
    ⟨.completed, some .skipped, some .skip, false, some 24, some 25, 1⟩ := failing_row 3 _ _ (by decide) rfl
example : rowOf (schedOf failingProj failingFinal) ⟨.teardown, ["a"]⟩ =
    ⟨.completed, some .success, some .run, false, some 33, some 34, 1⟩ := failing_row 5 _ _ (by decide) rfl

/-- (b), (c): `a.t1` depends on `a.b.u1`, which FAILED (finished at 19): `a.t1` started later (24) and was skipped;
    `a.t2` depends on `a.t1` (finished at 25): started at 30, skipped -/
example : (⟨.test, ["a", "b", "u1"]⟩ : TaskId) ∈ (graphOf failingProj).succDeps ⟨.test, ["a", "t1"]⟩ := by decide
example : rowOf (schedOf failingProj failingFinal) ⟨.test, ["a", "b", "u1"]⟩ =
    ⟨.completed, some .failure, some .run, false, some 18, some 19, 1⟩ := failing_row 7 _ _ (by decide) rfl
example : rowOf (schedOf failingProj failingFinal) ⟨.test, ["a", "t2"]⟩ =
    ⟨.completed, some .skipped, some .skip, false, some 30, some 31, 1⟩ := failing_row 4 _ _ (by decide) rfl

/-- (c) end to end: the corollary applied to the real trace — whatever decision the state records for `a.t1`, it
    is `skip` (and by the row above one is recorded) -/
example (m : Mode) (hm : (schedOf failingProj failingFinal).mode ⟨.test, ["a", "t1"]⟩ = some m) : m = .skip :=
  accepted_task_with_failed_dependency_is_skipped failing_accepted _ m hm ⟨.test, ["a", "b", "u1"]⟩ (by decide)
    (by rw [show (schedOf failingProj failingFinal).result ⟨.test, ["a", "b", "u1"]⟩ = some .failure from
              congrArg Row.result (failing_row 7 _ _ (by decide) rfl)]
        decide)

/-- (d): the teardown of `a` started at 33, after the setup of `a` (finished at 10) and its tests (25, 31); `a` ended
    (start 39) after its teardown (34) and its sub-suites (27, 21); the session teardown started (45) after both
    top-level suites had ended (40, 42) -/
example : rowOf (schedOf failingProj failingFinal) ⟨.init, ["a"]⟩ =
    ⟨.completed, some .success, some .run, false, some 9, some 10, 1⟩ := failing_row 2 _ _ (by decide) rfl
example : rowOf (schedOf failingProj failingFinal) ⟨.end_, ["a"]⟩ =
    ⟨.completed, some .skipped, some .skip, false, some 39, some 40, 1⟩ := failing_row 11 _ _ (by decide) rfl
example : rowOf (schedOf failingProj failingFinal) ⟨.end_, ["a", "b"]⟩ =
    ⟨.completed, some .skipped, some .skip, false, some 26, some 27, 1⟩ := failing_row 8 _ _ (by decide) rfl
example : rowOf (schedOf failingProj failingFinal) ⟨.end_, ["a", "empty"]⟩ =
    ⟨.completed, some .success, some .run, false, some 20, some 21, 1⟩ := failing_row 10 _ _ (by decide) rfl
example : rowOf (schedOf failingProj failingFinal) ⟨.end_, ["c"]⟩ =
    ⟨.completed, some .skipped, some .skip, false, some 41, some 42, 1⟩ := failing_row 14 _ _ (by decide) rfl
example : rowOf (schedOf failingProj failingFinal) ⟨.sessTeardown, []⟩ =
    ⟨.completed, some .success, some .run, false, some 45, some 46, 1⟩ := failing_row 15 _ _ (by decide) rfl
example : hasInit failingProj ⟨["a"], (failingProj.suites.head!), false⟩ = true ∧ hasSessSetup failingProj = true := by
  decide

/-- (e): the prefix up to the `interrupt` record is accepted and aborted; the teardown of `a` and the test `a.b.u1`
    were still waiting then (`remaining`, not forced) … -/
example : Accepted failingProj sampleGts [] (interruptedPre ++ [.interrupt []]) interruptedMid ∧
    (schedOf failingProj interruptedMid).aborted = true :=
  ⟨interruptedMid_accepted, (schedOf_aborted _ _).trans interruptedMid_facts.2.1⟩
example : ((schedOf failingProj interruptedMid).phase ⟨.teardown, ["a"]⟩,
           (schedOf failingProj interruptedMid).forced ⟨.teardown, ["a"]⟩) = (.remaining, false) :=
  mid_row 5 _ _ (by decide) rfl
example : ((schedOf failingProj interruptedMid).phase ⟨.test, ["a", "b", "u1"]⟩,
           (schedOf failingProj interruptedMid).forced ⟨.test, ["a", "b", "u1"]⟩) = (.remaining, false) :=
  mid_row 7 _ _ (by decide) rfl
/-- … and in the final state of the interrupted run both are forced and skipped, in dependency order: `a.b.u1`
    (started 19) after the beginning of `a.b` (finished 13); the teardown of `a` (started 34) after the setup of
    `a` (11) and the tests `a.t1`, `a.t2` (26, 32) -/
example : rowOf (schedOf failingProj interruptedFinal) ⟨.test, ["a", "b", "u1"]⟩ =
    ⟨.completed, some .skipped, some .skip, true, some 19, some 20, 1⟩ := interrupted_row 7 _ _ (by decide) rfl
example : rowOf (schedOf failingProj interruptedFinal) ⟨.begin, ["a", "b"]⟩ =
    ⟨.completed, some .skipped, some .skip, false, some 12, some 13, 1⟩ := interrupted_row 6 _ _ (by decide) rfl
example : rowOf (schedOf failingProj interruptedFinal) ⟨.teardown, ["a"]⟩ =
    ⟨.completed, some .skipped, some .skip, true, some 34, some 35, 1⟩ := interrupted_row 5 _ _ (by decide) rfl
example : rowOf (schedOf failingProj interruptedFinal) ⟨.test, ["a", "t2"]⟩ =
    ⟨.completed, some .skipped, some .skip, true, some 31, some 32, 1⟩ := interrupted_row 4 _ _ (by decide) rfl

/-- (e) end to end: the corollary applied to the real interrupted trace — its `a₁` is `interruptedMid`, the teardown
    of `a` was waiting there, so the only decision ever recorded for it is `skip` -/
example (m : Mode) (hm : (schedOf failingProj interruptedFinal).mode ⟨.teardown, ["a"]⟩ = some m) : m = .skip := by
  obtain ⟨a₁, hacc, _, hall⟩ := accepted_after_interrupt_waiting_tasks_only_skipped
    (pre := interruptedPre) (post := interruptedPost) (d := []) interrupted_accepted
  have ha : a₁ = interruptedMid := hacc.2.2.symm.trans interruptedMid_accepted.2.2
  subst ha
  exact hall _ m (congrArg Prod.fst (mid_row 5 _ _ (by decide) rfl)) hm

end LccModel.C01Accept

/-
  C12, the `--grep` criterion of report-based selection: "a result is accepted iff SOME SINGLE grepable item
  (step description, log message, check description / details, url, attachment) matches the pattern", for
  every pattern of the modelled fragment of `re` (Model/Regex.lean), compiled as the code compiles it
  (`re.IGNORECASE | re.MULTILINE`).

  `Matches r l m rgt` (Lemmas/Regex.lean) is the declarative meaning of a pattern: `r` matches exactly `m`
  when the text before is `l.reverse` and the text after is `rgt`.
-/
import LccModel.Lemmas.Grep
import LccModel.Lemmas.RegexLines

namespace LccModel.C12
open LccModel.Filter LccModel.Regex

/-- The matcher of the model decides the declarative semantics: `pattern.search(text)` finds something iff
    the text splits into `pre ++ m ++ rest` with `m` matched by the pattern in that context. -/
theorem grep_search_iff (re : RE) (text : Str) :
    Regex.search re text = true ↔ ∃ pre m rest, text = pre ++ m ++ rest ∧ Matches re pre.reverse m rest :=
  search_iff re text

/-- **Per-item semantics.**  The grep criterion holds for a result iff one of its grepable items, on its
    own, contains a match: the match and its context (what `^ $ \A \Z \b` look at) lie inside that item. -/
theorem grep_iff_some_item (rf : ResultFilter) (steps : List Step) :
    rf.doGrep steps = true ↔
      ∀ re, rf.grep = some re →
        ∃ item ∈ grepables steps, ∃ pre m rest, item = pre ++ m ++ rest ∧ Matches re pre.reverse m rest := by
  unfold ResultFilter.doGrep
  cases h : rf.grep with
  | none => simp
  | some re =>
    simp only [List.any_eq_true, Option.some.injEq, forall_eq']
    constructor
    · rintro ⟨item, hi, hs⟩; exact ⟨item, hi, (search_iff re item).mp hs⟩
    · rintro ⟨item, hi, hs⟩; exact ⟨item, hi, (search_iff re item).mpr hs⟩

/-- Which items are grepable: the description of every step, then per log entry the message / the check
    description and its non-empty details / the attachment's file name and description / the url and its
    description, in report order. -/
theorem grepable_items (steps : List Step) (x : Str) :
    x ∈ grepables steps ↔ ∃ s ∈ steps, x = s.description ∨ ∃ l ∈ s.logs, x ∈ l.grepable := by
  simp only [grepables, List.mem_flatMap, List.mem_cons]

/-- A result without any grepable item is never accepted by `--grep`, whatever the pattern — also a
    pattern that matches the empty string (a single search over the joined items would say yes). -/
theorem grep_needs_an_item (rf : ResultFilter) (re : RE) (steps : List Step)
    (h : rf.grep = some re) (hs : grepables steps = []) : rf.doGrep steps = false := by
  simp [ResultFilter.doGrep, h, hs]

/-- An escaped word (`--grep "$(re.escape word)"`) is case-insensitive containment. -/
theorem grep_literal_is_containment (lit text : Str) :
    Regex.search (RE.ofLit lit) text = containsCI lit text :=
  searchFrom_ofLit none lit text

/-- The command line: `--grep X` with a non-empty `X` builds a result filter whose grep criterion is the
    compiled `X`; an empty `X` (falsy) builds none. -/
theorem cli_grep (c : Cli) (h : ¬ (c.enabled = true ∧ c.disabled = true)) :
    ∃ rf, makeResultFilter c = .ok rf ∧
      rf.grep = (match c.grep with | some g => if g = [] then none else some c.grepRe | none => none) := by
  have h' : (c.enabled && c.disabled) = false := by
    cases he : c.enabled <;> cases hd : c.disabled <;> simp_all
  refine ⟨_, by simp only [makeResultFilter, h', Bool.false_eq_true, ↓reduceIte]; rfl, ?_⟩
  simp only [Cli.grepNonEmpty]
  cases c.grep with
  | none => rfl
  | some g => cases g <;> simp

/-- `\A r` looks at the start of EACH item: an item qualifies iff `r` matches one of its prefixes. -/
theorem grep_string_start_anchor (r : RE) (item : Str) :
    Regex.search (.seq .bos r) item = true ↔ ∃ m rest, item = m ++ rest ∧ Matches r [] m rest := by
  rw [search_bos, show (none : Option Nat) = ([] : Str).head? from rfl, matchPrefix_iff]

/-- `r \Z` looks at the end of EACH item: an item qualifies iff `r` matches one of its suffixes. -/
theorem grep_string_end_anchor (r : RE) (item : Str) :
    Regex.search (.seq r .eos) item = true ↔ ∃ pre m, item = pre ++ m ∧ Matches r pre.reverse m [] :=
  search_eos_iff r item

/-! ### Why the items must not be joined

`grepables` of the three results below, and the pattern, are shortened versions of
`error\s+42` on `…no error` / `42 items…`, `^done\Z` on `done` / `cleaning up`, `[^a-z]42 ` on the same
pair: one search over `"\n".join(items)` disagrees with the per-item criterion in both directions. -/

/-- `r\s+4` matches across the boundary of the items `er` and `42`, but in neither of them. -/
theorem joined_search_accepts_too_much :
    let re : RE := .seq (.lit 114) (.seq (RE.plus (.set ⟨false, [.cat .space false]⟩)) (.lit 52))
    let items : List Str := [[101, 114], [52, 50]]
    Regex.search re (joinNL items) = true ∧ items.any (Regex.search re) = false := by decide

/-- `^ok\Z` matches the item `ok` but not the joined text `ok\nup`. -/
theorem joined_search_accepts_too_little :
    let re : RE := .seq .bol (.seq (RE.ofLit [111, 107]) .eos)
    let items : List Str := [[111, 107], [117, 112]]
    Regex.search re (joinNL items) = false ∧ items.any (Regex.search re) = true := by decide

/-- `[^a-z]4` matches across the boundary (the newline of the join is "not a letter"). -/
theorem joined_search_negated_class :
    let re : RE := .seq (.set ⟨true, [.range 97 122]⟩) (.lit 52)
    let items : List Str := [[101, 114], [52, 50]]
    Regex.search re (joinNL items) = true ∧ items.any (Regex.search re) = false := by decide

/-- A pattern that matches the empty string, a result without steps: joined yes, per item no. -/
theorem joined_search_empty_result :
    let re : RE := .star (.lit 97)
    Regex.search re (joinNL []) = true ∧ ([] : List Str).any (Regex.search re) = false := by decide

/-- A line-local pattern (no atom can consume a newline, no `\A`, `\Z`, `\B`: plain words, `^…`, `…$`, `\bword\b`,
    classes that exclude the newline) is found in a text iff it is found in one of the text's lines. -/
theorem line_local_search_is_per_line (re : RE) (text : Str) (h : re.lineLocal = true) :
    Regex.search re text = (lines text).any (Regex.search re) :=
  search_lines text h

/-- **Exactly where joining is harmless.**  For line-local patterns, on a result with at least one grepable item,
    the per-item criterion equals one search over the newline-joined items.  So every difference between the two
    readings needs a pattern outside this class (`joined_search_accepts_too_much`, `…_too_little`,
    `…_negated_class`) or a result without items (`joined_search_empty_result`) — the input classes the
    generators of `C12.report` aim at. -/
theorem joined_search_same_for_line_local (rf : ResultFilter) (re : RE) (steps : List Step)
    (hg : rf.grep = some re) (hl : re.lineLocal = true) (hi : grepables steps ≠ []) :
    rf.doGrep steps = Regex.search re (joinNL (grepables steps)) := by
  simp only [ResultFilter.doGrep, hg]
  exact (search_joinNL _ hl hi).symm

/-- Non-vacuity of the hypotheses above: `^ok$|\bup\b` is line-local, `r\s4`, `\Aok`, `[^a-z]4` are not. -/
example :
    (RE.alt (.seq .bol (.seq (RE.ofLit [111, 107]) .eol)) (.seq (.wordB false) (.seq (RE.ofLit [117, 112]) (.wordB false)))).lineLocal = true ∧
    (RE.seq (.lit 114) (.seq (.set ⟨false, [.cat .space false]⟩) (.lit 52))).lineLocal = false ∧
    (RE.seq .bos (RE.ofLit [111, 107])).lineLocal = false ∧
    (RE.seq (.set ⟨true, [.range 97 122]⟩) (.lit 52)).lineLocal = false := by decide

/-- Non-vacuity of `grep_iff_some_item` in both directions on a two-step result. -/
example :
    let rf : ResultFilter := { grep := some (.seq (.lit 114) (.seq (RE.plus (.set ⟨false, [.cat .space false]⟩)) (.lit 52))) }
    let s1 : Step := { description := [83], logs := [.log [101, 114], .log [52, 50]] }
    let s2 : Step := { description := [83], logs := [.log [101, 114, 32, 32, 52, 50]] }
    rf.doGrep [s1] = false ∧ rf.doGrep [s2] = true ∧ rf.doGrep [s1, s2] = true := by decide

end LccModel.C12

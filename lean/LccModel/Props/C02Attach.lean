/-
  C02 — "a test is reported passed only if no uncaught exception occurred in it": exceptions raised WHILE AN ATTACHMENT IS BEING
  PREPARED, before the attachment file exists.

  Input class (harness/run/gen.py): `with lcc.prepare_attachment(..)` blocks that write their file as their LAST statement and are left
  by an exception before that (`"write": "late"`), and `lcc.save_attachment_file` on a source that does not exist (the framework's own
  block around `shutil.copy`) — in test bodies, hooks, fixtures and `lcc.Thread`s.  The run model has no notion of the file: a block
  left by an exception fires nothing (`attachAbort`) and the exception leaves the unit around it, whether or not anything was written.
  The general theorems (`C02Run.passed_test_ran_its_body_to_completion`, `test_result_iff_failing_event`, for all scripts) cover the
  class; here is what is specific to it, for EVERY kind of exception:

  * `block_left_by_exception_reports_nothing`: in every session state, leaving a block by an exception fires no event and keeps the
    recorded failures — it is NOT the block that reports (or hides) the failure;
  * `exception_in_unwritten_block_fails_the_test` / `…_fails_the_setup` / `…_in_thread…`: a test (a setup_suite hook, an lcc.Thread
    of a test) whose block is left by an exception of any kind is not successful, and the acts after the block do not run.
-/
import LccModel.Lemmas.C02AttachSample

namespace LccModel.C02Attach
open LccModel.Report LccModel.Run LccModel.Session LccModel.Run.AttachSample

/-- Leaving a `prepare_attachment` block by an exception fires no event, in every session state and for every thread: whatever was
    fired before is still what was fired. -/
theorem block_left_by_exception_reports_nothing (s s' : St) (tid : Nat) (h : Session.step s tid .attachAbort = .ok s') :
    s'.fired = s.fired ∧ s'.failures = s.failures := by
  simp only [Session.step] at h
  split at h
  · cases h
  · injection h with h; subst h; exact ⟨rfl, rfl⟩

/-- Whatever the exception (plain, AbortTest / AbortSuite / AbortAllTests, the AbortTest of an interrupted API call, SystemExit, any
    other BaseException): raised inside a block before its file is written, it fails the test, and the body does not go on. -/
theorem exception_in_unwritten_block_fails_the_test (k : ExcKind) :
    (runTask (P k) Insts.empty 0 ⟨.test, ["s", "t"]⟩ true false [] none).res = .failure ∧
    bodyExited (runTask (P k) Insts.empty 0 ⟨.test, ["s", "t"]⟩ true false [] none) ["s", "t"] = false ∧
    (runTask (P k) Insts.empty 0 ⟨.test, ["s", "t"]⟩ true false [] none).err = none := by
  cases k <;> decide +kernel

/-- The same in a `setup_suite` hook (two blocks deep): the suite setup is failed. -/
theorem exception_in_unwritten_block_fails_the_setup (k : ExcKind) :
    (runTask (P k) Insts.empty 0 ⟨.init, ["s"]⟩ true false [] none).res = .failure ∧
    (runTask (P k) Insts.empty 0 ⟨.init, ["s"]⟩ true false [] none).err = none := by
  cases k <;> decide +kernel

/-- In an `lcc.Thread`: the thread ends there (its later acts do not run), the exception is logged as an error by `Thread.run` —
    the test is failed — for every kind but SystemExit (the regular, silent way of ending a thread); the body itself goes on. -/
theorem exception_in_unwritten_block_in_thread (k : ExcKind) :
    ((runTask (P k) Insts.empty 0 ⟨.test, ["s", "u"]⟩ true false [] none).res = .failure ↔ k ≠ .sysExit) ∧
    bodyExited (runTask (P k) Insts.empty 0 ⟨.test, ["s", "u"]⟩ true false [] none) ["s", "u"] = true ∧
    (runTask (P k) Insts.empty 0 ⟨.test, ["s", "u"]⟩ true false [] none).err = none := by
  cases k <;> decide +kernel

end LccModel.C02Attach

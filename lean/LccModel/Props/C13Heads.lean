/-
  C13, enclosing suites — the suites *around* the loaded tests are the declared ones, with their
  declared metadata.

  `C13.load_directory_exact` speaks of (path, test record) entries; the tags / properties / links /
  description a test *inherits* live in the heads of its enclosing suites.  The theorems below fix, for
  `load_suites_from_directory`, which head every suite of the loader's `suites` dict carries:
  * a module `x.py` that loads and is not hidden is entered under its own head — whether or not it is
    empty (a module holding only a `SUITE` dict is entered: `metadata_only_module_is_entered`);
  * merging the directory `x/` into it keeps that head and its tests (`attach_keeps_head`,
    `module_suite_keeps_its_head`), and adds the directory's suites after the module's own sub-suites;
  * a synthetic suite (description from the name, rank 0, no tags / properties / links) appears for
    exactly the directories without a module suite (`mergeDirs_heads`,
    `no_synthetic_suite_for_a_module_directory`).
  Definitions: `Model/LoaderHeads.lean`; helper lemmas: `Lemmas/LoaderHeads.lean`.
-/
import LccModel.Props.C13
import LccModel.Lemmas.LoaderHeads

namespace LccModel.C13Heads
open LccModel.Loader

/-! ## 1. `suite.add_suite(sub_suite)` on an existing suite touches neither its head nor its tests -/

theorem attach_keeps_head {s s' : Suite} {subs : List Suite} (h : attach s subs = .ok s') :
    s'.head = s.head ∧ s'.tests = s.tests :=
  attach_head_tests h

/-- … and the merged-in suites come after the suite's own sub-suites, unchanged. -/
theorem attach_appends_subs {s s' : Suite} {subs : List Suite} (h : attach s subs = .ok s') :
    s'.subs = s.subs ++ subs :=
  attach_subs h

/-! ## 2. The second loop (sub-directories): heads of the table -/

/-- After merging the directories `rs`, the table holds the heads it held before, in place, followed
    by a synthetic head for exactly those directories (in order) whose name is not the key of a
    module suite of the table. -/
theorem mergeDirs_heads (t t' : Table) (rs : List (String × Except LoadErr (List Suite)))
    (h : mergeDirs t rs = .ok t') :
    Table.heads t' = Table.heads t ++ synthHeads t rs :=
  mergeDirs_heads_aux rs t t' h

/-- Whatever the directories are: the suite of module `stem.py` is still there, under its head. -/
theorem module_suite_keeps_its_head (t t' : Table) (rs : List (String × Except LoadErr (List Suite)))
    (h : mergeDirs t rs = .ok t') (stem : String) (s : Suite) (hs : (Key.file stem, s) ∈ t) :
    ∃ s', (Key.file stem, s') ∈ t' ∧ s'.head = s.head := by
  have hm : (Key.file stem, s.head) ∈ Table.heads t' := by
    rw [mergeDirs_heads t t' rs h]
    exact List.mem_append_left _ (mem_heads.mpr ⟨s, hs, rfl⟩)
  exact mem_heads.mp hm

/-- A directory whose name is the key of a module suite gets no synthetic suite: every `Key.dir dn`
    entry of the result was in the table before the merge. -/
theorem no_synthetic_suite_for_a_module_directory (t t' : Table)
    (rs : List (String × Except LoadErr (List Suite))) (h : mergeDirs t rs = .ok t')
    (dn : String) (s : Suite) (hl : t.lookup (Key.file dn) = some s) :
    (∀ hd, (Key.dir dn, hd) ∉ synthHeads t rs) ∧
    (∀ s', (Key.dir dn, s') ∈ t' → ∃ s0, (Key.dir dn, s0) ∈ t ∧ s0.head = s'.head) := by
  have h1 : ∀ hd, (Key.dir dn, hd) ∉ synthHeads t rs := by
    intro hd hm
    obtain ⟨dn', hk, _, hn, _⟩ := synthHeads_mem hm
    injection hk with hk
    subst hk
    rw [hl] at hn; cases hn
  refine ⟨h1, ?_⟩
  intro s' hs'
  have hm : (Key.dir dn, s'.head) ∈ Table.heads t' := mem_heads.mpr ⟨s', hs', rfl⟩
  rw [mergeDirs_heads t t' rs h] at hm
  rcases List.mem_append.mp hm with hm | hm
  · exact mem_heads.mp hm
  · exact absurd hm (h1 _)

/-! ## 3. The first loop (module files): every visible module is entered, empty or not -/

/-- The table after the first loop holds, in order, one entry per module that is not hidden, under
    the head `load_suite_from_file` gave it.  There is no emptiness test. -/
theorem loadModTable_heads (ms : List Module) (t : Table) (h : loadModTable ms = .ok t) :
    Table.heads t = modHeads ms :=
  loadModTable_heads_aux ms t h

/-- A module declaring nothing but its `SUITE` dict is entered, with the dict's description, tags,
    properties, links and rank — although the suite is empty. -/
theorem metadata_only_module_is_entered (m : Module) (i : SuiteInfo)
    (ht : m.tests = []) (hc : m.classes = []) (hi : m.info = some i) (hb : m.broken = false)
    (hv : i.vis.visible = true) :
    loadModTable [m] = .ok [(Key.file m.stem, .mk (infoHead m i) [] [])] ∧
    (Suite.mk (infoHead m i) [] []).isEmpty = true ∧
    (infoHead m i).desc = getOr i.desc (descFromName (getOr i.name m.stem)) ∧
    (infoHead m i).md.tags = i.md.tags ∧ (infoHead m i).md.props = i.md.props ∧
    (infoHead m i).md.links = i.md.links ∧ (infoHead m i).rank = getOr i.rank m.autoRank ∧
    (infoHead m i).hidden = false := by
  refine ⟨?_, rfl, rfl, rfl, rfl, rfl, rfl, by simp [infoHead, hv]⟩
  simp [loadModTable, loadFile_metadata_only m i ht hc hi hb, Suite.hidden, Suite.head, infoHead, hv]

/-! ## 4. One directory level end to end -/

/-- Every top-level suite `load_suites_from_directory` returns carries the head of a visible module of
    the directory, or the synthetic head of a sub-directory that no visible module is named like. -/
theorem loadDir_top_heads (n : String) (mods : List Module) (dirs : List Dir) (ss : List Suite)
    (h : loadDir (.mk n mods dirs) = .ok ss) :
    ∀ s ∈ ss,
      (∃ m ∈ mods, ∃ s0, loadFile m = .ok s0 ∧ s0.hidden = false ∧ s.head = s0.head) ∨
      (∃ d ∈ dirs, s.head = (synthetic d.name).head ∧
        ∀ m ∈ mods, ∀ s0, loadFile m = .ok s0 → s0.hidden = false → m.stem ≠ d.name) := by
  intro s hs
  rw [loadDir] at h
  cases ht : loadModTable (sortMods mods) with
  | error e => simp [ht] at h
  | ok t =>
    cases hm : mergeDirs t (sortDirResults (loadDirList dirs)) with
    | error e => simp [ht, hm] at h
    | ok t' =>
      simp only [ht, hm, Except.ok.injEq] at h
      subst h
      have hs1 : s ∈ t'.map Prod.snd := by
        unfold finalSort at hs
        exact (List.mem_filter.mp (mem_sortBy.mp (mem_sortBy.mp hs))).1
      obtain ⟨⟨k, s1⟩, hp, rfl⟩ := List.mem_map.mp hs1
      have hh : (k, s1.head) ∈ Table.heads t' := mem_heads.mpr ⟨s1, hp, rfl⟩
      rw [mergeDirs_heads t t' _ hm, loadModTable_heads _ t ht] at hh
      rcases List.mem_append.mp hh with hh | hh
      · left
        simp only [modHeads, List.mem_filterMap] at hh
        obtain ⟨m, hmm, hm'⟩ := hh
        cases hf : loadFile m with
        | error e => simp [hf] at hm'
        | ok s0 =>
          simp only [hf] at hm'
          cases hh0 : s0.hidden
          · simp [hh0] at hm'
            exact ⟨m, mem_sortBy.mp hmm, s0, hf, hh0, hm'.2.symm⟩
          · simp [hh0] at hm'
      · right
        obtain ⟨dn, _, hhd, hn, hdn⟩ := synthHeads_mem hh
        rw [sortDirResults_loadDirList, List.map_map] at hdn
        obtain ⟨d, hd, rfl⟩ := List.mem_map.mp hdn
        refine ⟨d, mem_sortBy.mp hd, hhd, ?_⟩
        intro m hmm s0 hf hh0 hstem
        have : (Key.file m.stem, s0.head) ∈ Table.heads t := by
          rw [loadModTable_heads _ t ht]
          simp only [modHeads, List.mem_filterMap]
          exact ⟨m, mem_sortBy.mpr hmm, by simp [hf, hh0]⟩
        obtain ⟨s2, hs2, _⟩ := mem_heads.mp this
        exact lookup_none_not_mem _ t hn s2 (by simpa [hstem] using hs2)

/-- **The metadata-only module heads its directory.**  `api.py` holding only a `SUITE` dict next to the
    directory `api/`: the loader returns the directory's suites under *the module's* suite — its
    description, tags, properties, links and rank — and nothing else. -/
theorem metadata_only_module_heads_its_directory (n : String) (m : Module) (i : SuiteInfo)
    (subMods : List Module) (subDirs : List Dir) (ss : List Suite)
    (ht : m.tests = []) (hc : m.classes = []) (hi : m.info = some i) (hb : m.broken = false)
    (hv : i.vis.visible = true)
    (h : loadDir (.mk n [m] [.mk m.stem subMods subDirs]) = .ok ss) :
    ∃ subs, loadDir (.mk m.stem subMods subDirs) = .ok subs ∧
      ss = finalSort [.mk (infoHead m i) [] subs] ∧
      ∀ s ∈ ss, s = .mk (infoHead m i) [] subs ∧ s.head.md = i.md ∧
        s.head.desc = getOr i.desc (descFromName (getOr i.name m.stem)) := by
  rw [loadDir] at h
  have hs : sortMods [m] = [m] := rfl
  have hd : sortDirResults (loadDirList [Dir.mk m.stem subMods subDirs])
      = [(m.stem, loadDir (.mk m.stem subMods subDirs))] := rfl
  rw [hs, hd, (metadata_only_module_is_entered m i ht hc hi hb hv).1] at h
  cases hr : loadDir (.mk m.stem subMods subDirs) with
  | error e => simp [hr, mergeDirs] at h
  | ok subs =>
    simp only [hr, mergeDirs, List.lookup, beq_self_eq_true, attach] at h
    cases ha : addSuites [] subs with
    | error e => simp [ha] at h
    | ok ss' =>
      have := addSuites_ok_append subs [] ss' ha
      simp only [List.nil_append] at this
      subst this
      simp only [ha, Table.update, if_true, Except.ok.injEq, List.map_cons, List.map_nil] at h
      refine ⟨ss', rfl, h.symm, ?_⟩
      intro s hs
      rw [← h] at hs
      unfold finalSort at hs
      have := (List.mem_filter.mp (mem_sortBy.mp (mem_sortBy.mp hs))).1
      simp only [List.mem_singleton] at this
      subst this
      exact ⟨rfl, rfl, rfl⟩

/-! ## Kernel-evaluated instance: `api.py` = `SUITE` dict only, `api/users.py` with one test
  (`apiDir`, `topHeads`: `Lemmas/LoaderHeads.lean`) -/

/-- Exactly one top-level suite: `api`, described "The API", tagged `api`, with its property and link
    (the synthetic suite would read "Api", no tags). -/
example : topHeads (loadDir apiDir) =
    some [{ name := "api", desc := "The API", rank := 1,
            md := { tags := ["api"], props := [("layer", "http")], links := [("http://bt/1", some "BT-1")] } }] := by
  decide

example : C13.paths (loadDir apiDir) = some [["api", "users", "list_users"]] := by decide

example : (synthetic "api").head = { name := "api", desc := "Api", rank := 0 } := by decide

end LccModel.C13Heads

/-
  C06, last sentence — "… the attachment files the report references exist on disk with the written
  content": part (e) of the C06 theorems, in a file of its own because `AttachStore.Op` / `step` would
  clash with the session model's names opened in `Props/C06.lean`.

  Property theorems only (helper lemmas: `Lemmas/AttachStore.lean`; model M14c `Model/AttachStore.lean`).
-/
import LccModel.Lemmas.AttachStore

namespace LccModel.C06Store
open LccModel.AttachStore

/-! ## what an attachment file holds at the END of the run (M14c, `Model/AttachStore.lean`)

  "… the attachment files the report references exist on disk with the written content."  The content
  that was *written* is the content the source file had when `save_attachment_file` / `save_image_file`
  was called (or what `save_attachment_content` / the `prepare_attachment` body wrote).  The test goes
  on using its files afterwards: it rewrites the same scratch file for the next capture, appends to a
  log file it attached, truncates, replaces or deletes it, reaches it through a symbolic link.  The
  theorems quantify over EVERY history of such operations and attachment calls. -/


/-- **`attachment_keeps_attached_content`** — for every history accepted by the copying store and every
    `save_attachment_file(p)` call in it that returned (`ops = pre ++ save n p :: post`): at the end of the
    history the attachment file `n` holds the content the source `p` had at the moment of the call,
    whatever `post` does to `p` or to any other file (rewrite in place, append, truncate, replace, delete,
    attach again). -/
theorem attachment_keeps_attached_content {pre post : List Op} {n p : Nat} {s₁ s : FS}
    (h₁ : run .copy init pre = some s₁)
    (h : run .copy init (pre ++ Op.save n p :: post) = some s) (c : Content) (hc : srcContent s₁ p = some c) :
    attContent s n = some c := by
  rw [run_append, h₁] at h
  simp only [Option.bind_some, run] at h
  cases hs : step .copy s₁ (.save n p) with
  | none => rw [hs] at h; cases h
  | some r =>
    rw [hs] at h
    have hinv : Inv s := run_inv _ (run_inv _ inv_init (show run .copy init (pre ++ [Op.save n p]) = some r.1 by
      rw [run_append, h₁]; simp [run, hs])) h
    rw [hinv.snapOk]
    refine run_snap_stable post h ?_
    -- the call recorded the content of the source as it was then
    simp only [step] at hs
    simp only [srcContent] at hc
    split at hs
    · split at hs
      · rename_i hr; rw [hr] at hc; cases hc
      · rename_i i hr
        rw [hr] at hc; injection hc with hc; subst hc
        injection hs with hs; subst hs; simp
    · cases hs

/-- the same for content handed over directly (`save_attachment_content`, a `prepare_attachment` body) -/
theorem attachment_keeps_written_content {pre post : List Op} {n : Nat} {c : Content} {s : FS}
    (h : run .copy init (pre ++ Op.saveContent n c :: post) = some s) : attContent s n = some c := by
  rw [run_append] at h
  cases h₁ : run .copy init pre with
  | none => rw [h₁] at h; cases h
  | some s₁ =>
    rw [h₁] at h
    simp only [Option.bind_some, run] at h
    cases hs : step .copy s₁ (.saveContent n c) with
    | none => rw [hs] at h; cases h
    | some r =>
      rw [hs] at h
      have hinv : Inv s := run_inv _ (run_inv _ inv_init (show run .copy init (pre ++ [Op.saveContent n c]) = some r.1 by
        rw [run_append, h₁]; simp [run, hs])) h
      rw [hinv.snapOk]
      refine run_snap_stable post h ?_
      simp only [step] at hs
      split at hs
      · injection hs with hs; subst hs; simp
      · cases hs

/-- **`later_writes_do_not_change_attachments`** — the step-level fact behind it: in any state reachable
    by the copying store, an operation of the test on its own files (write in place, append, replace,
    unlink, symlink — through whatever path) leaves the content of EVERY stored attachment unchanged;
    an attachment call changes at most the attachment it stores. -/
theorem later_writes_do_not_change_attachments {ops : List Op} {s s' : FS} {op : Op} {o : Outcome}
    (hr : run .copy init ops = some s) (hs : step .copy s op = some (s', o)) (n : Nat)
    (hn : op.number ≠ some n) : attContent s' n = attContent s n := by
  have hinv := run_inv _ inv_init hr
  have hinv' := step_inv hinv hs
  rw [hinv'.snapOk, hinv.snapOk]
  -- the recorded content of attachment n is not touched by an operation that does not store n
  cases hsn : s.snap n with
  | some c => exact snap_stable hs hsn
  | none =>
    cases op with
    | write p c =>
      simp only [step] at hs; split at hs <;> (injection hs with hs; injection hs with hs _; subst hs; simpa [setData, setSrc, alloc] using hsn)
    | append p c =>
      simp only [step] at hs; split at hs <;> (injection hs with hs; injection hs with hs _; subst hs; simpa [setData, setSrc, alloc] using hsn)
    | replace p c =>
      simp only [step] at hs; injection hs with hs; injection hs with hs _; subst hs; simpa [setData, setSrc, alloc] using hsn
    | unlink p =>
      simp only [step] at hs
      split at hs
      · injection hs with hs; injection hs with hs _; subst hs; simpa using hsn
      · split at hs <;> (injection hs with hs; injection hs with hs _; subst hs; simpa [setSrc] using hsn)
    | symlink p q =>
      simp only [step] at hs
      split at hs
      · split at hs
        · cases hs
        · injection hs with hs; injection hs with hs _; subst hs; simpa using hsn
      · cases hs
    | save m p =>
      have hne : n ≠ m := fun e => hn (by simp [Op.number, e])
      simp only [step] at hs
      split at hs
      · split at hs
        · injection hs with hs; injection hs with hs _; subst hs; exact hsn
        · injection hs with hs; injection hs with hs _; subst hs; simp [hne, hsn]
      · cases hs
    | saveContent m c =>
      have hne : n ≠ m := fun e => hn (by simp [Op.number, e])
      simp only [step] at hs
      split at hs
      · injection hs with hs; injection hs with hs _; subst hs; simp [hne, hsn]
      · cases hs

/-- a `save_attachment_file` call on a missing source stores nothing (FileNotFoundError) -/
theorem save_of_missing_source_stores_nothing {mode : Mode} {s s' : FS} {n p : Nat}
    (h : step mode s (.save n p) = some (s', .missing)) : s' = s ∧ srcContent s p = none := by
  simp only [step] at h
  split at h
  · split at h
    · rename_i hr
      injection h with h; injection h with h _
      exact ⟨h.symm, by simp [srcContent, hr]⟩
    · cases mode <;> (injection h with h; injection h with _ h; cases h)
  · cases h

/-- **What the copy is for** (refutation of the variant that links the source into the report,
    `os.link`): the scratch file is attached, then rewritten in place for the next capture — the stored
    attachment now holds the LATER content, not the one that was attached. -/
theorem linked_attachment_follows_later_writes :
    ∃ ops s, run .link init ops = some s ∧ s.snap 1 = some [1] ∧ attContent s 1 = some [2] :=
  ⟨[.write 0 [1], .save 1 0, .write 0 [2]], _, rfl, by decide, by decide⟩

/-- non-vacuity: the same history (and a longer one: append, a second capture of the same scratch file,
    replace, unlink, a source reached through a symlink) on the copying store -/
example : (run .copy init [.write 0 [1], .save 1 0, .write 0 [2]]).map (fun s => (attContent s 1, srcContent s 0))
    = some (some [1], some [2]) := by decide
example : (run .copy init [.write 0 [1], .symlink 5 0, .save 1 5, .append 0 [2], .save 2 0, .write 5 [3], .save 3 5,
      .replace 0 [4], .unlink 0, .saveContent 4 [9], .save 5 0]).map
        (fun s => ([1, 2, 3, 4, 5].map (attContent s), srcContent s 5))
    = some ([some [1], some [1, 2], some [3], some [9], none], none) := by decide

end LccModel.C06Store

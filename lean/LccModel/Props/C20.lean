/-
  C20 — All views of a report agree on every test's outcome.

  Property theorems only (helper lemmas: `Lemmas/Views.lean`, `Lemmas/Writer.lean`).

  "The counts obtained by enumerating the tests of the report" are taken over `Writer.allTests r`
  (`Report.all_tests()`).  `RunProducible r` is the writer-reachability invariant `Writer.reportInv r`: every result
  is as `ReportWriter` leaves it (passed ⇒ every log successful, failed ⇒ some error log or failed check, finished ⇒
  all steps ended, skipped / disabled ⇒ no steps); `run_producible_of_fold` shows that every report aggregated from a
  stream obeying the stream discipline has it.
-/
import LccModel.Lemmas.Views
import LccModel.Lemmas.Replay

namespace LccModel.C20
open LccModel.Report LccModel.Writer LccModel.Views

/-- the writer-reachability invariant -/
abbrev RunProducible (r : Report) : Prop := reportInv r = true

/-- every report a `ReportWriter` aggregates from a stream that obeys the discipline of `Writer.eventOk` (end events
    address in-progress results whose steps ended, step starts address in-progress results) is `RunProducible`, and a
    finished test of it is `passed` iff all its logs are successful (C02.1 / `Writer.status_passed_iff`). -/
theorem run_producible_of_fold (es : List Event) (w' : WriterState)
    (h : runDisciplined (initState Report.empty) es = some (.ok w')) :
    fold es = .ok w'.report ∧ RunProducible w'.report :=
  let ⟨h1, h2, _⟩ := status_passed_iff es Report.empty w' reportInv_empty h
  ⟨h1, h2⟩

/-! ## JUnit -/

/-- Sentence 1: for every FINISHED test of a run-producible report, the JUnit `<testcase>` carries a `<failure>` or
    `<error>` child iff the test's status is failed, and a `<skipped>` child iff it is skipped.

    Full-strength statement (also for in-progress tests, status `None`) is false: `junit_in_progress_test_marked_failed`. -/
theorem junit_failed_iff (r : Report) (h : RunProducible r) (t : TestResult) (ht : t ∈ allTests r)
    (hfin : t.result.status ≠ none) :
    (hasFailureOrError (junitCase t) = true ↔ t.result.status = some .failed) ∧
    (hasSkipped (junitCase t) = true ↔ t.result.status = some .skipped) :=
  junit_marks t (allTests_inv r h t ht) hfin

/-- … and the JUnit file lists exactly the tests of `Report.all_tests()`, each once, in that order -/
theorem junit_lists_all_tests (r : Report) (jr : JReport) (h : junit r = .ok jr) :
    jr.suites.flatMap (fun s => s.cases) = (allTests r).map junitCase :=
  junit_cases r jr h

/-- Sentence 2 (JUnit part): the per-suite counters `tests`, `failures`, `skipped` are the counts over the suite's
    tests; and when all of them are finished, `failures` / `skipped` also count exactly the `<testcase>`s carrying a
    failure-or-error / skipped child. -/
theorem junit_suite_counters (p : Path) (s : SuiteResult) :
    (junitSuite p s).tests = s.tests.length ∧ (junitSuite p s).cases.length = s.tests.length ∧
    (junitSuite p s).failures = countStatus .failed s.tests ∧ (junitSuite p s).skipped = countStatus .skipped s.tests ∧
    ((∀ t ∈ s.tests, resultInv t.result = true ∧ t.result.status ≠ none) →
      (junitSuite p s).failures = ((junitSuite p s).cases.filter hasFailureOrError).length ∧
      (junitSuite p s).skipped = ((junitSuite p s).cases.filter hasSkipped).length) :=
  ⟨rfl, by simp [junitSuite], rfl, rfl, suite_counters_match_marks p s⟩

/-! ## statistics, message variables, console summary -/

/-- Sentence 2 (statistics): every number of `ReportStats.from_report` is the count over `Report.all_tests()` -/
theorem stats_counts (r : Report) :
    (statsOf r).total = (allTests r).length ∧
    (statsOf r).passed = countStatus .passed (allTests r) ∧ (statsOf r).failed = countStatus .failed (allTests r) ∧
    (statsOf r).skipped = countStatus .skipped (allTests r) ∧ (statsOf r).disabled = countStatus .disabled (allTests r) ∧
    (statsOf r).enabled = countStatus .passed (allTests r) + countStatus .failed (allTests r) + countStatus .skipped (allTests r) := by
  obtain ⟨h1, h2, h3, h4, h5⟩ := stats_eq_enumeration r
  exact ⟨h1, h2, h3, h4, h5, by simp [Stats.enabled, h2, h3, h4]⟩

/-- Sentence 2 (message-template variables): whenever `build_message` does not raise, its integer variables are those
    counts.  (It raises on a report without start or end time: `message_vars_unfinished_report_raises`.) -/
theorem message_vars (r : Report) (vs : List (String × Nat)) (h : messageVars r = .ok vs) :
    vs = [("total", (allTests r).length),
          ("enabled", countStatus .passed (allTests r) + countStatus .failed (allTests r) + countStatus .skipped (allTests r)),
          ("passed", countStatus .passed (allTests r)), ("failed", countStatus .failed (allTests r)),
          ("skipped", countStatus .skipped (allTests r)), ("disabled", countStatus .disabled (allTests r))] := by
  obtain ⟨h1, h2, h3, h4, h5, h6⟩ := stats_counts r
  unfold messageVars at h
  split at h
  · cases h
  · cases h
    simp only [h1, h2, h3, h4, h5, h6]

/-- Sentence 2 (console summary): Tests / Successes / Failures are those counts; Skipped and Disabled are printed
    exactly when non-zero, with those counts -/
theorem console_summary (r : Report) :
    (consoleSummary r).tests = (allTests r).length ∧ (consoleSummary r).successes = countStatus .passed (allTests r) ∧
    (consoleSummary r).failures = countStatus .failed (allTests r) ∧
    (consoleSummary r).skipped = nonZero (countStatus .skipped (allTests r)) ∧
    (consoleSummary r).disabled = nonZero (countStatus .disabled (allTests r)) := by
  obtain ⟨h1, h2, h3, h4, h5, _⟩ := stats_counts r
  simp [consoleSummary, h1, h2, h3, h4, h5]

/-- the JUnit root attributes come from the same statistics (`tests` = PASSED tests, as the code has it) -/
theorem junit_root_counters (r : Report) (jr : JReport) (h : junit r = .ok jr) :
    jr.tests = countStatus .passed (allTests r) ∧ jr.failures = countStatus .failed (allTests r) := by
  obtain ⟨_, h2, h3, _⟩ := stats_counts r
  unfold junit at h
  simp only at h
  split at h
  · cases h
  · cases h; exact ⟨h2, h3⟩

/-! ## `lcc diff` -/

/-- Sentence 3: `compute_diff` classifies every test of the two lists exactly once — report 1's tests are, with
    multiplicity, the removed ones plus the left components of the status-changed and unchanged pairs; report 2's tests
    the added ones plus the right components; a pair has equal paths, and differs in status iff it is status-changed. -/
theorem diff_partition (l1 l2 : List DTest) :
    l1.Perm ((computeDiff l1 l2).removed ++ (computeDiff l1 l2).changed.map Prod.fst ++ (computeDiff l1 l2).unchanged.map Prod.fst) ∧
    l2.Perm ((computeDiff l1 l2).added ++ (computeDiff l1 l2).changed.map Prod.snd ++ (computeDiff l1 l2).unchanged.map Prod.snd) ∧
    (∀ ab ∈ (computeDiff l1 l2).changed, ab.1.path = ab.2.path ∧ ab.1.status ≠ ab.2.status) ∧
    (∀ ab ∈ (computeDiff l1 l2).unchanged, ab.1.path = ab.2.path ∧ ab.1.status = ab.2.status) :=
  diff_partition_perm l1 l2

/-- … and, when paths are unique within each report, "added" means the path is absent from report 1 and "removed" that
    it is absent from report 2, so no path is in two classes -/
theorem diff_classes_disjoint (l1 l2 : List DTest) (h1 : (l1.map DTest.path).Nodup) (h2 : (l2.map DTest.path).Nodup) :
    (∀ t ∈ (computeDiff l1 l2).added, ∀ t1 ∈ l1, t1.path ≠ t.path) ∧
    (∀ t ∈ (computeDiff l1 l2).removed, ∀ t2 ∈ l2, t2.path ≠ t.path) :=
  ⟨added_is_new l1 l2 h2, removed_is_gone l1 l2 h1⟩

/-- Sentence 4: the diff of a report with itself is empty -/
theorem diff_self_empty (r : Report) : (computeDiff (diffTests r) (diffTests r)).isEmpty = true := by
  obtain ⟨h1, h2, h3⟩ := diff_self (diffTests r)
  simp [Diff.isEmpty, h1, h2, h3]

/-! ### non-vacuity -/

def md (name : String) : Meta := { name := name, description := "", tags := [], properties := [], links := [], rank := 0 }

def failing : Step :=
  { description := "s", startTime := some 2, endTime := some 4, entries := [.log .info "ok" 3, .check "c" false none 3] }

def sample : Report :=
  { Report.empty with
      startTime := some 1, endTime := some 9,
      suites := [.mk (md "s") (some 1) (some 8) none none
        [{ md := md "a", result := { steps := [failing], startTime := some 2, endTime := some 5, status := some .failed, statusDetails := none } },
         { md := md "b", result := { steps := [], startTime := some 6, endTime := some 6, status := some .skipped, statusDetails := some "x" } },
         { md := md "c", result := { steps := [{ failing with entries := [.url "u" "http://x" 3] }], startTime := some 6, endTime := some 7,
                                     status := some .passed, statusDetails := none } }] []] }

example : RunProducible sample := by decide

/-- the replayed stream of `sample` obeys the discipline: `run_producible_of_fold` is not vacuous -/
example : (runDisciplined (initState Report.empty) (Replay.replay 99 1 sample)).isSome = true := by decide

example : (statsOf sample).total = 3 ∧ (statsOf sample).failed = 1 ∧ (statsOf sample).skipped = 1 ∧ (statsOf sample).passed = 1 := by
  decide

/-! ### refutations -/

def inProgressResult : Result :=
  { steps := [{ failing with endTime := none }], startTime := some 2, endTime := none, status := none, statusDetails := none }

def inProgress : TestResult := { md := md "t", result := inProgressResult }

/-- D7 (`C20/junit/in-progress-test-marked-failed`): an in-progress test (status `None`, as the writer leaves it) with
    a failed check gets a `<failure>` element, although its status is not failed — and the suite's `failures`
    counter (0) disagrees with the number of `<testcase>`s carrying a failure mark (1). -/
theorem junit_in_progress_test_marked_failed :
    resultInv inProgress.result = true ∧ hasFailureOrError (junitCase inProgress) = true ∧ inProgress.result.status ≠ some .failed ∧
    (junitSuite ["s"] (.mk (md "s") (some 1) none none none [inProgress] [])).failures = 0 := by decide

/-- `C20/message/unfinished-report-raises`: `Report.build_message` raises on a report without end time -/
theorem message_vars_unfinished_report_raises :
    (match messageVars { sample with endTime := none } with
     | .error .noneTime => true
     | _ => false) = true ∧
    (match messageVars sample with
     | .ok _ => true
     | _ => false) = true := by decide

/-- a path collision (a `.` inside a name) makes two different tests of ONE report look like the same test to
    `compute_diff`; the partition theorem still holds, the disjointness theorem needs `Nodup` paths -/
example : pathStr ["a.b", "c"] = pathStr ["a", "b.c"] := by decide

end LccModel.C20

/-
  C17 — A check's description says what was actually verified: the EXPECTED VALUES the sentence is written from.

  Property theorems only (model: `Model/Matcher.lean` — `Val.nan`, `pyEq`, `matchOf`, `describe` — and `Model/MatcherXVal.lean` —
  `XVal`, `jsonifyE`, `describeLeafX`, `equalToShortcut`; helper lemmas: `Lemmas/MatcherXVal.lean`).

  1. Values that are not equal to themselves (float NaN).  The model has ONE NaN value and no object identity: `equal_to(nan)` is
     the same matcher whichever NaN object it is built on (`math.nan`, `float("nan")`, `json.loads("NaN")`, `inf - inf`) and
     whichever object it is applied to; the theorems say what that matcher is.  The stream `C17.inject` holds the real code to it
     with the OBJECTS the matchers of a pool were built on as actual values (identity domain).
  2. Expected values of classes `json.dumps` cannot write (`XVal.foreign`): no sentence at all (the real `jsonify` raises), so no
     sentence shared with another matcher; every sentence that IS produced is the sentence of a modelled value.
-/
import LccModel.Lemmas.MatcherXVal
import LccModel.Props.C17

namespace LccModel.C17Values
open LccModel.Matcher LccModel.C17

/-! ## 1. NaN: a value that is not equal to itself -/

/-- a NaN is `==` to nothing, itself included, from either side -/
theorem nan_equals_nothing (v : Val) : pyEq .nan v = false ∧ pyEq v .nan = false :=
  ⟨pyEq_nan_left v, pyEq_nan_right v⟩

/-- `equal_to(nan)` — recorded as "to be equal to NaN" — accepts NO value: not a NaN from another source, not the very value it
    was built on (a `Val` has no identity: "the same object" is the same `Val`) -/
theorem equal_to_nan_accepts_nothing (v : Val) : matchOf (.equalTo .nan) v = .ok ⟨false, got v⟩ := by
  simp [matchOf, pyEq_nan_right]

/-- negation in the wording follows negation in the logic: `not_(equal_to(nan))` ("to not be equal to NaN") and
    `not_equal_to(nan)` accept EVERY value, the NaN it was built on included -/
theorem not_equal_to_nan_accepts_everything (v : Val) :
    matchOf (.not (.equalTo .nan)) v = .ok ⟨true, got v⟩ ∧ matchOf (.cmp .ne .nan) v = .ok ⟨true, got v⟩ := by
  simp [matchOf, pyEq_nan_right]

/-- the sentence of `equal_to(nan)` under every transformer: the JSON spelling `NaN`, whatever the source of the object (the
    model has one NaN) -/
theorem nan_sentence (t : Tr) : describe (.equalTo .nan) t = t.apply c!"to be equal to NaN" := by
  simp [describe, jsonify]

/-- … which is not the sentence of `equal_to("NaN")` (the string is written between quotes), under any transformer state -/
theorem nan_sentence_differs_from_string :
    ∀ t ∈ [Tr.plain, Tr.conj, Tr.plain.neg, Tr.conj.neg],
      describe (.equalTo .nan) t ≠ describe (.equalTo (.str c!"NaN")) t := by decide

/-- no ordering holds with a NaN expected value: `greater_than(nan)`, `less_than_or_equal_to(nan)` … never accept -/
theorem nan_ordering_never_accepts (o : Ord) (v : Val) : okE (.cmp (.ord o) .nan) v ≠ .ok true := by
  cases v <;> simp [okE, matchOf, pyCmp, Val.ty] <;> split <;> simp_all

/-- a list with a NaN inside is not `==` to the list of the same values made of other objects: `equal_to([…, nan, …])` accepts
    no list built independently (the identity-free reading; what the real code does when ONE NaN object sits in both lists is the
    open finding D46, oracle signature `C17/nan-inside-container-identity-shortcut`) -/
theorem list_with_nan_not_equal_to_its_copy (pre post : List Val) :
    pyEq (.list (pre ++ Val.nan :: post)) (.list (pre ++ Val.nan :: post)) = false := by
  simp [pyEq, pyEqList_nan_irreflexive]

/-- an identity shortcut in `EqualTo.matches` is invisible when the actual value is another object … -/
theorem shortcut_invisible_on_other_objects (e v : Val) : equalToShortcut false e v = pyEq v e := by
  simp [equalToShortcut]

/-- … and, when the actual value IS the expected object, correct exactly for the values that are equal to themselves -/
theorem shortcut_correct_iff_self_equal (e : Val) : equalToShortcut true e e = pyEq e e ↔ pyEq e e = true := by
  unfold equalToShortcut
  cases pyEq e e <;> simp

/-- refutation (non-vacuity of the statements above): with the shortcut `equal_to(nan)` accepts the object it was built on, so two
    matchers with the ONE sentence "to be equal to NaN" accept different values -/
theorem shortcut_refuted_by_nan :
    equalToShortcut true .nan .nan = true ∧ equalToShortcut false .nan .nan = false ∧
    describe (.equalTo .nan) Tr.plain = describe (.equalTo .nan) Tr.plain := by decide

/-! ## 2. Expected values `json.dumps` cannot write -/

/-- `jsonify` on any expected value: the rendering of the modelled value it is, `TypeError` if a foreign object occurs in it -/
theorem jsonify_total_reading (x : XVal) : jsonifyE x =
    match x.toVal? with
    | some v => .ok (jsonify v)
    | none => .error .typeError := jsonifyE_eq x

/-- an expected value with a foreign object anywhere inside gives NO sentence (for `equal_to` and every comparator, under every
    transformer): nothing is said, so nothing is said that another matcher says too -/
theorem foreign_expected_value_has_no_sentence (op : Option Cmp) (x : XVal) (t : Tr) (h : x.toVal? = none) :
    describeLeafX op x t = .error .typeError := by
  simp [describeLeafX, jsonifyE_eq, h]

/-- every sentence that IS produced for an expected value is the sentence the model gives to the modelled value it is: the
    statements about `describe` (injectivity on the universe, negation, clauses) cover every sentence the code can record -/
theorem sentence_only_for_modelled_values (op : Option Cmp) (x : XVal) (t : Tr) (s : Str)
    (h : describeLeafX op x t = .ok s) : ∃ v, x.toVal? = some v ∧ s = describe (leafOf op v) t := by
  unfold describeLeafX at h
  rw [jsonifyE_eq] at h
  cases hx : x.toVal? with
  | none => simp [hx] at h
  | some v =>
    refine ⟨v, rfl, ?_⟩
    simp [hx] at h
    cases op <;> simp [leafOf, leafWords, describe, ← h]

/-- a modelled value is described as `Model/Matcher.lean` says -/
theorem plain_expected_value (op : Option Cmp) (v : Val) (t : Tr) :
    describeLeafX op (.plain v) t = .ok (describe (leafOf op v) t) := by
  cases op <;> simp [describeLeafX, jsonifyE, leafOf, leafWords, describe]

/-- refutation (why raising is the faithful behaviour): writing a foreign object as its `str()` text (`default=str`) gives
    `equal_to(date(2020, 1, 2))` the sentence of `equal_to("2020-01-02")` — and the date is not that string (it is no modelled
    value at all) -/
theorem default_str_forges_sentence :
    describeLeafXDefaultStr none (.foreign 0 c!"2020-01-02") Tr.plain = describe (.equalTo (.str c!"2020-01-02")) Tr.plain ∧
    describeLeafXDefaultStr none (.list [.foreign 0 c!"2020-01-02"]) Tr.plain =
      describe (.equalTo (.list [.str c!"2020-01-02"])) Tr.plain ∧
    (XVal.foreign 0 c!"2020-01-02").toVal? = none := by decide

/-! ## 3. Open finding D45 (found by the fourth-round red team on the unchanged tree) -/

/-- D45 (open finding, outside `universe2`: needs `hide_result_details()`): a composite child behind a `MatcherWrapper` is written
    on its parent's line, so `any_of(a, all_of(b, c).hide_result_details())` and `all_of(any_of(a, b).hide_result_details(), c)`
    are both "a or b and c" — and accept different values (`1` is accepted only by the former). -/
theorem faithful_refuted_wrapped_composite_on_one_line :
    (describeSt false (.anyOf [.equalTo (.int 1), .hidden (.allOf [.cmp (.ord .gt) (.int 0), .isNone])]) Tr.plain).1 =
      (describeSt false (.allOf [.hidden (.anyOf [.equalTo (.int 1), .cmp (.ord .gt) (.int 0)]), .isNone]) Tr.plain).1 ∧
    accepts (.anyOf [.equalTo (.int 1), .hidden (.allOf [.cmp (.ord .gt) (.int 0), .isNone])]) (.int 1) ≠
      accepts (.allOf [.hidden (.anyOf [.equalTo (.int 1), .cmp (.ord .gt) (.int 0)]), .isNone]) (.int 1) := by decide

example : (XVal.dict [.str c!"r"] [.list [.plain (.int 1), .foreign 3 c!"x"]]).toVal? = none := by decide
example : jsonifyE (.list [.plain .nan, .dict [.str c!"r"] [.plain (.int 1)]]) = .ok c!"[NaN, {\"r\": 1}]" := by decide

end LccModel.C17Values

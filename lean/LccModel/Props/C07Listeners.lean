/-
  C07 — "EVERY reporting backend receives …": the stream a backend receives is the fired stream restricted to the events it
  has a handler for — whatever other listeners are registered, of whatever class, before or after it, in this event manager
  or (the model has no state outside the event manager) in an earlier run of the same process.

  Model: `Model/Listeners.lean` (`add_listener` looks the handlers up on the OBJECT it is given).  Tie to the code: every
  run-level run registers, besides the recording backend, several listeners OF ONE CLASS whose `on_<event>` handlers are set
  per instance (different subsets, the less complete first); the C07 oracle compares what each received with the fired
  stream (`C07/listener/…`), and the run-level checks execute many runs in one process.
-/
import LccModel.Lemmas.Listeners

namespace LccModel.C07Listeners
open LccModel.Listeners

/-- For every set of registered event names, every list of listeners (distinct objects; ANY classes — equal or not —, ANY
    per-object handler sets) added in any order, every member `l` of it and every fired stream: `l` receives exactly the
    fired events it has a handler for, each once, in fired order. -/
theorem every_listener_receives_what_it_handles (types : List String) (hn : types.Nodup) (ls : List Listener)
    (hid : ls.Pairwise (fun a b => a.id ≠ b.id)) (l : Listener) (hl : l ∈ ls)
    (fired : List (Nat × String)) (hf : ∀ e ∈ fired, e.2 ∈ types) :
    received (addAll (EM.init types) ls) l.id fired = fired.filter (fun e => l.handles e.2) := by
  unfold received
  apply flatMap_copies_eq_filter (α := Nat × String)
    (fun (e : Nat × String) => (dispatch (addAll (EM.init types) ls) e.2).filter (fun j => j == l.id))
    (fun e => l.handles e.2) fired
  intro e he
  rw [dispatch_addAll]
  rw [calls_of_listener (fun l' => (types.filter l'.handles).filter (fun n => n == e.2)) ls hid l hl]
  rw [count_name types hn l e.2]
  simp [hf e he]

/-- … in particular what a listener receives does not depend on the OTHER listeners at all: same handlers, same stream,
    whether it is added alone or after any number of less (or more) complete listeners of its own class -/
theorem received_independent_of_other_listeners (types : List String) (hn : types.Nodup) (ls : List Listener)
    (hid : ls.Pairwise (fun a b => a.id ≠ b.id)) (l : Listener) (hl : l ∈ ls)
    (fired : List (Nat × String)) (hf : ∀ e ∈ fired, e.2 ∈ types) :
    received (addAll (EM.init types) ls) l.id fired = received (addAll (EM.init types) [l]) l.id fired := by
  rw [every_listener_receives_what_it_handles types hn ls hid l hl fired hf,
      every_listener_receives_what_it_handles types hn [l] (List.pairwise_singleton _ _) l (List.mem_singleton.mpr rfl) fired hf]

/-- handlers are called in the order the listeners were added (the report writer first, then the backends) -/
theorem dispatch_in_registration_order (types : List String) (ls : List Listener) (name : String) :
    dispatch (addAll (EM.init types) ls) name =
      ls.flatMap (fun l => ((types.filter l.handles).filter (fun n => n == name)).map (fun _ => l.id)) :=
  dispatch_addAll types ls name

/-! ### non-vacuity, and what looking the handlers up on the object is for

  Two sessions of ONE class (7): the first (id 1) only has `on_test_start`, the second (id 2) has handlers for starts and
  ends.  Stream: start, end, start, end. -/
private def starts : Listener := ⟨1, 7, fun n => n == "test_start"⟩
private def full : Listener := ⟨2, 7, fun n => n == "test_start" || n == "test_end"⟩
private def stream : List (Nat × String) := [(0, "test_start"), (1, "test_end"), (2, "test_start"), (3, "test_end")]

example : received (addAll (EM.init ["test_start", "test_end"]) [starts, full]) 2 stream = stream ∧
    received (addAll (EM.init ["test_start", "test_end"]) [starts, full]) 1 stream = [(0, "test_start"), (2, "test_start")] := by
  decide

/-- Refutation of the variant that remembers the handled event names PER CLASS (from the first instance of the class
    ever added — the memo outlives the event manager): the complete session added after the partial one never receives
    an end, i.e. "a start without its end"; and the memo left by one run starves the listeners of the next run. -/
theorem per_class_memo_starves_later_instances :
    received (addAllMemo [] (EM.init ["test_start", "test_end"]) [starts, full]).2 2 stream
      = [(0, "test_start"), (2, "test_start")] ∧
    received (addAllMemo (addAllMemo [] (EM.init ["test_start", "test_end"]) [starts]).1
                (EM.init ["test_start", "test_end"]) [full]).2 2 stream
      = [(0, "test_start"), (2, "test_start")] := by
  decide

end LccModel.C07Listeners

/-
  C02, CLI part — "The run as a whole is reported successful (return value of the run, report success
  flag, and EXIT CODE under --exit-error-on-failure) if and only if every test and every setup/teardown
  phase is passed or disabled."

  Model: `Model/ExitCode.lean` (`Report.is_successful`, the exit code of `run_suites_from_project`,
  `get_nb_threads`).  Every theorem quantifies over ALL reports (any tree, any statuses, finished or not).
  "Every test" = `rawTests r`, "every setup/teardown phase" = `rawPhases r`: the results as they are stored
  in the report tree (`rawResults`), not the view through the sorted accessors the code iterates over
  (`Lemmas/ExitCode.lean: allResults_perm` ties the two).
-/
import LccModel.Lemmas.ExitCode

namespace LccModel.C02Exit
open LccModel.Report LccModel.Writer LccModel.ExitCode

/-- **The report success flag**: `report.is_successful()` is true exactly when every result stored in the
    report — tests and setup / teardown phases alike — is passed or disabled. -/
theorem successful_iff_all_items_fine (r : Report) :
    reportSuccessful r = true ↔ ∀ a ∈ rawResults r, Fine a.result.status := by
  unfold reportSuccessful Fine
  rw [List.all_eq_true]
  constructor
  · intro h a ha; exact (statusOk_iff _).mp (h a ((mem_allResults r a).mpr ha))
  · intro h a ha; exact (statusOk_iff _).mpr (h a ((mem_allResults r a).mp ha))

/-- … split into the two kinds of items the property names: every test, and every setup / teardown phase
    (session setup / teardown, suite setup / teardown). -/
theorem successful_iff_tests_and_phases_fine (r : Report) :
    reportSuccessful r = true ↔
      (∀ t ∈ rawTests r, Fine t.result.status) ∧ (∀ p ∈ rawPhases r, Fine p.status) := by
  rw [successful_iff_all_items_fine]
  constructor
  · intro h
    exact ⟨fun t ht => h (.test t) ((mem_rawTests r t).mp ht), fun p hp => h (.phase p) ((mem_rawPhases r p).mp hp)⟩
  · rintro ⟨h1, h2⟩ a ha
    cases a with
    | test t => exact h1 t ((mem_rawTests r t).mpr ha)
    | phase p => exact h2 p ((mem_rawPhases r p).mpr ha)

/-- **The flag is false exactly when some item is failed, skipped or unfinished** (its status is neither
    passed nor disabled): one failed teardown phase is enough, whatever the tests say. -/
theorem successful_iff_no_failed_item (r : Report) :
    reportSuccessful r = false ↔ ∃ a ∈ rawResults r, ¬ Fine a.result.status := by
  constructor
  · intro h
    apply Classical.byContradiction
    intro hn
    have : reportSuccessful r = true := (successful_iff_all_items_fine r).mpr (by
      intro a ha
      apply Classical.byContradiction
      intro hna
      exact hn ⟨a, ha, hna⟩)
    rw [this] at h; cases h
  · rintro ⟨a, ha, hna⟩
    cases hs : reportSuccessful r with
    | false => rfl
    | true => exact absurd ((successful_iff_all_items_fine r).mp hs a ha) hna

/-- **The flag has no memory.**  A reporting backend may walk the report in the middle of the run (the junit backend computes
    the statistics of the whole report each time a saving strategy — at_each_test, at_each_log, every_Ns — makes it save;
    every file backend serializes it): whatever the flag said about the report as it was THEN (`rMid`, all fine so far),
    a result that is in the report at the END (`rFinal`) and is failed, skipped or unfinished makes the final flag false
    and the exit code 1 — wherever it was added (a test of an existing suite, a suite teardown, a sub-suite). -/
theorem later_failure_is_seen (rMid rFinal : Report) (_hmid : reportSuccessful rMid = true)
    (a : AnyResult) (ha : a ∈ rawResults rFinal) (hbad : ¬ Fine a.result.status) :
    reportSuccessful rFinal = false ∧ exitCode true rFinal = 1 := by
  have h : reportSuccessful rFinal = false := (successful_iff_no_failed_item rFinal).mpr ⟨a, ha, hbad⟩
  exact ⟨h, by simp [exitCode, h]⟩

/-- **The exit code under `--exit-error-on-failure`** is 0 exactly when every test and every setup /
    teardown phase is passed or disabled. -/
theorem exit_code_zero_iff (r : Report) :
    exitCode true r = 0 ↔
      (∀ t ∈ rawTests r, Fine t.result.status) ∧ (∀ p ∈ rawPhases r, Fine p.status) := by
  rw [← successful_iff_tests_and_phases_fine]
  unfold exitCode
  cases reportSuccessful r <;> simp

/-- … and it is 1 otherwise (never anything else). -/
theorem exit_code_one_iff (r : Report) :
    exitCode true r = 1 ↔ ∃ a ∈ rawResults r, ¬ Fine a.result.status := by
  rw [← successful_iff_no_failed_item]
  unfold exitCode
  cases reportSuccessful r <;> simp

/-- Without the option the exit code is 0 whatever the report says. -/
theorem exit_code_without_flag (r : Report) : exitCode false r = 0 := rfl

/-- The exit code and the success flag never disagree. -/
theorem exit_code_agrees_with_flag (r : Report) : (exitCode true r = 0) ↔ reportSuccessful r = true := by
  unfold exitCode
  cases reportSuccessful r <;> simp

/-- **A failure located only in a teardown (or setup) phase is a failure of the run**: if some phase
    stored in the report is failed, the exit code under the option is 1 — even when every test passed. -/
theorem failed_phase_gives_exit_one (r : Report) (p : Result) (hp : p ∈ rawPhases r)
    (hf : p.status = some .failed) : exitCode true r = 1 ∧ reportSuccessful r = false := by
  have hex : ∃ a ∈ rawResults r, ¬ Fine a.result.status :=
    ⟨.phase p, (mem_rawPhases r p).mp hp, by
      show ¬ (p.status = some .passed ∨ p.status = some .disabled)
      rw [hf]; simp⟩
  exact ⟨(exit_code_one_iff r).mpr hex, (successful_iff_no_failed_item r).mpr hex⟩

/-- `get_nb_threads`: whatever `--threads`, `$LCC_THREADS` and `project.threaded` are, a resolved worker
    count is at least 1, and more than 1 only for a project that supports threads. -/
theorem resolved_threads_valid (cli : Option Int) (env : Option (Option Int)) (threaded : Bool) (n : Nat)
    (h : resolveThreads cli env threaded = .ok n) : 1 ≤ n ∧ (1 < n → threaded = true) := by
  have h1 : ∀ i : Int, 1 ≤ atLeastOne i := by
    intro i; unfold atLeastOne; split <;> omega
  unfold resolveThreads at h
  cases cli with
  | some c =>
    simp only at h
    split at h
    · cases h
    · rename_i hg; injection h with h; subst h
      refine ⟨h1 c, fun hlt => ?_⟩
      cases threaded with
      | true => rfl
      | false => simp at hg; omega
  | none =>
    cases env with
    | none =>
      simp only at h
      split at h
      · cases h
      · injection h with h; subst h; exact ⟨Nat.le_refl 1, fun hlt => absurd hlt (by omega)⟩
    | some e =>
      cases e with
      | none => simp at h
      | some e =>
        simp only at h
        split at h
        · cases h
        · rename_i hg; injection h with h; subst h
          refine ⟨h1 e, fun hlt => ?_⟩
          cases threaded with
          | true => rfl
          | false => simp at hg; omega

/-- `--threads` wins over `$LCC_THREADS` (an unparsable variable is not even looked at). -/
theorem cli_threads_take_precedence (c : Int) (env env' : Option (Option Int)) (threaded : Bool) :
    resolveThreads (some c) env threaded = resolveThreads (some c) env' threaded := rfl

/-! ### Non-vacuity -/

open Sample

example : (rawTests teardownOnly).map (·.result.status) = [some .disabled, some .passed] := by decide
example : (rawPhases teardownOnly).map (·.status) = [some .passed, some .failed] := by decide
example : reportSuccessful teardownOnly = false ∧ exitCode true teardownOnly = 1 ∧ exitCode false teardownOnly = 0 := by decide
/-- the rule "every enabled test passed" (what C02-3 computes) would say 0 here -/
example : ((rawTests teardownOnly).all (fun t => t.result.status == some .passed || t.result.status == some .disabled)) = true := by decide

example : reportSuccessful good = true ∧ exitCode true good = 0 := by decide
example : (rawResults good).length = 6 := by decide

/-- an unfinished test (status `None`) is not a success -/
example : reportSuccessful unfinished = false := by decide

example : resolveThreads (some 0) (some none) true = .ok 1 := rfl
example : resolveThreads none (some (some 4)) true = .ok 4 := rfl
example : resolveThreads none (some none) true = .error .invalidEnv := rfl
example : resolveThreads (some 3) none false = .error .notThreaded := rfl
example : resolveThreads none none false = .ok 1 := rfl

end LccModel.C02Exit

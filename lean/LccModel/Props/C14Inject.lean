/-
  C14 — injected attributes (`x = lcc.inject_fixture("f")`) are fixture uses.

  The property quantifies over "all uses from tests, setup_suite and injected attributes".  The
  validation theorems of `Props/C14.lean` speak about the list `injected` of a suite; here that list is
  DERIVED from the suite's attribute declarations — naming shape of the identifier (`x`, `_x`, `__x`
  name-mangled, `__x__`), where it is assigned (class body, base class, `__init__`, module level),
  fixture named or not — through the model of `helpers/introspection.get_object_attributes` and
  `Suite._load_injected_fixtures` (`Model/Inject.lean`), so that the theorems quantify over the shapes:

    * `discovered_iff`, `injectedNames_iff`, `injectedNames_nodup` — which declarations become fixture uses;
    * `checkFixturesInSuites_declared_ok_iff`, `prepareD_ok_iff`, `prepareD_error_is_validation` — the
      completeness statements over declared projects;
    * `prepareD_ok_iff_partial` + `hidden_attr_refutes_completeness` — the full-strength statement
      ("EVERY injected attribute is validated") holds exactly when no attribute is hidden from the
      helper; the dunder-like class attribute `__x__` refutes it on the real code (finding D21/C14);
    * `accepted_project_injection_sound` (+ `_partial`, refutation) — at run time the injection step of
      an accepted project finds every value and assigns EXACTLY the discovered attributes (every one,
      also when a fixture is injected through several attributes: D35, repaired), hence EVERY declared
      attribute when none is hidden.

  Property theorems only; helper lemmas in `Lemmas/Inject.lean`.  The finite decision `discovers` is
  re-extracted from the real code on every run (`Generated/C14TablesCheck.lean`).
-/
import LccModel.Props.C14
import LccModel.Lemmas.Inject

namespace LccModel.C14I
open LccModel.Loops LccModel.Fixture LccModel.Prepare LccModel.Inject

/-! ## A. Discovery -/

/-- **Which shapes are discovered.**  `get_object_attributes` yields an attribute iff it sits at the top
    level of a suite module, or its identifier is not dunder-like: public `x`, private `_x` and
    name-mangled `__x` attributes of a suite class are all found — in the class body, inherited from a
    base class, or assigned in `__init__`. -/
theorem discovered_iff (a : Attr) : a.discovered = true ↔ a.place = .module ∨ a.shape ≠ .dunder := by
  obtain ⟨n, sh, pl, f⟩ := a
  cases sh <;> cases pl <;> simp [Attr.discovered, discovers]

/-- The fixture an attribute names: the given name, or the attribute's own (mangled) name when
    `inject_fixture()` got none (or a falsy one). -/
theorem key_eq (a : Attr) : a.key = if usesAttrName a.fixture = true then a.name else a.fixture.getD a.name := by
  obtain ⟨n, sh, pl, f⟩ := a
  cases f with
  | none => simp [Attr.key, usesAttrName]
  | some f => by_cases h : f = "" <;> simp [Attr.key, usesAttrName, h]

/-- **`Suite.get_injected_fixture_names()`**: a name is an injected fixture of the suite iff some
    discovered attribute declaration names it. -/
theorem injectedNames_iff (attrs : List Attr) (x : String) :
    x ∈ injectedNames attrs ↔ ∃ a ∈ attrs, a.discovered = true ∧ a.key = x :=
  mem_injectedNames attrs x

/-- … and it is a dict: no name twice. -/
theorem injectedNames_nodup (attrs : List Attr) : (injectedNames attrs).Nodup :=
  Inject.injectedNames_nodup attrs

/-- **The dict of `_load_injected_fixtures`** (as repaired by D35): attribute `n` is listed under fixture `x`
    iff some discovered declaration `n = lcc.inject_fixture(x)` exists — `Suite.inject_fixtures` gives an
    attribute the value of exactly the fixture it names. -/
theorem assigned_sound (attrs : List Attr) (x n : String) :
    (∃ vs, (x, vs) ∈ loadInjected attrs ∧ n ∈ vs) ↔
      ∃ a ∈ attrs, a.discovered = true ∧ a.key = x ∧ a.name = n :=
  has_loadInjected attrs x n

/-- **`Suite.inject_fixtures` assigns exactly the discovered attributes** — every one of them, also when
    several attributes of the suite inject the same fixture (D35, repaired). -/
theorem assigned_iff (attrs : List Attr) (n : String) :
    n ∈ assigned attrs ↔ ∃ a ∈ attrs, a.discovered = true ∧ a.name = n :=
  mem_assigned attrs n

/-- EVERY discovered attribute is assigned (no guard on repeated fixture names any more). -/
theorem assigned_complete (attrs : List Attr) (a : Attr) (ha : a ∈ attrs) (hd : a.discovered = true) :
    a.name ∈ assigned attrs :=
  (mem_assigned attrs a.name).mpr ⟨a, ha, hd, rfl⟩

/-! ## B. Validation over declared suites -/

/-- what `check_fixtures_in_suite` demands of a fixture used by the suite itself -/
def SuiteUseOk (R : Registry) (n : String) : Prop :=
  ∃ f, lookup R n = some f ∧ f.perThread = false ∧ Scope.suite.level ≤ f.scope.level

/-- what the code checks on a declared suite: the DISCOVERED attributes, the `setup_suite` arguments,
    the test arguments -/
def UsesOk (R : Registry) (d : DSuite) : Prop :=
  (∀ a ∈ d.attrs, a.discovered = true → SuiteUseOk R a.key) ∧
  (∀ n ∈ d.setupArgs, SuiteUseOk R n) ∧
  (∀ t ∈ d.tests, ∀ n ∈ t.toFixture.fixtures, n ∈ names R)

/-- what the property demands: EVERY injected attribute is a fixture use -/
def UsesOkFull (R : Registry) (d : DSuite) : Prop :=
  (∀ a ∈ d.attrs, SuiteUseOk R a.key) ∧
  (∀ n ∈ d.setupArgs, SuiteUseOk R n) ∧
  (∀ t ∈ d.tests, ∀ n ∈ t.toFixture.fixtures, n ∈ names R)

/-- no attribute of the tree is hidden from `get_object_attributes` -/
def AllDiscovered (S : List DSuite) : Prop := ∀ d ∈ flattenDL S, ∀ a ∈ d.attrs, a.discovered = true

theorem suiteOk_declared_iff (R : Registry) (d : DSuite) : SuiteOk R d.toFixture ↔ UsesOk R d := by
  unfold SuiteOk UsesOk SuiteUseOk
  rw [toFixture_fixtures, toFixture_tests]
  constructor
  · rintro ⟨h1, h2⟩
    refine ⟨fun a ha hd => h1 _ (mem_oset.mpr (List.mem_append.mpr (.inl ((mem_injectedNames _ _).mpr ⟨a, ha, hd, rfl⟩)))),
      fun n hn => h1 _ (mem_oset.mpr (List.mem_append.mpr (.inr hn))),
      fun t ht n hn => h2 _ (List.mem_map.mpr ⟨t, ht, rfl⟩) n hn⟩
  · rintro ⟨h1, h2, h3⟩
    refine ⟨fun n hn => ?_, fun t ht n hn => ?_⟩
    · rcases List.mem_append.mp (mem_oset.mp hn) with hn | hn
      · obtain ⟨a, ha, hd, rfl⟩ := (mem_injectedNames _ _).mp hn
        exact h1 a ha hd
      · exact h2 n hn
    · obtain ⟨t', ht', rfl⟩ := List.mem_map.mp ht
      exact h3 t' ht' n hn

/-- **Completeness of `check_fixtures_in_suites` over declared suites**, for every naming shape and
    place of assignment: accepted iff in every suite of the tree each fixture named by a DISCOVERED
    injected attribute and each `setup_suite` argument is registered, not per-thread and of scope ≥ suite,
    and each fixture argument of a test is registered. -/
theorem checkFixturesInSuites_declared_ok_iff (R : Registry) (S : List DSuite) :
    checkFixturesInSuites R (toFixtureSuites (lowerL S)) = .ok () ↔ ∀ d ∈ flattenDL S, UsesOk R d := by
  rw [C14.checkFixturesInSuites_ok_iff, flatten_lowerL]
  constructor
  · intro h d hd
    exact (suiteOk_declared_iff R d).mp (h _ (List.mem_map.mpr ⟨d, hd, rfl⟩))
  · intro h s hs
    obtain ⟨d, hd, rfl⟩ := List.mem_map.mp hs
    exact (suiteOk_declared_iff R d).mpr (h d hd)

/-- the declarative notion of a structurally valid DECLARED project, as the code decides it -/
structure ValidD (p : DProject) : Prop where
  policy : ∀ n ∈ nodesL p.lower.sched, Policy.Compliant p.policy n
  depsKnown : Deps.Known (flatTestsL p.lower.sched) (flatTestsL p.lower.all)
  depsScheduled : Deps.AllScheduled (flatTestsL p.lower.sched) (flatTestsL p.lower.all)
  depsAcyclic : Deps.Acyclic (flatTestsL p.lower.sched) (flatTestsL p.lower.all)
  noBuiltinName : ∀ d ∈ p.decls, ∀ n ∈ d.names, Fixture.isBuiltinName n = false
  noForbidden : Fixture.NoForbidden (Fixture.registryOf p.decls)
  paramsKnown : Fixture.ParamsKnown (Fixture.registryOf p.decls)
  acyclic : Fixture.Acyclic (Fixture.registryOf p.decls)
  noScopeInversion : Fixture.NoScopeInversion (Fixture.registryOf p.decls)
  perThreadOk : Fixture.PerThreadOk (Fixture.registryOf p.decls)
  usesOk : ∀ d ∈ flattenDL p.sched, UsesOk (Fixture.registryOf p.decls) d

/-- the same with the property's reading of "uses": every injected attribute counts -/
structure ValidFull (p : DProject) : Prop where
  policy : ∀ n ∈ nodesL p.lower.sched, Policy.Compliant p.policy n
  depsKnown : Deps.Known (flatTestsL p.lower.sched) (flatTestsL p.lower.all)
  depsScheduled : Deps.AllScheduled (flatTestsL p.lower.sched) (flatTestsL p.lower.all)
  depsAcyclic : Deps.Acyclic (flatTestsL p.lower.sched) (flatTestsL p.lower.all)
  noBuiltinName : ∀ d ∈ p.decls, ∀ n ∈ d.names, Fixture.isBuiltinName n = false
  noForbidden : Fixture.NoForbidden (Fixture.registryOf p.decls)
  paramsKnown : Fixture.ParamsKnown (Fixture.registryOf p.decls)
  acyclic : Fixture.Acyclic (Fixture.registryOf p.decls)
  noScopeInversion : Fixture.NoScopeInversion (Fixture.registryOf p.decls)
  perThreadOk : Fixture.PerThreadOk (Fixture.registryOf p.decls)
  usesOk : ∀ d ∈ flattenDL p.sched, UsesOkFull (Fixture.registryOf p.decls) d

/-- **`prepareD P = ok ↔ ValidD P`**: `PreparedProject.create` accepts a declared project iff it is
    structurally valid with the discovered injected attributes as suite-level fixture uses — whatever
    the naming shapes and places of the attributes. -/
theorem prepareD_ok_iff (p : DProject) (wfP : Policy.WF p.policy)
    (wfD : Deps.WF (flatTestsL p.lower.sched) (flatTestsL p.lower.all)) :
    (∃ r, prepareD p = .ok r) ↔ ValidD p := by
  have key := C14.prepare_ok_iff p.lower wfP wfD
  have hs : (∀ s ∈ Fixture.flattenSuites (toFixtureSuites (lowerL p.sched)), SuiteOk (Fixture.registryOf p.decls) s) ↔
      ∀ d ∈ flattenDL p.sched, UsesOk (Fixture.registryOf p.decls) d :=
    (checkSuites_ok_iff _ _).symm.trans (checkFixturesInSuites_declared_ok_iff _ _)
  unfold prepareD
  rw [key]
  constructor
  · intro v
    exact ⟨v.policy, v.depsKnown, v.depsScheduled, v.depsAcyclic, v.noBuiltinName, v.noForbidden, v.paramsKnown,
      v.acyclic, v.noScopeInversion, v.perThreadOk, hs.mp v.suitesOk⟩
  · intro v
    exact ⟨v.policy, v.depsKnown, v.depsScheduled, v.depsAcyclic, v.noBuiltinName, v.noForbidden, v.paramsKnown,
      v.acyclic, v.noScopeInversion, v.perThreadOk, hs.mpr v.usesOk⟩

/-- A rejection of a declared project is a `ValidationError`, never a crash. -/
theorem prepareD_error_is_validation (p : DProject) {e : ValidationErr} (h : prepareD p = .error e) :
    e.isValidation = true :=
  C14.prepare_error_is_validation p.lower h

/-
  FULL-STRENGTH statement of the property's first sentence over declared projects — kept visible, NOT a
  theorem (refuted by `hidden_attr_refutes_completeness`; open finding, same root as D21 of C13):

      theorem prepareD_ok_iff_full (p) (wfP) (wfD) : (∃ r, prepareD p = .ok r) ↔ ValidFull p
-/

/-- **`_partial` form**: under the exact guard "no attribute is hidden from `get_object_attributes`"
    (`AllDiscovered`: no dunder-like attribute in a suite class) `PreparedProject.create` accepts iff
    the project is valid with EVERY injected attribute counted as a fixture use. -/
theorem prepareD_ok_iff_partial (p : DProject) (wfP : Policy.WF p.policy)
    (wfD : Deps.WF (flatTestsL p.lower.sched) (flatTestsL p.lower.all)) (hd : AllDiscovered p.sched) :
    (∃ r, prepareD p = .ok r) ↔ ValidFull p := by
  rw [prepareD_ok_iff p wfP wfD]
  constructor
  · intro v
    refine ⟨v.policy, v.depsKnown, v.depsScheduled, v.depsAcyclic, v.noBuiltinName, v.noForbidden, v.paramsKnown,
      v.acyclic, v.noScopeInversion, v.perThreadOk, fun d hm => ?_⟩
    obtain ⟨h1, h2, h3⟩ := v.usesOk d hm
    exact ⟨fun a ha => h1 a ha (hd d hm a ha), h2, h3⟩
  · intro v
    refine ⟨v.policy, v.depsKnown, v.depsScheduled, v.depsAcyclic, v.noBuiltinName, v.noForbidden, v.paramsKnown,
      v.acyclic, v.noScopeInversion, v.perThreadOk, fun d hm => ?_⟩
    obtain ⟨h1, h2, h3⟩ := v.usesOk d hm
    exact ⟨fun a ha _ => h1 a ha, h2, h3⟩

/-- every naming shape × place the guard admits is really covered: all of them but the dunder-like
    attribute of a class -/
theorem guard_admits (a : Attr) (h : ¬ (a.shape = .dunder ∧ a.place ≠ .module)) : a.discovered = true := by
  rw [discovered_iff]
  by_cases hp : a.place = .module
  · exact .inl hp
  · exact .inr (fun hs => h ⟨hs, hp⟩)

/-! ## C. Run time: the injection step of an accepted project -/

/-- **The injection step cannot fail and assigns what was declared.**  For an accepted declared project,
    every suite `d` that gets initialised and every test of `d` that really runs: the pre_run, session
    and suite instances set up, `suite.inject_fixtures(get_fixture_results(get_injected_fixture_names()))`
    finds every value (no `LookupError` / `AssertionError`) and assigns EXACTLY the discovered attributes
    of `d` — every one of them, for every naming shape and place of assignment, also when several
    attributes inject the same fixture (D35, repaired). -/
theorem accepted_project_injection_sound {R : Registry} (wf : WF R) (S : List DSuite) (fd : Bool)
    (hdeps : checkDependencies R = .ok ())
    (hsuites : checkFixturesInSuites R (toFixtureSuites (lowerL S)) = .ok ())
    (inh : Bool) (d : DSuite) (hd : (inh, d) ∈ withInhDL false S)
    (t : PTest) (ht : t ∈ d.tests) (hruns : testRuns inh d.toFixture t.toFixture fd = true) :
    ∃ Ipre Isess Isuite,
      scheduled R (usedInSuites (toFixtureSuites (lowerL S)) fd) .preRun = .ok Ipre ∧
      scheduled R (usedInSuites (toFixtureSuites (lowerL S)) fd) .session = .ok Isess ∧
      scheduled R (usedInSuite inh d.toFixture fd) .suite = .ok Isuite ∧
      ∃ c1 c2 c3,
        enter R [] .preRun Ipre = .ok c1 ∧ enter R c1 .session Isess = .ok c2 ∧
        enter R c2 .suite Isuite = .ok c3 ∧
        injectStep c3 d.attrs = .ok (assigned d.attrs) ∧
        (∀ n, n ∈ assigned d.attrs ↔ ∃ a ∈ d.attrs, a.discovered = true ∧ a.name = n) := by
  have hs : (inh, d.toFixture) ∈ withInhSuites false (toFixtureSuites (lowerL S)) := by
    rw [withInh_lowerL]
    exact List.mem_map.mpr ⟨(inh, d), hd, rfl⟩
  have ht' : t.toFixture ∈ d.toFixture.tests := by
    rw [toFixture_tests]; exact List.mem_map.mpr ⟨t, ht, rfl⟩
  obtain ⟨Ipre, Isess, Isuite, _, a1, a2, a3, _, c1, c2, c3, _, e1, e2, e3, _, _, l2⟩ :=
    C14.accepted_project_run_sound wf _ fd hdeps hsuites inh d.toFixture hs t.toFixture ht' hruns
  refine ⟨Ipre, Isess, Isuite, a1, a2, a3, c1, c2, c3, e1, e2, e3, ?_, mem_assigned d.attrs⟩
  · unfold injectStep
    have : forE (injectedNames d.attrs) (getResult c3) = .ok () := by
      rw [forE_ok_iff]
      intro n hn
      apply l2
      rw [toFixture_fixtures]
      exact mem_oset.mpr (List.mem_append.mpr (.inl hn))
    rw [this]

/-
  FULL-STRENGTH statement of the property's last sentence for injected attributes — kept visible, NOT a
  theorem: "in an accepted project EVERY attribute holding `lcc.inject_fixture(...)` of an initialised
  suite has received its fixture's value when the tests run".  Refuted on the real code by
  `hidden_attr_refutes_injection` (dunder-like class attribute, D21/C14, open).  The second refutation
  (two attributes injecting the same fixture, D35) is gone with the repair of /repo: see
  `same_fixture_twice_both_assigned`.
-/

/-- **`_partial` form** of the statement above, under the exact guard: no attribute of the suite is
    hidden from `get_object_attributes` (no dunder-like class attribute, D21) — then EVERY declared
    attribute is assigned. -/
theorem accepted_project_injection_sound_partial {R : Registry} (wf : WF R) (S : List DSuite) (fd : Bool)
    (hdeps : checkDependencies R = .ok ())
    (hsuites : checkFixturesInSuites R (toFixtureSuites (lowerL S)) = .ok ())
    (inh : Bool) (d : DSuite) (hd : (inh, d) ∈ withInhDL false S)
    (t : PTest) (ht : t ∈ d.tests) (hruns : testRuns inh d.toFixture t.toFixture fd = true)
    (hall : ∀ a ∈ d.attrs, a.discovered = true) :
    ∃ Isuite c2 c3, scheduled R (usedInSuite inh d.toFixture fd) .suite = .ok Isuite ∧
      enter R c2 .suite Isuite = .ok c3 ∧ injectStep c3 d.attrs = .ok (assigned d.attrs) ∧
      ∀ a ∈ d.attrs, a.name ∈ assigned d.attrs := by
  obtain ⟨_, _, Isuite, _, _, a3, _, c2, c3, _, _, e3, hi, hc⟩ :=
    accepted_project_injection_sound wf S fd hdeps hsuites inh d hd t ht hruns
  exact ⟨Isuite, c2, c3, a3, e3, hi, fun a ha => (hc a.name).mpr ⟨a, ha, hall a ha, rfl⟩⟩

/-! ## Non-vacuity and refutations: concrete declared projects -/
section Examples

def noPolicy : Policy.Policy := ⟨[], [], false, false⟩

/-- session fixture `db`, test-scoped `tmp`, per-thread `conn` -/
def exDecls : List Decl :=
  [⟨["db"], .session, false, []⟩, ⟨["tmp"], .test, false, []⟩, ⟨["conn"], .suite, true, []⟩]

def suiteWith (attrs : List Attr) : DSuite :=
  .mk "s" false attrs [] [] [] [⟨"s.t", [], [], false, [], [], []⟩] []

def projWith (attrs : List Attr) : DProject := ⟨noPolicy, exDecls, [suiteWith attrs], [suiteWith attrs]⟩

-- every discovered shape × place, valid fixture: accepted; the derived uses
example : (prepareD (projWith [⟨"_s__c", .mangled, .body, some "db"⟩, ⟨"_x", .priv, .init, some "db"⟩,
    ⟨"db", .pub, .base, none⟩])).isOk = true := by decide
example : injectedNames [⟨"_s__c", .mangled, .body, some "db"⟩, ⟨"_x", .priv, .init, some "db"⟩,
    ⟨"db", .pub, .base, none⟩, ⟨"__h__", .dunder, .body, some "nx"⟩, ⟨"__m__", .dunder, .module, some "pre"⟩]
    = ["db", "pre"] := by decide
example : loadInjected [⟨"_s__c", .mangled, .body, some "db"⟩, ⟨"_x", .priv, .init, some "db"⟩,
    ⟨"db", .pub, .base, none⟩] = [("db", ["_s__c", "_x", "db"])] := by decide
-- an invalid fixture through every discovered shape: rejected, with the right class
example : (prepareD (projWith [⟨"_x", .priv, .body, some "nx"⟩])).isOk = false := by decide
example : (prepareD (projWith [⟨"_s__x", .mangled, .body, some "tmp"⟩])).isOk = false := by decide
example : (prepareD (projWith [⟨"x", .pub, .init, some "conn"⟩])).isOk = false := by decide
example : (prepareD (projWith [⟨"_x", .priv, .base, none⟩])).isOk = false := by decide
example : (prepareD (projWith [⟨"__x__", .dunder, .module, some "nx"⟩])).isOk = false := by decide
example : checkFixturesInSuites (registryOf exDecls) (toFixtureSuites (lowerL [suiteWith [⟨"_x", .priv, .body, some "nx"⟩]]))
    = .error (.suiteUnknown "s" "nx") := by decide
example : checkFixturesInSuites (registryOf exDecls) (toFixtureSuites (lowerL [suiteWith [⟨"_s__x", .mangled, .init, some "tmp"⟩]]))
    = .error (.suiteScope "s" "tmp") := by decide
example : checkFixturesInSuites (registryOf exDecls) (toFixtureSuites (lowerL [suiteWith [⟨"x", .pub, .base, some "conn"⟩]]))
    = .error (.suitePerThread "s" "conn") := by decide

/-- the witness of the open finding: a dunder-like class attribute injecting an unknown fixture -/
def hiddenWitness : DProject := projWith [⟨"__x__", .dunder, .body, some "nx"⟩]

/-- **Refutation of the full-strength completeness statement** (open finding, root D21): the project is
    accepted although one of its injected attributes names an unknown fixture. -/
theorem hidden_attr_refutes_completeness :
    (∃ r, prepareD hiddenWitness = .ok r) ∧ ¬ ValidFull hiddenWitness := by
  refine ⟨(isOk_iff _).mp (by decide), fun v => ?_⟩
  have hm : suiteWith [⟨"__x__", .dunder, .body, some "nx"⟩] ∈ flattenDL hiddenWitness.sched := by
    simp [hiddenWitness, projWith, suiteWith, flattenDL, flattenD]
  obtain ⟨f, hf, _⟩ := (v.usesOk _ hm).1 ⟨"__x__", .dunder, .body, some "nx"⟩ (by simp [suiteWith, DSuite.attrs])
  have hn : lookup (registryOf hiddenWitness.decls) (Attr.key ⟨"__x__", .dunder, .body, some "nx"⟩) = none := by decide
  rw [hn] at hf
  cases hf

/-- **Refutation of the full-strength injection statement, 1** (same finding): a VALID fixture injected
    through a dunder-like class attribute: the project is accepted, the injection step assigns nothing,
    the attribute keeps its `InjectedFixture` placeholder. -/
theorem hidden_attr_refutes_injection :
    (prepareD (projWith [⟨"__x__", .dunder, .body, some "db"⟩])).isOk = true ∧
    assigned [⟨"__x__", .dunder, .body, some "db"⟩] = [] := by decide

/-- **D35, repaired**: two (here three) attributes of a suite injecting the same fixture — the dict lists
    all of them under the one fixture name, the injection step assigns every one (before the repair only
    the last one in `dir()` order was set). -/
theorem same_fixture_twice_both_assigned :
    (prepareD (projWith [⟨"_b", .priv, .base, some "db"⟩, ⟨"a", .pub, .body, some "db"⟩, ⟨"db", .pub, .init, none⟩])).isOk = true ∧
    loadInjected [⟨"_b", .priv, .base, some "db"⟩, ⟨"a", .pub, .body, some "db"⟩, ⟨"db", .pub, .init, none⟩]
      = [("db", ["_b", "a", "db"])] ∧
    injectedNames [⟨"_b", .priv, .base, some "db"⟩, ⟨"a", .pub, .body, some "db"⟩, ⟨"db", .pub, .init, none⟩] = ["db"] ∧
    assigned [⟨"_b", .priv, .base, some "db"⟩, ⟨"a", .pub, .body, some "db"⟩, ⟨"db", .pub, .init, none⟩]
      = ["_b", "a", "db"] := by decide

end Examples

end LccModel.C14I

/-
  C03 — the `pre_run` scope: "Every fixture … whose setup completed without recording a failure is torn down exactly
  once, after its last consumer has finished …, in reverse order of setup …  If a setup fails its consumers are not
  executed, and what was already set up is still torn down."

  Model: `Model/PreRun.lean` (`run_suites`' own loops).  Every theorem quantifies over EVERY scheduled list of pre_run
  fixtures (any length, any dependency order the scheduler produced), every placement of failing setups and failing
  teardowns, generator and plain fixtures, and both ways the session can end.  Tie to the code: the extracted table
  `preRunTable` (the real `run_suites` executed on 1–3 chained pre_run fixtures × every failure placement),
  obligation `Generated/C03TablesCheck.pre_run_table_agrees`; every generated run is judged by the C03 oracle
  (`teardown-missing/pre_run`, `teardown-twice`, order).
-/
import LccModel.Lemmas.PreRun

namespace LccModel.C03PreRun
open LccModel.PreRun

/-- The fixtures that are set up are exactly the ones scheduled before the first failing setup, in scheduled order:
    nothing is set up after a failure. -/
theorem set_up_until_first_failure (fxs : List Fx) (b : Bool) :
    setUp (runSuites fxs b).1 = fxs.takeWhile (fun f => !f.setupFails) := by
  rw [runSuites_items, setUp_append, setUp_append, setUp_setupLoop, setupLoop_done]
  have h1 : setUp (if (setupLoop fxs).2.2.isSome then [] else [Item.session]) = [] := by split <;> rfl
  have h2 : setUp (teardownLoop (List.takeWhile (fun f => !f.setupFails) fxs)) = [] := setUp_teardownItems _
  rw [h1, h2]; simp

/-- EXACTLY ONCE, IN REVERSE ORDER: the sequence of teardown parts entered during the run is the reverse of the sequence
    of completed setups (restricted to the fixtures that have a teardown part) — whether a later setup failed, the
    session raised, or an earlier teardown raised.  (List equality: every completed generator fixture occurs once.) -/
theorem torn_down_exactly_once_in_reverse_order (fxs : List Fx) (b : Bool) :
    tornDown (runSuites fxs b).1 = ((setUp (runSuites fxs b).1).reverse.filter fun f => f.gen) := by
  rw [set_up_until_first_failure, runSuites_items, tornDown_append, tornDown_append, tornDown_setupLoop, setupLoop_done]
  have h1 : tornDown (if (setupLoop fxs).2.2.isSome then [] else [Item.session]) = [] := by split <;> rfl
  rw [h1]
  exact tornDown_teardownItems _

/-- its reading for one fixture: a generator fixture scheduled before the first failing setup gets its teardown, even
    when a LATER pre_run fixture fails in its setup -/
theorem completed_setup_is_torn_down (fxs : List Fx) (b : Bool) (f : Fx) (hg : f.gen = true)
    (hf : f ∈ fxs.takeWhile (fun f => !f.setupFails)) : f ∈ tornDown (runSuites fxs b).1 := by
  rw [torn_down_exactly_once_in_reverse_order, set_up_until_first_failure]
  exact List.mem_filter.mpr ⟨List.mem_reverse.mpr hf, hg⟩

/-- The session (every consumer) runs iff every pre_run setup completed. -/
theorem session_runs_iff_every_setup_completed (fxs : List Fx) (b : Bool) :
    Item.session ∈ (runSuites fxs b).1 ↔ ∀ f ∈ fxs, f.setupFails = false := by
  rw [runSuites_items, setupLoop_failed]
  constructor
  · intro h
    simp only [List.mem_append] at h
    rcases h with (h | h) | h
    · exact absurd h (setupLoop_no_session fxs)
    · cases hfind : fxs.find? (fun f => f.setupFails) with
      | none =>
        intro f hf
        have := List.find?_eq_none.mp hfind f hf
        simpa using this
      | some x => simp [hfind] at h
    · exact absurd h (teardownItems_no_session _)
  · intro h
    have : fxs.find? (fun f => f.setupFails) = none := List.find?_eq_none.mpr (by intro f hf; simp [h f hf])
    simp [this]

/-- Teardowns come last: everything before the teardown block is no teardown (the teardowns run after the session —
    the last consumer — or right after the failed setup). -/
theorem teardowns_come_last (fxs : List Fx) (b : Bool) :
    ∃ pre, (runSuites fxs b).1 = pre ++ teardownLoop (setUp (runSuites fxs b).1) ∧ ∀ i ∈ pre, isTeardown i = false := by
  refine ⟨(setupLoop fxs).1 ++ (if (setupLoop fxs).2.2.isSome then [] else [Item.session]), ?_, ?_⟩
  · rw [set_up_until_first_failure, ← setupLoop_done]; exact runSuites_items fxs b
  · intro i hi
    rcases List.mem_append.mp hi with h | h
    · exact setupLoop_no_teardown fxs i h
    · split at h
      · cases h
      · simp at h; subst h; rfl

/-- A failing setup is reported to the caller (an error is raised), whatever the teardowns do. -/
theorem failed_setup_is_raised (fxs : List Fx) (b : Bool) (h : ∃ f ∈ fxs, f.setupFails = true) :
    ∃ n, (runSuites fxs b).2 = .raisedErrors (n + 1) := by
  obtain ⟨f, hf, hs⟩ := h
  have hsome : ((setupLoop fxs).2.2).isSome = true := by
    rw [setupLoop_failed]; exact List.find?_isSome.mpr ⟨f, hf, hs⟩
  unfold runSuites
  revert hsome
  generalize setupLoop fxs = r
  obtain ⟨a, d, o⟩ := r
  cases o with
  | none => intro hsome; cases hsome
  | some x => intro _; exact ⟨nbTeardownErrors d, by simp [Nat.add_comm]⟩

/-! Non-vacuity: `db` (generator) ← `schema` (generator, depends on `db`) ← `data` (its setup raises): the session is not
    run, `schema` then `db` are torn down, one error is raised.  And the all-good run with a raising teardown. -/
example : render (runSuites [⟨"db", true, false, false⟩, ⟨"schema", true, false, false⟩, ⟨"data", true, true, false⟩] false)
    = "setup:db setup:schema setup-raised:data teardown:schema teardown:db => raised-errors:1" := by decide
example : render (runSuites [⟨"db", true, false, false⟩, ⟨"cfg", false, false, false⟩, ⟨"schema", true, false, true⟩] false)
    = "setup:db setup:cfg setup:schema session teardown-raised:schema teardown:db => raised-errors:1" := by decide

end LccModel.C03PreRun

/-
  C11, event-manager part — "a failing reporting backend never hangs the run and is never silent".

  Model: `Model/EventManager.lean` (events.py: `AsyncEventManager.fire`, `_handler_loop`, `handle_events`).
  The theorems quantify over every failure predicate (`fails`: which events make a handler raise), every number
  of events and every interleaving of the producers with the handler thread (`Op.handle` may be scheduled at any
  point).  They need the queue to be UNBOUNDED (`cap = none`): that fact about the real code is extracted on every
  run (`Generated/C11Tables.emQueueBound`, obligation `em_queue_is_unbounded` in `Generated/C11TablesCheck.lean`),
  and `bounded_queue_can_block` shows it is necessary.
-/
import LccModel.Lemmas.EventManager

namespace LccModel.C11Events
open LccModel.EM

variable (fails : Nat → Bool)

/-- No producer ever blocks: whatever was fired and handled so far, a further `fire` returns. -/
theorem fire_never_blocks (ops : List Op) (s : St) (h : run fails (init none) ops = some s) (e : Nat) :
    (fire s e).isSome = true := by
  have hc : s.cap = none := by rw [cap_run ops h]; rfl
  simp [fire, canPut, hc]

/-- Every interleaving of fires and handler iterations is executable to its end (nothing in it blocks). -/
theorem every_schedule_runs_to_its_end (ops : List Op) : (run fails (init none) ops).isSome = true := by
  suffices h : ∀ (ops : List Op) (s : St), s.cap = none → (run fails s ops).isSome = true from h ops _ rfl
  intro ops
  induction ops with
  | nil => intro s _; rfl
  | cons o os ih =>
    intro s hc
    cases o with
    | fire e =>
      have : fire s e = some { s with queue := s.queue ++ [e], fired := s.fired ++ [e] } := by simp [fire, canPut, hc]
      simp only [run, step, this]; exact ih _ hc
    | handle =>
      simp only [run, step]
      cases hh : handle fails s with
      | none => simpa using ih s hc
      | some s2 => simpa using ih s2 (by rw [cap_handle hh]; exact hc)

/-- Leaving `handle_events` (sentinel + join) never blocks either: the run does not hang on the event manager. -/
theorem close_never_blocks (ops : List Op) (s : St) (h : run fails (init none) ops = some s) :
    (close fails s).isSome = true := by
  have hc : s.cap = none := by rw [cap_run ops h]; rfl
  simp [close, canPut, hc]

/-- Handlers see events in firing order, without gaps: what was handled is a prefix of what was fired. -/
theorem handled_is_prefix_of_fired (cap : Option Nat) (ops : List Op) (s : St) (h : run fails (init cap) ops = some s) :
    s.handled <+: s.fired :=
  ⟨s.queue, (inv_run ops (inv_init fails cap) h).split⟩

/-- The handler loop has stopped exactly when a failure is pending. -/
theorem handler_stopped_iff_failure_pending (cap : Option Nat) (ops : List Op) (s : St)
    (h : run fails (init cap) ops = some s) : s.alive = false ↔ s.pending.isSome = true := by
  have hs := (inv_run ops (inv_init fails cap) h).seen
  unfold Seen at hs
  cases ha : s.alive with
  | true => rw [ha] at hs; simp only [if_true] at hs; simp [hs.1]
  | false =>
    rw [ha] at hs; simp only [Bool.false_eq_true, if_false] at hs
    obtain ⟨pre, e, _, hp, _, _⟩ := hs
    simp [hp]

/-- "Never silent, never carries on": the pending failure is the FIRST event whose handler raised, it is the last
    event any handler saw (nothing is handled after it), and every event handled before it was handled fine. -/
theorem nothing_handled_after_the_first_failure (cap : Option Nat) (ops : List Op) (s : St) (e : Nat)
    (h : run fails (init cap) ops = some s) (hp : s.pending = some e) :
    fails e = true ∧ s.handled.getLast? = some e ∧ (∀ x ∈ s.handled.dropLast, fails x = false) ∧ s.alive = false := by
  have hs := (inv_run ops (inv_init fails cap) h).seen
  unfold Seen at hs
  cases ha : s.alive with
  | true => rw [ha] at hs; simp only [if_true] at hs; rw [hs.1] at hp; cases hp
  | false =>
    rw [ha] at hs; simp only [Bool.false_eq_true, if_false] at hs
    obtain ⟨pre, e', hh, hp', hf, hpre⟩ := hs
    rw [hp'] at hp; injection hp with hp; subst hp
    refine ⟨hf, by simp [hh], ?_, rfl⟩
    rw [hh]; simpa using hpre

/-- Without a failing handler nothing is pending and the loop keeps consuming. -/
theorem no_failure_nothing_pending (cap : Option Nat) (ops : List Op) (s : St)
    (h : run fails (init cap) ops = some s) (hok : ∀ x ∈ s.fired, fails x = false) :
    s.pending = none ∧ s.alive = true := by
  have hi := inv_run ops (inv_init fails cap) h
  have hs := hi.seen
  unfold Seen at hs
  cases ha : s.alive with
  | true => rw [ha] at hs; simp only [if_true] at hs; exact ⟨hs.1, rfl⟩
  | false =>
    rw [ha] at hs; simp only [Bool.false_eq_true, if_false] at hs
    obtain ⟨pre, e, hh, _, hf, _⟩ := hs
    have : e ∈ s.fired := by rw [← hi.split, hh]; simp
    rw [hok e this] at hf; cases hf

/-- After `handle_events` has exited (any schedule before it): the handlers saw exactly the fired events up to and
    including the first failing one, in order, and the pending failure is that event (none if no handler raised). -/
theorem after_close (ops : List Op) (s s' : St) (h : run fails (init none) ops = some s)
    (hc : close fails s = some s') :
    s'.handled = uptoFirstFailure fails s.fired ∧ s'.fired = s.fired ∧ s'.pending = s.fired.find? fails := by
  have hcap : s.cap = none := by rw [cap_run ops h]; rfl
  have hi := inv_run ops (inv_init fails none) h
  simp only [close, canPut, hcap, if_true, Option.some.injEq] at hc
  subst hc
  have hs := hi.seen
  unfold Seen at hs
  cases ha : s.alive with
  | true =>
    rw [ha] at hs; simp only [if_true] at hs
    obtain ⟨h1, h2⟩ := drain_spec fails s.queue.length s ha (Nat.le_refl _)
    refine ⟨?_, h2, ?_⟩
    · rw [h1, ← hi.split, uptoFirstFailure_append_ok _ hs.2]
    · rw [drain_pending fails _ s ha hs.1 (Nat.le_refl _), ← hi.split, List.find?_append]
      have : s.handled.find? fails = none := by
        rw [List.find?_eq_none]; intro x hx; simp [hs.2 x hx]
      simp [this]
  | false =>
    rw [ha] at hs; simp only [Bool.false_eq_true, if_false] at hs
    obtain ⟨pre, e, hh, hp, hf, hpre⟩ := hs
    rw [drain_dead fails _ s ha]
    refine ⟨?_, rfl, ?_⟩
    · rw [← hi.split, hh, uptoFirstFailure_stop _ hpre hf]
    · rw [hp, ← hi.split, hh, List.append_assoc, List.find?_append]
      have : pre.find? fails = none := by
        rw [List.find?_eq_none]; intro x hx; simp [hpre x hx]
      simp [this, List.find?, hf]

/-! ### Non-vacuity, and why the queue must be unbounded -/

/-- a concrete run: 5 events, the handler of event 2 raises, the handler thread is scheduled late -/
example : (run (· == 2) (init none) [.fire 0, .fire 1, .handle, .fire 2, .fire 3, .handle, .handle, .handle, .fire 4]).map
    (fun s => (s.handled, s.pending, s.alive, s.queue)) = some ([0, 1, 2], some 2, false, [3, 4]) := by decide

example : ((run (· == 2) (init none) [.fire 0, .fire 1, .fire 2, .fire 3, .fire 4]).bind (close (· == 2))).map
    (fun s => (s.handled, s.pending)) = some ([0, 1, 2], some 2) := by decide

/-- With a BOUNDED queue the property fails: once the handler loop has stopped, the `cap`+1-th further `fire`
    blocks forever (nobody consumes the queue any more) — the run hangs. -/
theorem bounded_queue_can_block :
    run (· == 0) (init (some 2)) [.fire 0, .handle, .fire 1, .fire 2, .fire 3] = none := by decide

/-- … and so can the exit of `handle_events`. -/
theorem bounded_queue_close_can_block :
    (run (· == 0) (init (some 2)) [.fire 0, .handle, .fire 1, .fire 2]).bind (close (· == 0)) = none := by decide

end LccModel.C11Events

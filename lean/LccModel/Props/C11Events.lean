/-
  C11, event-manager part — "a failing reporting backend never hangs the run and is never silent".

  Model: `Model/EventManager.lean` (events.py: `AsyncEventManager.fire`, `_handler_loop`, `handle_events`).
  The theorems quantify over every failure predicate (`fails`: which events make a handler raise), every number
  of events and every interleaving of the producers with the handler thread (`Op.handle` may be scheduled at any
  point).  They need the queue to be UNBOUNDED (`cap = none`): that fact about the real code is extracted on every
  run (`Generated/C11Tables.emQueueBound`, obligation `em_queue_is_unbounded` in `Generated/C11TablesCheck.lean`),
  and `bounded_queue_can_block` shows it is necessary.
-/
import LccModel.Lemmas.EventManager

namespace LccModel.C11Events
open LccModel.EM

variable (fails : Nat → Bool)

/-- No producer ever blocks: whatever was fired and handled so far, a further `fire` returns. -/
theorem fire_never_blocks (ops : List Op) (s : St) (h : run fails (init none) ops = some s) (e : Nat) :
    (fire s e).isSome = true := by
  have hc : s.cap = none := by rw [cap_run ops h]; rfl
  simp [fire, canPut, hc]

/-- Every interleaving of fires and handler iterations is executable to its end (nothing in it blocks). -/
theorem every_schedule_runs_to_its_end (ops : List Op) : (run fails (init none) ops).isSome = true := by
  suffices h : ∀ (ops : List Op) (s : St), s.cap = none → (run fails s ops).isSome = true from h ops _ rfl
  intro ops
  induction ops with
  | nil => intro s _; rfl
  | cons o os ih =>
    intro s hc
    cases o with
    | fire e =>
      have : fire s e = some { s with queue := s.queue ++ [e], fired := s.fired ++ [e] } := by simp [fire, canPut, hc]
      simp only [run, step, this]; exact ih _ hc
    | handle =>
      simp only [run, step]
      cases hh : handle fails s with
      | none => simpa using ih s hc
      | some s2 => simpa using ih s2 (by rw [cap_handle hh]; exact hc)

/-- Leaving `handle_events` (sentinel + join) never blocks either: the run does not hang on the event manager. -/
theorem close_never_blocks (ops : List Op) (s : St) (h : run fails (init none) ops = some s) :
    (close fails s).isSome = true := by
  have hc : s.cap = none := by rw [cap_run ops h]; rfl
  simp [close, canPut, hc]

/-- Handlers see events in firing order, without gaps: what was handled is a prefix of what was fired. -/
theorem handled_is_prefix_of_fired (cap : Option Nat) (ops : List Op) (s : St) (h : run fails (init cap) ops = some s) :
    s.handled <+: s.fired :=
  ⟨s.queue, (inv_run ops (inv_init fails cap) h).split⟩

/-- The handler loop has stopped exactly when a failure is pending. -/
theorem handler_stopped_iff_failure_pending (cap : Option Nat) (ops : List Op) (s : St)
    (h : run fails (init cap) ops = some s) : s.alive = false ↔ s.pending.isSome = true := by
  have hs := (inv_run ops (inv_init fails cap) h).seen
  unfold Seen at hs
  cases ha : s.alive with
  | true => rw [ha] at hs; simp only [if_true] at hs; simp [hs.1]
  | false =>
    rw [ha] at hs; simp only [Bool.false_eq_true, if_false] at hs
    obtain ⟨pre, e, _, hp, _, _⟩ := hs
    simp [hp]

/-- "Never silent, never carries on": the pending failure is the FIRST event whose handler raised, it is the last
    event any handler saw (nothing is handled after it), and every event handled before it was handled fine. -/
theorem nothing_handled_after_the_first_failure (cap : Option Nat) (ops : List Op) (s : St) (e : Nat)
    (h : run fails (init cap) ops = some s) (hp : s.pending = some e) :
    fails e = true ∧ s.handled.getLast? = some e ∧ (∀ x ∈ s.handled.dropLast, fails x = false) ∧ s.alive = false := by
  have hs := (inv_run ops (inv_init fails cap) h).seen
  unfold Seen at hs
  cases ha : s.alive with
  | true => rw [ha] at hs; simp only [if_true] at hs; rw [hs.1] at hp; cases hp
  | false =>
    rw [ha] at hs; simp only [Bool.false_eq_true, if_false] at hs
    obtain ⟨pre, e', hh, hp', hf, hpre⟩ := hs
    rw [hp'] at hp; injection hp with hp; subst hp
    refine ⟨hf, by simp [hh], ?_, rfl⟩
    rw [hh]; simpa using hpre

/-- Without a failing handler nothing is pending and the loop keeps consuming. -/
theorem no_failure_nothing_pending (cap : Option Nat) (ops : List Op) (s : St)
    (h : run fails (init cap) ops = some s) (hok : ∀ x ∈ s.fired, fails x = false) :
    s.pending = none ∧ s.alive = true := by
  have hi := inv_run ops (inv_init fails cap) h
  have hs := hi.seen
  unfold Seen at hs
  cases ha : s.alive with
  | true => rw [ha] at hs; simp only [if_true] at hs; exact ⟨hs.1, rfl⟩
  | false =>
    rw [ha] at hs; simp only [Bool.false_eq_true, if_false] at hs
    obtain ⟨pre, e, hh, _, hf, _⟩ := hs
    have : e ∈ s.fired := by rw [← hi.split, hh]; simp
    rw [hok e this] at hf; cases hf

/-- After `handle_events` has exited (any schedule before it): the handlers saw exactly the fired events up to and
    including the first failing one, in order, and the pending failure is that event (none if no handler raised). -/
theorem after_close (ops : List Op) (s s' : St) (h : run fails (init none) ops = some s)
    (hc : close fails s = some s') :
    s'.handled = uptoFirstFailure fails s.fired ∧ s'.fired = s.fired ∧ s'.pending = s.fired.find? fails := by
  have hcap : s.cap = none := by rw [cap_run ops h]; rfl
  have hi := inv_run ops (inv_init fails none) h
  simp only [close, canPut, hcap, if_true, Option.some.injEq] at hc
  subst hc
  have hs := hi.seen
  unfold Seen at hs
  cases ha : s.alive with
  | true =>
    rw [ha] at hs; simp only [if_true] at hs
    obtain ⟨h1, h2⟩ := drain_spec fails s.queue.length s ha (Nat.le_refl _)
    refine ⟨?_, h2, ?_⟩
    · rw [h1, ← hi.split, uptoFirstFailure_append_ok _ hs.2]
    · rw [drain_pending fails _ s ha hs.1 (Nat.le_refl _), ← hi.split, List.find?_append]
      have : s.handled.find? fails = none := by
        rw [List.find?_eq_none]; intro x hx; simp [hs.2 x hx]
      simp [this]
  | false =>
    rw [ha] at hs; simp only [Bool.false_eq_true, if_false] at hs
    obtain ⟨pre, e, hh, hp, hf, hpre⟩ := hs
    rw [drain_dead fails _ s ha]
    refine ⟨?_, rfl, ?_⟩
    · rw [← hi.split, hh, uptoFirstFailure_stop _ hpre hf]
    · rw [hp, ← hi.split, hh, List.append_assoc, List.find?_append]
      have : pre.find? fails = none := by
        rw [List.find?_eq_none]; intro x hx; simp [hpre x hx]
      simp [this, hf]

/-! ### Nothing is lost when `handle_events` returns; the wait for the handler thread must be unlimited -/

theorem mem_upto_or_failure (l : List Nat) (e : Nat) (h : e ∈ l) :
    e ∈ uptoFirstFailure fails l ∨ (l.find? fails).isSome = true := by
  induction l with
  | nil => cases h
  | cons x xs ih =>
    by_cases hx : fails x = true
    · right; simp [List.find?, hx]
    · have hx' : fails x = false := by simpa using hx
      rcases List.mem_cons.mp h with rfl | hm
      · left; simp [uptoFirstFailure, hx']
      · rcases ih hm with h1 | h2
        · left; simp [uptoFirstFailure, hx', h1]
        · right; simpa [List.find?, hx'] using h2

/-- **After `handle_events` has returned every fired event was handled or a failure is pending** — whatever the
    schedule before the exit, in particular when the handler thread did not get to run at all since some event (a handler
    that is slow, or blocked, while the exit is attempted): the exit waits for it.  This is the fact the oracle of the em
    stream states on the real code (`C11/events-lost-after-close`, `C11/failure-not-reported`). -/
theorem after_close_nothing_lost (ops : List Op) (s s' : St) (h : run fails (init none) ops = some s)
    (hc : close fails s = some s') :
    (∀ e ∈ s.fired, e ∈ s'.handled ∨ s'.pending.isSome = true) ∧
    (∀ e ∈ s.fired, fails e = true → s'.pending.isSome = true) := by
  obtain ⟨h1, _, h3⟩ := after_close fails ops s s' h hc
  refine ⟨fun e he => ?_, fun e he hf => ?_⟩
  · rw [h1, h3]; exact mem_upto_or_failure fails s.fired e he
  · rw [h3]
    cases hfind : s.fired.find? fails with
    | some _ => rfl
    | none => rw [List.find?_eq_none] at hfind; simpa [hf] using hfind e he

/-- The exit of the real code is the unlimited one (`thread.join()`; table `emJoinLimit`, obligation `em_join_is_unlimited`). -/
theorem closeWithin_none (s : St) : closeWithin fails none s = close fails s := rfl

/-- A limit that covers the backlog changes nothing: the outcome of a run does not depend on it. -/
theorem closeWithin_enough (k : Nat) (s : St) (hk : s.queue.length ≤ k) :
    closeWithin fails (some k) s = close fails s := by
  simp [closeWithin, close, Nat.min_eq_right hk]

/-- … hence `after_close_nothing_lost` for every limit that covers the backlog. -/
theorem after_close_within_nothing_lost (ops : List Op) (s s' : St) (k : Nat) (h : run fails (init none) ops = some s)
    (hk : s.queue.length ≤ k) (hc : closeWithin fails (some k) s = some s') :
    ∀ e ∈ s.fired, e ∈ s'.handled ∨ s'.pending.isSome = true := by
  rw [closeWithin_enough fails k s hk] at hc
  exact (after_close_nothing_lost fails ops s s' h hc).1

/-- **Why the wait must be unlimited**: with a limited wait (`thread.join(timeout)`) and a backlog the handler does not get
    through in time, `handle_events` returns although the handler of event 2 — which raises — has not run: no failure is
    pending, the run would end normally and the failure is silent (seeded change C11-12's mechanism, for ANY limit: k
    events of backlog + 1). -/
theorem limited_join_can_lose_a_failure :
    ((run (· == 2) (init none) [.fire 0, .fire 1, .fire 2]).bind (closeWithin (· == 2) (some 1))).map
      (fun s => (s.handled, s.pending, threadEnded s)) = some ([0], none, false) := by decide

theorem limited_join_loses_for_every_limit (k : Nat) :
    ∃ s s', run (· == k + 1) (init none) ((List.range (k + 2)).map Op.fire) = some s ∧
      closeWithin (· == k + 1) (some k) s = some s' ∧ (k + 1) ∈ s.fired ∧ s'.pending = none := by
  have hrun : ∀ (n : Nat) (s : St), s.cap = none →
      run (· == k + 1) s ((List.range' s.fired.length n).map Op.fire) =
        some { s with queue := s.queue ++ List.range' s.fired.length n, fired := s.fired ++ List.range' s.fired.length n } := by
    intro n
    induction n with
    | zero => intro s _; simp [run]
    | succ n ih =>
      intro s hc
      rw [List.range'_succ, List.map_cons, run]
      simp only [step, fire, canPut, hc, if_true]
      have := ih { s with queue := s.queue ++ [s.fired.length], fired := s.fired ++ [s.fired.length] } hc
      simp only [List.length_append, List.length_singleton, hc] at this
      rw [this]; simp [List.append_assoc]
  have h0 := hrun (k + 2) (init none) rfl
  simp only [init, List.length_nil, List.nil_append, ← List.range_eq_range'] at h0
  refine ⟨_, drain (· == k + 1) (min k (List.range (k + 2)).length)
    { cap := none, queue := List.range (k + 2), alive := true, handled := [], pending := none, fired := List.range (k + 2) },
    h0, ?_, ?_, ?_⟩
  · simp only [closeWithin, canPut, if_true]
  · simp
  · -- k iterations handle events 0..k-1, none of which fails
    have hd : ∀ (n : Nat) (s : St), s.alive = true → s.pending = none → (∀ e ∈ s.queue.take n, (e == k + 1) = false) →
        (drain (· == k + 1) n s).pending = none := by
      intro n
      induction n with
      | zero => intro s _ hp _; simpa [drain] using hp
      | succ n ih =>
        intro s ha hp hq
        cases hqq : s.queue with
        | nil => simp [drain, handle, ha, hqq, hp]
        | cons e q =>
          have he : (e == k + 1) = false := hq e (by simp [hqq])
          simp only [drain, handle, ha, hqq, if_true, he, Bool.false_eq_true, if_false]
          refine ih _ rfl hp ?_
          intro x hx; apply hq; simp only [hqq, List.take_succ_cons]; exact List.mem_cons_of_mem _ hx
    apply hd _ _ rfl rfl
    intro e he
    simp only [List.length_range] at he
    have : e ∈ (List.range (k + 2)).take k := by simpa [Nat.min_eq_left (Nat.le_add_right k 2)] using he
    rw [List.take_range] at this
    have hlt : e < k := by simpa [Nat.min_eq_left (Nat.le_add_right k 2)] using this
    simp; omega

/-- After the (unlimited) exit the handler thread has ended: it is never left running behind the run. -/
theorem handler_thread_ended_after_close (ops : List Op) (s s' : St) (h : run fails (init none) ops = some s)
    (hc : close fails s = some s') : threadEnded s' = true := by
  have hcap : s.cap = none := by rw [cap_run ops h]; rfl
  simp only [close, canPut, hcap, if_true, Option.some.injEq] at hc
  subst hc
  exact drain_ended fails s.queue.length s (Nat.le_refl _)

/-! ### Non-vacuity, and why the queue must be unbounded -/

/-- a concrete run: 5 events, the handler of event 2 raises, the handler thread is scheduled late -/
example : (run (· == 2) (init none) [.fire 0, .fire 1, .handle, .fire 2, .fire 3, .handle, .handle, .handle, .fire 4]).map
    (fun s => (s.handled, s.pending, s.alive, s.queue)) = some ([0, 1, 2], some 2, false, [3, 4]) := by decide

example : ((run (· == 2) (init none) [.fire 0, .fire 1, .fire 2, .fire 3, .fire 4]).bind (close (· == 2))).map
    (fun s => (s.handled, s.pending)) = some ([0, 1, 2], some 2) := by decide

/-- With a BOUNDED queue the property fails: once the handler loop has stopped, the `cap`+1-th further `fire`
    blocks forever (nobody consumes the queue any more) — the run hangs. -/
theorem bounded_queue_can_block :
    run (· == 0) (init (some 2)) [.fire 0, .handle, .fire 1, .fire 2, .fire 3] = none := by decide

/-- … and so can the exit of `handle_events`. -/
theorem bounded_queue_close_can_block :
    (run (· == 0) (init (some 2)) [.fire 0, .handle, .fire 1, .fire 2]).bind (close (· == 0)) = none := by decide

end LccModel.C11Events

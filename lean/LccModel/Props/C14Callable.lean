/-
  C14, round 3 — (a) the fixture names a callable NEEDS are the positional parameters of the object that is really
  called (`get_callable_args`), whatever it wraps; (b) the `@lcc.fixture` decorator's verdict on (scope, per_thread)
  is part of "rejected before anything executes".

  Property sentences decided here:
    "Preparing a project rejects, before anything executes, exactly the structurally invalid projects: … wrongly used
     per-thread fixtures …"   — `prepareFull_accepts_iff`, `prepareFull_error_is_rejection`,
                                 `accepted_per_thread_fixture_is_session_or_suite`, `refused_declaration_never_accepted`
    "for all … uses from tests, setup_suite and injected attributes" — the uses are READ from callables:
                                 `needed_ignores_wrapped`, `needed_*` closed forms, `decl_params_ignore_wrapped`
    "Any project it accepts … runs …" (fixture-machinery half) — `callable_arguments_found`: every keyword the runner
                                 passes to a running test's callable is a parameter of the test or a fixture value found in the chain.
  The finite decisions are re-extracted from the real code on every run: `Generated/C14TablesCheck.lean`
  (`callable_table_agrees`, `decl_table_agrees`).
-/
import LccModel.Model.Callable
import LccModel.Props.C14
import LccModel.Props.C14Inject

namespace LccModel.C14C
open LccModel.Callable LccModel.Prepare LccModel.Inject LccModel.Fixture

/-! ## What a callable needs -/

/-- `functools.wraps` / `mock.patch` / any decorator recording `__wrapped__`: what the callable wraps is irrelevant —
    the framework reads the parameters of the object it is going to CALL. -/
theorem needed_ignores_wrapped (c : Callable) (w : Option (List String)) :
    neededArgs { c with wrapped := w } = neededArgs c := by
  cases c with | mk k p w0 => cases k <;> rfl

/-- two callables written with the same kind and the same own parameters need the same fixtures -/
theorem needed_depends_on_call_site_only (c d : Callable) (hk : c.kind = d.kind) (hp : c.params = d.params) :
    neededArgs c = neededArgs d := by
  cases c with | mk k p w => cases d with | mk k' p' w' =>
    simp only at hk hp; subst hk; subst hp; cases k <;> rfl

theorem needed_function (p : List String) (w : Option (List String)) : neededArgs ⟨.function, p, w⟩ = p := rfl

/-- a method read from an instance: `self` is bound, the remaining parameters are needed -/
theorem needed_bound_method (self : String) (p : List String) (w : Option (List String)) :
    neededArgs ⟨.boundMethod, self :: p, w⟩ = p := rfl

theorem needed_callable_object (self : String) (p : List String) (w : Option (List String)) :
    neededArgs ⟨.callableObject, self :: p, w⟩ = p := rfl

/-- the code as it is: a `functools.partial` object "needs" a fixture called `self`, whatever it binds -/
theorem needed_partial (p : List String) (w : Option (List String)) : neededArgs ⟨.partialObject, p, w⟩ = ["self"] := rfl

/-- a `mock.patch`-style wrapper `(*args, **kwargs)` around ANY function needs no fixture at all -/
theorem varargs_wrapper_needs_nothing (inner : List String) : neededArgs ⟨.function, [], some inner⟩ = [] := rfl

/-- the keywords of the call are exactly the needed names -/
theorem call_keywords_eq (c : Callable) : callKeywords c = neededArgs c := rfl

/-- a fixture declaration read from a callable: its parameters do not depend on what the callable wraps -/
theorem decl_params_ignore_wrapped (d : CDecl) (w : Option (List String)) :
    (CDecl.lower { d with fn := { d.fn with wrapped := w } }).params = d.lower.params :=
  needed_ignores_wrapped d.fn w

theorem test_args_ignore_wrapped (path : String) (fn : Callable) (ps : List String) (dis : Bool) (w : Option (List String)) :
    testOf path { fn with wrapped := w } ps dis = testOf path fn ps dis := by
  unfold testOf; rw [needed_ignores_wrapped]

/-! ## The decorator's verdict and `PreparedProject.create` -/

/-- `@lcc.fixture(scope, per_thread)` is accepted iff a per-thread fixture has scope `session` or `suite` -/
theorem decl_allowed_iff (s : Scope) (pt : Bool) :
    declAllowed s pt = true ↔ (pt = true → s = .session ∨ s = .suite) := by
  cases s <;> cases pt <;> simp [declAllowed]

theorem checkDecls_ok_iff (ds : List Decl) :
    checkDecls ds = .ok () ↔ ∀ d ∈ ds, declAllowed d.scope d.perThread = true := by
  induction ds with
  | nil => simp [checkDecls]
  | cons d rest ih =>
    unfold checkDecls
    by_cases h : declAllowed d.scope d.perThread = true
    · simp [h, ih]
    · simp [h]

/-- a refusal names a declaration that the decorator really refuses -/
theorem checkDecls_error {ds : List Decl} {e : PrepErr} (h : checkDecls ds = .error e) :
    ∃ d ∈ ds, e = .declRefused d.names ∧ declAllowed d.scope d.perThread = false := by
  induction ds with
  | nil => simp [checkDecls] at h
  | cons d rest ih =>
    unfold checkDecls at h
    by_cases hd : declAllowed d.scope d.perThread = true
    · rw [if_pos hd] at h
      obtain ⟨x, hx, hh⟩ := ih h
      exact ⟨x, List.mem_cons_of_mem _ hx, hh⟩
    · rw [if_neg hd] at h
      injection h with h
      exact ⟨d, List.mem_cons_self, h.symm, by simpa using hd⟩

/-- `prepareFull` accepts exactly when every declaration passes the decorator and `PreparedProject.create` accepts -/
theorem prepareFull_ok_iff (p : DProject) (r : Prepared) :
    prepareFull p = .ok r ↔ (∀ d ∈ p.decls, declAllowed d.scope d.perThread = true) ∧ prepareD p = .ok r := by
  unfold prepareFull
  cases hD : prepareD p with
  | error e =>
    cases e with
    | policy e => simp
    | deps e => simp
    | fixture e =>
      cases hc : checkDecls p.decls with
      | error e' => simp
      | ok u => simp
  | ok v =>
    cases hc : checkDecls p.decls with
    | error e' =>
      have : ¬ ∀ d ∈ p.decls, declAllowed d.scope d.perThread = true := by
        intro hall
        rw [(checkDecls_ok_iff p.decls).mpr hall] at hc
        cases hc
      simp [this]
    | ok u =>
      cases u
      have hall := (checkDecls_ok_iff p.decls).mp hc
      constructor
      · intro h; injection h with h; subst h; exact ⟨hall, rfl⟩
      · intro h; obtain ⟨_, h⟩ := h; injection h with h; subst h; rfl

/-- **Completeness over declarations**: a declared project is accepted iff every `@lcc.fixture` declaration is one the
    decorator accepts (per-thread only with scope session / suite) AND it is structurally valid (`C14I.ValidD`). -/
theorem prepareFull_accepts_iff (p : DProject) (wfP : Policy.WF p.policy)
    (wfD : Deps.WF (flatTestsL p.lower.sched) (flatTestsL p.lower.all)) :
    (∃ r, prepareFull p = .ok r) ↔
      (∀ d ∈ p.decls, d.perThread = true → d.scope = .session ∨ d.scope = .suite) ∧ C14I.ValidD p := by
  rw [← C14I.prepareD_ok_iff p wfP wfD]
  constructor
  · rintro ⟨r, h⟩
    obtain ⟨ha, hr⟩ := (prepareFull_ok_iff p r).mp h
    exact ⟨fun d hd => (decl_allowed_iff _ _).mp (ha d hd), r, hr⟩
  · rintro ⟨ha, r, hr⟩
    exact ⟨r, (prepareFull_ok_iff p r).mpr ⟨fun d hd => (decl_allowed_iff _ _).mpr (ha d hd), hr⟩⟩

/-- every refusal is a rejection class (a refused declaration or a `ValidationError`), never a crash — unconditional -/
theorem prepareFull_error_is_rejection (p : DProject) {e : PrepErr} (h : prepareFull p = .error e) :
    e.isRejection = true := by
  unfold prepareFull at h
  cases hD : prepareD p with
  | error e0 =>
    have hv := C14I.prepareD_error_is_validation p hD
    rw [hD] at h
    cases e0 with
    | policy e1 => simp only at h; injection h with h; subst h; exact hv
    | deps e1 => simp only at h; injection h with h; subst h; exact hv
    | fixture e1 =>
      simp only at h
      cases hc : checkDecls p.decls with
      | error e' =>
        rw [hc] at h; simp only at h; injection h with h; subst h
        obtain ⟨d, _, he, _⟩ := checkDecls_error hc
        subst he; rfl
      | ok u => rw [hc] at h; simp only at h; injection h with h; subst h; exact hv
  | ok v =>
    rw [hD] at h
    simp only at h
    cases hc : checkDecls p.decls with
    | error e' =>
      rw [hc] at h; simp only at h; injection h with h; subst h
      obtain ⟨d, _, he, _⟩ := checkDecls_error hc
      subst he; rfl
    | ok u => rw [hc] at h; simp only at h; cases h

/-- a per-thread fixture of an ACCEPTED project has scope `session` or `suite` — for every scope, every project -/
theorem accepted_per_thread_fixture_is_session_or_suite (p : DProject) {r : Prepared} (h : prepareFull p = .ok r)
    (d : Decl) (hd : d ∈ p.decls) (hpt : d.perThread = true) : d.scope = .session ∨ d.scope = .suite :=
  (decl_allowed_iff _ _).mp (((prepareFull_ok_iff p r).mp h).1 d hd) hpt

/-- … so a project declaring `@lcc.fixture(scope="pre_run" | "test", per_thread=True)` is never accepted -/
theorem refused_declaration_never_accepted (p : DProject) (d : Decl) (hd : d ∈ p.decls) (hpt : d.perThread = true)
    (hs : d.scope = .preRun ∨ d.scope = .test) (r : Prepared) : prepareFull p ≠ .ok r := by
  intro h
  have := accepted_per_thread_fixture_is_session_or_suite p h d hd hpt
  rcases hs with hs | hs <;> rw [hs] at this <;> simp at this

/-- a policy / dependency error is reported first (those checks run before the fixture files are loaded) -/
theorem policy_and_deps_errors_win (p : DProject) :
    (∀ e, prepareD p = .error (.policy e) → prepareFull p = .error (.validation (.policy e))) ∧
    (∀ e, prepareD p = .error (.deps e) → prepareFull p = .error (.validation (.deps e))) := by
  constructor <;> intro e h <;> unfold prepareFull <;> rw [h]

/-! ## Run time: the callable of a running test receives what it needs -/

/-- For an accepted registry / suite tree, every keyword the runner passes to the callable of a test that really runs
    is a parameter of the (parametrized) test or the name of a fixture whose value is found, executed, in the chain of
    scope instances — whatever kind of callable it is and whatever it wraps. -/
theorem callable_arguments_found {R : Registry} (wf : WF R) (S : List Suite) (fd : Bool)
    (hdeps : checkDependencies R = .ok ()) (hsuites : checkFixturesInSuites R S = .ok ())
    (inh : Bool) (s : Suite) (hs : (inh, s) ∈ withInhSuites false S)
    (path : String) (fn : Callable) (parameters : List String) (disabled : Bool)
    (ht : testOf path fn parameters disabled ∈ s.tests)
    (hruns : testRuns inh s (testOf path fn parameters disabled) fd = true) :
    ∃ Itest c3 c4,
      scheduled R (testOf path fn parameters disabled).fixtures .test = .ok Itest ∧
      enter R c3 .test Itest = .ok c4 ∧
      ∀ n ∈ callKeywords fn, n ∈ parameters ∨ getResult c4 n = .ok () := by
  obtain ⟨_, _, _, Itest, _, _, _, a4, _, _, c3, c4, _, _, _, e4, l1, _⟩ :=
    C14.accepted_project_run_sound wf S fd hdeps hsuites inh s hs _ ht hruns
  refine ⟨Itest, c3, c4, a4, e4, ?_⟩
  intro n hn
  by_cases hp : n ∈ parameters
  · exact .inl hp
  · right
    apply l1
    unfold Test.fixtures testOf
    simp only [List.mem_filter, decide_eq_true_eq]
    exact ⟨hn, hp⟩

/-! ## Non-vacuity -/

-- `@mock.patch("os.getcwd") def workdir(settings)`: called as `patched(*args, **kwargs)` — needs nothing
example : neededArgs ⟨.function, [], some ["settings"]⟩ = [] := by decide
-- a decorator supplying `extra` and renaming `w_fa`: the wrapper `def t(self, fa)` read from the suite object needs `fa`
example : neededArgs ⟨.boundMethod, ["self", "fa"], some ["self", "w_fa", "extra"]⟩ = ["fa"] := by decide
example : neededArgs ⟨.callableObject, ["self", "a", "b"], none⟩ = ["a", "b"] := by decide
example : neededArgs ⟨.partialObject, [], none⟩ = ["self"] := by decide
example : declAllowed .preRun true = false ∧ declAllowed .test true = false ∧ declAllowed .session true = true := by decide
example : checkDecls [⟨["a"], .session, true, []⟩, ⟨["b"], .preRun, true, []⟩, ⟨["c"], .test, true, []⟩]
    = .error (.declRefused ["b"]) := rfl

end LccModel.C14C

/-
  C16 — operands that are (or contain) dicts whose keys are of MIXED types (`{1: "one", "two": 2}`, `{None: 0, "x": 1}`).

  The value universe `Val` of the model carries such dicts (`Val.dict (ks : List DKey) vs`, `DKey` = None / bool / int /
  float / str), so every theorem of `Props/C16.lean` (which quantify over all `v : Val` and all expected values inside
  `m : M`) already covers them.  This file states what that means for this input class in particular:

  * a matcher tree that applies no raising operator (`raiseFree`: no ordering, `len`, iteration, `in actual`) RETURNS A
    RESULT for every operand — rendering the expected / actual value in details and descriptions (`jsonify`) can never turn
    a computable boolean into an exception (`raiseFree_returns_result`, `matches_raises_only_if_operator_raises`);
  * therefore `check_that` records exactly one check, `require_that` / `assert_that` raise `AbortTest` and nothing else
    (`checkThat_raiseFree`, `requireThat_raiseFree`, `assertThat_raiseFree`);
  * Python's dict semantics on mixed keys: equality is order-free and compares keys with `==` (`1`, `True`, `1.0` are one
    key; `1` and `"1"` are two), lookup `d[1]` finds the key `True`, iteration / `in` see the keys as values;
  * the rendering writes the keys in insertion order, coerced like `json.dumps` does, with no comparison between keys
    (`jsonify_dict_entries`; the finite coercion table is re-extracted from the real `jsonify` on every run:
    `Generated/C16TablesCheck.jsonify_keys_agrees`).

  Property theorems only (definitions: `Lemmas/MatcherKeys.lean`).
-/
import LccModel.Lemmas.MatcherKeys
import LccModel.Props.C16

namespace LccModel.C16Keys
open LccModel.Matcher LccModel.C16

mutual
/-- the reference meaning of a raise-free matcher tree is a boolean for EVERY operand (any value, any dict keys) -/
theorem raiseFree_sem_total : ∀ (m : M), m.raiseFree = true → ∀ v : Val, ∃ b, sem m v = .ok b
  | .equalTo e, _, v => ⟨_, rfl⟩
  | .cmp .ne e, _, v => ⟨_, rfl⟩
  | .cmp (.ord _) _, h, _ => by simp [M.raiseFree] at h
  | .between _ _, h, _ => by simp [M.raiseFree] at h
  | .isNone, _, v => ⟨_, rfl⟩
  | .hasLength _, h, _ => by simp [M.raiseFree] at h
  | .startsWith s, _, v => ⟨_, rfl⟩
  | .endsWith s, _, v => ⟨_, rfl⟩
  | .containsString s, _, v => ⟨_, rfl⟩
  | .hasItem _, h, _ => by simp [M.raiseFree] at h
  | .hasItems _, h, _ => by simp [M.raiseFree] at h
  | .hasOnlyItems _, h, _ => by simp [M.raiseFree] at h
  | .hasAllItems _, h, _ => by simp [M.raiseFree] at h
  | .isIn es, _, v => ⟨_, rfl⟩
  | .hasEntry p m, h, v => by
    simp only [M.raiseFree] at h
    simp only [sem]
    cases getPath v p with
    | none => exact ⟨_, rfl⟩
    | some w => exact raiseFree_sem_total m h w
  | .hasKey p, _, v => ⟨_, rfl⟩
  | .isType ty m, h, v => by
    simp only [M.raiseFree] at h
    simp only [sem]
    cases ty.accepts v.ty with
    | false => exact ⟨_, rfl⟩
    | true => exact raiseFree_sem_total m h v
  | .isTypeAny ty, _, v => ⟨_, rfl⟩
  | .allOf ms, h, v => by
    simp only [M.raiseFree] at h
    simp only [sem]
    exact raiseFree_semAll_total ms h v
  | .anyOf ms, h, v => by
    simp only [M.raiseFree] at h
    simp only [sem]
    exact raiseFree_semAny_total ms h v
  | .anything w, _, v => ⟨_, rfl⟩
  | .not m, h, v => by
    simp only [M.raiseFree] at h
    obtain ⟨b, hb⟩ := raiseFree_sem_total m h v
    exact ⟨!b, by simp only [sem, hb, notE]⟩
  | .hidden m, h, v => by
    simp only [M.raiseFree] at h
    simpa only [sem] using raiseFree_sem_total m h v
  | .described d m, h, v => by
    simp only [M.raiseFree] at h
    simpa only [sem] using raiseFree_sem_total m h v
theorem raiseFree_semAll_total : ∀ (ms : List M), raiseFreeList ms = true → ∀ v : Val, ∃ b, semAll ms v = .ok b
  | [], _, v => ⟨_, rfl⟩
  | m :: ms, h, v => by
    simp only [raiseFreeList, Bool.and_eq_true] at h
    obtain ⟨b, hb⟩ := raiseFree_sem_total m h.1 v
    simp only [semAll, hb]
    cases b with
    | false => exact ⟨_, rfl⟩
    | true => exact raiseFree_semAll_total ms h.2 v
theorem raiseFree_semAny_total : ∀ (ms : List M), raiseFreeList ms = true → ∀ v : Val, ∃ b, semAny ms v = .ok b
  | [], _, v => ⟨_, rfl⟩
  | m :: ms, h, v => by
    simp only [raiseFreeList, Bool.and_eq_true] at h
    obtain ⟨b, hb⟩ := raiseFree_sem_total m h.1 v
    simp only [semAny, hb]
    cases b with
    | true => exact ⟨_, rfl⟩
    | false => exact raiseFree_semAny_total ms h.2 v
end

/-- **`matches()` raises only if a Python operator of the matcher's meaning raises** — and then the same exception: for
    every tree and every operand; rendering (descriptions, details, `jsonify` of dicts with any keys) is never a cause. -/
theorem matches_raises_only_if_operator_raises (m : M) (v : Val) (e : PyErr) :
    (matchOf m v = .error e) ↔ (sem m v = .error e) := by
  have h : okOf (matchOf m v) = sem m v := by rw [← okE_def]; exact okE_eq_sem m v
  cases hm : matchOf m v with
  | error e' =>
    rw [hm] at h; simp only [okOf] at h; rw [← h]
    constructor <;> (intro x; cases x; rfl)
  | ok r =>
    rw [hm] at h; simp only [okOf] at h; rw [← h]
    constructor <;> (intro x; cases x)

/-- equality / type / key / string / membership matchers and every combination of them through `not_`, `all_of`, `any_of`,
    `has_entry`, the typed matchers and the two wrappers **compute a boolean for every operand**: `matches()` returns a
    result whose flag is the reference meaning.  (`equal_to({1: "one", "two": 2})`, `is_dict()`, `not_(…)`, `any_of(…)` on
    `{None: 0, "x": 1}` …) -/
theorem raiseFree_returns_result (m : M) (h : m.raiseFree = true) (v : Val) :
    ∃ r : Res, matchOf m v = .ok r ∧ sem m v = .ok r.ok := by
  obtain ⟨b, hb⟩ := raiseFree_sem_total m h v
  have hk := okE_eq_sem m v
  simp only [okE, hb] at hk
  cases hm : matchOf m v with
  | error e => rw [hm] at hk; cases hk
  | ok r => rw [hm] at hk; cases hk; exact ⟨r, rfl, hb⟩

/-- `check_that` with a raise-free matcher: exactly one check is appended, its outcome is the match result, the result is
    returned — for every operand. -/
theorem checkThat_raiseFree (m : M) (h : m.raiseFree = true) (hint : Option Str) (v : Val) (quiet : Bool) (log : List Check) :
    ∃ r : Res, matchOf m v = .ok r ∧
      checkThat hint v m quiet log = (log ++ [logEntry hint m r quiet], .returned r) := by
  obtain ⟨r, hr, _⟩ := raiseFree_returns_result m h v
  exact ⟨r, hr, by simp only [checkThat, hr]⟩

/-- `require_that` with a raise-free matcher: one check; `AbortTest` iff the match failed — never another exception. -/
theorem requireThat_raiseFree (m : M) (h : m.raiseFree = true) (hint : Option Str) (v : Val) (quiet : Bool) (log : List Check) :
    ∃ r : Res, matchOf m v = .ok r ∧
      requireThat hint v m quiet log = (log ++ [logEntry hint m r quiet], if r.ok then .returned r else .abortTest) := by
  obtain ⟨r, hr, _⟩ := raiseFree_returns_result m h v
  exact ⟨r, hr, by simp only [requireThat, hr]⟩

/-- `assert_that` with a raise-free matcher: nothing on success, one failed check + `AbortTest` on failure — never another
    exception. -/
theorem assertThat_raiseFree (m : M) (h : m.raiseFree = true) (hint : Option Str) (v : Val) (quiet : Bool) (log : List Check) :
    ∃ r : Res, matchOf m v = .ok r ∧
      assertThat hint v m quiet log =
        (if r.ok then (log, .returned r) else (log ++ [logEntry hint m r quiet], .abortTest)) := by
  obtain ⟨r, hr, _⟩ := raiseFree_returns_result m h v
  exact ⟨r, hr, by simp only [assertThat, hr]⟩

/-! ## Python's dict semantics on keys of mixed types -/

/-- the rendering of a dict is the list of its entries in insertion order, each `<key coerced by json.dumps>: <value>` —
    a function of every key alone: no comparison between keys, whatever their types -/
theorem jsonify_dict_entries (k : DKey) (ks : List DKey) (v : Val) (vs : List Val) :
    jsonifyEntries (k :: ks) (v :: vs) = (k.json ++ c!": " ++ jsonify v) :: jsonifyEntries ks vs := by
  simp only [jsonifyEntries]

/-- `{1: "one", "two": 2, None: 0, 1.5: []}` -/
theorem jsonify_mixed_keys :
    jsonify (.dict [.int 1, .str c!"two", .none, .float 3, .bool false] [.str c!"one", .int 2, .int 0, .list [], .none]) =
      c!"{\"1\": \"one\", \"two\": 2, \"null\": 0, \"1.5\": [], \"false\": null}" := by decide

/-- `1`, `True` and `1.0` are ONE dict key (lookup, `in`), `"1"` is another one -/
theorem lookup_key_coercion (v : Val) :
    lookup (.int 1) [.bool true] [v] = some v ∧ lookup (.float 2) [.int 1] [v] = some v ∧
    lookup (.str c!"1") [.int 1] [v] = none ∧ lookup .none [.str c!"null"] [v] = none := by
  refine ⟨?_, ?_, ?_, ?_⟩ <;> simp [lookup, DKey.eq, DKey.num]

/-- dict equality does not depend on the insertion order and compares keys with `==` -/
theorem pyEq_mixed_keys_order_free :
    pyEq (.dict [.int 1, .str c!"two"] [.str c!"one", .int 2]) (.dict [.str c!"two", .bool true] [.int 2, .str c!"one"]) = true ∧
    pyEq (.dict [.int 1, .str c!"two"] [.str c!"one", .int 2]) (.dict [.str c!"1", .str c!"two"] [.str c!"one", .int 2]) = false := by
  decide

/-- `has_entry(1)` / `has_entry(["a", 1])` look an int key up (and find `True` / `1.0`); `1 in d`, `None in d` test the keys;
    iterating a dict yields its keys as values -/
theorem mixed_keys_lookup_in_iter :
    (getPath (.dict [.str c!"a"] [.dict [.bool true, .str c!"k"] [.str c!"one", .none]]) [.str c!"a", .int 1]).map jsonify
      = some c!"\"one\"" ∧
    pyIn (.int 1) (.dict [.bool true, .none] [.none, .none]) = .ok true ∧
    pyIn .none (.dict [.bool true, .none] [.none, .none]) = .ok true ∧
    pyIn (.str c!"1") (.dict [.int 1] [.none]) = .ok false ∧
    pyIn (.list []) (.dict [.int 1] [.none]) = .error .typeError ∧
    (match pyIter (.dict [.int 1, .str c!"two", .none] [.none, .none, .none]) with
     | .ok xs => xs.map jsonify
     | .error _ => []) = [c!"1", c!"\"two\"", c!"null"] := by
  decide

/-- non-vacuity: the witnesses of seeded/C16-4 are raise-free trees applied to dicts with keys of mixed types, and the
    theorems above decide their outcome -/
example : mixedKeys [.int 1, .str c!"two"] = true ∧ mixedKeys [.none, .str c!"x"] = true ∧ mixedKeys [.str c!"a", .str c!"b"] = false := by
  decide
example : (M.anyOf [.equalTo (.dict [.int 1, .str c!"two"] [.str c!"one", .int 2]), .not .isNone,
                    .isType .dict (.hasEntry [.int 1] (.isIn [.none]))]).raiseFree = true := by decide
example : okE (.equalTo (.dict [.int 1, .str c!"two"] [.str c!"one", .int 2]))
              (.dict [.str c!"two", .bool true] [.int 2, .str c!"one"]) = .ok true := by decide
example : matchOf (.cmp .ne (.dict [.none, .str c!"x"] [.int 0, .int 1])) (.dict [.int 1, .str c!"two"] [.str c!"one", .int 2]) =
    .ok ⟨true, some c!"got {\"1\": \"one\", \"two\": 2}"⟩ := by decide
example : (assertThat (some c!"x") (.dict [.none, .str c!"x"] [.int 0, .int 1])
            (.equalTo (.dict [.int 1, .str c!"two"] [.str c!"one", .int 2])) false []) =
    ([⟨c!"Expect x to be equal to {\"1\": \"one\", \"two\": 2}", false, some c!"Got {\"null\": 0, \"x\": 1}"⟩], .abortTest) := by decide

end LccModel.C16Keys

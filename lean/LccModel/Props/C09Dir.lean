/-
  C09 — a report saved into a report DIRECTORY and loaded back through `load_report(<directory>)`
  (models `Model/DirStore.lean` on top of `Model/Store.lean`).

  Input classes these theorems quantify over (stream `C09.dir`): the NAME of the report directory (any characters:
  `[ ] * ?` are characters like the others), its sibling directories (any number, any names, any content — older
  reports included), the other entries of the directory (sub-directories, files no backend can load), the backend /
  options / generation time / report, and the place of the system temporary directory (which file system `$TMPDIR` is on).
-/
import LccModel.Props.C09
import LccModel.Lemmas.DirStore

namespace LccModel.C09
open LccModel.Report LccModel.Serial LccModel.JsonFile LccModel.Store LccModel.DirStore

/-- **Loading is a function of the directory's content, not of its name**: two directories (of any two file systems,
    under any two names) with the same entries load the same report. -/
theorem dir_load_is_function_of_content (fs fs' : FS) (n n' : Name) (d d' : Dir)
    (h : findDir n fs = some d) (h' : findDir n' fs' = some d') (he : d.entries = d'.entries) :
    loadDir fs n = loadDir fs' n' := by
  simp only [loadDir, h, h', he]

/-- **Sibling directories are irrelevant**, whatever their names (`report1` beside `report[1]`, `report-old` beside
    `report-*`, …) and whatever they hold: only a directory of exactly the requested name is read. -/
theorem dir_load_ignores_siblings (s : Dir) (fs : FS) (n : Name) (h : s.name ≠ n) :
    loadDir (s :: fs) n = loadDir fs n := by
  simp only [loadDir, findDir, h, if_false]

/-- … also when the sibling comes later in the parent's listing -/
theorem dir_load_ignores_later_siblings (d : Dir) (fs : FS) : loadDir (d :: fs) d.name = loadDir [d] d.name := by
  simp only [loadDir, findDir, if_true]

/-- a save touches the directory it is made into and no other -/
theorem save_leaves_siblings_alone (pl : TmpPlace) (fs : FS) (n m f : Name) (fmt : Fmt) (g : Time) (r : Report) (hm : m ≠ n) :
    findDir m (saveInto pl fs n f fmt g r).1 = findDir m fs := by
  unfold saveInto
  split
  · rfl
  · split
    · rfl
    · split
      · rename_i c _ _ _ _ _
        exact findDir_updateDir_ne n m (fun d => { d with entries := setEntry f (.file c) d.entries }) (fun _ => rfl) hm fs
      · rfl

/-- **Nothing but the report file appears in the report directory**: after a save (successful or not, wherever the
    temporary file was), every entry of the directory is the saved file or an entry that was there before — no
    temporary file is left behind. -/
theorem save_leaves_nothing_else (pl : TmpPlace) (fs : FS) (n f : Name) (fmt : Fmt) (g : Time) (r : Report) (d d' : Dir)
    (hd : findDir n fs = some d) (hd' : findDir n (saveInto pl fs n f fmt g r).1 = some d') :
    ∀ x ∈ d'.entries, x.1 = f ∨ x ∈ d.entries := by
  unfold saveInto at hd'
  split at hd'
  · rw [hd] at hd'; cases hd'; exact fun x hx => .inr hx
  · rw [hd] at hd'
    dsimp only at hd'
    split at hd'
    · rename_i c _ _
      rw [show ∀ (a : FS) (b : SaveOutcome), (a, b).1 = a from fun _ _ => rfl,
        findDir_updateDir n (fun d => { d with entries := setEntry f (.file c) d.entries }) (fun _ => rfl), hd] at hd'
      cases hd'
      intro x hx
      rcases mem_setEntry hx with rfl | ⟨h, _⟩
      · exact .inl rfl
      · exact .inr h
    · rw [hd] at hd'; cases hd'; exact fun x hx => .inr hx

/-- **The save does not depend on where the system temporary directory is**: the real save (temporary file beside
    the target) never fails with a cross-device move, whatever file system the report directory is on. -/
theorem save_never_cross_device (fs : FS) (n f : Name) (fmt : Fmt) (g : Time) (r : Report) :
    (save fs n f fmt g r).2 ≠ .crossDevice := by
  unfold save saveInto
  split
  · simp
  · split
    · simp
    · simp [replaceOk, tmpDev]

/-- a JSON save into an existing directory always succeeds -/
theorem save_json_succeeds (fs : FS) (n f : Name) (o : Opts) (g : Time) (r : Report) :
    (save fs n f (.json o) g r).2 = .saved := by
  unfold save saveInto
  simp only [contentOf]
  split
  · rfl
  · simp [replaceOk, tmpDev]

/-- Refutation of the variant "temporary file in the system temporary directory" (`tempfile.mkstemp()`): as soon as
    `$TMPDIR` is on another file system than the report directory EVERY save fails (and the directory is unchanged). -/
theorem system_tmp_refuted (fs : FS) (n f : Name) (o : Opts) (g : Time) (r : Report) (d : Dir) (dv : Nat)
    (hd : findDir n fs = some d) (hdev : dv ≠ d.dev) :
    saveInto (.system dv) fs n f (.json o) g r = (fs, .crossDevice) := by
  unfold saveInto
  simp only [contentOf, hd, replaceOk, tmpDev]
  have : (dv == d.dev) = false := by simpa using hdev
  simp [this]

/-- **Save into a directory, load through the directory (JSON, any options)**: for EVERY directory name, every set of
    sibling directories, every other content of the directory that is not itself a loadable report, `load_report(dir)`
    after `save_report(dir/f)` yields the saved report. -/
theorem dir_save_load_json (fs : FS) (n f : Name) (o : Opts) (g : Time) (r : Report) (d : Dir)
    (hd : findDir n fs = some d) (hother : ∀ x ∈ d.entries, x.1 ≠ f → loadEntry x.2 = .skip)
    (hrep : representable r = true) :
    (save fs n f (.json o) g r).2 = .saved ∧ loadDir (save fs n f (.json o) g r).1 n = .loaded (loaded g r) := by
  refine ⟨save_json_succeeds .., ?_⟩
  have hs : (save fs n f (.json o) g r).1 =
      updateDir n (fun d => { d with entries := setEntry f (.file (.json o (toJson g r))) d.entries }) fs := by
    unfold save saveInto
    simp [contentOf, hd, replaceOk, tmpDev]
  have hl : loadEntry (.file (.json o (toJson g r))) = .report (loaded g r) := by
    have := oneShot_json o g r hrep
    simp only [oneShot] at this
    simp [loadEntry, this]
  rw [hs]
  exact loadDir_after_set fs n f _ _ d hd hother hl

/-- The same for the XML backend under the guard of `xml_roundtrip_partial`. -/
theorem dir_save_load_xml_partial (fs : FS) (n f : Name) (g : Time) (r : Report) (d : Dir)
    (hd : findDir n fs = some d) (hother : ∀ x ∈ d.entries, x.1 ≠ f → loadEntry x.2 = .skip)
    (hs : xmlSafe r = true) (hrep : representable r = true) :
    (save fs n f .xml g r).2 = .saved ∧ loadDir (save fs n f .xml g r).1 n = .loaded (loaded g r) := by
  have hone := oneShot_xml_partial g r hs hrep
  simp only [oneShot] at hone
  cases hx : xmlFile g r with
  | error e => rw [hx] at hone; cases hone
  | ok c =>
    rw [hx] at hone
    have hsv : save fs n f .xml g r =
        (updateDir n (fun d => { d with entries := setEntry f (.file (.xml c)) d.entries }) fs, .saved) := by
      unfold save saveInto
      simp [contentOf, hx, hd, replaceOk, tmpDev]
    have hl : loadEntry (.file (.xml c)) = .report (loaded g r) := by simp [loadEntry, hone]
    rw [hsv]
    exact ⟨rfl, loadDir_after_set fs n f _ _ d hd hother hl⟩

/-- `C09/roundtrip/directory-load-crashes-on-foreign-file` (open finding): the guard `hother` of the two theorems above
    cannot be dropped — a directory entry on which a backend raises something else than `ReportLoadingError` (a file
    that is not UTF-8 text; a pid file holding `4242`, which is a JSON document) and that `os.listdir` yields before the
    report makes `load_report(<directory>)` raise, although the report file beside it is intact.
    Full-strength statement (false): `∀ d, findDir n fs = some d → loadDir (save fs n f (.json o) g r).1 n = .loaded (loaded g r)`. -/
theorem hostile_entry_crashes_directory_load (fs : FS) (n nm : Name) (d : Dir) (rest : List (Name × DirStore.Entry))
    (hd : findDir n fs = some d) (he : d.entries = (nm, .hostile) :: rest) : loadDir fs n = .crashed := by
  simp [loadDir, hd, he, firstLoad, loadEntry]

/-- … and the LIST form (`list(load_reports_from_dir(dir))`) raises wherever the entry is in the listing -/
theorem hostile_entry_crashes_directory_listing (a b : List (Name × DirStore.Entry)) (nm : Name) :
    loadAll (a ++ (nm, .hostile) :: b) = none := by
  induction a with
  | nil => simp [loadAll, loadEntry]
  | cons x rest ih =>
    obtain ⟨xn, e⟩ := x
    simp only [List.cons_append, loadAll, ih]
    cases loadEntry e <;> rfl

/-- Refutation of a lookup that reads the directory's name as a PATTERN (`glob.glob(join(dirname, "*"))`; here the
    weakest pattern language, `?` = any one character): asked for the directory `what?` it opens the sibling `whats`. -/
theorem pattern_lookup_refuted :
    let fs : FS := [⟨"whats".toList, 0, []⟩, ⟨"what?".toList, 0, []⟩]
    (findDirBy qMatch "what?".toList fs).map (·.name) = some "whats".toList ∧
    (findDir "what?".toList fs).map (·.name) = some "what?".toList := by decide

end LccModel.C09

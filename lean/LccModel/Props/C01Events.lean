/-
  C01, termination — "the run terminates": the part that rests on the event manager.

  Every task of a run fires events (`fire` = `Queue.put`) from its worker thread, and the main thread fires the end-of-session
  events and the sentinel of `handle_events`.  A `fire` that blocks is a task that never reports back: the run never terminates.
  Model: `Model/EventManager.lean` (shared with C11).  The bound of the REAL queue is extracted on every run
  (`Generated/C01Tables.emQueueBound`, obligation `em_queue_is_unbounded` in `Generated/C01TablesCheck.lean`).

  * unbounded queue (what the real code has): no interleaving of producers and handler thread, no failing handler, no number of
    events makes a `fire` or the exit of `handle_events` block;
  * EVERY finite bound `c` (not a sample: all of them): once the handler loop has stopped (a handler raised), every schedule that
    still holds more than `c` fires blocks — whatever is in the queue, however the dead handler thread is scheduled in between.
    This is the input class the `em` stream explores (`over`: bound + k events after the first failing handler).
-/
import LccModel.Lemmas.EventManager

namespace LccModel.C01Events
open LccModel.EM

variable (fails : Nat → Bool)

/-- On the unbounded queue the event manager never blocks the run: every schedule of fires and handler iterations runs to
    its end, and then `handle_events` exits — for every failure predicate, event count and interleaving. -/
theorem event_manager_never_blocks_the_run (ops : List Op) :
    ∃ s s', run fails (init none) ops = some s ∧ close fails s = some s' := by
  suffices h : ∀ (ops : List Op) (s : St), s.cap = none → ∃ s1 s2, run fails s ops = some s1 ∧ close fails s1 = some s2 from
    h ops _ rfl
  intro ops
  induction ops with
  | nil =>
    intro s hc
    exact ⟨s, drain fails s.queue.length s, rfl, by simp [close, canPut, hc]⟩
  | cons o os ih =>
    intro s hc
    cases o with
    | fire e =>
      have : fire s e = some { s with queue := s.queue ++ [e], fired := s.fired ++ [e] } := by simp [fire, canPut, hc]
      simp only [run, step, this]; exact ih _ hc
    | handle =>
      simp only [run, step]
      cases hh : handle fails s with
      | none => simpa using ih s hc
      | some s2 => simpa using ih s2 (by rw [cap_handle hh]; exact hc)

/-- A stopped handler loop consumes nothing: scheduling it changes nothing. -/
theorem dead_handler_is_inert (s : St) (ha : s.alive = false) : step fails s .handle = some s := by
  simp [step, handle, ha]

/-- EVERY finite bound blocks: the handler loop has stopped (`alive = false`), the queue is bounded by `c`; a schedule that
    still fires more events than there is room left (`c - queue length`, at least one) never reaches its end. -/
theorem bounded_queue_blocks_after_failure (c : Nat) :
    ∀ (ops : List Op) (s : St), s.cap = some c → s.alive = false → c < s.queue.length + fires ops → 0 < fires ops →
      run fails s ops = none := by
  intro ops
  induction ops with
  | nil => intro s _ _ _ h0; simp [fires] at h0
  | cons o os ih =>
    intro s hc ha hlt h0
    cases o with
    | fire e =>
      simp only [fires] at hlt
      by_cases hroom : s.queue.length < c
      · have hf : fire s e = some { s with queue := s.queue ++ [e], fired := s.fired ++ [e] } := by
          simp [fire, canPut, hc, hroom]
        simp only [run, step, hf]
        apply ih
        · exact hc
        · exact ha
        · simp only [List.length_append, List.length_singleton]; omega
        · omega
      · have hf : fire s e = none := by simp [fire, canPut, hc, hroom]
        simp [run, step, hf]
    | handle =>
      simp only [fires] at hlt h0
      simp only [run, dead_handler_is_inert fails s ha]
      exact ih s hc ha hlt h0

/-- Corollary in the terms of the stream: after a handler failure, more than `c` further fires block, from every reachable
    state of a run on a queue bounded by `c` and for every scheduling of the (dead) handler thread in between. -/
theorem more_than_the_bound_after_a_failure_blocks (c : Nat) (before after : List Op) (s : St)
    (h : run fails (init (some c)) before = some s) (hp : s.pending.isSome = true) (hn : c < fires after) :
    run fails s after = none := by
  have ha : s.alive = false := by
    have hs := (inv_run before (inv_init fails (some c)) h).seen
    unfold Seen at hs
    cases ha : s.alive with
    | false => rfl
    | true => rw [ha] at hs; simp only [if_true] at hs; rw [hs.1] at hp; cases hp
  have hc : s.cap = some c := by rw [cap_run before h]; rfl
  exact bounded_queue_blocks_after_failure fails c after s hc ha (by omega) (by omega)

/-- … and with room left for the events but not for the sentinel, the exit of `handle_events` blocks. -/
theorem full_queue_blocks_the_exit (c : Nat) (s : St) (hc : s.cap = some c) (hfull : c ≤ s.queue.length) :
    close fails s = none := by
  have : ¬ s.queue.length < c := by omega
  simp [close, canPut, hc, this]

/-! ### non-vacuity -/

/-- bound 3, the handler of event 0 raises, 4 more events: the last `fire` blocks -/
example : run (· == 0) (init (some 3)) [.fire 0, .handle, .fire 1, .handle, .fire 2, .fire 3, .handle, .fire 4] = none := by decide

/-- the same schedule on the unbounded queue ends, with the failure pending -/
example : ((run (· == 0) (init none) [.fire 0, .handle, .fire 1, .handle, .fire 2, .fire 3, .handle, .fire 4]).bind
    (close (· == 0))).map (fun s => (s.handled, s.pending)) = some ([0], some 0) := by decide

/-- the hypotheses of `more_than_the_bound_after_a_failure_blocks` are satisfiable -/
example : ∃ s, run (· == 0) (init (some 3)) [.fire 0, .handle] = some s ∧ s.pending.isSome = true ∧
    3 < fires [.fire 1, .handle, .fire 2, .fire 3, .handle, .fire 4] := ⟨_, rfl, by decide, by decide⟩

end LccModel.C01Events

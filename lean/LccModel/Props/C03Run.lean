/-
  C03 (run level, model M5 `Model/Run.lean`) — setup / teardown pairing.

  `RunContext.run_setup_funcs` keeps the teardowns of exactly the setups that completed while the location
  was still successful, in order, and stops at the first failure; `RunContext.run_teardown_funcs` runs every
  kept teardown exactly once, in reverse order, and goes on after an exception.
  Statements are about the programs of the interpreter monad (for ALL states they are started in), hence
  hold inside every task, for all projects, interrupt cuts and failing-lookup indices.
-/
import LccModel.Lemmas.RunTask

namespace LccModel.C03Run
open LccModel.Report LccModel.Session LccModel.Run

/-! ### The setup loop -/

/-- `AllCompleted run loc pairs ts ts'`: started in `ts`, every setup function of `pairs` (a `None` setup
    counts as completed) returned without raising and left location `loc` successful; `ts'` is the state
    reached after the last one -/
inductive AllCompleted (run : SetupFn → M (Option ExcKind)) (loc : Loc) : List (Option SetupFn × Td) → TS → TS → Prop
  | nil (ts : TS) : AllCompleted run loc [] ts ts
  | skip (td : Td) (rest : List (Option SetupFn × Td)) (ts ts' : TS) :
      AllCompleted run loc rest ts ts' → AllCompleted run loc ((none, td) :: rest) ts ts'
  | step (fn : SetupFn) (td : Td) (rest : List (Option SetupFn × Td)) (ts ts' : TS) :
      (exec (run fn) ts).1 = none → isSuccessful (exec (run fn) ts).2.sess loc = true →
      AllCompleted run loc rest (exec (run fn) ts).2 ts' → AllCompleted run loc ((some fn, td) :: rest) ts ts'

/-- how the loop stopped at pair `p`, started in `mid`, ending in `fin` -/
def StoppedAt (run : SetupFn → M (Option ExcKind)) (loc : Loc) (hs : Option Path) (p : Option SetupFn × Td)
    (mid fin : TS) : Prop :=
  ∃ fn, p.1 = some fn ∧
    ((∃ e, (exec (run fn) mid).1 = some e ∧                      -- the setup raised: the exception is handled
        fin = (exec (handleException e hs hs.isSome) (exec (run fn) mid).2).2) ∨
     ((exec (run fn) mid).1 = none ∧                            -- it returned, but the location has failed
        isSuccessful (exec (run fn) mid).2.sess loc = false ∧ fin = (exec (run fn) mid).2))

/-- **The setup loop**: there is an `n` such that
    * the first `n` setup functions all completed (no exception, location still successful after each),
    * the returned teardown list is `acc` followed by the teardowns of exactly these `n` pairs, in order,
    * either `n` is the whole list, or pair `n` is the FIRST FAILURE: its setup raised (and the exception
      went to `handle_exception`) or left the location failed — and the loop ended right there: the final
      state is the state after that setup (and handler),
    * nothing after the first failure is executed: replacing everything behind pair `n` by any other list
      `rest'` of setup functions gives the same result and the same final state (same items, same fixture
      instances, same flags). -/
theorem runSetupFuncs_spec (P : Proj) (svs : List SuiteView) (w : Nat) (suite : Path) (loc : Loc) (hs : Option Path) :
    ∀ (pairs : List (Option SetupFn × Td)) (acc : List Td) (ts : TS),
    ∃ n mid, n ≤ pairs.length ∧
      AllCompleted (runSetupFn P svs w suite) loc (pairs.take n) ts mid ∧
      (exec (runSetupFuncs P svs w suite loc hs pairs acc) ts).1 = acc ++ (pairs.take n).map (·.2) ∧
      ((n = pairs.length ∧ (exec (runSetupFuncs P svs w suite loc hs pairs acc) ts).2 = mid) ∨
       (∃ p, pairs[n]? = some p ∧
          StoppedAt (runSetupFn P svs w suite) loc hs p mid (exec (runSetupFuncs P svs w suite loc hs pairs acc) ts).2 ∧
          ∀ rest', exec (runSetupFuncs P svs w suite loc hs (pairs.take (n + 1) ++ rest') acc) ts =
                   exec (runSetupFuncs P svs w suite loc hs pairs acc) ts)) := by
  intro pairs
  induction pairs with
  | nil =>
    intro acc ts
    exact ⟨0, ts, Nat.le_refl _, .nil ts, by simp [runSetupFuncs], Or.inl ⟨rfl, rfl⟩⟩
  | cons p rest ih =>
    intro acc ts
    obtain ⟨fn, td⟩ := p
    cases fn with
    | none =>
      obtain ⟨n, mid, hn, hc, hk, hfin⟩ := ih (acc ++ [td]) ts
      have hunf : ∀ l, runSetupFuncs P svs w suite loc hs ((none, td) :: l) acc =
          runSetupFuncs P svs w suite loc hs l (acc ++ [td]) := fun l => by rw [runSetupFuncs]
      refine ⟨n + 1, mid, by simp; omega, by simpa using .skip td _ ts mid hc, ?_, ?_⟩
      · rw [hunf, hk]; simp
      · rw [hunf]
        rcases hfin with ⟨h1, h2⟩ | ⟨p, hp, hst, hirr⟩
        · exact Or.inl ⟨by simp [h1], h2⟩
        · refine Or.inr ⟨p, by simpa using hp, hst, fun rest' => ?_⟩
          have := hirr rest'
          simpa [hunf] using this
    | some fn =>
      have hunf : ∀ l, exec (runSetupFuncs P svs w suite loc hs ((some fn, td) :: l) acc) ts =
          match (exec (runSetupFn P svs w suite fn) ts).1 with
          | some e => (acc, (exec (handleException e hs hs.isSome) (exec (runSetupFn P svs w suite fn) ts).2).2)
          | none => if isSuccessful (exec (runSetupFn P svs w suite fn) ts).2.sess loc then
              exec (runSetupFuncs P svs w suite loc hs l (acc ++ [td])) (exec (runSetupFn P svs w suite fn) ts).2
            else (acc, (exec (runSetupFn P svs w suite fn) ts).2) := by
        intro l
        rw [runSetupFuncs]
        simp only [exec_bind]
        cases hr : (exec (runSetupFn P svs w suite fn) ts).1 with
        | some e => simp only [exec_bind, exec_pure]
        | none =>
          simp only [isOk, exec_bind, exec_get, exec_pure]
          by_cases hok : isSuccessful (exec (runSetupFn P svs w suite fn) ts).2.sess loc = true
          · simp [hok]
          · have hok' : isSuccessful (exec (runSetupFn P svs w suite fn) ts).2.sess loc = false := by simpa using hok
            simp [hok']
      cases hr : (exec (runSetupFn P svs w suite fn) ts).1 with
      | some e =>
        refine ⟨0, ts, Nat.zero_le _, by simpa using .nil ts, ?_, Or.inr ⟨(some fn, td), rfl, ?_, ?_⟩⟩
        · rw [hunf, hr]; simp
        · rw [hunf, hr]; exact ⟨fn, rfl, Or.inl ⟨e, hr, rfl⟩⟩
        · intro rest'
          have h1 := hunf rest
          have h2 := hunf rest'
          rw [hr] at h1 h2
          simpa [h1] using h2
      | none =>
        cases hok : isSuccessful (exec (runSetupFn P svs w suite fn) ts).2.sess loc with
        | false =>
          refine ⟨0, ts, Nat.zero_le _, by simpa using .nil ts, ?_, Or.inr ⟨(some fn, td), rfl, ?_, ?_⟩⟩
          · rw [hunf, hr]; simp [hok]
          · rw [hunf, hr]; simp only [hok]; exact ⟨fn, rfl, Or.inr ⟨hr, hok, rfl⟩⟩
          · intro rest'
            have h1 := hunf rest
            have h2 := hunf rest'
            rw [hr] at h1 h2
            simp only [hok] at h1 h2
            simpa [h1] using h2
        | true =>
          obtain ⟨n, mid, hn, hc, hk, hfin⟩ := ih (acc ++ [td]) (exec (runSetupFn P svs w suite fn) ts).2
          have hred : ∀ l, exec (runSetupFuncs P svs w suite loc hs ((some fn, td) :: l) acc) ts =
              exec (runSetupFuncs P svs w suite loc hs l (acc ++ [td])) (exec (runSetupFn P svs w suite fn) ts).2 := by
            intro l; rw [hunf, hr]; simp [hok]
          refine ⟨n + 1, mid, by simp; omega, by simpa using .step fn td _ ts mid hr hok hc, ?_, ?_⟩
          · rw [hred, hk]; simp
          · rw [hred]
            rcases hfin with ⟨h1, h2⟩ | ⟨p, hp, hst, hirr⟩
            · exact Or.inl ⟨by simp [h1], h2⟩
            · refine Or.inr ⟨p, by simpa using hp, hst, fun rest' => ?_⟩
              have := hirr rest'
              simpa [hred] using this

/-- in particular the kept teardowns are a prefix, in order, of the teardowns offered -/
theorem runSetupFuncs_kept_prefix (P : Proj) (svs : List SuiteView) (w : Nat) (suite : Path) (loc : Loc) (hs : Option Path)
    (pairs : List (Option SetupFn × Td)) (acc : List Td) (ts : TS) :
    ∃ n, n ≤ pairs.length ∧
      (exec (runSetupFuncs P svs w suite loc hs pairs acc) ts).1 = acc ++ (pairs.map (·.2)).take n := by
  obtain ⟨n, _, hn, _, hk, _⟩ := runSetupFuncs_spec P svs w suite loc hs pairs acc ts
  exact ⟨n, hn, by rw [hk, List.map_take]⟩

/-! ### The teardown loop -/

/-- plain sequential composition: every program of the list runs, once, in list order, whatever the
    previous ones did -/
def seqM : List (M Unit) → M Unit
  | [] => pure ()
  | m :: ms => do m; seqM ms

/-- what running a sequence means on states: a left fold, no early exit -/
theorem exec_seqM (ms : List (M Unit)) (ts : TS) : (exec (seqM ms) ts).2 = ms.foldl (fun s m => (exec m s).2) ts := by
  induction ms generalizing ts with
  | nil => rfl
  | cons m ms ih => simp only [seqM, exec_bind, List.foldl_cons]; exact ih _

/-- one teardown call of the loop: run the teardown; an exception goes to `handle_exception` and is
    swallowed there -/
def tdCall (P : Proj) (svs : List SuiteView) (loc : Loc) (hs : Option Path) (td : Td) : M Unit := do
  match ← runTd P svs loc td with
  | some e => handleException e hs hs.isSome
  | none => pure ()

theorem runTdList_eq (P : Proj) (svs : List SuiteView) (loc : Loc) (hs : Option Path) (tds : List Td) :
    runTdList P svs loc hs tds = seqM ((tds.filter (· != .none_)).map (tdCall P svs loc hs)) := by
  induction tds with
  | nil => rfl
  | cons td rest ih =>
    rw [runTdList, ih]
    by_cases h : td = .none_
    · subst h
      rfl
    · have h1 : (td != Td.none_) = true := by simpa using h
      simp only [List.filter_cons, h1, if_true, List.map_cons, seqM]
      unfold tdStep tdCall
      simp only [h1, if_true]
      rfl

/-- **The teardown loop**: `run_teardown_funcs(tds)` IS the plain sequence of one `tdCall` per non-`None`
    teardown of `tds`, in REVERSE order of the list: each such teardown is called exactly once (the list is
    traversed once, no teardown is skipped or repeated), and since every call — including its exception
    handler — is followed unconditionally by the next one, the loop continues after an exception. -/
theorem runTeardownFuncs_eq (P : Proj) (svs : List SuiteView) (loc : Loc) (hs : Option Path) (tds : List Td) :
    runTeardownFuncs P svs loc hs tds =
      seqM (((tds.filter (· != .none_)).reverse).map (tdCall P svs loc hs)) := by
  unfold runTeardownFuncs
  rw [runTdList_eq, List.filter_reverse]

/-- the same on states: the final state is the fold of the teardown calls over the reversed list -/
theorem runTeardownFuncs_fold (P : Proj) (svs : List SuiteView) (loc : Loc) (hs : Option Path) (tds : List Td) (ts : TS) :
    (exec (runTeardownFuncs P svs loc hs tds) ts).2 =
      ((tds.filter (· != .none_)).reverse).foldl (fun s td => (exec (tdCall P svs loc hs td) s).2) ts := by
  rw [runTeardownFuncs_eq, exec_seqM, List.foldl_map]

/-- the model's structural recursion is the `for` loop of the Python code:
    `for td in reversed(tds): if td: try: td() except Exception as e: handle_exception(e, suite)` -/
theorem runTeardownFuncs_eq_for (P : Proj) (svs : List SuiteView) (loc : Loc) (hs : Option Path) (tds : List Td) :
    runTeardownFuncs P svs loc hs tds = (do
      for td in tds.reverse do
        if td != .none_ then
          match ← runTd P svs loc td with
          | some e => handleException e hs hs.isSome
          | none => pure ()) := by
  unfold runTeardownFuncs
  generalize tds.reverse = l
  induction l with
  | nil => rfl
  | cons td rest ih =>
    rw [runTdList, ih]
    simp only [List.forIn_cons, tdStep]
    by_cases h : td = .none_
    · subst h; rfl
    · have h1 : (td != Td.none_) = true := by simpa using h
      simp only [h1, if_true]
      funext s
      show exec _ s = exec _ s
      simp only [exec_bind]
      cases hr : (exec (runTd P svs loc td) s).1 <;> simp only [exec_bind, exec_pure] <;> rfl

/-! ### The loops inside the tasks -/

/-- the teardowns a setup phase (`SuiteInitializationTask.run`, `TestSessionSetupTask.run`) keeps for the
    matching teardown task: a prefix of the offered teardowns (those whose setups completed, by
    `runSetupFuncs_spec`), or — when the phase has no setup function at all — every non-`None` teardown -/
theorem phaseProgram_kept (P : Proj) (svs : List SuiteView) (w : Nat) (suite : Path) (loc : Loc)
    (startOp endOp : Session.Op) (stepName : String) (pairs : List (Option SetupFn × Td)) (ts : TS) :
    (∃ n, n ≤ pairs.length ∧
        (exec (phaseProgram P svs w suite loc startOp endOp stepName pairs) ts).1.1 = (pairs.map (·.2)).take n) ∨
    (pairs.any (fun p => p.1.isSome) = false ∧
        (exec (phaseProgram P svs w suite loc startOp endOp stepName pairs) ts).1.1 =
          (pairs.map (·.2)).filter (· != .none_)) := by
  unfold phaseProgram
  split
  · left
    simp only [exec_bind, exec_pure]
    obtain ⟨n, hn, h⟩ := runSetupFuncs_kept_prefix P svs w suite loc none pairs []
      (exec (sop 0 (.setStep stepName)) (exec (sop 0 startOp) ts).2).2
    exact ⟨n, hn, by simpa using h⟩
  · right
    rename_i h
    refine ⟨by simpa using h, ?_⟩
    simp only [exec_pure]
    clear h
    induction pairs with
    | nil => rfl
    | cons p rest ih =>
      simp only [List.filterMap_cons, List.map_cons, List.filter_cons]
      by_cases hp : p.2 = .none_
      · simp [hp]; simpa using ih
      · have h1 : (p.2 == Td.none_) = false := by simpa using hp
        have h2 : (p.2 != Td.none_) = true := by simpa using hp
        simp [h1, h2]; simpa using ih

/-- the kept teardowns of a suite-initialization task -/
theorem init_task_kept (P : Proj) (insts : Insts) (w : Nat) (t : TaskId) (reason : Bool) (kept : List Td)
    (cut : Option Nat) (hk : t.kind = .init)
    (sv : SuiteView) (hsv : (allSuites P).find? (fun sv => sv.path == t.path) = some sv) :
    let offered := (initPairs P sv t.path).map (·.2)
    (∃ n, n ≤ offered.length ∧ (runTask P insts w t true reason kept cut).eff.kept = offered.take n) ∨
    ((runTask P insts w t true reason kept cut).eff.kept = offered.filter (· != .none_)) := by
  intro offered
  rw [runTask_kept]
  unfold taskProgram
  simp only [hk, hsv, Bool.not_true, Bool.false_eq_true, if_false, exec_bind, exec_pure]
  rcases phaseProgram_kept P (allSuites P) w t.path (.suiteSetup t.path) (.startSuiteSetup t.path)
    (.endSuiteSetup t.path) "Setup suite" (initPairs P sv t.path) (ts0 insts cut) with ⟨n, hn, h⟩ | ⟨_, h⟩
  · exact Or.inl ⟨n, by simpa [offered] using hn, h⟩
  · exact Or.inr h

/-- the suite / session teardown task (run or "skipped": `skip` calls `run`): when there is something to
    tear down, it brackets the plain reverse-order sequence of the kept teardowns between the phase start
    and end calls; otherwise it does nothing -/
theorem teardownProgram_eq (P : Proj) (svs : List SuiteView) (loc : Loc) (startOp endOp : Session.Op)
    (stepName : String) (kept : List Td) :
    teardownProgram P svs loc startOp endOp stepName kept =
      if kept.any (· != .none_) then do
        sop 0 startOp
        sop 0 (.setStep stepName)
        seqM (((kept.filter (· != .none_)).reverse).map (tdCall P svs loc none))
        sop 0 endOp
      else pure () := by
  unfold teardownProgram
  rw [runTeardownFuncs_eq]

/-- in the test task the teardown phase runs exactly the teardowns the setup phase kept (the same list):
    `TestTask.run` is start; "Setup test" step; setup loop; body; teardown loop over the kept list; end -/
theorem testRun_eq (P : Proj) (svs : List SuiteView) (w : Nat) (path : Path) (sv : SuiteView) (ts : TestSpec) :
    testRun P svs w path sv ts = (do
      sop 0 (.startTest path (mdOf ts.name ts.rank))
      sop 0 (.setStep "Setup test")
      let kept ← testSetup P svs w path sv ts
      testBody P svs w path ts
      (if kept.any (· != .none_) then do
        sop 0 (.setStep "Teardown test")
        seqM (((kept.filter (· != .none_)).reverse).map (tdCall P svs (.test path) (some path.dropLast)))
       else pure ())
      sop 0 (.endTest path)
      return (if (← isOk (.test path)) then .success else .failure, [])) := by
  unfold testRun testTeardown
  simp only [runTeardownFuncs_eq]

/-! ### Non-vacuity -/

/-- `seqM` really runs everything: three records, in order -/
example : (exec (seqM [emitUser 0 (.body []) "a", emitUser 0 (.body []) "b", emitUser 0 (.body []) "c"]) default).2.out.toList =
    [.user 0 (.body []) "a", .user 0 (.body []) "b", .user 0 (.body []) "c"] := by decide

/-- reverse order, `None`s dropped -/
example : (([Td.teardownSuite ["a"], .none_, .teardownSuite ["b"]].filter (· != .none_)).reverse) =
    [.teardownSuite ["b"], .teardownSuite ["a"]] := by decide

/-- a setup loop that stops at its first pair (the fixture is unknown: the model flags an error, the loop
    goes on — so here all complete); `n` ranges over every value in general -/
example : ∃ n, n ≤ 2 ∧ (exec (runSetupFuncs Sample.PA [] 0 [] .sessionSetup none
    [(none, .none_), (none, .teardownSuite ["s"])] []) default).1 = ([] ++ [Td.none_, .teardownSuite ["s"]].take n) := by
  obtain ⟨n, hn, h⟩ := runSetupFuncs_kept_prefix Sample.PA [] 0 [] .sessionSetup none
    [(none, .none_), (none, .teardownSuite ["s"])] [] default
  exact ⟨n, hn, h⟩

end LccModel.C03Run

/-
  C20 — All views of a report agree on every test's outcome: the FILTERED views.

  `lcc report --short [filter]` (`print_report_as_test_run`) prints one line per test of the filtered report and a
  summary; with a filter the summary comes from `ReportStats.from_suites` on the filtered forest, without one from
  `ReportStats.from_report`.  "The counts obtained by enumerating the tests of the report" are here the counts over
  the tests of the FILTERED report = the tests displayed above the summary = the tests of the report the filter
  accepts.  Every theorem quantifies over all reports (finished or not: in-progress tests, results without end
  time), all forests and ALL filter decisions (`RFilter`; which decisions a `ResultFilter` takes is C12's subject).

  Property theorems only (helper lemmas: `Lemmas/FilteredViews.lean`).
-/
import LccModel.Lemmas.FilteredViews

namespace LccModel.C20Short
open LccModel.Report LccModel.Writer LccModel.Views

/-- Sentence 2 (statistics of a forest): whenever `ReportStats.from_suites` returns, every number of it is the count
    over the tests of the forest (`flatten_tests(suites)`) — in-progress tests and tests without end time included. -/
theorem from_suites_counts (parallelized : Bool) (ss : List SuiteResult) (st : Stats)
    (h : statsFromSuites parallelized ss = .ok st) :
    st.total = (forestTests ss).length ∧
    st.passed = countStatus .passed (forestTests ss) ∧ st.failed = countStatus .failed (forestTests ss) ∧
    st.skipped = countStatus .skipped (forestTests ss) ∧ st.disabled = countStatus .disabled (forestTests ss) :=
  statsFromSuites_counts parallelized ss st h

/-- … and it raises exactly when the report is not parallelized and the duration `results[-1].end_time -
    results[0].start_time` cannot be computed (no result at all, first result without start time, or LAST result
    without end time: a run still in progress) -/
theorem from_suites_raises_iff (parallelized : Bool) (ss : List SuiteResult) :
    (∃ e, statsFromSuites parallelized ss = .error e) ↔
      parallelized = false ∧
      ¬ ∃ a b, firstStart (flattenResults ss) = some (some a) ∧ lastEnd (flattenResults ss) = some (some b) :=
  statsFromSuites_error_iff parallelized ss

/-- the filtered report holds exactly the tests of the report that the filter accepts, in `all_tests` order of the
    sorted accessors, each with the path of its suite; suites left empty are dropped and contribute nothing -/
theorem filtered_tests (f : RFilter) (parent : Path) (ss : List SuiteResult) :
    testsWithSuitePath parent (filterSuiteList f parent ss) =
      (testsWithSuitePath parent ss).filter (fun pt => f.test pt.1 pt.2) :=
  testsWithSuitePath_filter f parent ss

/-- no result appears in a filtered forest that is not in the forest -/
theorem filtered_results_are_results (f : RFilter) (parent : Path) (ss : List SuiteResult) (a : AnyResult)
    (h : a ∈ flattenResults (filterSuiteList f parent ss)) : a ∈ flattenResults ss :=
  filtered_results_sub f parent ss a h

/-- `lcc report --short [filter]` displays exactly the tests of the report the filter accepts (all of them without a
    filter) … -/
theorem short_report_lines (r : Report) (filt : Option RFilter) (v : ShortView) (h : shortReport r filt = .ok v) :
    v.lines = (testsWithSuitePath [] (view r)).filter (fun pt => (filt.getD RFilter.all).test pt.1 pt.2) :=
  shortReport_lines r filt v h

/-- … which, without a filter, are the tests of `Report.all_tests()` (up to the order of the top-level suites) -/
theorem short_report_unfiltered_lines (r : Report) (v : ShortView) (h : shortReport r none = .ok v) :
    (v.lines.map Prod.snd).Perm (allTests r) := by
  rw [shortReport_lines r none v h]
  simp only [Option.getD_none, filter_all, testsWithSuitePath_snd]
  exact view_tests_perm r

/-- Sentence 2 (console summary of the filtered report): the summary printed by `lcc report --short [filter]` counts
    exactly the tests displayed above it: Tests = number of lines, Successes / Failures = lines of passed / failed
    tests, Skipped / Disabled printed iff non-zero with those counts.  Tests in progress are lines and are counted in
    Tests. -/
theorem short_report_summary_counts_displayed_tests (r : Report) (filt : Option RFilter) (v : ShortView)
    (h : shortReport r filt = .ok v) (sm : Summary) (hs : v.summary = some sm) :
    sm.tests = v.lines.length ∧ sm.successes = countStatus .passed (v.lines.map Prod.snd) ∧
    sm.failures = countStatus .failed (v.lines.map Prod.snd) ∧
    sm.skipped = nonZero (countStatus .skipped (v.lines.map Prod.snd)) ∧
    sm.disabled = nonZero (countStatus .disabled (v.lines.map Prod.snd)) :=
  shortReport_summary r filt v h sm hs

/-- the summary is missing ("No test found or no matching test in the report") iff no test is displayed -/
theorem short_report_no_summary_iff (r : Report) (filt : Option RFilter) (v : ShortView) (h : shortReport r filt = .ok v) :
    v.summary = none ↔ v.lines = [] :=
  shortReport_no_summary_iff r filt v h

/-- `_partial` (guard = every result of the report has a start and an end time, or the report is parallelized):
    `lcc report --short [filter]` then always produces its view.
    Full-strength statement (every report as in C09, unfinished ones included) is false:
    `short_report_in_progress_raises`. -/
theorem short_report_total_partial (r : Report) (filt : Option RFilter)
    (hg : parallelized r = true ∨ allTimed (flattenResults (view r))) : ∃ v, shortReport r filt = .ok v := by
  cases hres : shortReport r filt with
  | ok v => exact ⟨v, rfl⟩
  | error e =>
    exfalso
    unfold shortReport at hres
    simp only at hres
    split at hres
    · cases hres
    · rename_i hemp
      split at hres
      · cases hres
      · rename_i f
        split at hres
        · cases hres
        · rename_i e' he
          have hne : flattenResults (filterSuiteList f [] (view r)) ≠ [] := by
            intro hnil
            apply hemp
            rw [shown_empty_iff]
            have ht : (flattenResults (filterSuiteList f [] (view r))).filterMap anyIsTest = [] := by rw [hnil]; rfl
            rw [tests_of_results] at ht
            have : (testsWithSuitePath [] (filterSuiteList f [] (view r))).map Prod.snd = [] := by
              rw [testsWithSuitePath_snd]; exact ht
            exact List.map_eq_nil_iff.mp this
          rcases hg with hp | ht
          · have := (statsFromSuites_error_iff (parallelized r) _).mp ⟨e', he⟩
            rw [hp] at this; cases this.1
          · have ht' : allTimed (flattenResults (filterSuiteList f [] (view r))) :=
              fun a ha => ht a (filtered_results_sub f [] (view r) a ha)
            obtain ⟨st, hst⟩ := statsFromSuites_ok_of_timed (parallelized r) _ hne ht'
            simp only [Option.getD_some] at he
            rw [hst] at he; cases he

/-! ### non-vacuity and refutation -/

def md (name : String) : Meta := { name := name, description := "", tags := [], properties := [], links := [], rank := 0 }

def done (name : String) (s e : Nat) (st : Status) : TestResult :=
  { md := md name, result := { steps := [], startTime := some s, endTime := some e, status := some st, statusDetails := none } }

/-- a test still in progress: no end time, no status -/
def running (name : String) (s : Nat) : TestResult :=
  { md := md name, result := { steps := [], startTime := some s, endTime := none, status := none, statusDetails := none } }

/-- a sequential run saved while its last test is running (`--save-report at_each_test`, an interrupted run) -/
def unfinished : Report :=
  { Report.empty with
      startTime := some 1, endTime := none,
      suites := [.mk (md "shop") (some 1) none none none [done "login" 2 3 .passed, done "search" 4 5 .failed, running "checkout" 6] [],
                 .mk (md "account") (some 7) (some 9) none none [done "signup" 7 8 .passed] []] }

/-- `--path shop.*` as decisions -/
def shopOnly : RFilter := { test := fun p _ => p == ["shop"], phase := fun p _ _ => p == ["shop"] }
/-- `--passed` as decisions -/
def passedOnly : RFilter := { test := fun _ t => t.result.status == some .passed, phase := fun _ _ r => r.status == some .passed }

def viewOf (r : Report) (f : Option RFilter) : Option (List (String × Option Status) × Option Summary) :=
  match shortReport r f with
  | .ok v => some (v.lines.map (fun pt => (pt.2.md.name, pt.2.result.status)), v.summary)
  | .error _ => none

/-- without a filter the in-progress test is displayed and counted (Tests: 4) -/
example : viewOf unfinished none =
    some ([("login", some .passed), ("search", some .failed), ("checkout", none), ("signup", some .passed)],
          some { tests := 4, successes := 2, failures := 1, skipped := none, disabled := none }) := by decide

/-- a filter that drops the in-progress test: the summary counts the two remaining lines -/
example : viewOf unfinished (some passedOnly) =
    some ([("login", some .passed), ("signup", some .passed)],
          some { tests := 2, successes := 2, failures := 0, skipped := none, disabled := none }) := by decide

/-- the same report from a parallelized run: the filtered summary counts the in-progress test (Tests: 3) -/
example : viewOf { unfinished with nbThreads := 2 } (some shopOnly) =
    some ([("login", some .passed), ("search", some .failed), ("checkout", none)],
          some { tests := 3, successes := 1, failures := 1, skipped := none, disabled := none }) := by decide

/-- D34 (`C20/short-report/in-progress-raises`): on a sequential report whose last kept result is still in progress,
    `lcc report --short <filter>` raises `TypeError` (`None - float` in `ReportStats.from_suites`) instead of
    printing the summary of the three displayed tests; `ReportStats.from_suites(report.get_suites(), False)` raises
    likewise, while the unfiltered view of the same report is fine. -/
theorem short_report_in_progress_raises :
    (match shortReport unfinished (some shopOnly) with
     | .error .noneTime => true
     | _ => false) = true ∧
    (match statsFromSuites false (filterSuiteList shopOnly [] (view unfinished)) with
     | .error .noneTime => true
     | _ => false) = true ∧
    (viewOf unfinished none).isSome = true := by decide

/-- the guard of `short_report_total_partial` is met by the finished version of the report -/
example : allTimed (flattenResults (view { unfinished with suites := [.mk (md "account") (some 7) (some 9) none none [done "signup" 7 8 .passed] []] })) := by
  intro a ha
  simp only [view, sortDeepList, sortDeep, sortByRank, insertByRank, flattenResults, flattenSuites, flattenSuite,
    List.flatMap_cons, List.flatMap_nil, List.append_nil, optPhase, SuiteResult.setup, SuiteResult.tests,
    SuiteResult.teardown, List.map, List.nil_append, List.mem_singleton] at ha
  subst ha
  exact ⟨rfl, rfl⟩

end LccModel.C20Short

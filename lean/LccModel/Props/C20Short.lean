/-
  C20 — All views of a report agree on every test's outcome: the FILTERED views.

  `lcc report --short [filter]` (`print_report_as_test_run`) prints one line per test of the filtered report and a
  summary; with a filter the summary comes from `ReportStats.from_suites` on the filtered forest, without one from
  `ReportStats.from_report`.  "The counts obtained by enumerating the tests of the report" are here the counts over
  the tests of the FILTERED report = the tests displayed above the summary = the tests of the report the filter
  accepts.  Every theorem quantifies over all reports (finished or not: in-progress tests, results without end
  time), all forests and ALL filter decisions (`RFilter`; which decisions a `ResultFilter` takes is C12's subject).

  Property theorems only (helper lemmas: `Lemmas/FilteredViews.lean`).
-/
import LccModel.Lemmas.FilteredViews

namespace LccModel.C20Short
open LccModel.Report LccModel.Writer LccModel.Views

/-- Sentence 2 (statistics of a forest): every number of `ReportStats.from_suites` is the count over the tests of the
    forest (`flatten_tests(suites)`) — in-progress tests and tests without end time included; the call is total
    (`statsFromSuites` is a function: no forest makes it raise, repair D34). -/
theorem from_suites_counts (ss : List SuiteResult) :
    (statsFromSuites ss).total = (forestTests ss).length ∧
    (statsFromSuites ss).passed = countStatus .passed (forestTests ss) ∧
    (statsFromSuites ss).failed = countStatus .failed (forestTests ss) ∧
    (statsFromSuites ss).skipped = countStatus .skipped (forestTests ss) ∧
    (statsFromSuites ss).disabled = countStatus .disabled (forestTests ss) :=
  statsFromSuites_counts ss

/-- … and it knows a duration exactly when the report is not parallelized, the first result has a start time and the
    LAST one an end time; otherwise (a run still in progress, an empty forest) the duration is `None` ("n/a") — the
    situations in which the unrepaired code raised `TypeError` / `IndexError` (D34). -/
theorem from_suites_duration_known_iff (parallelized : Bool) (ss : List SuiteResult) :
    fromSuitesDurationKnown parallelized ss = true ↔
      parallelized = false ∧
      ∃ a b, firstStart (flattenResults ss) = some (some a) ∧ lastEnd (flattenResults ss) = some (some b) :=
  fromSuitesDurationKnown_iff parallelized ss

/-- the filtered report holds exactly the tests of the report that the filter accepts, in `all_tests` order of the
    sorted accessors, each with the path of its suite; suites left empty are dropped and contribute nothing -/
theorem filtered_tests (f : RFilter) (parent : Path) (ss : List SuiteResult) :
    testsWithSuitePath parent (filterSuiteList f parent ss) =
      (testsWithSuitePath parent ss).filter (fun pt => f.test pt.1 pt.2) :=
  testsWithSuitePath_filter f parent ss

/-- no result appears in a filtered forest that is not in the forest -/
theorem filtered_results_are_results (f : RFilter) (parent : Path) (ss : List SuiteResult) (a : AnyResult)
    (h : a ∈ flattenResults (filterSuiteList f parent ss)) : a ∈ flattenResults ss :=
  filtered_results_sub f parent ss a h

/-- `lcc report --short [filter]` (a total function of the report and the filter: finished or not, no report makes it
    raise) displays exactly the tests of the report the filter accepts (all of them without a filter) … -/
theorem short_report_lines (r : Report) (filt : Option RFilter) :
    (shortReport r filt).lines = (testsWithSuitePath [] (view r)).filter (fun pt => (filt.getD RFilter.all).test pt.1 pt.2) :=
  shortReport_lines r filt

/-- … which, without a filter, are the tests of `Report.all_tests()` (up to the order of the top-level suites) -/
theorem short_report_unfiltered_lines (r : Report) : ((shortReport r none).lines.map Prod.snd).Perm (allTests r) := by
  rw [shortReport_lines r none]
  simp only [Option.getD_none, filter_all, testsWithSuitePath_snd]
  exact view_tests_perm r

/-- Sentence 2 (console summary of the filtered report): the summary printed by `lcc report --short [filter]` counts
    exactly the tests displayed above it: Tests = number of lines, Successes / Failures = lines of passed / failed
    tests, Skipped / Disabled printed iff non-zero with those counts.  Tests in progress are lines and are counted in
    Tests. -/
theorem short_report_summary_counts_displayed_tests (r : Report) (filt : Option RFilter) (sm : Summary)
    (hs : (shortReport r filt).summary = some sm) :
    sm.tests = (shortReport r filt).lines.length ∧
    sm.successes = countStatus .passed ((shortReport r filt).lines.map Prod.snd) ∧
    sm.failures = countStatus .failed ((shortReport r filt).lines.map Prod.snd) ∧
    sm.skipped = nonZero (countStatus .skipped ((shortReport r filt).lines.map Prod.snd)) ∧
    sm.disabled = nonZero (countStatus .disabled ((shortReport r filt).lines.map Prod.snd)) :=
  shortReport_summary r filt sm hs

/-- the summary is missing ("No test found or no matching test in the report") iff no test is displayed: whenever
    at least one test is displayed — on EVERY report as in C09, unfinished ones included — the summary is printed -/
theorem short_report_no_summary_iff (r : Report) (filt : Option RFilter) :
    (shortReport r filt).summary = none ↔ (shortReport r filt).lines = [] :=
  shortReport_no_summary_iff r filt

/-! ### non-vacuity; the witness of D34 -/

def md (name : String) : Meta := { name := name, description := "", tags := [], properties := [], links := [], rank := 0 }

def done (name : String) (s e : Nat) (st : Status) : TestResult :=
  { md := md name, result := { steps := [], startTime := some s, endTime := some e, status := some st, statusDetails := none } }

/-- a test still in progress: no end time, no status -/
def running (name : String) (s : Nat) : TestResult :=
  { md := md name, result := { steps := [], startTime := some s, endTime := none, status := none, statusDetails := none } }

/-- a sequential run saved while its last test is running (`--save-report at_each_test`, an interrupted run) -/
def unfinished : Report :=
  { Report.empty with
      startTime := some 1, endTime := none,
      suites := [.mk (md "shop") (some 1) none none none [done "login" 2 3 .passed, done "search" 4 5 .failed, running "checkout" 6] [],
                 .mk (md "account") (some 7) (some 9) none none [done "signup" 7 8 .passed] []] }

/-- `--path shop.*` as decisions -/
def shopOnly : RFilter := { test := fun p _ => p == ["shop"], phase := fun p _ _ => p == ["shop"] }
/-- `--passed` as decisions -/
def passedOnly : RFilter := { test := fun _ t => t.result.status == some .passed, phase := fun _ _ r => r.status == some .passed }

def viewOf (r : Report) (f : Option RFilter) : List (String × Option Status) × Option Summary × Bool :=
  let v := shortReport r f
  (v.lines.map (fun pt => (pt.2.md.name, pt.2.result.status)), v.summary, v.durationKnown)

/-- without a filter the in-progress test is displayed and counted (Tests: 4); the run has no end: duration n/a -/
example : viewOf unfinished none =
    ([("login", some .passed), ("search", some .failed), ("checkout", none), ("signup", some .passed)],
     some { tests := 4, successes := 2, failures := 1, skipped := none, disabled := none }, false) := by decide

/-- a filter that drops the in-progress test: the summary counts the two remaining lines, the duration is known -/
example : viewOf unfinished (some passedOnly) =
    ([("login", some .passed), ("signup", some .passed)],
     some { tests := 2, successes := 2, failures := 0, skipped := none, disabled := none }, true) := by decide

/-- the same report from a parallelized run: the filtered summary counts the in-progress test (Tests: 3) -/
example : viewOf { unfinished with nbThreads := 2 } (some shopOnly) =
    ([("login", some .passed), ("search", some .failed), ("checkout", none)],
     some { tests := 3, successes := 1, failures := 1, skipped := none, disabled := none }, false) := by decide

/-- The witness of D34 (`C20/stats/from-suites-in-progress-raises`, repaired): on a sequential report whose last kept
    result is still in progress, `lcc report --short <filter>` prints the summary of the three displayed tests —
    the in-progress one counted in Tests — with the duration "n/a" (the unrepaired `ReportStats.from_suites` raised
    `TypeError` on `None - float` here), and `from_suites` on the filtered forest counts 3 tests. -/
theorem short_report_in_progress_counted :
    viewOf unfinished (some shopOnly) =
      ([("login", some .passed), ("search", some .failed), ("checkout", none)],
       some { tests := 3, successes := 1, failures := 1, skipped := none, disabled := none }, false) ∧
    (statsFromSuites (filterSuiteList shopOnly [] (view unfinished))).total = 3 ∧
    fromSuitesDurationKnown false (filterSuiteList shopOnly [] (view unfinished)) = false ∧
    fromSuitesDurationKnown false [] = false := by decide

end LccModel.C20Short

/-
  C16 — Matchers compute exact boolean logic; check operations keep their contract.

  Property theorems only (helper lemmas: `Lemmas/Matcher.lean`; model: `Model/Matcher.lean`).
  Every theorem quantifies over ALL matcher trees `m : M` (unbounded nesting depth, every constructor of
  the model incl. the `hide_result_details()` / `override_description()` wrappers) and ALL values
  `v : Val` of the mixed domain, unless it is an `example`.

  Vocabulary: `matchOf m v : Except PyErr Res` is `m.matches(v)` (result with success flag and details,
  or the raised exception class); `okE m v` is its success flag (or the exception); `sem m v` is the
  reference meaning written with the modelled Python operators only (`pyEq`, `pyCmp`, `pyIn`, `pyLen`,
  `pyIter`, `type(x)`), Python's `not` / `all` / `any` with their evaluation order and exception
  propagation (`notE`, `allE`, `anyE`, `allStrictE`).
-/
import LccModel.Lemmas.Matcher

namespace LccModel.C16
open LccModel.Matcher

/-! ## 1. The code computes exactly the boolean logic (all expressions, all operands) -/

mutual
/-- **Main theorem** ("not_, all_of, any_of and is_ combine matchers as exact negation, conjunction,
    disjunction and equality, and the value, string, collection and type matchers agree with the
    corresponding Python operators, for all operands"): for every matcher tree and every value the
    success flag `matches()` computes — or the exception it raises — is the one of the reference
    semantics.  In particular result details, descriptions, `hide_result_details()` and
    `override_description()` never influence the outcome.  By mutual structural induction on the tree
    (with the `all_of` / `any_of` loops). -/
theorem okE_eq_sem : ∀ (m : M) (v : Val), okE m v = sem m v
  | .equalTo e, v => by simp [okE, matchOf, sem]
  | .cmp .ne e, v => by simp [okE, matchOf, sem]
  | .cmp (.ord o) e, v => by
    simp only [okE, matchOf, sem]; cases pyCmp o v e <;> rfl
  | .between lo hi, v => by
    simp only [okE, matchOf, sem]
    cases pyCmp .le lo.toVal v with
    | error e => rfl
    | ok b =>
      cases b with
      | false => rfl
      | true => dsimp only; cases pyCmp .le v hi.toVal <;> rfl
  | .isNone, v => by cases v <;> simp [okE, matchOf, sem, Val.ty]
  | .hasLength m, v => by
    simp only [okE, matchOf, sem]
    cases pyLen v with
    | error e => rfl
    | ok n => exact okE_eq_sem m (.int n)
  | .startsWith s, v => by simp [okE, matchOf, sem]
  | .endsWith s, v => by simp [okE, matchOf, sem]
  | .containsString s, v => by simp [okE, matchOf, sem]
  | .hasItem m, v => by
    simp only [okE, matchOf, sem]
    cases pyIter v with
    | error e => rfl
    | ok items =>
      dsimp only
      have h := findFirst_anyE (fun x => matchOf m x) (fun x => sem m x)
        (fun x => by rw [← okE_def]; exact okE_eq_sem m x) items 0
      rw [← h]
      cases findFirst (fun x => matchOf m x) items 0 with
      | error e => rfl
      | ok o => cases o <;> rfl
  | .hasItems es, v => by
    simp only [okE, matchOf, sem]
    rw [← missingItems_allStrictE]
    cases missingItems v es with
    | error e => rfl
    | ok l => cases l <;> rfl
  | .hasOnlyItems es, v => by
    simp only [okE, matchOf, sem]
    cases pyIter v with
    | error e => rfl
    | ok items =>
      dsimp only
      rcases h : onlyItemsLoop items es [] with ⟨missing, extra⟩
      cases missing <;> cases extra <;> simp
  | .hasAllItems m, v => by
    simp only [okE, matchOf, sem]
    cases pyIter v with
    | error e => rfl
    | ok items =>
      dsimp only
      have h := collectFailures_allStrictE (fun x => matchOf m x) (fun x => sem m x)
        (fun x => by rw [← okE_def]; exact okE_eq_sem m x) items 0
      rw [← h]
      cases collectFailures (fun x => matchOf m x) items 0 with
      | error e => rfl
      | ok l => cases l <;> rfl
  | .isIn es, v => by simp [okE, matchOf, sem]
  | .hasEntry p m, v => by
    simp only [okE, matchOf, sem]
    cases getPath v p with
    | none => rfl
    | some w => exact okE_eq_sem m w
  | .hasKey p, v => by
    simp only [okE, matchOf, sem]
    cases getPath v p <;> rfl
  | .isType ty m, v => by
    simp only [okE, matchOf, sem]
    cases ty.accepts v.ty with
    | false => rfl
    | true => exact okE_eq_sem m v
  | .isTypeAny ty, v => by
    simp only [okE, matchOf, sem]
    cases ty.accepts v.ty <;> rfl
  | .allOf ms, v => by
    simp only [okE, matchOf, sem]
    rw [← allOfLoop_sem ms v]
    cases allOfLoop ms v with
    | error e => rfl
    | ok p => rfl
  | .anyOf ms, v => by
    simp only [okE, matchOf, sem]
    exact anyOfLoop_sem ms v []
  | .anything w, v => by simp [okE, matchOf, sem]
  | .not m, v => by
    have ih := okE_eq_sem m v
    simp only [okE, matchOf, sem] at ih ⊢
    rw [← ih]
    cases matchOf m v <;> rfl
  | .hidden m, v => by
    have ih := okE_eq_sem m v
    simp only [okE, matchOf, sem] at ih ⊢
    rw [← ih]
    cases matchOf m v <;> rfl
  | .described d m, v => by
    have ih := okE_eq_sem m v
    simp only [okE, matchOf, sem] at ih ⊢
    exact ih
/-- the `AllOf.matches` loop computes `semAll` (stops at the first failing / raising matcher) -/
theorem allOfLoop_sem : ∀ (ms : List M) (v : Val),
    (match allOfLoop ms v with
     | .error e => Except.error e
     | .ok p => .ok p.1) = semAll ms v
  | [], v => rfl
  | m :: ms, v => by
    have ih := okE_eq_sem m v
    have ihs := allOfLoop_sem ms v
    simp only [okE] at ih
    simp only [allOfLoop, semAll]
    rw [← ih]
    cases matchOf m v with
    | error e => rfl
    | ok r =>
      dsimp only
      cases hr : r.ok with
      | false => simp
      | true =>
        simp only [if_true]
        rw [← ihs]
        cases allOfLoop ms v with
        | error e => rfl
        | ok p => rfl
/-- the `AnyOf.matches` loop computes `semAny` (stops at the first succeeding / raising matcher) -/
theorem anyOfLoop_sem : ∀ (ms : List M) (v : Val) (acc : List Str),
    (match anyOfLoop ms v acc with
     | .error e => Except.error e
     | .ok r => .ok r.ok) = semAny ms v
  | [], v, acc => rfl
  | m :: ms, v, acc => by
    have ih := okE_eq_sem m v
    simp only [okE] at ih
    simp only [anyOfLoop, semAny]
    rw [← ih]
    cases matchOf m v with
    | error e => rfl
    | ok r =>
      dsimp only
      cases hr : r.ok with
      | true => simp [hr]
      | false =>
        simp only [Bool.false_eq_true, if_false]
        exact anyOfLoop_sem ms v _
end

/-! ## 2. The combinators, stated directly on the code's outcome -/

/-- `not_`: exact negation, exceptions propagate unchanged. -/
theorem not_exact (m : M) (v : Val) : okE (.not m) v = notE (okE m v) := by
  simp only [okE_eq_sem, sem] <;> rfl

/-- `not_` on a matcher that returns a result: `ok(not_ m) v = !ok m v`. -/
theorem not_of_result {m : M} {v : Val} {r : Res} (h : matchOf m v = .ok r) :
    okE (.not m) v = .ok (!r.ok) := by
  simp only [okE, matchOf, h]

/-- `not_` on a matcher that raises: the same exception. -/
theorem not_of_error {m : M} {v : Val} {e : PyErr} (h : matchOf m v = .error e) :
    okE (.not m) v = .error e := by
  simp only [okE, matchOf, h]

/-- `all_of`: exact conjunction in Python's evaluation order — the outcome of `all(m(v) for m in ms)`:
    `False` at the first failing matcher, the exception of the first raising matcher met before that,
    `True` otherwise. -/
theorem allOf_exact (ms : List M) (v : Val) : okE (.allOf ms) v = allE (fun m => okE m v) ms := by
  have : (fun m => okE m v) = (fun m => sem m v) := funext fun m => okE_eq_sem m v
  rw [okE_eq_sem, this]; simp only [sem]; exact semAll_eq_allE ms v

/-- `any_of`: exact disjunction in Python's evaluation order (`any(m(v) for m in ms)`). -/
theorem anyOf_exact (ms : List M) (v : Val) : okE (.anyOf ms) v = anyE (fun m => okE m v) ms := by
  have : (fun m => okE m v) = (fun m => sem m v) := funext fun m => okE_eq_sem m v
  rw [okE_eq_sem, this]; simp only [sem]; exact semAny_eq_anyE ms v

/-- `all_of = all`: when no sub-matcher raises on `v`, the outcome is the Boolean `all` of the
    sub-outcomes. -/
theorem allOf_eq_all (ms : List M) (v : Val) (h : ∀ m ∈ ms, ∃ b, okE m v = .ok b) :
    okE (.allOf ms) v = .ok (ms.all fun m => decide (okE m v = .ok true)) := by
  rw [allOf_exact]; exact allE_eq_all _ ms h

/-- `any_of = any`: when no sub-matcher raises on `v`. -/
theorem anyOf_eq_any (ms : List M) (v : Val) (h : ∀ m ∈ ms, ∃ b, okE m v = .ok b) :
    okE (.anyOf ms) v = .ok (ms.any fun m => decide (okE m v = .ok true)) := by
  rw [anyOf_exact]; exact anyE_eq_any _ ms h

/-- non-vacuity of the hypothesis of `allOf_eq_all` / `anyOf_eq_any`, and a case where it fails -/
example : ∀ m ∈ [M.not .isNone, .equalTo (.int 3)], ∃ b, okE m (.int 3) = .ok b := by
  intro m hm; simp at hm; rcases hm with rfl | rfl <;> exact ⟨_, rfl⟩
example : okE (.allOf [.cmp (.ord .gt) (.int 1), .isNone]) (.str c!"a") = .error .typeError := by decide
example : okE (.allOf [.isNone, .cmp (.ord .gt) (.int 1)]) (.str c!"a") = .ok false := by decide

/-- `all_of()` accepts everything. -/
theorem allOf_nil (v : Val) : okE (.allOf []) v = .ok true := rfl
/-- `any_of()` accepts nothing. -/
theorem anyOf_nil (v : Val) : okE (.anyOf []) v = .ok false := rfl

/-- double negation (also when the matcher raises). -/
theorem not_not (m : M) (v : Val) : okE (.not (.not m)) v = okE m v := by
  rw [not_exact, not_exact]; cases okE m v with
  | error e => rfl
  | ok b => simp [notE]

/-- De Morgan, exactly (same truth value AND same exception, because both sides stop at the same
    sub-matcher): `not_(all_of(m₁…mₙ))` ≡ `any_of(not_(m₁)…not_(mₙ))`. -/
theorem de_morgan_allOf (ms : List M) (v : Val) :
    okE (.not (.allOf ms)) v = okE (.anyOf (ms.map .not)) v := by
  rw [not_exact, allOf_exact, anyOf_exact, notE_allE, anyE_map]
  congr 1; funext m; exact (not_exact m v).symm

/-- De Morgan: `not_(any_of(m₁…mₙ))` ≡ `all_of(not_(m₁)…not_(mₙ))`. -/
theorem de_morgan_anyOf (ms : List M) (v : Val) :
    okE (.not (.anyOf ms)) v = okE (.allOf (ms.map .not)) v := by
  rw [not_exact, allOf_exact, anyOf_exact, notE_anyE, allE_map]
  congr 1; funext m; exact (not_exact m v).symm

/-- `hide_result_details()` and `override_description()` do not change what is verified. -/
theorem hidden_transparent (m : M) (v : Val) : okE (.hidden m) v = okE m v := by
  simp only [okE_eq_sem, sem] <;> rfl
theorem described_transparent (d : Str) (m : M) (v : Val) : okE (.described d m) v = okE m v := by
  simp only [okE_eq_sem, sem] <;> rfl

/-! ## 3. The public constructors (`is_` coercion included) -/

/-- `is_(value)` is `equal_to(value)`. -/
theorem is_value (x : Val) : build (.is_ (.val x)) = build (.equal_to x) := rfl
/-- `is_(matcher)` is the matcher itself. -/
theorem is_matcher (e : Expr) : build (.is_ e) = build e := by simp only [build]
/-- a plain value in argument position means equality with that value. -/
theorem plain_value_is_equality (x v : Val) : okE (build (.val x)) v = .ok (pyEq v x) := by
  simp only [build, okE_eq_sem, sem]

/-- `not_(x)` on expressions. -/
theorem not_expr (e : Expr) (v : Val) : okE (build (.not_ e)) v = notE (okE (build e) v) := by
  simp only [build]; exact not_exact _ v
/-- `all_of(x₁, …, xₙ)` on expressions (each argument a matcher or a plain value). -/
theorem all_of_expr (es : List Expr) (v : Val) :
    okE (build (.all_of es)) v = allE (fun e => okE (build e) v) es := by
  simp only [build, buildList_eq_map]; rw [allOf_exact, allE_map]
/-- `any_of(x₁, …, xₙ)` on expressions. -/
theorem any_of_expr (es : List Expr) (v : Val) :
    okE (build (.any_of es)) v = anyE (fun e => okE (build e) v) es := by
  simp only [build, buildList_eq_map]; rw [anyOf_exact, anyE_map]

/-- `is_not_none()`. -/
theorem is_not_none_exact (v : Val) :
    okE (build .is_not_none) v = .ok (match v with | .none => false | _ => true) := by
  cases v <;> simp [build, okE_eq_sem, sem, notE, Val.ty]
/-- `is_true()` / `is_false()` accept exactly the Booleans `True` / `False` (not `1`, not `0`). -/
theorem is_true_exact (v : Val) :
    okE (build .is_true) v = .ok (match v with | .bool true => true | _ => false) := by
  cases v with
  | bool b => cases b <;> simp [build, okE_eq_sem, sem, Val.ty, TyM.accepts, pyEq, numOf]
  | _ => simp [build, okE_eq_sem, sem, Val.ty, TyM.accepts]
theorem is_false_exact (v : Val) :
    okE (build .is_false) v = .ok (match v with | .bool false => true | _ => false) := by
  cases v with
  | bool b => cases b <;> simp [build, okE_eq_sem, sem, Val.ty, TyM.accepts, pyEq, numOf]
  | _ => simp [build, okE_eq_sem, sem, Val.ty, TyM.accepts]

/-! ## 4. Leaf matchers are the Python operators -/

/-- `equal_to(e)`: `actual == e`. -/
theorem equal_to_is_eq (e v : Val) : okE (.equalTo e) v = .ok (pyEq v e) := by simp only [okE_eq_sem, sem] <;> rfl
/-- `not_equal_to(e)`: `actual != e`. -/
theorem not_equal_to_is_ne (e v : Val) : okE (.cmp .ne e) v = .ok (!pyEq v e) := by simp only [okE_eq_sem, sem] <;> rfl
/-- `greater_than`, `greater_than_or_equal_to`, `less_than`, `less_than_or_equal_to`: the operator,
    `TypeError` included. -/
theorem comparator_is_operator (o : Ord) (e v : Val) : okE (.cmp (.ord o) e) v = pyCmp o v e := by
  simp only [okE_eq_sem, sem] <;> rfl
/-- `is_between(lo, hi)`: the chained comparison `lo <= actual <= hi`. -/
theorem is_between_is_chain (lo hi : Num) (v : Val) :
    okE (.between lo hi) v =
      (match pyCmp .le lo.toVal v with
       | .error e => .error e
       | .ok false => .ok false
       | .ok true => pyCmp .le v hi.toVal) := by simp only [okE_eq_sem, sem] <;> rfl
/-- `is_none()`: identity with `None`. -/
theorem is_none_exact (v : Val) : okE .isNone v = .ok (match v with | .none => true | _ => false) := by
  cases v <;> simp [okE_eq_sem, sem, Val.ty]
/-- `has_length(m)`: `m` applied to `len(actual)`; `TypeError` when the value has no length. -/
theorem has_length_is_len (m : M) (v : Val) :
    okE (.hasLength m) v = (match pyLen v with | .error e => .error e | .ok n => okE m (.int n)) := by
  simp only [okE_eq_sem, sem] <;> rfl
/-- the string matchers: `isinstance(actual, str) and actual.startswith(s)` etc. (never raise). -/
theorem starts_with_exact (s : Str) (v : Val) :
    okE (.startsWith s) v = .ok (match v with | .str a => s.isPrefixOf a | _ => false) := by simp only [okE_eq_sem, sem] <;> rfl
theorem ends_with_exact (s : Str) (v : Val) :
    okE (.endsWith s) v = .ok (match v with | .str a => isSuffix s a | _ => false) := by simp only [okE_eq_sem, sem] <;> rfl
theorem contains_string_exact (s : Str) (v : Val) :
    okE (.containsString s) v = .ok (match v with | .str a => isInfix s a | _ => false) := by simp only [okE_eq_sem, sem] <;> rfl
/-- `has_item(m)`: `any(m(x) for x in actual)`. -/
theorem has_item_is_any (m : M) (v : Val) :
    okE (.hasItem m) v = (match pyIter v with | .error e => .error e | .ok xs => anyE (fun x => okE m x) xs) := by
  simp only [okE_eq_sem, sem] <;> rfl
/-- `has_all_items(m)`: `all([m(x) for x in actual])` (every item is evaluated). -/
theorem has_all_items_is_all (m : M) (v : Val) :
    okE (.hasAllItems m) v = (match pyIter v with | .error e => .error e | .ok xs => allStrictE (fun x => okE m x) xs) := by
  simp only [okE_eq_sem, sem] <;> rfl
/-- `has_items(es)`: `all([e in actual for e in es])`. -/
theorem has_items_is_all_in (es : List Val) (v : Val) :
    okE (.hasItems es) v = allStrictE (fun e => pyIn e v) es := by simp only [okE_eq_sem, sem] <;> rfl
/-- `has_only_items(es)`: the items of `actual` and `es` cancel out one for one under `==`. -/
theorem has_only_items_exact (es : List Val) (v : Val) :
    okE (.hasOnlyItems es) v =
      (match pyIter v with
       | .error e => .error e
       | .ok xs => .ok ((onlyItemsLoop xs es []).1.isEmpty && (onlyItemsLoop xs es []).2.isEmpty)) := by
  simp only [okE_eq_sem, sem] <;> rfl
/-- `is_in(es)`: `actual in es`. -/
theorem is_in_is_in (es : List Val) (v : Val) : okE (.isIn es) v = .ok (listContains es v) := by
  simp only [okE_eq_sem, sem] <;> rfl
/-- `has_entry(path, m)`: the entry exists (`actual[k₁][k₂]…` without `KeyError/TypeError/IndexError`) and `m` accepts it. -/
theorem has_entry_exact (p : List Key) (m : M) (v : Val) :
    okE (.hasEntry p m) v = (match getPath v p with | none => .ok false | some w => okE m w) := by
  simp only [okE_eq_sem, sem] <;> rfl
theorem has_key_exact (p : List Key) (v : Val) : okE (.hasKey p) v = .ok (getPath v p).isSome := by
  simp only [okE_eq_sem, sem] <;> rfl
/-- the type matchers: `type(actual) in types` (exact type: a bool is not an integer) and then `m`. -/
theorem is_type_exact (t : TyM) (m : M) (v : Val) :
    okE (.isType t m) v = (if t.accepts v.ty then okE m v else .ok false) := by simp only [okE_eq_sem, sem] <;> rfl
theorem is_type_any_exact (t : TyM) (v : Val) : okE (.isTypeAny t) v = .ok (t.accepts v.ty) := by
  simp only [okE_eq_sem, sem] <;> rfl
example : okE (.isTypeAny .int) (.bool true) = .ok false := by decide
/-- `anything()`, `something()`, `existing()`, `present()`. -/
theorem anything_exact (w : Wording) (v : Val) : okE (.anything w) v = .ok true := by simp only [okE_eq_sem, sem] <;> rfl

/-- the modelled `==` coerces bool ⊂ int ⊂ float like Python … -/
theorem pyEq_bool_int (b : Bool) (i : Int) : pyEq (.bool b) (.int i) = decide (i = if b then 1 else 0) := by
  cases b <;> simp only [pyEq, numOf] <;> rw [Bool.eq_iff_iff] <;> simp <;> omega
theorem pyEq_int_float (i h : Int) : pyEq (.int i) (.float h) = decide (2 * i = h) := by
  simp only [pyEq, numOf]; rw [Bool.eq_iff_iff]; simp
/-- … never identifies values of unrelated types … -/
theorem pyEq_str_num (s : Str) (i : Int) : pyEq (.str s) (.int i) = false := by simp [pyEq, numOf]
/-- … and ordering raises `TypeError` between unrelated types, as Python does. -/
theorem pyCmp_int_int (o : Ord) (a b : Int) : pyCmp o (.int a) (.int b) = .ok (o.onInt a b) := by
  cases o <;> simp only [pyCmp, numOf, Ord.onInt] <;> congr 1 <;> rw [Bool.eq_iff_iff] <;> simp <;> omega
theorem pyCmp_none (o : Ord) (v : Val) : pyCmp o .none v = .error .typeError := by simp [pyCmp]
theorem pyCmp_str_int (o : Ord) (s : Str) (i : Int) : pyCmp o (.str s) (.int i) = .error .typeError := by simp [pyCmp]
theorem pyCmp_int_str (o : Ord) (s : Str) (i : Int) : pyCmp o (.int i) (.str s) = .error .typeError := by
  simp [pyCmp, numOf]
example : pyEq (.bool true) (.int 1) = true ∧ pyEq (.float 2) (.bool true) = true ∧ pyEq (.int 1) (.str c!"1") = false := by decide

/-! ## 5. The operations keep their contract -/

/-- `check_that` records exactly one check whose outcome equals the match result, hands the result
    back, and never raises because of it — whatever the result's details are (absent, hidden, the
    empty string, text), whatever `hint` and `quiet` are. -/
theorem checkThat_contract {m : M} {v : Val} {r : Res} (h : matchOf m v = .ok r)
    (hint : Option Str) (quiet : Bool) (log : List Check) :
    ∃ c : Check, checkThat hint v m quiet log = (log ++ [c], .returned r) ∧ c.ok = r.ok ∧
      c.description = checkDescription hint m ∧ (quiet = true → c.details = none) := by
  refine ⟨logEntry hint m r quiet, ?_, rfl, rfl, ?_⟩
  · simp only [checkThat, h]
  · intro hq; simp [logEntry, hq]

/-- an exception of `matches()` itself is not a match result: it propagates, nothing is recorded. -/
theorem checkThat_error {m : M} {v : Val} {e : PyErr} (h : matchOf m v = .error e)
    (hint : Option Str) (quiet : Bool) (log : List Check) :
    checkThat hint v m quiet log = (log, .pyError e) := by
  simp only [checkThat, h]

/-- `check_that` never raises `AbortTest` nor `IndexError`, for any input at all. -/
theorem checkThat_never_aborts (hint : Option Str) (v : Val) (m : M) (quiet : Bool) (log : List Check) :
    (checkThat hint v m quiet log).2 ≠ .abortTest ∧ (checkThat hint v m quiet log).2 ≠ .indexError := by
  unfold checkThat; cases matchOf m v <;> simp

/-- `require_that` records exactly one check with the match outcome and raises `AbortTest` exactly
    when the match failed (after recording). -/
theorem requireThat_contract {m : M} {v : Val} {r : Res} (h : matchOf m v = .ok r)
    (hint : Option Str) (quiet : Bool) (log : List Check) :
    ∃ c : Check, (requireThat hint v m quiet log).1 = log ++ [c] ∧ c.ok = r.ok ∧
      c.description = checkDescription hint m ∧
      ((requireThat hint v m quiet log).2 = .abortTest ↔ r.ok = false) ∧
      (r.ok = true → (requireThat hint v m quiet log).2 = .returned r) := by
  refine ⟨logEntry hint m r quiet, ?_, rfl, rfl, ?_, ?_⟩
  · simp only [requireThat, h]
  · simp only [requireThat, h]; cases r.ok <;> simp
  · intro hr; simp only [requireThat, h, hr, if_true]

theorem requireThat_error {m : M} {v : Val} {e : PyErr} (h : matchOf m v = .error e)
    (hint : Option Str) (quiet : Bool) (log : List Check) :
    requireThat hint v m quiet log = (log, .pyError e) := by
  simp only [requireThat, h]

/-- `assert_that` records nothing on success … -/
theorem assertThat_success {m : M} {v : Val} {r : Res} (h : matchOf m v = .ok r) (hr : r.ok = true)
    (hint : Option Str) (quiet : Bool) (log : List Check) :
    assertThat hint v m quiet log = (log, .returned r) := by
  simp only [assertThat, h, hr, if_true]

/-- … and one failed check plus `AbortTest` on failure. -/
theorem assertThat_failure {m : M} {v : Val} {r : Res} (h : matchOf m v = .ok r) (hr : r.ok = false)
    (hint : Option Str) (quiet : Bool) (log : List Check) :
    ∃ c : Check, assertThat hint v m quiet log = (log ++ [c], .abortTest) ∧ c.ok = false ∧
      c.description = checkDescription hint m := by
  refine ⟨logEntry hint m r quiet, ?_, ?_, rfl⟩
  · simp only [assertThat, h, hr, Bool.false_eq_true, if_false]
  · simp [logEntry, hr]

theorem assertThat_error {m : M} {v : Val} {e : PyErr} (h : matchOf m v = .error e)
    (hint : Option Str) (quiet : Bool) (log : List Check) :
    assertThat hint v m quiet log = (log, .pyError e) := by
  simp only [assertThat, h]

/-- no operation ever touches the checks recorded before it. -/
theorem operations_append_only (hint : Option Str) (v : Val) (m : M) (quiet : Bool) (log : List Check) :
    (∃ l, (checkThat hint v m quiet log).1 = log ++ l ∧ l.length ≤ 1) ∧
    (∃ l, (requireThat hint v m quiet log).1 = log ++ l ∧ l.length ≤ 1) ∧
    (∃ l, (assertThat hint v m quiet log).1 = log ++ l ∧ l.length ≤ 1) := by
  unfold checkThat requireThat assertThat
  cases matchOf m v with
  | error e => exact ⟨⟨[], by simp⟩, ⟨[], by simp⟩, ⟨[], by simp⟩⟩
  | ok r =>
    refine ⟨⟨[_], rfl, by simp⟩, ⟨[_], rfl, by simp⟩, ?_⟩
    cases hr : r.ok with
    | true => exact ⟨[], by simp [hr]⟩
    | false => exact ⟨[logEntry hint m r quiet], by simp [hr], by simp⟩

/-- non-vacuity: the hypotheses are met with every kind of details, incl. the empty string of D4 -/
example : matchOf (.anyOf [.hidden (.equalTo (.int 2)), .hidden (.equalTo (.int 3))]) (.int 1) = .ok ⟨false, some []⟩ := by decide
example : (checkThat none (.int 1) (.anyOf []) false []).2 = .returned ⟨false, some []⟩ := by decide
example : (requireThat none (.int 1) (.anyOf []) false []) =
    ([⟨c!"Expect :", false, some []⟩], .abortTest) := by decide
example : matchOf (.hidden (.equalTo (.int 2))) (.int 2) = .ok ⟨true, none⟩ := by decide
example : matchOf (.cmp (.ord .gt) (.int 2)) .none = .error .typeError := by decide

/-! ### D4 — the tree before `fixes/D4-format-result-details-empty.diff`

  Full-strength statement (holds for `checkThat`, the repaired code: `checkThat_contract`):
    `matchOf m v = .ok r → ∃ c, checkThatLegacy hint v m quiet log = (log ++ [c], .returned r) ∧ c.ok = r.ok`
  It is refuted for the unrepaired `_format_result_details` (`details[0]` on the empty string): -/

/-- D4 witness: `check_that(None, 1, any_of())` raises `IndexError` and records nothing. -/
theorem checkThatLegacy_refuted :
    ∃ (m : M) (v : Val) (r : Res), matchOf m v = .ok r ∧
      checkThatLegacy none v m false [] = ([], .indexError) :=
  ⟨.anyOf [], .int 1, ⟨false, some []⟩, by decide, by decide⟩

/-- D4 witness of the design probe: a failed `any_of` over two matchers with hidden details. -/
theorem checkThatLegacy_refuted_hidden :
    checkThatLegacy (some c!"h") (.int 1) (.anyOf [.hidden (.equalTo (.int 2)), .hidden (.equalTo (.int 3))]) false []
      = ([], .indexError) := by decide

/-- … and outside exactly that class (details ≠ `""`, or `quiet`) the unrepaired code already kept
    the contract: it behaved like the repaired code. -/
theorem checkThatLegacy_partial {m : M} {v : Val} {r : Res} (h : matchOf m v = .ok r)
    (hd : r.details ≠ some [] ∨ quiet = true) (hint : Option Str) (log : List Check) :
    checkThatLegacy hint v m quiet log = checkThat hint v m quiet log := by
  simp only [checkThatLegacy, checkThat, h]
  cases quiet with
  | true => simp [logEntry]
  | false =>
    simp only [Bool.false_eq_true, if_false]
    rcases hd with hd | hd
    · cases hdet : r.details with
      | none => simp [formatDetailsLegacy, logEntry, formatDetails, hdet]
      | some d =>
        cases d with
        | nil => exact absurd hdet hd
        | cons c cs => simp [formatDetailsLegacy, logEntry, formatDetails, hdet, capitalize]
    · cases hd

end LccModel.C16

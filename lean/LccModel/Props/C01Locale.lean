/-
  C01 — "a run terminates and its report contains every scheduled test exactly once, at its declared path, with exactly one
  terminal status, and every scheduled suite is opened and closed exactly once" — for the report A USER READS: the file
  `report.js` the JSON backend (the one `lcc run` saves with by default) leaves in the report directory, written and read back
  through the LOCALE encoding of the processes involved (`open(path, "w")` / `open(path, "r")`, errors strict).

  The other C01 theorems are about the report object the writer folds from the events of the run (Props/C01*.lean).  The input
  class added here: every text of the project — suite / test names and descriptions, tags, properties, links, log messages, check
  descriptions and details, step descriptions, url names, attachment descriptions, report title and info — is an ARBITRARY string,
  and the locale encoding of the run is ANY encoding that writes ASCII as ASCII (POSIX "C", ISO-8859-x, cp125x, UTF-8 …), the
  reader's possibly another one.  Which theorem quantifies over it:

  * `json_save_succeeds_in_every_modelled_locale` (from `C10.json_save_never_raises`) and `json_text_written_and_read_back`:
    the save never raises and the bytes on disk decode, under any ASCII-transparent codec, to exactly the text `json.dumps`
    produced — because that text is pure ASCII whatever the report holds (`JsonFile.ascii_fileText`);
  * `json_report_survives_every_ascii_superset_locale` (with `C09.json_file_roundtrip`): reading the file back — decode, strip the
    JavaScript prefix, parse, unserialise — gives the report, for every representable report, option combination and pair of
    locales;
  * `every_test_and_suite_survives_the_file`, `listed_once_survives_the_file`: the loaded report lists exactly the same tests
    (paths, statuses) and suites (paths, opened, closed), each as many times as the report of the run does — so "every scheduled
    test exactly once with one terminal status" carries over from the report object (C01Run / C01Accept) to the file.
  * What the escaping buys (`raw_text_refused_under_ascii_locale`, `raw_latin1_file_unreadable_under_utf8`): the same texts written
    RAW are refused by an ASCII locale, and what a Latin-1 locale writes raw cannot be read under UTF-8.
  * Open finding D41 (`raw_console_text_can_be_refused`): the console backend prints names and step descriptions raw.

  Parameters, as in C09: `parse` (`json.loads`) with the one fact that it inverts the rendering (stream C09.json); the spelling of
  numbers and times (`Atoms`, ASCII).  Report texts are Lean `String`s (Unicode scalar values); lone surrogates are covered at the
  level of the escaping itself (`C09.json_text_is_printable_ascii` is over arbitrary code-point lists) and by stream C01.locale.
-/
import LccModel.Lemmas.LocaleFile
import LccModel.Props.C09
import LccModel.Props.C10

namespace LccModel.C01Locale
open LccModel.Report LccModel.Writer LccModel.Serial LccModel.JsonFile LccModel.LocaleFile

/-! ### the codecs -/

/-- ASCII, ISO-8859-1 and (strict) UTF-8, written out byte by byte, are ASCII-transparent: the hypothesis of the theorems below
    is satisfied by the locale encodings of the child processes of stream C01.locale. -/
theorem ascii_latin1_utf8_are_ascii_transparent :
    AsciiTransparent asciiCodec ∧ AsciiTransparent latin1Codec ∧ AsciiTransparent utf8Codec :=
  ⟨asciiTransparent_codecOf .ascii, asciiTransparent_codecOf .latin1, asciiTransparent_codecOf .utf8⟩

/-- the concrete codecs refuse exactly what `JsonFile.writeOk` (the abstraction C10's theorems use) refuses -/
theorem codec_refuses_iff_writeOk_false (e : Encoding) (t : List Nat) : (codecOf e).enc t = none ↔ writeOk e t = false :=
  encode_eq_none e t

/-- sanity of the byte-level definitions on characters of every length class: `é` `日` `😀` encode to the familiar bytes and
    decode back; over-long forms, encoded surrogates, truncated and stray bytes are refused -/
example :
    utf8Codec.enc [0xE9] = some [0xC3, 0xA9] ∧ utf8Codec.dec [0xC3, 0xA9] = some [0xE9] ∧
    utf8Codec.enc [0x65E5] = some [0xE6, 0x97, 0xA5] ∧ utf8Codec.dec [0xE6, 0x97, 0xA5] = some [0x65E5] ∧
    utf8Codec.enc [0x1F600] = some [0xF0, 0x9F, 0x98, 0x80] ∧ utf8Codec.dec [0xF0, 0x9F, 0x98, 0x80] = some [0x1F600] ∧
    utf8Codec.enc [0xDCE9] = none ∧ utf8Codec.dec [0xED, 0xB3, 0xA9] = none ∧ utf8Codec.dec [0xC0, 0x80] = none ∧
    utf8Codec.dec [0xE6, 0x97] = none ∧ utf8Codec.dec [0xA9] = none ∧ utf8Codec.dec [0xF4, 0x90, 0x80, 0x80] = none ∧
    latin1Codec.enc [0xE9] = some [0xE9] ∧ latin1Codec.enc [0x65E5] = none ∧ asciiCodec.enc [0xE9] = none ∧
    asciiCodec.dec [0xE9] = none := by decide

/-! ### saving and reading back under any locale -/

/-- The save of the JSON backend succeeds under every modelled locale encoding — `C10.json_save_never_raises`, restated on the
    bytes: a file is left on disk. -/
theorem json_save_succeeds_in_every_modelled_locale (e : Encoding) (a : Atoms) (o : Opts) (g : Time) (r : Report) :
    (savedBytes (codecOf e) a o g r).isSome = true := by
  unfold savedBytes codecOf
  rw [encode_isSome]
  exact C10.json_save_never_raises a e o g r

/-- For EVERY report (any texts), every option combination and every pair of ASCII-transparent codecs — the locale of the run
    and the locale of whoever reads the file —: the save succeeds and the bytes on disk decode to exactly the text `json.dumps`
    produced. -/
theorem json_text_written_and_read_back (w rd : Codec) (hw : AsciiTransparent w) (hrd : AsciiTransparent rd)
    (a : Atoms) (o : Opts) (g : Time) (r : Report) :
    ∃ bytes, savedBytes w a o g r = some bytes ∧ rd.dec bytes = some (fileText a o (toJson g r)) := by
  have hasc : IsAscii (fileText a o (toJson g r)) := ascii_fileText a o _
  exact ⟨_, (hw _ hasc).1, (hrd _ hasc).2⟩

/-- **The report file survives every locale.**  Saving ANY representable report — finished or not, any tree, any text in any
    position — with the JSON backend (any options) under a locale whose encoding writes ASCII as ASCII, and loading the file
    under such a locale (the same or another), yields the report as every reader sees it (`Serial.loaded`), unchanged in every
    field. -/
theorem json_report_survives_every_ascii_superset_locale (w rd : Codec) (hw : AsciiTransparent w) (hrd : AsciiTransparent rd)
    (a : Atoms) (parse : List Char → Option JVal) (hid : ∀ p v, parse (chars (render a p 0 v)) = some v)
    (o : Opts) (g : Time) (r : Report) (h : representable r = true) :
    loadBytes rd parse (savedBytes w a o g r) = some (.ok (loaded g r)) := by
  have hasc : IsAscii (fileText a o (toJson g r)) := ascii_fileText a o _
  unfold savedBytes loadBytes
  rw [(hw _ hasc).1]
  simp only [(hrd _ hasc).2]
  rw [chars_fileText]
  exact C09.json_file_roundtrip (fun p v => chars (render a p 0 v)) parse hid (fun p kvs => render_obj_head a p kvs) o g r h

/-- **Every test and every suite survives the file.**  The report loaded from the file lists exactly the same tests — path and
    status — and the same suites — path, opened, closed —, each as many times as the report of the run lists it. -/
theorem every_test_and_suite_survives_the_file (w rd : Codec) (hw : AsciiTransparent w) (hrd : AsciiTransparent rd)
    (a : Atoms) (parse : List Char → Option JVal) (hid : ∀ p v, parse (chars (render a p 0 v)) = some v)
    (o : Opts) (g : Time) (r : Report) (h : representable r = true) :
    ∃ r', loadBytes rd parse (savedBytes w a o g r) = some (.ok r') ∧ (account r').Perm (account r) ∧
      ∀ item, (account r').count item = (account r).count item :=
  ⟨loaded g r, json_report_survives_every_ascii_superset_locale w rd hw hrd a parse hid o g r h, account_loaded g r,
   fun item => (account_loaded g r).count_eq item⟩

/-- C01's sentence carried from the report object to the file: a test the report of the run lists exactly once, with one
    terminal status, is listed exactly once with that status by the report loaded from the file — under any locale. -/
theorem listed_once_survives_the_file (w rd : Codec) (hw : AsciiTransparent w) (hrd : AsciiTransparent rd)
    (a : Atoms) (parse : List Char → Option JVal) (hid : ∀ p v, parse (chars (render a p 0 v)) = some v)
    (o : Opts) (g : Time) (r : Report) (h : representable r = true) (path : Path) (s : Status) (hl : listedOnce r path s) :
    ∃ r', loadBytes rd parse (savedBytes w a o g r) = some (.ok r') ∧ listedOnce r' path s := by
  refine ⟨loaded g r, json_report_survives_every_ascii_superset_locale w rd hw hrd a parse hid o g r h, ?_, ?_⟩
  · rw [(account_loaded g r).count_eq]; exact hl.1
  · intro s' hs'
    exact hl.2 s' ((account_loaded g r).mem_iff.mp hs')

/-- … and a suite opened and closed exactly once stays so. -/
theorem suite_opened_and_closed_once_survives_the_file (g : Time) (r : Report) (path : Path)
    (hl : (account r).count (.suite path true true) = 1) : (account (loaded g r)).count (.suite path true true) = 1 := by
  rw [(account_loaded g r).count_eq]; exact hl

/-- non-vacuity of `account` / `listedOnce` / `account_loaded`: a report with nested suites given in reverse rank order, a
    non-ASCII test name and an unfinished suite — the loaded shape lists the same items, `café` exactly once as passed -/
example :
    let t (n : String) (rk : Nat) (s : Option Status) : TestResult :=
      { md := { name := n, description := "d", tags := [], properties := [], links := [], rank := rk },
        result := { steps := [], startTime := some 1, endTime := some 2, status := s, statusDetails := none } }
    let m (n : String) (rk : Nat) : Meta := { name := n, description := "d", tags := [], properties := [], links := [], rank := rk }
    let r : Report := { Report.empty with suites :=
      [.mk (m "b" 1) (some 1) none none none [t "x" 0 none] [],
       .mk (m "a" 0) (some 1) (some 9) none none [t "z" 1 (some .failed), t "café" 0 (some .passed)]
         [.mk (m "日本" 0) (some 2) (some 3) none none [t "café" 0 (some .disabled)] []]] }
    account r = [.suite ["b"] true false, .test ["b", "x"] none, .suite ["a"] true true, .test ["a", "z"] (some .failed),
                 .test ["a", "café"] (some .passed), .suite ["a", "日本"] true true, .test ["a", "日本", "café"] (some .disabled)] ∧
    account (loaded 7 r) = [.suite ["a"] true true, .test ["a", "café"] (some .passed), .test ["a", "z"] (some .failed),
                 .suite ["a", "日本"] true true, .test ["a", "日本", "café"] (some .disabled), .suite ["b"] true false,
                 .test ["b", "x"] none] ∧
    (account r).count (.test ["a", "café"] (some .passed)) = 1 ∧ (account r).count (.test ["b", "x"] (some .passed)) = 0 := by
  decide

/-! ### what the escaping buys -/

/-- The seeded class: a text holding any code point ≥ 128 written RAW (`json.dump(…, ensure_ascii=False)`, the XML serialiser,
    `print`) is refused by the ASCII codec — `UnicodeEncodeError` on the event-handling thread, no report. -/
theorem raw_text_refused_under_ascii_locale {t : List Nat} (h : ∃ x ∈ t, 128 ≤ x) : asciiCodec.enc t = none :=
  ascii_refuses_non_ascii h

/-- … whereas the escaped spelling of the same string is accepted by every codec: `"café"` as the JSON backend writes it. -/
theorem escaped_text_accepted_everywhere (e : Encoding) (s : List Nat) : (codecOf e).enc (jsonEscape s) = some (jsonEscape s) :=
  encode_ascii e (fun x hx => by have := jsonEscape_range s x hx; omega)

/-- A file written raw under a Latin-1 locale (`é` = the byte E9) cannot be read under UTF-8, and is read as another text under
    ASCII-incompatible assumptions; the escaped file is the same bytes under every locale. -/
theorem raw_latin1_file_unreadable_under_utf8 :
    latin1Codec.enc [99, 97, 102, 0xE9] = some [99, 97, 102, 0xE9] ∧ utf8Codec.dec [99, 97, 102, 0xE9] = none ∧
    (codecOf .latin1).enc (jsonEscape [99, 97, 102, 0xE9]) = (codecOf .utf8).enc (jsonEscape [99, 97, 102, 0xE9]) := by decide

/-- Open finding D41 (`C01/locale/console-cannot-print-text`), the witness of stream C01.locale: the console backend prints the
    step description `étape` raw; under the ASCII locale the codec of the standard output refuses it (the handler raises on the
    event thread and the run stops without a report), while the JSON text of the same string is accepted. -/
theorem raw_console_text_can_be_refused :
    asciiCodec.enc (codes "étape") = none ∧ asciiCodec.enc (quoted "étape") = some (quoted "étape") ∧
    utf8Codec.enc (codes "étape") = some [0xC3, 0xA9, 116, 97, 112, 101] := by decide

end LccModel.C01Locale
